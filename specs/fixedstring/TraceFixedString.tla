---------------------------- MODULE TraceFixedString ----------------------------
(* Validates executions recorded from celma::common::FixedString<L> (fixedstring_driver).            *)
(* Events (all fields always present; texts are arrays of byte codes; size_t values >= 2^31 are       *)
(* negative codes, npos = -1):                                                                        *)
(*  {"e":"Reset","L":k}                                            two fresh, empty objects of capacity k *)
(*  {"e":"Op","op":..,"tk":..,"sk":..,"p1":..,"c1":..,"src":[..],"p2":..,"c2":..,"ch":..,   the call  *)
(*   "ri":int,"rs":[..],                      result (ri = -2: the call threw a std::exception)       *)
(*   "s":[..],"len":k,"sl":k,"nul":b,         main object after the call: data()[0..min(length(),L+1)),*)
(*                                            length(), strnlen(c_str(), L+1), data()[length()] == 0   *)
(*   "o":[..],"olen":k,"osl":k,"onul":b,      the same for the second object                          *)
(*   "g":b}                                   guard bytes around the second object intact             *)
(* For the FixedString overloads (sk in FsKinds) src is the content of the second object after the    *)
(* driver assigned the wanted source to it, i.e. the argument the call really received.               *)
(* For the self-aliasing kinds (sk in SelfKinds: the object itself, c_str() + p2) src is what the      *)
(* reference / pointer designated immediately before the call; it must equal the (stated part of the)  *)
(* content of the previous event (SrcOK) - in both modes.                                              *)
(* Functional = TRUE  (C11): a call inside the documented domain must produce exactly the specified   *)
(*                    content and result; calls outside it only have to keep the objects well-formed. *)
(* Functional = FALSE (C10): every call only has to keep the objects well-formed (length <= L, NUL at  *)
(*                    the length, strlen, guards); the content is taken from the log.                 *)
EXTENDS FixedString, TLC, Json, IOUtils
CONSTANT Functional
VARIABLE l
Log == ndJsonDeserialize(IOEnv.TRACE)
Ev == Log[l]
\* the driver's sensors for one object: x = logged content, n = length(), z = strnlen, t = NUL at length
Sensors(x, n, z, t) == /\ n = Len(x)            \* length() within the buffer (the content is cut at L+1 bytes)
                       /\ t                     \* terminated at its length
                       /\ z = FirstNul(x)       \* = length() when no NUL character was stored
SensorsOK == /\ Sensors(Ev.s, Ev.len, Ev.sl, Ev.nul)
             /\ Sensors(Ev.o, Ev.olen, Ev.osl, Ev.onul)
             /\ Ev.g
TInit == l = 1 /\ L = 0 /\ s = <<>> /\ o = <<>> /\ wf = TRUE
TNext == /\ l <= Len(Log) /\ l' = l + 1
         /\ \/ /\ Ev.e = "Op"
               /\ wf' = SensorsOK
               /\ SrcOK(s, Ev)              \* self-aliasing sources: the logged src is the (stated part of the) content before the call
               /\ IF Functional /\ Dom(s, o, Ev)
                  THEN /\ Call(Ev)
                       /\ s' = Ev.s /\ o' = Ev.o
                       /\ ResultOK(s, o, Ev, Ev.ri, Ev.rs)
                  ELSE /\ s' = Ev.s /\ o' = Ev.o /\ UNCHANGED L
            \/ /\ Ev.e = "Reset"
               /\ L' = Ev.L /\ s' = <<>> /\ o' = <<>> /\ wf' = TRUE
TSpec == TInit /\ [][TNext]_<<vars, l>>
Accepted == TLCGet("stats").diameter = Len(Log) + 1
=============================================================================
