SPECIFICATION TSpec
CONSTANTS Caps = {}
          Functional = TRUE
INVARIANTS BoundOK WellFormed
POSTCONDITION Accepted
CHECK_DEADLOCK FALSE
