---------------------------- MODULE FixedString ----------------------------
(* celma::common::FixedString<L>  (properties C10 and C11).                                *)
(*                                                                                          *)
(* State: the capacity L (template parameter; a variable fixed by Init / Reset so that one  *)
(* TLC run covers all capacities), the content s of the main object, the content o of a     *)
(* second object of the same capacity (source of the FixedString overloads, partner of      *)
(* swap and of the relational operators), and wf = "the driver's well-formedness sensors    *)
(* were all satisfied after the last call" (always TRUE in the bounded model).              *)
(*                                                                                          *)
(* One call of a public member function is one step.  The call is described by a record a:  *)
(*   op   family            ("insert", "replace", "find", ...)                              *)
(*   tk   how the target range / position is passed  ("idx", "it", "pos_cnt", "it_it", ...) *)
(*   sk   how the source / needle is passed ("cstr", "str_pos_cnt", "fs", "cnt_ch", ...)    *)
(*        (op, tk, sk) together name the C++ overload that is called; the "self*" kinds pass *)
(*        the object itself / a pointer into its own buffer (self-aliasing sources)         *)
(*   p1, c1   position and count in this string      (NPos = -1; every negative number is   *)
(*   p2, c2   position and count in the source        a size_t value >= 2^31, "Big")        *)
(*   src  the source text as passed (C string, std::string, content of the other            *)
(*        FixedString, initializer list, rendered sprintf text);  ch  a character code      *)
(*                                                                                          *)
(* Characters are byte codes 0..255; NUL (0) is an ordinary character except in the         *)
(* C-string source kinds.                                                                   *)
(* Dom(x, y, a) is the documented domain (DESIGN A.3): the arguments for which the          *)
(* std::string operation of the same name is defined and does not throw.  Inside the domain *)
(* the new content is the std::string result cut off at L and observers return the          *)
(* std::string result (C11).  Outside the domain nothing is said about content or result;   *)
(* the object must only stay well-formed and no memory outside may be touched (C10).        *)
EXTENDS Integers, Sequences, FiniteSets
CONSTANTS Caps               \* capacities explored by the bounded model
VARIABLES L, s, o, wf
vars == <<L, s, o, wf>>

NPos == -1
IsBig(v) == v < 0                                 \* a size_t beyond every capacity used here
Min2(a, b) == IF a < b THEN a ELSE b
SetMin(S) == CHOOSE x \in S : \A y \in S : x <= y
SetMax(S) == CHOOSE x \in S : \A y \in S : x >= y
Sgn(v) == IF v < 0 THEN -1 ELSE IF v > 0 THEN 1 ELSE 0

\* ---------------------------------------------------------------- std::string meaning on sequences
Trunc(x) == SubSeq(x, 1, Min2(Len(x), L))         \* surplus characters are silently dropped
Cnt(c, avail) == IF c < 0 \/ c > avail THEN avail ELSE c            \* count clamped like std::string
Sub(x, p, c) == SubSeq(x, p + 1, p + Cnt(c, Len(x) - p))            \* x.substr(p, c) for p <= size
Rep(n, ch) == [i \in 1..n |-> ch]
\* n copies of ch; more than L copies are indistinguishable after truncation, so the text is built with
\* at most L of them (Trunc(pre \o Rep(n,ch) \o post) = Trunc(pre \o Rep(L,ch) \o post) for n >= L)
RepT(n, ch) == Rep(IF n < 0 \/ n > L THEN L ELSE n, ch)
InsertAt(x, p, y) == SubSeq(x, 1, p) \o y \o SubSeq(x, p + 1, Len(x))
EraseAt(x, p, c) == SubSeq(x, 1, p) \o SubSeq(x, p + Cnt(c, Len(x) - p) + 1, Len(x))
ReplaceAt(x, p, c, y) == SubSeq(x, 1, p) \o y \o SubSeq(x, p + Cnt(c, Len(x) - p) + 1, Len(x))
SetAt(x, p, ch) == [x EXCEPT ![p + 1] = ch]
Rev(x) == [i \in 1..Len(x) |-> x[Len(x) + 1 - i]]
NoNul(x) == \A i \in 1..Len(x) : x[i] # 0
FirstNul(x) == IF NoNul(x) THEN Len(x) ELSE SetMin({i \in 1..Len(x) : x[i] = 0}) - 1   \* strlen of x \o <<0>>
Chars(x) == {x[i] : i \in 1..Len(x)}
MatchAt(x, n, i) == i + Len(n) <= Len(x) /\ \A k \in 1..Len(n) : x[i + k] = n[k]          \* n occurs in x at index i
\* lexicographic three-way comparison (sign of std::string::compare)
Cmp(x, y) == LET m == Min2(Len(x), Len(y))
                 D == {i \in 1..m : x[i] # y[i]}
             IN IF D = {} THEN Sgn(Len(x) - Len(y))
                ELSE LET i == SetMin(D) IN Sgn(x[i] - y[i])
\* the find family, declaratively (minimal / maximal index with the property); p is the start position
FromEnd(x, p) == IF p < 0 \/ p >= Len(x) THEN Len(x) - 1 ELSE p      \* last index looked at by the backward searches
MinOr(S) == IF S = {} THEN NPos ELSE SetMin(S)
MaxOr(S) == IF S = {} THEN NPos ELSE SetMax(S)
Find(x, n, p)  == MinOr({i \in p..(Len(x) - Len(n)) : MatchAt(x, n, i)})
RFind(x, n, p) == MaxOr({i \in 0..Min2(IF p < 0 THEN Len(x) ELSE p, Len(x) - Len(n)) : MatchAt(x, n, i)})
\* (the character set is bound by LET: TLC then evaluates it once, not once per index - a needle can be the whole content)
FindFirstOf(x, n, p)    == LET cs == Chars(n) IN MinOr({i \in p..(Len(x) - 1) : x[i + 1] \in cs})
FindFirstNotOf(x, n, p) == LET cs == Chars(n) IN MinOr({i \in p..(Len(x) - 1) : x[i + 1] \notin cs})
FindLastOf(x, n, p)     == LET cs == Chars(n) IN MaxOr({i \in 0..FromEnd(x, p) : x[i + 1] \in cs})
FindLastNotOf(x, n, p)  == LET cs == Chars(n) IN MaxOr({i \in 0..FromEnd(x, p) : x[i + 1] \notin cs})
StartsWith(x, n) == MatchAt(x, n, 0)
EndsWith(x, n) == Len(n) <= Len(x) /\ MatchAt(x, n, Len(x) - Len(n))
Contains(x, n) == \E i \in 0..Len(x) : MatchAt(x, n, i)

\* ---------------------------------------------------------------- the source / needle of a call
FsKinds == {"fs", "fs_pos_cnt", "fs_pos", "fsit", "fs_move"}     \* the argument is the second object o (set to src first)
IsFs(a) == a.sk \in FsKinds
\* Self-aliasing sources: the argument is the object itself (as FixedString: "self", "self_pos_cnt", "self_pos")
\* or a pointer into its own buffer used as C string ("selfptr" = c_str() + p2, "selfptr_cnt" = (c_str() + p2, c2)).
\* std::string defines all of these as if the source had been copied before the call, so the meaning is the
\* ordinary operator with src = the content before the call (resp. the C string that starts at index p2 of it).
\* The logged src of such a call must be exactly that text (SrcOK): the driver records what the pointer /
\* reference designated immediately before the call.
SelfKinds == {"self", "self_pos_cnt", "self_pos", "selfptr", "selfptr_cnt"}
SelfPtrKinds == {"selfptr", "selfptr_cnt"}
\* the C string that starts at index k of the buffer holding x \o <<0>>
CStrAt(x, k) == LET t == SubSeq(x, k + 1, Len(x)) IN SubSeq(t, 1, FirstNul(t))
SelfSrc(x, a) == IF a.sk \in SelfPtrKinds THEN (IF a.p2 >= 0 /\ a.p2 <= Len(x) THEN CStrAt(x, a.p2) ELSE <<>>) ELSE x
SrcOK(x, a) == a.sk \in SelfKinds => a.src = SelfSrc(x, a)
WholeKinds == {"cstr", "str", "fs", "fs2", "ilist", "fs_move", "self", "selfptr"}
PartKinds == {"str_pos_cnt", "str_pos", "fs_pos_cnt", "fs_pos", "fs2_pos_cnt", "fs2_pos", "self_pos_cnt", "self_pos"}
ItKinds == {"fsit", "strit", "selfit"}            \* iterator pair first = begin + p2, last = first + c2
Base(x, a) == IF a.sk = "selfit" THEN x ELSE a.src
Piece(x, a) ==
   CASE a.sk = "cnt_ch"            -> RepT(a.c2, a.ch)
     [] a.sk = "ch"                -> <<a.ch>>
     [] a.sk \in {"cstr_cnt", "selfptr_cnt"} -> SubSeq(a.src, 1, a.c2)
     [] a.sk \in WholeKinds        -> a.src
     [] a.sk \in PartKinds         -> Sub(a.src, a.p2, a.c2)
     [] a.sk \in ItKinds           -> SubSeq(Base(x, a), a.p2 + 1, a.p2 + a.c2)
     [] OTHER                      -> <<>>
\* NUL is an ordinary character of the content and of std::string / FixedString / (count, ch) / char /
\* initializer-list / iterator sources; only the C-string source kinds must be free of it (A.3)
CStrKinds == {"cstr", "cstr_cnt"}
PieceDom(x, a) ==
   /\ (a.sk \in CStrKinds \/ a.op = "sprintf") => NoNul(a.src)
   /\ IsFs(a) => Len(a.src) <= L
   /\ a.sk \in SelfPtrKinds => a.p2 >= 0 /\ a.p2 <= Len(x)       \* a pointer to a character or to the terminating zero
   /\ CASE a.sk = "cnt_ch"         -> a.c2 >= 0
        [] a.sk \in {"cstr_cnt", "selfptr_cnt"} -> a.c2 >= 0 /\ a.c2 <= Len(a.src)
        [] a.sk \in PartKinds      -> a.p2 >= 0 /\ a.p2 <= Len(a.src)
        [] a.sk \in ItKinds        -> a.p2 >= 0 /\ a.c2 >= 0 /\ a.p2 + a.c2 <= Len(Base(x, a))
        [] OTHER                   -> TRUE

\* ---------------------------------------------------------------- per family: domain, new content, results
Mutators == {"assign", "clear", "insert", "erase", "push_back", "pop_back", "append", "sprintf", "replace", "swap", "set"}
FindOps == {"find", "rfind", "find_first_of", "find_first_not_of", "find_last_of", "find_last_not_of"}
BackwardFinds == {"rfind", "find_last_of", "find_last_not_of"}
AffixOps == {"starts_with", "ends_with", "contains"}

PosOK(x, p) == p >= 0 /\ p <= Len(x)              \* index/pos <= length()
ItOK(x, p) == p >= 0 /\ p < Len(x)                \* iterator to an existing character (not end())

Dom(x, y, a) ==
   /\ PieceDom(x, a)
   /\ CASE a.op = "assign"    -> TRUE
        [] a.op = "clear"     -> TRUE
        [] a.op = "insert"    -> IF a.tk = "idx" THEN PosOK(x, a.p1) ELSE ItOK(x, a.p1)
        [] a.op = "erase"     -> IF a.tk \in {"it", "it_it"} THEN ItOK(x, a.p1) ELSE PosOK(x, a.p1)
        [] a.op = "push_back" -> TRUE
        [] a.op = "pop_back"  -> Len(x) > 0
        [] a.op = "append"    -> TRUE
        [] a.op = "sprintf"   -> TRUE
        \* iterator forms: the early returns for empty ranges are documented behaviour of FixedString only by
        \* their code; empty target or source ranges are not claimed (notes_fixedstring.md)
        [] a.op = "replace"   -> IF a.tk = "pos_cnt" THEN PosOK(x, a.p1)
                                 ELSE ItOK(x, a.p1) /\ a.c1 # 0 /\ Len(Piece(x, a)) > 0
        [] a.op = "swap"      -> TRUE
        [] a.op = "set"       -> IF a.tk \in {"front", "back"} THEN Len(x) > 0 ELSE ItOK(x, a.p1)   \* at, idx, it, rit
        [] a.op = "substr"    -> PosOK(x, a.p1)
        [] a.op = "copy"      -> PosOK(x, a.p1)
        [] a.op \in FindOps   -> /\ Len(Piece(x, a)) > 0
                                 /\ IF a.op \in BackwardFinds THEN a.p1 = NPos \/ ItOK(x, a.p1) ELSE PosOK(x, a.p1)
        [] a.op = "compare"   -> PosOK(x, a.p1)
        [] a.op \in AffixOps  -> a.op = "contains" => Len(Piece(x, a)) > 0
        [] a.op = "rel"       -> TRUE
        [] a.op = "obs"       -> a.tk = "ostream" => NoNul(x)        \* operator<< writes c_str(): claimed for NUL-free content only
        [] a.op = "get"       -> CASE a.tk = "at"  -> a.p1 >= 0 /\ a.p1 # Len(x)      \* at(length()) is not claimed
                                   [] a.tk = "idx" -> PosOK(x, a.p1)
                                   [] OTHER        -> TRUE                           \* front / back
        [] a.op = "iter"      -> CASE a.tk \in {"deref", "rderef", "back_from", "rback_from"} -> ItOK(x, a.p1)
                                   [] a.tk \in {"index", "rindex"} -> ItOK(x, a.p1) /\ a.c1 >= 0 /\ a.p1 + a.c1 < Len(x)
                                   [] a.tk \in {"diff", "minus_eq"} -> ItOK(x, a.p1) /\ ItOK(x, a.c1) /\ a.p1 <= a.c1
                                   [] a.tk = "cmp" -> PosOK(x, a.p1) /\ PosOK(x, a.c1)       \* index length() = end()
                                   [] OTHER -> TRUE
        [] OTHER              -> FALSE

NewS(x, y, a) ==
   CASE a.op = "assign"    -> Trunc(Piece(x, a))
     [] a.op = "clear"     -> <<>>
     [] a.op = "insert"    -> Trunc(InsertAt(x, a.p1, Piece(x, a)))
     [] a.op = "erase"     -> EraseAt(x, a.p1, a.c1)
     [] a.op = "push_back" -> Trunc(x \o <<a.ch>>)
     [] a.op = "pop_back"  -> SubSeq(x, 1, Len(x) - 1)
     [] a.op = "append"    -> Trunc(x \o Piece(x, a))
     [] a.op = "sprintf"   -> Trunc(a.src)
     [] a.op = "replace"   -> Trunc(ReplaceAt(x, a.p1, a.c1, Piece(x, a)))
     [] a.op = "swap"      -> IF a.tk = "self" THEN x ELSE a.src
     [] a.op = "set"       -> CASE a.tk = "front" -> SetAt(x, 0, a.ch)
                                [] a.tk = "back"  -> SetAt(x, Len(x) - 1, a.ch)
                                [] a.tk = "rit"   -> SetAt(x, Len(x) - 1 - a.p1, a.ch)
                                [] OTHER          -> SetAt(x, a.p1, a.ch)
     [] OTHER              -> x
\* the second object: the FixedString overloads receive o after o was set to src; swap exchanges
NewO(x, y, a) == IF a.op = "swap" /\ a.tk # "self" THEN x ELSE IF IsFs(a) THEN a.src ELSE y

NoInt == 0
Thrown == -2                                      \* logged instead of a value when the call threw std::exception
NotCalled == -3                                   \* logged when the driver could not make a self pointer call (pointer behind the
                                                  \* terminating zero of the real object: always outside Dom, never inside)
B2I(b) == IF b THEN 1 ELSE 0
\* integer result (positions with NPos = -1, counts, booleans as 0/1, character codes); compare: sign only
Ri(x, y, a) ==
   CASE a.op = "copy"              -> Cnt(a.c1, Len(x) - a.p1)
     [] a.op = "find"              -> Find(x, Piece(x, a), a.p1)
     [] a.op = "rfind"             -> RFind(x, Piece(x, a), a.p1)
     [] a.op = "find_first_of"     -> FindFirstOf(x, Piece(x, a), a.p1)
     [] a.op = "find_first_not_of" -> FindFirstNotOf(x, Piece(x, a), a.p1)
     [] a.op = "find_last_of"      -> FindLastOf(x, Piece(x, a), a.p1)
     [] a.op = "find_last_not_of"  -> FindLastNotOf(x, Piece(x, a), a.p1)
     [] a.op = "compare"           -> Cmp(Sub(x, a.p1, a.c1), Piece(x, a))
     [] a.op = "starts_with"       -> B2I(StartsWith(x, Piece(x, a)))
     [] a.op = "ends_with"         -> B2I(EndsWith(x, Piece(x, a)))
     [] a.op = "contains"          -> B2I(Contains(x, Piece(x, a)))
     [] a.op = "rel"               -> IF a.tk = "eq" THEN B2I(x = a.src) ELSE B2I(x # a.src)
     [] a.op = "obs"               -> IF a.tk = "empty" THEN B2I(Len(x) = 0) ELSE IF a.tk = "length" THEN Len(x) ELSE NoInt
     [] a.op = "get"               -> CASE a.tk = "at"    -> IF a.p1 < Len(x) THEN x[a.p1 + 1] ELSE Thrown
                                        [] a.tk = "idx"   -> (x \o <<0>>)[a.p1 + 1]
                                        [] a.tk = "front" -> (x \o <<0>>)[1]
                                        [] OTHER          -> IF Len(x) = 0 THEN 0 ELSE x[Len(x)]
     [] a.op = "iter"              -> CASE a.tk = "deref"  -> x[a.p1 + 1]
                                        [] a.tk = "rderef" -> x[Len(x) - a.p1]
                                        [] a.tk \in {"dist", "rdist"} -> Len(x)
                                        [] a.tk = "diff"   -> a.c1 - a.p1
                                        [] a.tk = "index"  -> x[a.p1 + a.c1 + 1]
                                        [] a.tk = "rindex" -> x[Len(x) - a.p1 - a.c1]
                                        [] a.tk = "minus_eq" -> x[a.c1 - a.p1 + 1]
                                        \* <, <=, >, >=, ==, != of two forward iterators as bits 1, 2, 4, 8, 16, 32
                                        [] a.tk = "cmp"    -> B2I(a.p1 < a.c1) + 2 * B2I(a.p1 <= a.c1) + 4 * B2I(a.p1 > a.c1)
                                                              + 8 * B2I(a.p1 >= a.c1) + 16 * B2I(a.p1 = a.c1) + 32 * B2I(a.p1 # a.c1)
                                        [] OTHER           -> NoInt
     [] OTHER                      -> NoInt
\* text result
Rs(x, y, a) ==
   CASE a.op = "substr" -> Sub(x, a.p1, a.c1)
     [] a.op = "copy"   -> Sub(x, a.p1, a.c1)
     [] a.op = "obs"    -> IF a.tk \in {"empty", "length"} THEN <<>>
                           ELSE IF a.tk = "c_str" THEN SubSeq(x, 1, FirstNul(x))     \* the C string ends at the first NUL
                           ELSE x                                                   \* str, data, data_mut, ostream
     [] a.op = "iter"   -> CASE a.tk \in {"fwd", "fwd_post"} -> x
                             [] a.tk \in {"rev", "rev_post"} -> Rev(x)
                             [] a.tk = "back_from" -> Rev(SubSeq(x, 1, a.p1 + 1))
                             [] a.tk = "rback_from" -> SubSeq(x, Len(x) - a.p1, Len(x))
                             [] OTHER              -> <<>>
     [] OTHER           -> <<>>
ResultOK(x, y, a, ri, rs) ==
   /\ rs = Rs(x, y, a)
   /\ IF a.op = "compare" THEN Sgn(ri) = Ri(x, y, a)
      ELSE IF a.op \in Mutators THEN ri \notin {Thrown, NotCalled}    \* returned *this / iterators of mutators are not claimed
      ELSE ri = Ri(x, y, a)

\* ---------------------------------------------------------------- actions
Init == L \in Caps /\ s = <<>> /\ o = <<>> /\ wf = TRUE

\* a call inside the documented domain: content as std::string cut off at L
\* ("= TRUE": TLC then evaluates Dom as an expression; as an action conjunct its \A over a long text recurses per element)
Step(a) == /\ Dom(s, o, a) = TRUE
           /\ SrcOK(s, a)
           /\ s' = NewS(s, o, a)
           \* a moved-from object is "valid but unspecified" for std::string: unchanged or empty are both accepted
           /\ IF a.sk = "fs_move" THEN o' \in {a.src, <<>>} ELSE o' = NewO(s, o, a)
           /\ UNCHANGED L
\* a call outside the domain: any content of at most L characters (ns, no chosen by the environment)
WildCall(a, ns, no) == /\ Dom(s, o, a) = FALSE
                   /\ SrcOK(s, a)
                   /\ s' = ns /\ o' = no
                   /\ UNCHANGED L

Assign(a)   == a.op = "assign" /\ Step(a)
Clear(a)    == a.op = "clear" /\ Step(a)
Insert(a)   == a.op = "insert" /\ Step(a)
Erase(a)    == a.op = "erase" /\ Step(a)
PushPop(a)  == a.op \in {"push_back", "pop_back"} /\ Step(a)
AppendTo(a) == a.op = "append" /\ Step(a)
Sprintf(a)  == a.op = "sprintf" /\ Step(a)
Replace(a)  == a.op = "replace" /\ Step(a)
Swap(a)     == a.op = "swap" /\ Step(a)
SetChar(a)  == a.op = "set" /\ Step(a)
Substr(a)   == a.op \in {"substr", "copy"} /\ Step(a)
FindOp(a)   == a.op \in FindOps /\ Step(a)
Compare(a)  == a.op \in {"compare", "rel"} /\ Step(a)
Affix(a)    == a.op \in AffixOps /\ Step(a)
Observe(a)  == a.op \in {"obs", "get", "iter"} /\ Step(a)
Call(a) == \/ Assign(a) \/ Clear(a) \/ Insert(a) \/ Erase(a) \/ PushPop(a) \/ AppendTo(a) \/ Sprintf(a)
           \/ Replace(a) \/ Swap(a) \/ SetChar(a) \/ Substr(a) \/ FindOp(a) \/ Compare(a) \/ Affix(a) \/ Observe(a)

\* ---------------------------------------------------------------- the properties
\* C10: the length never exceeds the capacity (both objects); the sensors (NUL at length, strlen, guard bytes)
\* are folded into wf by the trace specification
BoundOK == Len(s) <= L /\ Len(o) <= L
WellFormed == wf
\* C11 is the conjunction Step(a) /\ ResultOK(...) demanded of every in-domain call by the trace specification
\* (observers: NewS = x, so they must leave the content alone).
=============================================================================
