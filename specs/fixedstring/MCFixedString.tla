---------------------------- MODULE MCFixedString ----------------------------
(* Bounded instance of FixedString.  Every enabled call with every argument of the sets below is a  *)
(* transition; EdgeOut prints it.  Calls outside the documented domain (only generated when WildArgs) *)
(* lead to the absorbing state dead (their outcome is not specified, so nothing can follow in the   *)
(* model; in the replay the next line is a Reset).                                                  *)
EXTENDS FixedString, TLC, Json
CONSTANTS Chars0,      \* character codes (without NUL) used for contents and sources
          NulUpTo,     \* for capacities <= NulUpTo the alphabet also contains NUL (0)
          WildArgs,      \* TRUE: also generate calls outside the documented domain (C10)
          BigCodes,    \* k in BigCodes: the size_t value with code -k (>= 2^31; 1 = SIZE_MAX = npos, 2 = SIZE_MAX - 1, ...)
                       \* is used as position / count (cfg files cannot hold negative numbers)
          WholeLen     \* sources passed as a whole: all texts up to this length + one text per length up to L+2
VARIABLES act, dead
mcvars == <<vars, act, dead>>

BigVals == {0 - k : k \in BigCodes}
Char == IF L <= NulUpTo THEN Chars0 \cup {0} ELSE Chars0
Strs(n) == UNION {[1..k -> Char] : k \in 0..n}
WithNul == L <= NulUpTo
C1 == SetMin(Chars0)
C2 == SetMax(Chars0)
Pat(k) == [i \in 1..k |-> IF i % 2 = 1 THEN C2 ELSE C1]
Pats(k) == {Pat(k)} \cup (IF WithNul THEN {[Pat(k) EXCEPT ![2] = 0]} ELSE {})        \* one long text, and one with a NUL inside
Wholes(maxlen) == {x \in Strs(WholeLen) \cup UNION {Pats(k) : k \in 3..(L + 2)} : Len(x) <= maxlen}
PartSrcs == (IF WildArgs THEN {<<>>, <<C2, C1>>, Pat(L + 1)} ELSE {<<>>, <<C1>>, <<C1, C2>>, Pat(L + 1)})
            \cup (IF WithNul THEN {<<0, C2>>} ELSE {})
Pos1 == IF WildArgs THEN (0..(L + 1)) \cup BigVals ELSE 0..Len(s)           \* positions in this string
Cnt1 == IF WildArgs THEN {0, 1, L + 1} \cup BigVals ELSE {0, 1, 2, L + 1, NPos}   \* counts in this string
Cnt1Small == {0, 1} \cup BigVals \cup {NPos}
Pos2(x) == IF WildArgs THEN {0, Len(x), Len(x) + 1} \cup BigVals ELSE 0..Len(x)    \* positions in the source
Cnt2 == IF WildArgs THEN {0, 1, NPos} ELSE {0, 1, 2, L + 1, NPos}
RepCnt == (0..(L + 1)) \cup (IF WildArgs THEN BigVals ELSE {})

A(op, tk, sk, p1, c1, src, p2, c2, ch) ==
   [op |-> op, tk |-> tk, sk |-> sk, p1 |-> p1, c1 |-> c1, src |-> src, p2 |-> p2, c2 |-> c2, ch |-> ch]
\* valid iterator ranges [begin + p, begin + p + c) of a text
Ranges(sk, x) == UNION {{<<sk, x, p, c, 0>> : c \in 0..(Len(x) - p)} : p \in 0..Len(x)}
\* <<sk, src, p2, c2, ch>> for the source kinds of a family
SrcOf(sk) ==
   CASE sk = "cnt_ch"   -> {<<sk, <<>>, 0, c, ch>> : c \in RepCnt, ch \in Char}
     [] sk = "ch"       -> {<<sk, <<>>, 0, 0, ch>> : ch \in Char}
     [] sk = "cstr" -> {<<sk, x, 0, NPos, 0>> : x \in {y \in Wholes(L + 2) : WildArgs \/ NoNul(y)}}
     [] sk \in {"str", "fs2", "ilist"} -> {<<sk, x, 0, NPos, 0>> : x \in Wholes(L + 2)}
     [] sk \in {"fs", "fs_move"} -> {<<sk, x, 0, NPos, 0>> : x \in Wholes(L)}
     [] sk = "cstr_cnt" -> UNION {{<<sk, x, 0, c, 0>> : c \in 0..Len(x)} : x \in {y \in Wholes(L + 2) : WildArgs \/ NoNul(y)}}
     [] sk \in {"str_pos_cnt", "fs2_pos_cnt"} -> UNION {{<<sk, x, p, c, 0>> : p \in Pos2(x), c \in Cnt2} : x \in PartSrcs}
     [] sk = "fs_pos_cnt" -> UNION {{<<sk, x, p, c, 0>> : p \in Pos2(x), c \in Cnt2} : x \in {y \in PartSrcs : Len(y) <= L}}
     [] sk \in {"str_pos", "fs2_pos"} -> UNION {{<<sk, x, p, NPos, 0>> : p \in Pos2(x)} : x \in PartSrcs}
     [] sk = "fs_pos" -> UNION {{<<sk, x, p, NPos, 0>> : p \in Pos2(x)} : x \in {y \in PartSrcs : Len(y) <= L}}
     [] sk = "strit" -> UNION {Ranges(sk, x) : x \in PartSrcs}
     [] sk = "fsit" -> UNION {Ranges(sk, x) : x \in {y \in PartSrcs : Len(y) <= L}}
     [] sk = "selfit" -> {<<sk, <<>>, q[3], q[4], 0>> : q \in Ranges(sk, s)}
     \* self-aliasing sources: src is the current content (resp. the C string starting at index k of it); every
     \* k in 0..Len(s) (k = Len(s): pointer to the terminating zero), counts as for the other kinds
     [] sk = "self" -> {<<sk, s, 0, NPos, 0>>}
     [] sk = "self_pos_cnt" -> {<<sk, s, p, c, 0>> : p \in Pos2(s), c \in Cnt2}
     [] sk = "self_pos" -> {<<sk, s, p, NPos, 0>> : p \in Pos2(s)}
     [] sk = "selfptr" -> {<<sk, CStrAt(s, k), k, NPos, 0>> : k \in 0..Len(s)}
     [] sk = "selfptr_cnt" -> UNION {{<<sk, CStrAt(s, k), k, c, 0>> : c \in 0..(Len(s) - k)} : k \in 0..Len(s)}
     [] OTHER -> {<<sk, <<>>, 0, 0, 0>>}                   \* "none", "mut", "const", "c"
Srcs(sks) == UNION {SrcOf(k) : k \in sks}
\* one call: inside the documented domain the specified step, outside it (only when WildArgs) the absorbing state
Do(a) == /\ act' = a /\ wf' = TRUE
         /\ IF Dom(s, o, a) THEN Call(a) /\ dead' = FALSE
            ELSE WildArgs /\ WildCall(a, <<>>, <<>>) /\ dead' = TRUE
\* calls of one family: target kinds x positions x counts x sources
Fam(op, tks, p1s, c1s, sks) == \E tk \in tks, p1 \in p1s, c1 \in c1s, q \in Srcs(sks) : Do(A(op, tk, q[1], p1, c1, q[2], q[3], q[4], q[5]))

WholeSk == {"cstr", "str", "fs", "fs2"}
PartSk == {"str_pos_cnt", "str_pos", "fs_pos_cnt", "fs_pos", "fs2_pos_cnt", "fs2_pos"}
SelfSk == {"self", "self_pos_cnt", "self_pos", "selfptr", "selfptr_cnt"}      \* the object itself / c_str() + k as source
SelfWholeSk == {"self", "selfptr"}
ItPos == IF WildArgs THEN 0..(L + 1) ELSE 0..Len(s)          \* an iterator built as begin() += p (p >= length gives end())
IdxLegal == 0..Len(s)                                     \* operator[] / iterator[]: undefined behaviour beyond (documented)

\* every call of every family (a disjunction of existential quantifiers: no set of all calls is built)
AllCalls ==
   \/ Fam("assign", {"assign", "op_eq"}, {0}, {0}, WholeSk)
   \/ Fam("assign", {"ctor"}, {0}, {0}, WholeSk \cup {"fs_move"})
   \/ Fam("clear", {"none"}, {0}, {0}, {"none"})
   \/ Fam("insert", {"idx"}, Pos1, {0}, WholeSk \cup PartSk \cup {"cnt_ch", "cstr_cnt"})
   \/ Fam("insert", {"it"}, ItPos, {0}, {"ch", "cnt_ch", "ilist"})
   \/ Fam("erase", {"idx_cnt"}, Pos1, Cnt1, {"none"})
   \/ Fam("erase", {"idx"}, Pos1, {NPos}, {"none"})
   \/ Fam("erase", {"noargs"}, {0}, {NPos}, {"none"})
   \/ Fam("erase", {"it"}, ItPos, {1}, {"none"})
   \/ Fam("erase", {"it_it"}, ItPos, 0..(L + 1), {"none"})
   \/ Fam("push_back", {"none"}, {0}, {0}, {"ch"})
   \/ Fam("pop_back", {"none"}, {0}, {0}, {"none"})
   \/ Fam("append", {"app"}, {0}, {0}, WholeSk \cup PartSk \cup {"cnt_ch", "cstr_cnt", "fsit", "selfit"})
   \/ Fam("append", {"pe"}, {0}, {0}, WholeSk \cup {"ch"})
   \/ Fam("sprintf", {"fmt"}, 0..3, {0}, {"str"})
   \/ Fam("replace", {"pos_cnt"}, Pos1, Cnt1, WholeSk \cup {"cnt_ch", "cstr_cnt"})
   \/ Fam("replace", {"pos_cnt"}, Pos1, Cnt1Small, PartSk)
   \/ Fam("replace", {"it_it"}, ItPos, 0..(L + 1), {"fsit", "strit", "cstr_cnt", "cstr", "cnt_ch", "ilist"})
   \* ---- self-aliasing sources (defined by std::string as if the source had been copied before the call):
   \* the object itself, pointers (c_str() + k) and iterators into its own buffer
   \/ Fam("assign", {"assign", "op_eq"}, {0}, {0}, SelfWholeSk)
   \/ Fam("insert", {"idx"}, Pos1, {0}, SelfSk)
   \/ Fam("append", {"app"}, {0}, {0}, SelfSk)
   \/ Fam("append", {"pe"}, {0}, {0}, SelfWholeSk)
   \/ Fam("replace", {"pos_cnt"}, Pos1, Cnt1, SelfSk)
   \/ Fam("replace", {"it_it"}, ItPos, 0..(L + 1), {"selfit", "selfptr", "selfptr_cnt"})
   \/ Fam("compare", {"whole"}, {0}, {NPos}, SelfWholeSk)
   \/ Fam("compare", {"pos_cnt"}, Pos1, Cnt1, SelfWholeSk \cup {"self_pos_cnt", "selfptr_cnt"})
   \/ \E op \in {"find", "find_first_of", "find_first_not_of"} :
         \/ Fam(op, {"pos"}, Pos1, {0}, SelfWholeSk \cup {"selfptr_cnt"})
         \/ Fam(op, {"nopos"}, {0}, {0}, SelfWholeSk)
   \/ \E op \in {"rfind", "find_last_of", "find_last_not_of"} :
         \/ Fam(op, {"pos"}, Pos1 \cup {NPos}, {0}, SelfWholeSk \cup {"selfptr_cnt"})
         \/ Fam(op, {"nopos"}, {NPos}, {0}, SelfWholeSk)
   \/ \E op \in {"starts_with", "ends_with", "contains"} : Fam(op, {"none"}, {0}, {0}, SelfWholeSk)
   \/ Fam("rel", {"eq", "ne"}, {0}, {0}, {"self"})
   \/ Fam("swap", {"other"}, {0}, {0}, {"fs"})
   \/ Fam("swap", {"self"}, {0}, {0}, {"none"})
   \/ Fam("set", {"at", "idx", "it", "rit"}, IdxLegal \ {Len(s)}, {0}, {"ch"})
   \/ Fam("set", {"front", "back"}, IF Len(s) > 0 THEN {0} ELSE {}, {0}, {"ch"})
   \/ Fam("substr", {"pos_cnt"}, Pos1, Cnt1, {"none"})
   \/ Fam("substr", {"pos"}, Pos1, {NPos}, {"none"})
   \/ Fam("copy", {"cnt_pos"}, Pos1, Cnt1, {"none"})
   \/ Fam("copy", {"cnt"}, {0}, Cnt1, {"none"})
   \/ Fam("find", {"pos"}, Pos1, {0}, {"fs", "str", "cstr", "cstr_cnt", "ch"})
   \/ Fam("find_first_of", {"pos"}, Pos1, {0}, {"fs", "str", "cstr", "cstr_cnt", "ch"})
   \/ Fam("find_first_not_of", {"pos"}, Pos1, {0}, {"fs", "str", "cstr", "cstr_cnt", "ch"})
   \/ Fam("find", {"nopos"}, {0}, {0}, {"fs", "str", "cstr", "ch"})
   \/ Fam("find_first_of", {"nopos"}, {0}, {0}, {"fs", "str", "cstr", "ch"})
   \/ Fam("find_first_not_of", {"nopos"}, {0}, {0}, {"fs", "str", "cstr", "ch"})
   \/ Fam("rfind", {"pos"}, Pos1 \cup {NPos}, {0}, {"fs", "str", "cstr", "cstr_cnt", "ch"})
   \/ Fam("find_last_of", {"pos"}, Pos1 \cup {NPos}, {0}, {"fs", "str", "cstr", "cstr_cnt", "ch"})
   \/ Fam("find_last_not_of", {"pos"}, Pos1 \cup {NPos}, {0}, {"fs", "str", "cstr", "cstr_cnt", "ch"})
   \/ Fam("rfind", {"nopos"}, {NPos}, {0}, {"fs", "str", "cstr", "ch"})
   \/ Fam("find_last_of", {"nopos"}, {NPos}, {0}, {"fs", "str", "cstr", "ch"})
   \/ Fam("find_last_not_of", {"nopos"}, {NPos}, {0}, {"fs", "str", "cstr", "ch"})
   \/ Fam("compare", {"whole"}, {0}, {NPos}, WholeSk)
   \/ Fam("compare", {"pos_cnt"}, Pos1, Cnt1, WholeSk \cup {"cstr_cnt"})
   \/ Fam("compare", {"pos_cnt"}, Pos1, Cnt1Small, {"fs_pos_cnt", "fs2_pos_cnt", "str_pos_cnt"})
   \/ Fam("starts_with", {"none"}, {0}, {0}, WholeSk \cup {"ch"})
   \/ Fam("ends_with", {"none"}, {0}, {0}, WholeSk \cup {"ch"})
   \/ Fam("contains", {"none"}, {0}, {0}, WholeSk \cup {"ch"})
   \/ Fam("rel", {"eq", "ne"}, {0}, {0}, {"fs", "fs2"})
   \/ Fam("obs", {"str", "c_str", "data", "data_mut", "length", "empty", "ostream"}, {0}, {0}, {"none"})
   \/ Fam("get", {"at"}, Pos1 \cup {L + 2}, {0}, {"mut", "const"})
   \/ Fam("get", {"idx"}, IdxLegal, {0}, {"mut", "const"})
   \/ Fam("get", {"front", "back"}, {0}, {0}, {"mut", "const"})
   \/ Fam("iter", {"fwd", "fwd_post", "rev", "rev_post", "dist", "rdist"}, {0}, {0}, {"mut", "const", "c"})
   \/ Fam("iter", {"deref", "rderef", "back_from", "rback_from"}, IdxLegal \ {Len(s)}, {0}, {"mut", "const", "c"})
   \/ \E p \in 0..(Len(s) - 1) : \E c \in p..(Len(s) - 1) : Do(A("iter", "minus_eq", "mut", p, c, <<>>, 0, 0, 0))
   \/ \E p \in 0..(Len(s) - 1) : \E c \in 0..(Len(s) - 1 - p) : Do(A("iter", "rindex", "mut", p, c, <<>>, 0, 0, 0))
   \/ \E p \in 0..Len(s), c \in 0..Len(s) : Do(A("iter", "cmp", "const", p, c, <<>>, 0, 0, 0))
   \/ \E tk \in {"diff"}, p \in 0..(Len(s) - 1), c \in 0..(Len(s) - 1) : Do(A("iter", tk, "const", p, c, <<>>, 0, 0, 0))
   \* iterator[] beyond the terminating zero is undefined behaviour by the documentation of operator[]: not generated
   \/ \E p \in 0..(Len(s) - 1) : \E c \in 0..(Len(s) - 1 - p) : Do(A("iter", "index", "mut", p, c, <<>>, 0, 0, 0))

MCInit == Init /\ act = [op |-> "Init"] /\ dead = FALSE
MCNext == ~dead /\ AllCalls
MCSpec == MCInit /\ [][MCNext]_mcvars
\* states that differ only in the second object or in the ghost are the same node: every FixedString overload
\* sets o from its src argument first, no other call reads o
View == <<L, s, dead>>
St(c, x, d) == [L |-> c, s |-> x, d |-> d]
EdgeOut == PrintT("EDGE " \o ToJson([i |-> (act.op = "Init"), pre |-> St(L, s, dead),
                                     a |-> act' @@ [L |-> L, dom |-> ~dead'], post |-> St(L', s', dead')]))

\* ---- the two formulations checked against each other (evaluated once, over all small texts) ----
TChar == Chars0 \cup {0}
T3 == UNION {[1..k -> TChar] : k \in 0..3}
T2 == UNION {[1..k -> TChar] : k \in 1..2}
RECURSIVE ScanFind(_, _, _)
ScanFind(x, n, i) == IF i + Len(n) > Len(x) THEN NPos ELSE IF MatchAt(x, n, i) THEN i ELSE ScanFind(x, n, i + 1)
RECURSIVE ScanRFind(_, _, _)
ScanRFind(x, n, i) == IF i < 0 THEN NPos ELSE IF MatchAt(x, n, i) THEN i ELSE ScanRFind(x, n, i - 1)
RECURSIVE ScanFirst(_, _, _, _)
ScanFirst(x, n, i, want) == IF i >= Len(x) THEN NPos ELSE IF (x[i + 1] \in Chars(n)) = want THEN i ELSE ScanFirst(x, n, i + 1, want)
RECURSIVE ScanLast(_, _, _, _)
ScanLast(x, n, i, want) == IF i < 0 THEN NPos ELSE IF (x[i + 1] \in Chars(n)) = want THEN i ELSE ScanLast(x, n, i - 1, want)
ASSUME FindIsScan == \A x \in T3, n \in T2, p \in 0..3 : p <= Len(x) => Find(x, n, p) = ScanFind(x, n, p)
ASSUME RFindIsScan == \A x \in T3, n \in T2, p \in {NPos, 0, 1, 2} : (p = NPos \/ p < Len(x)) =>
                          RFind(x, n, p) = ScanRFind(x, n, Min2(IF p < 0 THEN Len(x) ELSE p, Len(x) - Len(n)))
ASSUME FirstOfIsScan == \A x \in T3, n \in T2, p \in 0..3 : p <= Len(x) =>
                          /\ FindFirstOf(x, n, p) = ScanFirst(x, n, p, TRUE)
                          /\ FindFirstNotOf(x, n, p) = ScanFirst(x, n, p, FALSE)
ASSUME LastOfIsScan == \A x \in T3, n \in T2, p \in {NPos, 0, 1, 2} : (p = NPos \/ p < Len(x)) =>
                          /\ FindLastOf(x, n, p) = ScanLast(x, n, FromEnd(x, p), TRUE)
                          /\ FindLastNotOf(x, n, p) = ScanLast(x, n, FromEnd(x, p), FALSE)
\* replace characterised index by index
ASSUME ReplaceByIndex == \A x \in T3, y \in T2 \cup {<<>>}, p \in 0..3, c \in {0, 1, 2, 5, NPos} : p <= Len(x) =>
                          LET r == ReplaceAt(x, p, c, y)
                              k == Cnt(c, Len(x) - p)
                          IN /\ Len(r) = Len(x) - k + Len(y)
                             /\ \A i \in 1..Len(r) : r[i] = IF i <= p THEN x[i] ELSE IF i <= p + Len(y) THEN y[i - p] ELSE x[i - Len(y) + k]
ASSUME InsertErase == \A x \in T3, y \in T2, p \in 0..3 : p <= Len(x) =>
                          /\ EraseAt(InsertAt(x, p, y), p, Len(y)) = x
                          /\ ReplaceAt(x, p, 0, y) = InsertAt(x, p, y)
                          /\ ReplaceAt(x, p, Len(y), <<>>) = EraseAt(x, p, Len(y))
ASSUME CompareLaws == \A x \in T3, y \in T3 : /\ Cmp(x, y) = 0 - Cmp(y, x)
                                              /\ (Cmp(x, y) = 0) = (x = y)
                                              /\ \A z \in T2 : Cmp(x, y) < 0 /\ Cmp(y, z) < 0 => Cmp(x, z) < 0
ASSUME AffixLaws == \A x \in T3, n \in T2 : /\ StartsWith(x, n) = (Find(x, n, 0) = 0)
                                            /\ EndsWith(x, n) = (Len(n) <= Len(x) /\ RFind(x, n, NPos) = Len(x) - Len(n))
                                            /\ Contains(x, n) = (Find(x, n, 0) # NPos)
                                            /\ Rev(Rev(x)) = x
=============================================================================
