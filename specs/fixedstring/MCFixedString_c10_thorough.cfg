SPECIFICATION MCSpec
CONSTANTS Caps = {1, 2, 3, 4}
          Chars0 = {97}
          NulUpTo = 2
          WildArgs = TRUE
          BigCodes = {1, 2, 3, 5, 7}
          WholeLen = 2
INVARIANTS BoundOK WellFormed
VIEW View
ACTION_CONSTRAINT EdgeOut
CHECK_DEADLOCK FALSE
