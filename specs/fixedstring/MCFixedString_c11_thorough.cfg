SPECIFICATION MCSpec
CONSTANTS Caps = {1, 2, 3, 4}
          Chars0 = {97, 98}
          NulUpTo = 3
          WildArgs = FALSE
          BigCodes = {}
          WholeLen = 3
INVARIANTS BoundOK WellFormed
VIEW View
ACTION_CONSTRAINT EdgeOut
CHECK_DEADLOCK FALSE
