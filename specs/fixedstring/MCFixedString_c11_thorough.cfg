SPECIFICATION MCSpec
CONSTANTS Caps = {1, 2, 3, 4}
          Char = {97, 98}
          WildArgs = FALSE
          BigCodes = {}
          WholeLen = 3
INVARIANTS BoundOK WellFormed
VIEW View
ACTION_CONSTRAINT EdgeOut
CHECK_DEADLOCK FALSE
