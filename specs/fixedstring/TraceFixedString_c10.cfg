SPECIFICATION TSpec
CONSTANTS Caps = {}
          Functional = FALSE
INVARIANTS BoundOK WellFormed
POSTCONDITION Accepted
CHECK_DEADLOCK FALSE
