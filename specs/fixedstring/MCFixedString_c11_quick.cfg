SPECIFICATION MCSpec
CONSTANTS Caps = {1, 2, 3}
          Chars0 = {97, 98}
          NulUpTo = 2
          WildArgs = FALSE
          BigCodes = {}
          WholeLen = 2
INVARIANTS BoundOK WellFormed
VIEW View
ACTION_CONSTRAINT EdgeOut
CHECK_DEADLOCK FALSE
