---------------------------- MODULE MCFuncName ----------------------------
(* Bounded grammar of prototypes for FuncName.tla.  One transition per prototype: Choose(s) renders the     *)
(* structure s; the three formulations of the function name are compared in every state.  The edges are     *)
(* replayed in the real code (extractFuncname on the rendered bytes and a log message created with the       *)
(* rendered bytes as function name).                                                                         *)
EXTENDS FuncName, TLC, Json
CONSTANTS PreSet, RetSet, AnonSet, Q1Set, Q2Set, NameSet, ParSet, SufSet, TSufSet, WrapSet,   \* slice A: full product
          BRetSet, BQ1Set, BNameSet, BParSet, BSufSet, BTSufSet, BWrapSet, BPreSet,            \* slice B: full product
          CRetSet, CQ1Set                                                                      \* slice C: return types / qualifiers of the known findings
VARIABLES seed,    \* name index this part of the model enumerates (several initial states: TLC's workers share the work)
          cur,     \* the structure chosen, NoStruct before
          proto,   \* its rendering
          dn, sn   \* <<DeclName(proto), ShortDeclName(proto)>>, <<ScanName(proto), ShortScanName(proto)>>
vars == <<seed, cur, proto, dn, sn>>
NoStruct == [pre |-> 0, ret |-> 0, anon |-> 0, q1 |-> 0, q2 |-> 0, name |-> 0, par |-> 0, suf |-> 0, tsuf |-> 0, wrap |-> 0]
Structs == [pre : PreSet, ret : RetSet, anon : AnonSet, q1 : Q1Set, q2 : Q2Set, name : NameSet, par : ParSet, suf : SufSet,
            tsuf : TSufSet, wrap : WrapSet]
           \cup [pre : BPreSet, ret : BRetSet, anon : {0}, q1 : BQ1Set, q2 : {0}, name : BNameSet, par : BParSet, suf : BSufSet,
                 tsuf : BTSufSet, wrap : BWrapSet]
           \cup [pre : {0}, ret : CRetSet, anon : {0}, q1 : {0}, q2 : {0}, name : {1}, par : {1}, suf : {0}, tsuf : {0}, wrap : {0}]
           \cup [pre : {0}, ret : {1}, anon : {0}, q1 : CQ1Set, q2 : {0}, name : {1, 6}, par : {1}, suf : {0}, tsuf : {0}, wrap : {0}]
\* a return type is written in front of a plain function only (the wrapped forms bring their own)
\* (operator() of a function object that returns a pointer to a function / a reference to an array is left out)
Sensible(s) == /\ (s.wrap # 0 => s.ret = 0)
               /\ (s.q1 = 0 => s.q2 = 0 /\ s.anon # 2)
               /\ (s.wrap \in {1, 2} => s.name # 5)
MCInit == seed \in (NameSet \cup BNameSet \cup {1, 6}) /\ cur = NoStruct /\ proto = <<>> /\ dn = <<>> /\ sn = <<>>
Choose(s) == /\ cur = NoStruct /\ s.name = seed /\ Sensible(s)
             /\ cur' = s /\ proto' = Render(s) /\ dn' = <<DeclName(proto'), ShortDeclName(proto')>> /\ sn' = <<ScanName(proto'), ShortScanName(proto')>>
             /\ UNCHANGED seed
MCNext == \E s \in Structs : Choose(s)
MCSpec == MCInit /\ [][MCNext]_vars

\* ---- properties
Agree      == cur # NoStruct => /\ dn = <<StructName(cur), StructShortName(cur)>>
                                /\ sn = <<StructName(cur), StructShortName(cur)>>
Clean      == cur # NoStruct => \A i \in {1, 2} :
                                /\ dn[i] # <<>>
                                /\ dn[i][1] \notin {SP, STAR, AMP, LP}             \* nothing of the return type
                                /\ dn[i][Len(dn[i])] \notin {LP, SP}               \* nothing of the parameter list

EdgeOut == PrintT("EDGE " \o ToJson([i |-> (cur = NoStruct), pre |-> [p |-> proto, seed |-> seed], a |-> [n |-> "Funcname", proto |-> proto'],
                                     post |-> [p |-> proto', seed |-> seed]]))
=============================================================================
