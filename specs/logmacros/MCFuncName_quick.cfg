SPECIFICATION MCSpec
CONSTANTS
   PreSet = {0}
   RetSet = {0, 1, 4, 5, 7, 8, 14}
   AnonSet = {0, 1, 2}
   Q1Set = {0, 1, 3, 4}
   Q2Set = {0, 2}
   NameSet = {1, 4, 5, 6, 7, 12, 16}
   ParSet = {0, 2}
   SufSet = {0}
   TSufSet = {0}
   WrapSet = {0}
   BPreSet = {0}
   BRetSet = {0}
   BQ1Set = {0}
   BNameSet = {1, 2, 3, 4, 5, 6, 7, 8, 9, 10, 11, 12, 13, 14, 15, 16, 17, 18, 19, 20, 21, 22, 23, 24, 25}
   BParSet = {0, 3}
   BSufSet = {0, 1}
   BTSufSet = {0, 2}
   BWrapSet = {0, 1, 2, 3}
   CRetSet = {}
   CQ1Set = {}
INVARIANTS Agree Clean
ACTION_CONSTRAINT EdgeOut
CHECK_DEADLOCK FALSE
