SPECIFICATION MCSpec
CONSTANTS
   PreSet = {0, 1}
   RetSet = {0, 1, 3, 4, 5, 6, 7, 8, 11, 14}
   AnonSet = {0, 1, 2}
   Q1Set = {0, 1, 3, 4, 6}
   Q2Set = {0, 2, 5}
   NameSet = {1, 4, 5, 6, 7, 9, 12, 16}
   ParSet = {0, 2}
   SufSet = {0, 4}
   TSufSet = {0}
   WrapSet = {0}
   BPreSet = {0}
   BRetSet = {0}
   BQ1Set = {0, 2, 6}
   BNameSet = {1, 2, 3, 4, 5, 6, 7, 8, 9, 10, 11, 12, 13, 14, 15, 16, 17, 18, 19, 20, 21, 22, 23, 24, 25}
   BParSet = {0, 3, 5, 9}
   BSufSet = {0, 1, 3}
   BTSufSet = {0, 2, 4}
   BWrapSet = {0, 1, 2, 3}
   CRetSet = {12, 13, 15}
   CQ1Set = {7}
INVARIANTS Agree Clean
ACTION_CONSTRAINT EdgeOut
CHECK_DEADLOCK FALSE
