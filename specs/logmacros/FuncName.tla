---------------------------- MODULE FuncName ----------------------------
(* celma::common::extractFuncname( pretty_funcname)  -- extension component X02.            *)
(*                                                                                          *)
(* Documentation (extract_funcname.hpp): "Extracts the function/method name without return  *)
(* type or parameters.  @param pretty_funcname  Function prototype as in the macro          *)
(* __PRETTY_FUNCTION__."  (1.36.0: "adapted to work with clang++ too").  The in-tree test   *)
(* test_extract_funcname_c.cpp shows what a name is: the identifier with its namespace /    *)
(* class qualification ("project::TestClassProject::method1", "TestClass::~TestClass",      *)
(* "TestClass::operator()", "operator<<", "TestClass::operator const char *",               *)
(* "TemplateTestClass<unsigned int>::method1"), without the qualifier of an unnamed         *)
(* namespace ("Local::staticMethod", "testVoidFuncUnnamedNamespace").                       *)
(*                                                                                          *)
(* Prototypes are sequences of byte codes in the spelling of the compiler that builds the   *)
(* conformance driver (clang: "T *f()", "(anonymous namespace)::", " [T = int]" suffix).    *)
(* Three formulations, checked against each other by TLC on a bounded grammar (MCFuncName): *)
(*   DeclName   declarative, over the bytes: the longest qualified name that directly       *)
(*              precedes the parenthesis opening the parameter list of the outermost        *)
(*              function;                                                                   *)
(*   ScanName   operational scanner: forward to the parenthesis behind the name, backward   *)
(*              to the blank in front of it (the algorithm the comments of                  *)
(*              extract_funcname.cpp describe);                                             *)
(*   StructName from the structure a prototype of the grammar was rendered from.            *)
EXTENDS Integers, Sequences

\* ------------------------------------------------------------------ bytes
LT == 60   GT == 62   LP == 40   RP == 41   SP == 32   COLON == 58   STAR == 42   AMP == 38   TILDE == 126
IsAlpha(c) == (c >= 65 /\ c <= 90) \/ (c >= 97 /\ c <= 122) \/ c = 95
IsDigit(c) == c >= 48 /\ c <= 57
IsIdCh(c)  == IsAlpha(c) \/ IsDigit(c)
Max0(n) == IF n < 0 THEN 0 ELSE n
MinOf(S) == CHOOSE x \in S : \A y \in S : x <= y
Cat(ss) == LET F[i \in 0..Len(ss)] == IF i = 0 THEN <<>> ELSE F[i-1] \o ss[i] IN F[Len(ss)]

KwOperator == <<111,112,101,114,97,116,111,114>>
KwDecltype == <<100,101,99,108,116,121,112,101>>
AnonNs     == <<40,97,110,111,110,121,109,111,117,115,32,110,97,109,101,115,112,97,99,101,41>>
AnonNsQ    == <<40,97,110,111,110,121,109,111,117,115,32,110,97,109,101,115,112,97,99,101,41,58,58>>
ColCol     == <<58,58>>

StartsAt(p, i, w) == i >= 1 /\ i + Len(w) - 1 <= Len(p) /\ p[i] = w[1] /\ \A k \in 2..Len(w) : p[i + k - 1] = w[k]
EndsAt(p, j, w)   == StartsAt(p, j - Len(w) + 1, w)

\* the keyword 'operator' (not a part of an identifier like operatorX or my_operator) begins at o
OpKwAt(p, o) == /\ StartsAt(p, o, KwOperator)
                /\ (o = 1 \/ ~IsIdCh(p[o-1]))
                /\ (o + 8 > Len(p) \/ ~IsIdCh(p[o+8]))
\* the word 'decltype' ends at j
DecltypeEndsAt(p, j) == EndsAt(p, j, KwDecltype) /\ (j - 8 < 1 \/ ~IsIdCh(p[j-8]))

\* operator symbols that contain brackets (longest first): behind the keyword they are part of the name and
\* do not open or close a template argument list / a parameter list
OpTokens ==
  <<
   <<45,62,42>>,   \* 1: "->*"
   <<60,60,61>>,   \* 2: "<<="
   <<62,62,61>>,   \* 3: ">>="
   <<60,61,62>>,   \* 4: "<=>"
   <<40,41>>,   \* 5: "()"
   <<45,62>>,   \* 6: "->"
   <<60,60>>,   \* 7: "<<"
   <<62,62>>,   \* 8: ">>"
   <<60,61>>,   \* 9: "<="
   <<62,61>>,   \* 10: ">="
   <<60>>,   \* 11: "<"
   <<62>>    \* 12: ">"
  >>
OpTokLen(p, o) == LET M == {t \in 1..Len(OpTokens) : StartsAt(p, o + 8, OpTokens[t])}
                  IN IF M = {} THEN 0 ELSE Len(OpTokens[MinOf(M)])
InOpSym(p, j) == \E o \in {j - 10, j - 9, j - 8} : o >= 1 /\ OpKwAt(p, o) /\ j < o + 8 + OpTokLen(p, o)

\* ------------------------------------------------------------------ declarative formulation
\* position of the '>' that closes the '<' at s (inside p[s..j]), 0 if there is none
RECURSIVE MatchAngle(_, _, _, _)
MatchAngle(p, k, j, d) == IF k > j THEN 0
                          ELSE IF p[k] = LT THEN MatchAngle(p, k + 1, j, d + 1)
                          ELSE IF p[k] = GT THEN (IF d = 1 THEN k ELSE MatchAngle(p, k + 1, j, d - 1))
                          ELSE MatchAngle(p, k + 1, j, d)
RECURSIVE IdentEnd(_, _, _)
IdentEnd(p, i, j) == IF i < j /\ IsIdCh(p[i+1]) THEN IdentEnd(p, i + 1, j) ELSE i

\* p[i..j] is a qualified name: components joined by "::"; a component is an identifier, optionally with a
\* template argument list, or the unnamed namespace; the last one may also be a destructor name or an
\* operator name ('operator' followed by the symbol / the type / the literal suffix)
RECURSIVE QualName(_, _, _)
QualName(p, i, j) ==
   IF i > j THEN FALSE
   ELSE IF StartsAt(p, i, AnonNsQ) THEN i + 22 <= j /\ QualName(p, i + 23, j)
   ELSE IF p[i] = TILDE THEN i < j /\ IsAlpha(p[i+1]) /\ IdentEnd(p, i + 1, j) = j
   ELSE IF OpKwAt(p, i) THEN i + 8 <= j
   ELSE IF IsAlpha(p[i]) THEN
        LET e == IdentEnd(p, i, j)
            f == IF e < j /\ p[e+1] = LT THEN MatchAngle(p, e + 1, j, 0) ELSE e
        IN /\ f # 0
           /\ ~(e - i + 1 = 8 /\ StartsAt(p, i, KwDecltype))
           /\ \/ f = j
              \/ f + 2 < j /\ p[f+1] = COLON /\ p[f+2] = COLON /\ QualName(p, f + 3, j)
   ELSE FALSE

\* start of the longest qualified name that ends directly in front of position k (0: there is none); a name
\* does not begin inside an identifier
NameStart(p, k) == LET S == {i \in 1..(k - 1) : (i = 1 \/ ~(IsIdCh(p[i-1]) /\ IsIdCh(p[i]))) /\ QualName(p, i, k - 1)}
                   IN IF S = {} THEN 0 ELSE MinOf(S)

\* nesting in front of every position: a = open template argument lists, r = open parentheses outside of
\* template argument lists; operator symbols do not count, neither does the parenthesis of a pointer /
\* reference declarator "(*name(...))(...)" which contains the name
Depths(p) ==
   LET D[k \in 0..Len(p)] ==
          IF k = 0 THEN [a |-> 0, r |-> 0]
          ELSE LET c == p[k]
                   d == D[k-1]
               IN IF c \notin {LT, GT, LP, RP} THEN d
                  ELSE IF InOpSym(p, k) THEN d
                  ELSE IF c = LT THEN [d EXCEPT !.a = @ + 1]
                  ELSE IF c = GT THEN [d EXCEPT !.a = Max0(@ - 1)]
                  ELSE IF d.a > 0 THEN d
                  ELSE IF c = LP /\ ~(k < Len(p) /\ p[k+1] \in {STAR, AMP}) THEN [d EXCEPT !.r = @ + 1]
                  ELSE IF c = RP THEN [d EXCEPT !.r = Max0(@ - 1)]
                  ELSE d
   IN D
\* the parenthesis that opens the parameter list of the outermost function: the first one outside of all
\* brackets that directly follows a qualified name
ParamOpen(p) ==
   LET D == Depths(p)
       C == {k \in 2..Len(p) : p[k] = LP /\ ~InOpSym(p, k) /\ D[k-1].a = 0 /\ D[k-1].r = 0 /\ NameStart(p, k) # 0}
   IN IF C = {} THEN 0 ELSE MinOf(C)

\* the qualifier of the unnamed namespace is not part of the name
RECURSIVE StripAnon(_)
StripAnon(s) == IF s = <<>> THEN <<>>
                ELSE IF StartsAt(s, 1, AnonNsQ) THEN StripAnon(SubSeq(s, 24, Len(s)))
                ELSE <<s[1]>> \o StripAnon(SubSeq(s, 2, Len(s)))

\* the part of a qualified name behind its last unnamed-namespace qualifier (all of it when there is none)
RECURSIVE LastAnonEnd(_, _)
LastAnonEnd(s, i) == IF i < 1 THEN 1 ELSE IF StartsAt(s, i, AnonNsQ) THEN i + Len(AnonNsQ) ELSE LastAnonEnd(s, i - 1)
AfterLastAnon(s) == SubSeq(s, LastAnonEnd(s, Len(s) - Len(AnonNsQ)), Len(s))

HasName(p)  == ParamOpen(p) # 0
RawDeclName(p) == LET k == ParamOpen(p) IN IF k = 0 THEN <<>> ELSE SubSeq(p, NameStart(p, k), k - 1)
\* the name: the qualified name without the qualifier of the unnamed namespace.  The in-tree examples have the unnamed
\* namespace as outermost qualifier only; for "ns::(anonymous namespace)::f" the documentation does not say whether
\* the qualifiers in front of the unnamed namespace belong to the name ("ns::f") or not ("f"): ShortDeclName is the second reading
DeclName(p)      == StripAnon(RawDeclName(p))
ShortDeclName(p) == AfterLastAnon(RawDeclName(p))

\* ------------------------------------------------------------------ operational formulation
\* first '(' at or behind position k
RECURSIVE NextParen(_, _)
NextParen(p, k) == IF k > Len(p) THEN 0 ELSE IF p[k] = LP THEN k ELSE NextParen(p, k + 1)

\* step 1, left to right: the parenthesis that follows the function name.  State: next position k, open template
\* argument lists a, open parentheses r.  Result: P = the parenthesis (0: none), o = position of the keyword
\* 'operator' when the name is an operator name (its symbol may contain brackets), else 0.
RECURSIVE FindParen(_, _, _, _)
FindParen(p, k, a, r) ==
   IF k > Len(p) THEN [P |-> 0, o |-> 0]
   ELSE LET c == p[k] IN
      IF a = 0 /\ r = 0 /\ OpKwAt(p, k) THEN [P |-> NextParen(p, k + 8 + OpTokLen(p, k)), o |-> k]
      ELSE IF c = LT THEN FindParen(p, k + 1, a + 1, r)
      ELSE IF c = GT THEN FindParen(p, k + 1, Max0(a - 1), r)
      ELSE IF a > 0 THEN FindParen(p, k + 1, a, r)
      ELSE IF c = LP THEN
           IF r = 0 /\ k > 1 /\ (IsIdCh(p[k-1]) \/ p[k-1] = GT) /\ ~DecltypeEndsAt(p, k - 1) THEN [P |-> k, o |-> 0]
           ELSE IF k < Len(p) /\ p[k+1] \in {STAR, AMP} THEN FindParen(p, k + 1, a, r)
           ELSE FindParen(p, k + 1, a, r + 1)
      ELSE IF c = RP THEN FindParen(p, k + 1, a, Max0(r - 1))
      ELSE FindParen(p, k + 1, a, r)

\* step 2, right to left from position i: the first blank that is not inside a template argument list (the
\* qualifier "(anonymous namespace)" is stepped over as a whole); result: the position behind that blank
RECURSIVE BackToBlank(_, _, _)
BackToBlank(p, i, a) ==
   IF i = 0 THEN 1
   ELSE LET c == p[i] IN
      IF c = GT THEN BackToBlank(p, i - 1, a + 1)
      ELSE IF c = LT THEN BackToBlank(p, i - 1, a - 1)
      ELSE IF c = SP /\ a = 0 THEN i + 1
      ELSE IF c = RP /\ a = 0 /\ EndsAt(p, i, AnonNs) THEN BackToBlank(p, i - Len(AnonNs), a)
      ELSE BackToBlank(p, i - 1, a)

\* step 3: '*', '&' of the return type and the "(*" of a function pointer declarator are glued to the name
RECURSIVE SkipGlue(_, _, _)
SkipGlue(p, i, e) == IF i < e /\ (p[i] \in {STAR, AMP} \/ (p[i] = LP /\ p[i+1] \in {STAR, AMP}))
                     THEN SkipGlue(p, i + 1, e) ELSE i

RawScanName(p) ==
   LET f == FindParen(p, 1, 0, 0) IN
   IF f.P = 0 THEN <<>>
   ELSE LET from == IF f.o # 0 THEN f.o - 1 ELSE f.P - 1
            s    == SkipGlue(p, BackToBlank(p, from, 0), f.P - 1)
        IN SubSeq(p, s, f.P - 1)
\* step 4: the qualifier of the unnamed namespace is dropped (second reading: with everything in front of it)
ScanName(p)      == StripAnon(RawScanName(p))
ShortScanName(p) == AfterLastAnon(RawScanName(p))
\* a result the documentation allows for a prototype that has a name
NameAllowed(p, r) == r \in {ScanName(p), ShortScanName(p)}

\* ------------------------------------------------------------------ grammar of prototypes (bounded model, clang spelling)
\* a prototype is rendered from [pre, ret, anon, q1, q2, name, par, suf, tsuf, wrap] (indices into the tables, 0 = absent;
\* anon: 0 no unnamed namespace, 1 as outermost qualifier, 2 behind the qualifier q1)
GPre ==
  <<
   <<115,116,97,116,105,99,32>>,   \* 1: "static "
   <<118,105,114,116,117,97,108,32>>,   \* 2: "virtual "
   <<105,110,108,105,110,101,32>>    \* 3: "inline "
  >>
GRet ==
  <<
   <<118,111,105,100,32>>,   \* 1: "void "
   <<105,110,116,32>>,   \* 2: "int "
   <<117,110,115,105,103,110,101,100,32,108,111,110,103,32>>,   \* 3: "unsigned long "
   <<99,104,97,114,32,42,42>>,   \* 4: "char **"
   <<105,110,116,32,38,38>>,   \* 5: "int &&"
   <<99,111,110,115,116,32,99,104,97,114,32,42,99,111,110,115,116,32,42>>,   \* 6: "const char *const *"
   <<115,116,100,58,58,118,101,99,116,111,114,60,105,110,116,62,32>>,   \* 7: "std::vector<int> "
   <<115,116,100,58,58,109,97,112,60,105,110,116,44,32,115,116,100,58,58,115,116,114,105,110,103,62,32>>,   \* 8: "std::map<int, std::string> "
   <<99,111,110,115,116,32,110,115,58,58,67,32,38>>,   \* 9: "const ns::C &"
   <<84,32>>,   \* 10: "T "
   <<115,116,100,58,58,118,101,99,116,111,114,60,84,62,32>>,   \* 11: "std::vector<T> "
   <<115,116,100,58,58,102,117,110,99,116,105,111,110,60,105,110,116,32,40,105,110,116,41,62,32>>,   \* 12: "std::function<int (int)> "
   <<40,97,110,111,110,121,109,111,117,115,32,110,97,109,101,115,112,97,99,101,41,58,58,65,76,32,42>>,   \* 13: "(anonymous namespace)::AL *"
   <<97,117,116,111,32>>,   \* 14: "auto "
   <<100,101,99,108,116,121,112,101,40,97,117,116,111,41,32>>,   \* 15: "decltype(auto) "
   <<110,115,58,58,84,67,60,115,116,100,58,58,112,97,105,114,60,105,110,116,44,32,105,110,116,62,62,32,42>>,   \* 16: "ns::TC<std::pair<int, int>> *"
   <<115,116,100,58,58,118,101,99,116,111,114,60,105,110,116,62,32,38>>    \* 17: "std::vector<int> &"
  >>
GQual ==
  <<
   <<110,115>>,   \* 1: "ns"
   <<67>>,   \* 2: "C"
   <<84,67,60,105,110,116,62>>,   \* 3: "TC<int>"
   <<84,67,50,60,115,116,100,58,58,109,97,112,60,105,110,116,44,32,105,110,116,62,44,32,115,116,100,58,58,112,97,105,114,60,105,110,116,44,32,105,110,116,62,62>>,   \* 4: "TC2<std::map<int, int>, std::pair<int, int>>"
   <<105,110,95,49>>,   \* 5: "in_1"
   <<111,112,101,114,97,116,111,114,115>>,   \* 6: "operators"
   <<84,67,60,115,116,100,58,58,102,117,110,99,116,105,111,110,60,118,111,105,100,32,40,105,110,116,41,62,62>>    \* 7: "TC<std::function<void (int)>>"
  >>
GName ==
  <<
   <<102>>,   \* 1: "f"
   <<102,117,110,99,95,49>>,   \* 2: "func_1"
   <<67>>,   \* 3: "C"
   <<126,67>>,   \* 4: "~C"
   <<111,112,101,114,97,116,111,114,40,41>>,   \* 5: "operator()"
   <<111,112,101,114,97,116,111,114,60>>,   \* 6: "operator<"
   <<111,112,101,114,97,116,111,114,60,60>>,   \* 7: "operator<<"
   <<111,112,101,114,97,116,111,114,45,62>>,   \* 8: "operator->"
   <<111,112,101,114,97,116,111,114,62,62,61>>,   \* 9: "operator>>="
   <<111,112,101,114,97,116,111,114,43,61>>,   \* 10: "operator+="
   <<111,112,101,114,97,116,111,114,91,93>>,   \* 11: "operator[]"
   <<111,112,101,114,97,116,111,114,32,99,111,110,115,116,32,99,104,97,114,32,42>>,   \* 12: "operator const char *"
   <<111,112,101,114,97,116,111,114,32,105,110,116>>,   \* 13: "operator int"
   <<111,112,101,114,97,116,111,114,32,110,101,119>>,   \* 14: "operator new"
   <<111,112,101,114,97,116,111,114,34,34,95,120>>,   \* 15: "operator""_x"
   <<111,112,101,114,97,116,111,114,88>>,   \* 16: "operatorX"
   <<109,121,95,111,112,101,114,97,116,111,114>>,   \* 17: "my_operator"
   <<111,112,101,114,97,116,111,114,60,61>>,   \* 18: "operator<="
   <<111,112,101,114,97,116,111,114,62>>,   \* 19: "operator>"
   <<111,112,101,114,97,116,111,114,61,61>>,   \* 20: "operator=="
   <<111,112,101,114,97,116,111,114,45,62,42>>,   \* 21: "operator->*"
   <<111,112,101,114,97,116,111,114,60,61,62>>,   \* 22: "operator<=>"
   <<111,112,101,114,97,116,111,114,32,98,111,111,108>>,   \* 23: "operator bool"
   <<111,112,101,114,97,116,111,114,44>>,   \* 24: "operator,"
   <<116,109,60,105,110,116,62>>    \* 25: "tm<int>"
  >>
GPar ==
  <<
   <<105,110,116>>,   \* 1: "int"
   <<99,111,110,115,116,32,115,116,100,58,58,118,101,99,116,111,114,60,105,110,116,62,32,38>>,   \* 2: "const std::vector<int> &"
   <<118,111,105,100,32,40,42,41,40,105,110,116,41>>,   \* 3: "void (*)(int)"
   <<115,116,100,58,58,102,117,110,99,116,105,111,110,60,118,111,105,100,32,40,105,110,116,41,62>>,   \* 4: "std::function<void (int)>"
   <<84,44,32,85>>,   \* 5: "T, U"
   <<115,116,100,58,58,109,97,112,60,105,110,116,44,32,115,116,100,58,58,118,101,99,116,111,114,60,105,110,116,62,62,32,42,44,32,99,111,110,115,116,32,115,116,100,58,58,112,97,105,114,60,105,110,116,44,32,105,110,116,62,32,38>>,   \* 6: "std::map<int, std::vector<int>> *, const std::pair<int, int> &"
   <<105,110,116,32,38,38>>,   \* 7: "int &&"
   <<99,111,110,115,116,32,84,32,40,38,41,91,78,93>>,   \* 8: "const T (&)[N]"
   <<40,97,110,111,110,121,109,111,117,115,32,110,97,109,101,115,112,97,99,101,41,58,58,65,76,32,42>>    \* 9: "(anonymous namespace)::AL *"
  >>
GSuf ==
  <<
   <<32,99,111,110,115,116>>,   \* 1: " const"
   <<32,38>>,   \* 2: " &"
   <<32,38,38>>,   \* 3: " &&"
   <<32,99,111,110,115,116,32,38>>    \* 4: " const &"
  >>
GTSuf ==
  <<
   <<32,91,84,32,61,32,105,110,116,93>>,   \* 1: " [T = int]"
   <<32,91,84,32,61,32,115,116,100,58,58,118,101,99,116,111,114,60,105,110,116,62,44,32,85,32,61,32,99,104,97,114,93>>,   \* 2: " [T = std::vector<int>, U = char]"
   <<32,91,65,32,61,32,115,116,100,58,58,109,97,112,60,105,110,116,44,32,105,110,116,62,44,32,66,32,61,32,115,116,100,58,58,112,97,105,114,60,105,110,116,44,32,105,110,116,62,93>>,   \* 3: " [A = std::map<int, int>, B = std::pair<int, int>]"
   <<32,91,84,32,61,32,105,110,116,44,32,78,32,61,32,51,93>>    \* 4: " [T = int, N = 3]"
  >>
Pick(t, i) == IF i = 0 THEN <<>> ELSE t[i]
QualOf(s)  == (IF s.anon = 1 THEN AnonNsQ ELSE <<>>) \o (IF s.q1 = 0 THEN <<>> ELSE GQual[s.q1] \o ColCol)
              \o (IF s.anon = 2 THEN AnonNsQ ELSE <<>>) \o (IF s.q2 = 0 THEN <<>> ELSE GQual[s.q2] \o ColCol)
\* wrap: 0 plain, 1 function returning a pointer to a function "void (*name(par))(double)", 2 the same with a
\* reference "int (&name(par))[3]", 3 lambda inside the function "...name(par)::(anonymous class)::operator()(int) const"
Render(s) ==
   LET head == QualOf(s) \o GName[s.name] \o <<LP>> \o Pick(GPar, s.par) \o <<RP>>
       tail == Pick(GSuf, s.suf) \o Pick(GTSuf, s.tsuf)
   IN CASE s.wrap = 0 -> Pick(GPre, s.pre) \o Pick(GRet, s.ret) \o head \o tail
        [] s.wrap = 1 -> Pick(GPre, s.pre) \o <<118,111,105,100,32,40,42>> \o head \o <<41,40,100,111,117,98,108,101,41>> \o tail
        [] s.wrap = 2 -> Pick(GPre, s.pre) \o <<105,110,116,32,40,38>> \o head \o <<41,91,51,93>> \o tail
        [] s.wrap = 3 -> <<97,117,116,111,32>> \o head \o <<58,58,40,97,110,111,110,121,109,111,117,115,32,99,108,97,115,115,41,58,58,111,112,101,114,97,116,111,114,40,41,40,105,110,116,41,32,99,111,110,115,116>> \o Pick(GTSuf, s.tsuf)
\* what the structure says the name is: qualification (without the unnamed namespace) and the name itself
StructName(s) == (IF s.q1 = 0 THEN <<>> ELSE GQual[s.q1] \o ColCol) \o (IF s.q2 = 0 THEN <<>> ELSE GQual[s.q2] \o ColCol)
                 \o GName[s.name]
\* second reading: only what stands behind the unnamed namespace
StructShortName(s) == (IF s.q1 = 0 \/ s.anon = 2 THEN <<>> ELSE GQual[s.q1] \o ColCol) \o (IF s.q2 = 0 THEN <<>> ELSE GQual[s.q2] \o ColCol)
                      \o GName[s.name]

\* ------------------------------------------------------------------ properties
FormulationsAgree(p) == RawDeclName(p) = RawScanName(p)
NameIsClean(p) == HasName(p) => LET n == DeclName(p) IN
                     /\ n # <<>>
                     /\ n[1] \notin {SP, STAR, AMP, LP}                 \* nothing of the return type
                     /\ n[Len(n)] # LP /\ n[Len(n)] # SP                \* nothing of the parameter list
=============================================================================
