SPECIFICATION TSpec
INVARIANTS OpDeclAgree DeliveredOK CallPointOK
POSTCONDITION Accepted
CHECK_DEADLOCK FALSE
