---------------------------- MODULE TraceLogMacros ----------------------------
(* Validates executions recorded by harness/logmacros_driver.cpp against LogMacros.tla / FuncName.tla.           *)
(* Events (every field always present; texts are arrays of byte codes; ids are lists of bit numbers):            *)
(*  {"e":"Reset","cfg":{"logs":[{"name","max","bit"}],"gattrs":[{"n","v"}],"outer":[..],"inner":[..],           *)
(*                      "site":{"mk","m"}},"pid":p}                                                              *)
(*  {"e":"Create","by":"ids"|"name","ids":[..],"name":[..],"file":[..],"proto":[..],"line":n,                   *)
(*               "res":"ok"|"exception"}                                                                         *)
(*  {"e":"Op","k":kind,"n":n,"s":[..],"f":[..],"p":[..],"res":"ok"}                                              *)
(*  {"e":"Destroy","ops":[the operations since Create],"got":[G..],"res":"ok"}                                   *)
(*  {"e":"Macro","m":"LOG"|"LOG_ATTR"|"LOG_LEVEL"|"LOG_LEVEL_ATTR","by","ids","name","mlvl":l,"obj":o,           *)
(*               "ops":[{"k","n","s","f","p"}..],"scoped":[{"n","v"}..],"file","proto","line","evald":bool,      *)
(*               "got":[G..],"res":"ok"|"exception"}                                                             *)
(*  {"e":"Printf","via":"func"|"macro","by","ids","name","lvl","cls","fmt":[..],"args":[{"k","n","s"}..],        *)
(*               "file","proto","line","got":[G..],"res":"ok"}                                                   *)
(*  {"e":"Pass","by","ids","name","ops":[..],"file","proto","line","evald":bool,"got":[G..],"res":"ok"}          *)
(*  {"e":"Conv","d":"l2t"|"c2t"|"t2l"|"t2c","n":v,"s":[..],"rn":v,"rs":[..]}                                     *)
(*  {"e":"GetLog","by","ids","name","found":bool,"res":"ok"}                                                     *)
(*  {"e":"Funcname","proto":[..],"res":[..],"thrown":bool,"feat":[tags]}                                         *)
(* G = what a recording destination saw: {"log":k,"file","func","line","lvl","cls","err","text","pid",           *)
(*      "t0","ts","t1" (seconds: before the statement, of the message, at delivery),"av":[{"n","v"}..]           *)
(*      (LogMsg::getAttributeValue for every attribute name of the configuration)}                               *)
EXTENDS LogMacros, TLC, Json, IOUtils, FiniteSets
VARIABLES l,     \* index of the next event
          pid    \* process id reported by the execution's Reset event
Log == ndJsonDeserialize(IOEnv.TRACE)
Ev == Log[l]

\* a recorded delivery g is the expected delivery d
GotMatches(g, d) ==
   /\ g.log = d.log /\ g.file = d.m.file /\ g.line = d.m.line /\ g.lvl = d.m.lvl /\ g.cls = d.m.cls /\ g.err = d.m.err /\ g.text = d.m.text
   /\ (d.m.func # <<>> => g.func \in {d.m.func, d.m.func2})        \* prototypes without a name: function name open
   /\ \A i \in 1..Len(g.av) : g.av[i].v = ObjValue(cfg, d.m.obj, g.av[i].n)
   /\ g.pid = pid                                                   \* "Internally, also the process id is set"
   /\ g.t0 <= g.ts /\ g.ts <= g.t1                                  \* time stamp of the creation of the message
\* exactly the expected deliveries, each once
GotOK(got, set) == /\ Len(got) = Cardinality(set)
                   /\ \A i \in 1..Len(got) : \A j \in 1..Len(got) : i # j => got[i].log # got[j].log
                   /\ \A i \in 1..Len(got) : \E d \in set : GotMatches(got[i], d)
EvOp(r) == Op(r.k, r.n, r.s, r.f, r.p)
EvOps(rs) == [i \in 1..Len(rs) |-> EvOp(rs[i])]

NoCfg == [logs |-> <<>>, gattrs |-> <<>>, outer |-> <<>>, inner |-> <<>>, site |-> [mk |-> "none", m |-> 0]]
TInit == l = 1 /\ pid = 0 /\ cfg = NoCfg /\ sl = NoSL /\ hist = <<>> /\ np = 0 /\ nw = 0 /\ out = NoOut
TNext ==
   /\ l <= Len(Log) /\ l' = l + 1
   /\ \/ /\ Ev.e = "Reset"
         /\ \A k \in 1..Len(Ev.cfg.logs) : Ev.cfg.logs[k].bit = k - 1       \* the k-th log created owns id bit k-1
         /\ cfg' = Ev.cfg /\ pid' = Ev.pid /\ sl' = NoSL /\ hist' = <<>> /\ np' = 0 /\ nw' = 0 /\ out' = NoOut
      \/ /\ Ev.e = "Create" /\ Create(Ev.by, Ev.ids, Ev.name, Ev.file, Ev.proto, Ev.line, Ev.res) /\ UNCHANGED pid
      \/ /\ Ev.e = "Op" /\ StreamOp(EvOp(Ev)) /\ Ev.res = "ok" /\ UNCHANGED pid
      \/ /\ Ev.e = "Destroy" /\ EvOps(Ev.ops) = hist /\ Destroy /\ GotOK(Ev.got, out'.set) /\ Ev.res = "ok" /\ UNCHANGED pid
      \/ /\ Ev.e = "Macro"
         /\ MacroLog(Ev.m, Ev.by, Ev.ids, Ev.name, Ev.mlvl, Ev.obj, EvOps(Ev.ops), Ev.file, Ev.proto, Ev.line, Ev.scoped, Ev.res)
         /\ out'.evald = Ev.evald /\ GotOK(Ev.got, out'.set) /\ UNCHANGED pid
      \/ /\ Ev.e = "Printf"
         /\ PrintfLog(Ev.by, Ev.ids, Ev.name, Ev.lvl, Ev.cls, Ev.fmt, Ev.args, Ev.file, Ev.proto, Ev.line)
         /\ GotOK(Ev.got, out'.set) /\ Ev.res = "ok" /\ UNCHANGED pid
      \/ /\ Ev.e = "Pass"
         /\ Pass(Ev.by, Ev.ids, Ev.name, EvOps(Ev.ops), Ev.file, Ev.proto, Ev.line)
         /\ out'.evald = Ev.evald /\ GotOK(Ev.got, out'.set) /\ Ev.res = "ok" /\ UNCHANGED pid
      \/ /\ Ev.e = "Conv" /\ Conv(Ev.d, Ev.n, Ev.s) /\ out'.rn = Ev.rn /\ out'.rs = Ev.rs /\ UNCHANGED pid
      \/ /\ Ev.e = "GetLog" /\ GetLog(Ev.by, Ev.ids, Ev.name) /\ out'.found = Ev.found /\ Ev.res = "ok" /\ UNCHANGED pid
      \/ /\ Ev.e = "Funcname"
         /\ FormulationsAgree(Ev.proto)
         /\ (HasName(Ev.proto) => ~Ev.thrown /\ NameAllowed(Ev.proto, Ev.res))
         /\ UNCHANGED <<vars, pid>>
TSpec == TInit /\ [][TNext]_<<vars, l, pid>>
Accepted == TLCGet("stats").diameter = Len(Log) + 1
=============================================================================
