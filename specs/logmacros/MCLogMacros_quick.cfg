SPECIFICATION MCSpec
CONSTANTS
   MaxOps = 2
   MaxPass = 4
   OpIdx = {1, 2, 3, 4, 5, 6, 7, 8, 9, 10, 11, 12, 13, 14, 15, 16, 17, 18, 19, 20, 21, 22, 24, 37}
   DeepCreates = {1, 3}
   SiteIdx = {1, 3, 4, 6, 7, 9, 10}
   MacroIdx = {1, 2, 3, 4, 5, 6, 7, 8, 9, 10, 11, 12, 13, 14, 15, 16, 17, 18}
   PrintfIdx = {1, 2, 3, 4, 5, 6, 7}
INVARIANTS OpDeclAgree DeliveredOK CallPointOK RoundTripOK OnlySelected
ACTION_CONSTRAINT EdgeOut
CHECK_DEADLOCK FALSE
