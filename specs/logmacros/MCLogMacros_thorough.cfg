SPECIFICATION MCSpec
CONSTANTS
   MaxOps = 3
   MaxPass = 7
   OpIdx = {1, 2, 3, 4, 5, 6, 7, 8, 9, 10, 11, 12, 13, 14, 15, 16, 17, 18, 19, 20, 21, 22, 23, 24, 25, 26, 28, 31, 32, 33, 34, 37}
   DeepCreates = {1}
   SiteIdx = {1, 2, 3, 4, 5, 6, 7, 8, 9, 10, 11}
   MacroIdx = {1, 2, 3, 4, 5, 6, 7, 8, 9, 10, 11, 12, 13, 14, 15, 16, 17, 18}
   PrintfIdx = {1, 2, 3, 4, 5, 6, 7}
INVARIANTS OpDeclAgree DeliveredOK CallPointOK RoundTripOK OnlySelected
ACTION_CONSTRAINT EdgeOut
CHECK_DEADLOCK FALSE
