---------------------------- MODULE MCLogMacros ----------------------------
(* Bounded instance of LogMacros.tla: one stream log per behaviour (all sequences of at most MaxOps operations  *)
(* for the creation variants DeepCreates, at most one operation for the others), the one-statement macros, the  *)
(* printf-like message, the conversions, GET_LOG and the call-point macros (at most MaxPass passes).             *)
EXTENDS LogMacros, TLC, Json
CONSTANTS MaxOps,        \* operations per stream log
          MaxPass,       \* passes of a call point
          OpIdx,         \* indices into OpTable used by the model
          DeepCreates,   \* indices into CreateTable explored with MaxOps operations (the others: one operation)
          SiteIdx,       \* indices into SiteTable (call-point macro executions)
          MacroIdx,      \* indices into MacroTable
          PrintfIdx      \* indices into PrintfTable
VARIABLES act,           \* ghost: last action with its arguments
          phase          \* "init" | "open" | "done" | "pass"

E == <<>>
LogA == <<97>>
LogB == <<98>>
\* log "a" (bit 0) passes everything, log "b" (bit 1) has the filter maxLevel( warning)
BaseCfg == [logs   |-> <<[name |-> LogA, max |-> 0], [name |-> LogB, max |-> 3]>>,
            gattrs |-> <<[n |-> <<120>>, v |-> <<103,120>>], [n |-> <<121>>, v |-> <<103,121,49>>], [n |-> <<121>>, v |-> <<103,121,50>>]>>,
            outer  |-> <<[n |-> <<120>>, v |-> <<111,120>>], [n |-> <<119>>, v |-> <<111,119>>]>>,
            inner  |-> <<[n |-> <<122>>, v |-> <<105,122>>], [n |-> <<119>>, v |-> <<105,119>>]>>,
            site   |-> [mk |-> "none", m |-> 0]]
SiteTable == << [mk |-> "once", m |-> 0], [mk |-> "max", m |-> 0], [mk |-> "max", m |-> 1], [mk |-> "max", m |-> 2],
                [mk |-> "after", m |-> 0], [mk |-> "after", m |-> 1], [mk |-> "after", m |-> 2],
                [mk |-> "every", m |-> 1], [mk |-> "every", m |-> 2], [mk |-> "every", m |-> 3], [mk |-> "max", m |-> 3] >>
Configs == {BaseCfg} \cup {[BaseCfg EXCEPT !.site = SiteTable[i]] : i \in SiteIdx}

File1 == <<115,114,99,47,100,105,114,47,117,110,105,116,46,99,112,112>>
File2 == <<112,108,97,105,110,46,99,112,112>>
File3 == <<47,97,98,115,47,112,97,116,104,47,116,111,47,120,46,104,112,112>>
Proto1 == <<118,111,105,100,32,110,115,58,58,67,58,58,109,40,105,110,116,41,32,99,111,110,115,116>>
Proto2 == <<115,116,100,58,58,118,101,99,116,111,114,60,105,110,116,62,32,102,40,99,111,110,115,116,32,115,116,100,58,58,109,97,112,60,105,110,116,44,32,115,116,100,58,58,115,116,114,105,110,103,62,32,38,41>>
Proto3 == <<98,111,111,108,32,40,97,110,111,110,121,109,111,117,115,32,110,97,109,101,115,112,97,99,101,41,58,58,84,67,60,105,110,116,62,58,58,111,112,101,114,97,116,111,114,60,40,99,111,110,115,116,32,84,67,60,84,62,32,38,41,32,99,111,110,115,116,32,91,84,32,61,32,105,110,116,93>>
CreateTable ==
   << [by |-> "ids",  ids |-> <<0, 1>>, name |-> E,          file |-> File1, proto |-> Proto1, line |-> 42],
      [by |-> "ids",  ids |-> <<0>>,    name |-> E,          file |-> File2, proto |-> Proto2, line |-> 7],
      [by |-> "name", ids |-> E,        name |-> LogB,       file |-> File3, proto |-> Proto3, line |-> 1234],
      [by |-> "ids",  ids |-> <<5>>,    name |-> E,          file |-> File1, proto |-> Proto1, line |-> 1],
      [by |-> "ids",  ids |-> <<1, 5>>, name |-> E,          file |-> File2, proto |-> Proto1, line |-> 2],
      [by |-> "name", ids |-> E,        name |-> <<122,122>>,   file |-> File1, proto |-> Proto2, line |-> 3],
      [by |-> "ids",  ids |-> E,        name |-> E,          file |-> File1, proto |-> Proto1, line |-> 4],
      [by |-> "name", ids |-> E,        name |-> E,          file |-> File1, proto |-> Proto1, line |-> 5] >>
ExcFile == <<108,105,98,47,115,114,99,47,116,104,114,111,119,101,114,46,99,112,112>>
ExcProto == <<115,116,97,116,105,99,32,105,110,116,32,108,105,98,58,58,84,104,114,111,119,101,114,58,58,114,117,110,40,99,111,110,115,116,32,99,104,97,114,32,42,41>>
OpTable ==
   << Op("lvl", 2, E, E, E), Op("lvl", 4, E, E, E), Op("cls", 1, E, E, E), Op("cls", 4, E, E, E),
      Op("err", 7, E, E, E), Op("errs", 0, <<52,50>>, E, E), Op("str", 0, <<97,98>>, E, E), Op("cstr", 0, <<99,32,100>>, E, E),
      Op("chr", 101, E, E, E), Op("int", -5, E, E, E), Op("int", 255, E, E, E), Op("bool", 1, E, E, E),
      Op("oss", 0, <<111,32,115>>, E, E), Op("attr", 0, <<120>>, E, E), Op("attr", 0, <<122>>, E, E), Op("attr", 0, <<113>>, E, E),
      Op("setattr", 1, E, E, E), Op("setattr", 2, E, E, E), Op("clear", 0, E, E, E), Op("chr", 32, E, E, E),
      Op("uns", 0, E, E, E), Op("exc", 99, <<102,97,105,108,101,100>>, ExcFile, ExcProto),
      \* 23..
      Op("lvl", 0, E, E, E), Op("lvl", 6, E, E, E), Op("cls", 0, E, E, E), Op("err", -13, E, E, E), Op("errs", 0, <<45,56>>, E, E),
      Op("uns", 4000, E, E, E), Op("long", 2147483647, E, E, E), Op("bool", 0, E, E, E), Op("excl", 5, <<108,111,103,105,99>>, File2, Proto2),
      Op("excb", 6, <<98,97,115,101>>, File3, Proto3), Op("attr", 0, <<121>>, E, E), Op("attr", 0, <<119>>, E, E), Op("str", 0, E, E, E),
      Op("int", 0, E, E, E), Op("cls", 6, E, E, E) >>
\* one-statement macros: [m, mlvl, obj, ops (indices into OpTable), target (index into CreateTable)]
MacroTable ==
   << [m |-> "LOG", mlvl |-> 0, obj |-> 0, ops |-> <<7>>, c |-> 1],
      [m |-> "LOG", mlvl |-> 0, obj |-> 0, ops |-> <<2, 3, 7, 10>>, c |-> 1],
      [m |-> "LOG", mlvl |-> 0, obj |-> 0, ops |-> <<>>, c |-> 1],
      [m |-> "LOG", mlvl |-> 0, obj |-> 0, ops |-> <<1, 2, 7>>, c |-> 1],
      [m |-> "LOG", mlvl |-> 0, obj |-> 0, ops |-> <<5, 7, 14>>, c |-> 3],
      [m |-> "LOG_ATTR", mlvl |-> 0, obj |-> 1, ops |-> <<14, 15, 7>>, c |-> 1],
      [m |-> "LOG_ATTR", mlvl |-> 0, obj |-> 2, ops |-> <<14, 15, 34>>, c |-> 2],
      [m |-> "LOG_LEVEL", mlvl |-> 3, obj |-> 0, ops |-> <<7>>, c |-> 3],
      [m |-> "LOG_LEVEL", mlvl |-> 4, obj |-> 0, ops |-> <<7>>, c |-> 3],
      [m |-> "LOG_LEVEL", mlvl |-> 4, obj |-> 0, ops |-> <<7, 11>>, c |-> 2],
      [m |-> "LOG_LEVEL", mlvl |-> 5, obj |-> 0, ops |-> <<1, 7>>, c |-> 2],
      [m |-> "LOG_LEVEL", mlvl |-> 1, obj |-> 0, ops |-> <<7>>, c |-> 6],
      [m |-> "LOG_LEVEL_ATTR", mlvl |-> 2, obj |-> 2, ops |-> <<15, 34>>, c |-> 3],
      [m |-> "LOG_LEVEL_ATTR", mlvl |-> 6, obj |-> 1, ops |-> <<14>>, c |-> 3],
      [m |-> "LOG_LEVEL", mlvl |-> 2, obj |-> 0, ops |-> <<22, 2>>, c |-> 2],
      [m |-> "LOG", mlvl |-> 0, obj |-> 0, ops |-> <<22, 3, 2>>, c |-> 1],
      [m |-> "LOG", mlvl |-> 0, obj |-> 0, ops |-> <<7>>, c |-> 7],
      [m |-> "LOG_ATTR", mlvl |-> 0, obj |-> 1, ops |-> <<7>>, c |-> 8] >>
\* LOG_ATTRIBUTE objects around the macro statement i of MacroTable
ScopedOf(i) == CASE i = 6 -> <<[n |-> <<122>>, v |-> <<115,122>>]>>
                 [] i = 7 -> <<[n |-> <<120>>, v |-> <<115,120,49>>], [n |-> <<120>>, v |-> <<115,120,50>>]>>
                 [] i = 5 -> <<[n |-> <<120>>, v |-> <<115,120>>], [n |-> <<113>>, v |-> <<115,113>>]>>
                 [] OTHER -> <<>>
Arg(k, n, s) == [k |-> k, n |-> n, s |-> s]
PrintfTable ==
   << [lvl |-> 4, cls |-> 4, fmt |-> <<112,108,97,105,110,32,116,101,120,116>>, args |-> <<>>, c |-> 1],
      [lvl |-> 2, cls |-> 1, fmt |-> <<118,97,108,117,101,32,37,100,32,111,102,32,37,115>>, args |-> <<Arg("i", -42, E), Arg("s", 0, <<110,97,109,101>>)>>, c |-> 1],
      [lvl |-> 5, cls |-> 2, fmt |-> <<37,53,100,124,37,45,53,100,124,37,48,53,100,124,37,120,124,37,99,124,37,37>>, args |-> <<Arg("i", 42, E), Arg("i", 42, E), Arg("i", -42, E), Arg("i", 255, E), Arg("i", 65, E)>>, c |-> 3],
      [lvl |-> 3, cls |-> 0, fmt |-> <<37,56,115,124,37,45,56,115,124,37,117>>, args |-> <<Arg("s", 0, <<114,105,103,104,116>>), Arg("s", 0, <<108,101,102,116>>), Arg("i", 7, E)>>, c |-> 3],
      [lvl |-> 0, cls |-> 6, fmt |-> E, args |-> <<>>, c |-> 2],
      [lvl |-> 1, cls |-> 3, fmt |-> <<37,115>>, args |-> <<Arg("s", 0, E)>>, c |-> 1],
      [lvl |-> 6, cls |-> 5, fmt |-> <<37,105,37,105>>, args |-> <<Arg("i", 2147483647, E), Arg("i", 0, E)>>, c |-> 6] >>
ConvTexts == {LevelText[v] : v \in 1..7} \cup {ClassText[v] : v \in 1..7}
             \cup {<<69,82,82,79,82>>, <<102,117,108,108,32,100,101,98,117,103>>, <<115,121,115,99,97,108,108>>, <<69,114,114,111>>, <<69,114,114,111,114,115>>, E, <<98,111,103,117,115>>,
                   <<68,97,116>>, <<65>>, <<87,97,114,110>>, <<70>>, <<79,112,101,114,97,116,111,114>>, <<73,110,102,111,32>>, <<32,68,97,116,97>>}

NoAct == [n |-> "Init", by |-> "ids", ids |-> E, name |-> E, file |-> E, proto |-> E, line |-> 0, op |-> Op("none", 0, E, E, E),
          m |-> "", mlvl |-> 0, obj |-> 0, ops |-> <<>>, lvl |-> 0, cls |-> 0, fmt |-> E, args |-> <<>>, d |-> "", cn |-> 0, cs |-> E, ci |-> 0, scoped |-> <<>>]
OpsOf(ix) == [i \in 1..Len(ix) |-> OpTable[ix[i]]]
\* an exception defaults the level and a level follows
KnownShape(h) == \E i \in 1..Len(h) : /\ h[i].k \in ExcKinds
                                      /\ ~(\E j \in 1..(i - 1) : h[j].k = "lvl" /\ h[j].n # 0)
                                      /\ \E j \in (i + 1)..Len(h) : h[j].k = "lvl"
PassOps == <<OpTable[7]>>

MCInit == /\ cfg \in Configs /\ sl = NoSL /\ hist = <<>> /\ np = 0 /\ nw = 0 /\ out = NoOut
          /\ act = NoAct /\ phase = "init"
MCNext ==
   \/ /\ phase = "init"
      /\ \E i \in 1..Len(CreateTable) : LET c == CreateTable[i] IN \E res \in {"ok", "exception"} :
            /\ Create(c.by, c.ids, c.name, c.file, c.proto, c.line, res)
            /\ act' = [NoAct EXCEPT !.n = "Create", !.by = c.by, !.ids = c.ids, !.name = c.name, !.file = c.file, !.proto = c.proto,
                                    !.line = c.line, !.ci = i]
            /\ phase' = IF res = "ok" THEN "open" ELSE "done"
   \/ /\ phase = "open"
      /\ Len(hist) < (IF act.ci \in DeepCreates THEN MaxOps ELSE 1)
      /\ \E i \in OpIdx : /\ StreamOp(OpTable[i]) /\ act' = [NoAct EXCEPT !.n = "Op", !.op = OpTable[i], !.ci = act.ci]
                          \* bound of the model only: a level behind an exception that defaulted the level (known finding)
                          \* is explored as <<exception, level>> for the first creation variant and not extended
                          /\ (KnownShape(Append(hist, OpTable[i])) =>
                                 act.ci = 1 /\ Append(hist, OpTable[i]) \in {<<OpTable[22], OpTable[1]>>, <<OpTable[22], OpTable[2]>>})
      /\ phase' = "open"
   \/ /\ phase = "open" /\ Destroy /\ act' = [NoAct EXCEPT !.n = "Destroy"] /\ phase' = "done"
   \/ /\ phase = "init"
      /\ \E i \in MacroIdx : LET t == MacroTable[i] c == CreateTable[t.c] IN
            /\ \E res \in {"ok", "exception"} : MacroLog(t.m, c.by, c.ids, c.name, t.mlvl, t.obj, OpsOf(t.ops), c.file, c.proto, c.line, ScopedOf(i), res)
            /\ act' = [NoAct EXCEPT !.n = "Macro", !.m = t.m, !.by = c.by, !.ids = c.ids, !.name = c.name, !.mlvl = t.mlvl, !.obj = t.obj,
                                    !.ops = OpsOf(t.ops), !.file = c.file, !.proto = c.proto, !.line = c.line, !.scoped = ScopedOf(i)]
      /\ phase' = "done"
   \/ /\ phase = "init"
      /\ \E i \in PrintfIdx : LET t == PrintfTable[i] c == CreateTable[t.c] IN
            /\ PrintfLog(c.by, c.ids, c.name, t.lvl, t.cls, t.fmt, t.args, c.file, c.proto, c.line)
            /\ act' = [NoAct EXCEPT !.n = "Printf", !.by = c.by, !.ids = c.ids, !.name = c.name, !.lvl = t.lvl, !.cls = t.cls, !.fmt = t.fmt,
                                    !.args = t.args, !.file = c.file, !.proto = c.proto, !.line = c.line]
      /\ phase' = "done"
   \/ /\ phase = "init" /\ cfg.site.mk = "none"
      /\ \/ \E d \in {"l2t", "c2t"} : \E n \in 0..6 : Conv(d, n, E) /\ act' = [NoAct EXCEPT !.n = "Conv", !.d = d, !.cn = n]
         \/ \E d \in {"t2l", "t2c"} : \E s \in ConvTexts : Conv(d, 0, s) /\ act' = [NoAct EXCEPT !.n = "Conv", !.d = d, !.cs = s]
         \/ \E i \in 1..Len(CreateTable) : LET c == CreateTable[i] IN Len(c.ids) <= 1 /\ (c.by = "ids" => c.ids # E) /\
               GetLog(c.by, c.ids, c.name) /\ act' = [NoAct EXCEPT !.n = "GetLog", !.by = c.by, !.ids = c.ids, !.name = c.name]
      /\ phase' = "done"
   \/ /\ phase \in {"init", "pass"} /\ np < MaxPass
      /\ \E i \in {2, 3, 4} : LET c == CreateTable[i] IN
            /\ Pass(c.by, c.ids, c.name, PassOps, c.file, c.proto, c.line)
            /\ act' = [NoAct EXCEPT !.n = "Pass", !.by = c.by, !.ids = c.ids, !.name = c.name, !.ops = PassOps, !.file = c.file,
                                    !.proto = c.proto, !.line = c.line]
      /\ phase' = "pass"
MCSpec == MCInit /\ [][MCNext]_<<vars, act, phase>>

\* ---- properties of the bounded model
RoundTripOK == RoundTrip
\* a message is delivered to every selected log that passes its level, and only there
OnlySelected == out.kind \in {"deliver", "macro", "printf", "pass"} =>
                   \A d \in out.set : d.log \in 1..Len(cfg.logs) /\ LogPasses(cfg, d.log, d.m.lvl)

St(s, h, o, p, w, ph) == [sl |-> s, hist |-> h, out |-> o.kind, np |-> p, nw |-> w, ph |-> ph, site |-> cfg.site]
EdgeOut == PrintT("EDGE " \o ToJson([i |-> (act.n = "Init"), pre |-> St(sl, hist, out, np, nw, phase),
                                     a |-> [act' EXCEPT !.ci = 0] @@ [cfg |-> cfg],
                                     post |-> St(sl', hist', out', np', nw', phase')]))
=============================================================================
