---------------------------- MODULE LogMacros ----------------------------
(* Creation of log messages through the log macros and streams of celma::log (extension component X02):   *)
(* detail::StreamLog (the object behind LOG / LOG_ATTR / LOG_LEVEL / LOG_LEVEL_ATTR), detail::LogMsg,      *)
(* detail::printf (LOG_PRINTF), the call-point macros LOG_LEVEL_ONCE / _MAX / _AFTER / _EVERY, GET_LOG,    *)
(* the level / class text conversions of log_defs.hpp; the function name of a message is FuncName.tla.     *)
(*                                                                                                         *)
(* One action per public operation.  A stream log is created for log ids or a log name at a source         *)
(* location, takes operations (level, class, error number, text pieces, attribute pieces, an attribute      *)
(* object, clear, an exception) and delivers exactly one message to every selected log when it is          *)
(* destroyed.  The object has no observers: what the public API exposes is the delivered message.          *)
(* Two formulations: the actions update the record sl (operational); Decl(hist, ..) computes the same       *)
(* record from the ghost history of operations (declarative); OpDeclAgree compares them in every state.     *)
(* docs/notes_logmacros.md lists, per clause, the documentation sentence it is taken from.                  *)
EXTENDS FuncName

VARIABLES cfg,     \* configuration of the execution, fixed by Init / Reset:
                   \*   logs  : sequence of [name, max]: log k has id bit k-1; max = level of its maximum-level filter, 0 = none
                   \*   gattrs: global attributes (Logging::addAttribute), sequence of [n, v], oldest first
                   \*   outer, inner: two LogAttributes objects, sequences of [n, v]; inner's parent is outer
                   \*   site  : [mk, m] call-point macro of this execution ("none": no such macro) and its parameter
          sl,      \* the stream log under construction (NoSL: there is none)
          hist,    \* ghost: operations applied to sl since it was created
          np, nw,  \* call-point macro: how often the call point was passed / how many messages it created
          out      \* what the last action delivered or returned
vars == <<cfg, sl, hist, np, nw, out>>

\* ------------------------------------------------------------------ texts
Digits(n) == LET D[k \in 0..n] == IF k < 10 THEN <<48 + k>> ELSE D[k \div 10] \o <<48 + (k % 10)>> IN D[n]
Dec(n) == IF n < 0 THEN <<45>> \o Digits(0 - n) ELSE Digits(n)
HexChars == <<48,49,50,51,52,53,54,55,56,57,97,98,99,100,101,102>>
Hex(n) == LET H[k \in 0..n] == IF k < 16 THEN <<HexChars[k + 1]>> ELSE H[k \div 16] \o <<HexChars[(k % 16) + 1]>> IN H[n]
Rep(c, k) == [i \in 1..k |-> c]
\* display texts of log_defs.hpp, index = value + 1
LevelText ==
  <<
   <<117,110,100,101,102,105,110,101,100>>,   \* 1: "undefined"
   <<70,97,116,97,108,32,69,114,114,111,114>>,   \* 2: "Fatal Error"
   <<69,114,114,111,114>>,   \* 3: "Error"
   <<87,97,114,110,105,110,103>>,   \* 4: "Warning"
   <<73,110,102,111>>,   \* 5: "Info"
   <<68,101,98,117,103>>,   \* 6: "Debug"
   <<70,117,108,108,32,68,101,98,117,103>>    \* 7: "Full Debug"
  >>
ClassText ==
  <<
   <<117,110,100,101,102,105,110,101,100>>,   \* 1: "undefined"
   <<83,121,115,67,97,108,108>>,   \* 2: "SysCall"
   <<68,97,116,97>>,   \* 3: "Data"
   <<67,111,109,109,117,110,105,99,97,116,105,111,110>>,   \* 4: "Communication"
   <<65,112,112,108,105,99,97,116,105,111,110>>,   \* 5: "Application"
   <<65,99,99,111,117,110,116,105,110,103>>,   \* 6: "Accounting"
   <<79,112,101,114,97,116,111,114,32,65,99,116,105,111,110>>    \* 7: "Operator Action"
  >>
\* a level written into a stream: "<display text> (<value>)"
LevelStreamed(n) == LevelText[n + 1] \o <<32, 40>> \o Dec(n) \o <<41>>

\* file name without directories
RECURSIVE LastSlash(_, _)
LastSlash(f, i) == IF i = 0 THEN 0 ELSE IF f[i] = 47 THEN i ELSE LastSlash(f, i - 1)
Basename(f) == SubSeq(f, LastSlash(f, Len(f)) + 1, Len(f))

\* decimal text (optional sign) -> number
RECURSIVE DigitsVal(_, _, _)
DigitsVal(s, i, acc) == IF i > Len(s) THEN acc ELSE DigitsVal(s, i + 1, acc * 10 + (s[i] - 48))
ParseInt(s) == IF s # <<>> /\ s[1] = 45 THEN 0 - DigitsVal(s, 2, 0) ELSE DigitsVal(s, 1, 0)

\* ------------------------------------------------------------------ printf-like formatting (LOG_PRINTF)
\* directives: %% and %[-][0][width]{d,i,u,x,c,s}; args: sequence of [k |-> "i", n] (int, also for %c) / [k |-> "s", s]
PadTo(body, w, left, zero, numeric) ==
   IF Len(body) >= w THEN body
   ELSE IF left THEN body \o Rep(32, w - Len(body))
   ELSE IF zero /\ numeric THEN (IF body[1] = 45 THEN <<45>> \o Rep(48, w - Len(body)) \o Tail(body)
                                  ELSE Rep(48, w - Len(body)) \o body)
   ELSE Rep(32, w - Len(body)) \o body
RECURSIVE WidthEnd(_, _)
WidthEnd(f, i) == IF i <= Len(f) /\ IsDigit(f[i]) THEN WidthEnd(f, i + 1) ELSE i
RECURSIVE FormatFrom(_, _, _, _)
FormatFrom(f, i, args, a) ==
   IF i > Len(f) THEN <<>>
   ELSE IF f[i] # 37 THEN <<f[i]>> \o FormatFrom(f, i + 1, args, a)
   ELSE IF f[i+1] = 37 THEN <<37>> \o FormatFrom(f, i + 2, args, a)
   ELSE LET left == f[i+1] = 45
            j1   == IF left THEN i + 2 ELSE i + 1
            zero == f[j1] = 48
            j2   == IF zero THEN j1 + 1 ELSE j1
            j3   == WidthEnd(f, j2)
            w    == IF j3 = j2 THEN 0 ELSE ParseInt(SubSeq(f, j2, j3 - 1))
            cv   == f[j3]
            arg  == args[a]
            body == CASE cv \in {100, 105, 117} -> Dec(arg.n)          \* d i u
                      [] cv = 120 -> Hex(arg.n)                        \* x
                      [] cv = 99  -> <<arg.n>>                         \* c
                      [] cv = 115 -> arg.s                             \* s
        IN PadTo(body, w, left, zero, cv \in {100, 105, 117, 120}) \o FormatFrom(f, j3 + 1, args, a + 1)
Format(f, args) == FormatFrom(f, 1, args, 1)

\* ------------------------------------------------------------------ level / class <-> text
Lower(c) == IF c >= 65 /\ c <= 90 THEN c + 32 ELSE c
LowerSeq(s) == [i \in 1..Len(s) |-> Lower(s[i])]
\* text -> value: the value whose display text is given; a text that differs only in case may be recognised or not
\* (documentation silent); any other text: undefined
TextToValues(table, s) ==
   LET exact == {v \in 0..6 : table[v + 1] = s}
       nocase == {v \in 0..6 : LowerSeq(table[v + 1]) = LowerSeq(s)}
   IN IF exact # {} THEN exact ELSE IF nocase # {} THEN nocase \cup {0} ELSE {0}
RoundTrip == \A v \in 0..6 : TextToValues(LevelText, LevelText[v + 1]) = {v} /\ TextToValues(ClassText, ClassText[v + 1]) = {v}

\* ------------------------------------------------------------------ attributes
NewestValue(es, name) == LET I == {i \in 1..Len(es) : es[i].n = name}
                         IN IF I = {} THEN <<>> ELSE es[CHOOSE i \in I : \A j \in I : j <= i].v
\* value an attributes object gives (obj: 0 none, 1 outer, 2 inner whose parent is outer)
ObjValue(c, obj, name) == CASE obj = 0 -> <<>>
                            [] obj = 1 -> NewestValue(c.outer, name)
                            [] obj = 2 -> IF NewestValue(c.inner, name) # <<>> THEN NewestValue(c.inner, name)
                                          ELSE NewestValue(c.outer, name)
\* value for a text piece: the message's attributes object first, then the global attributes
PieceValue(c, obj, name) == IF ObjValue(c, obj, name) # <<>> THEN ObjValue(c, obj, name) ELSE NewestValue(c.gattrs, name)

\* ------------------------------------------------------------------ the stream log
NoSL == [open |-> FALSE]
\* rd: how a level passed behind an explicitly set level is read ("Sets the log level for the current message" says the
\* operator's description, "seems that user wants to write a log level into the log message" says the comment in its body):
\* "open" until it matters, then "set" or "text" for the rest of this message
NewSL(by, ids, name, file, proto, line) ==
   [open |-> TRUE, by |-> by, ids |-> ids, name |-> name, file |-> file, proto |-> proto, line |-> line, rd |-> "open",
    lvl |-> 0, lset |-> FALSE, cls |-> 0, err |-> 0, text |-> <<>>, obj |-> 0]
Op(k, n, s, f, p) == [k |-> k, n |-> n, s |-> s, f |-> f, p |-> p]
TextKinds == {"str", "cstr", "oss", "chr", "int", "uns", "long", "bool", "attr"}
\* an exception passed as CelmaRuntimeError, CelmaLogicError, ExceptionBase
ExcKinds == {"exc", "excl", "excb"}
\* text a piece contributes, given the attributes object (obj) of s; numbers and booleans as a std::ostream shows them
\* (manipulators like std::hex cannot be passed to a stream log)
PieceText(c, s, op) ==
   CASE op.k \in {"str", "cstr", "oss"} -> op.s
     [] op.k = "chr" -> <<op.n>>
     [] op.k \in {"int", "uns", "long"} -> Dec(op.n)
     [] op.k = "bool" -> Dec(op.n)
     [] op.k = "attr" -> PieceValue(c, s.obj, op.s)
\* the set of records one operation can lead to (more than one only when the reading of a second level is decided)
Outcomes(c, s, op) ==
   CASE op.k = "lvl" ->
          IF ~s.lset THEN {[s EXCEPT !.lvl = op.n, !.lset = (op.n # 0)]}
          ELSE (IF s.rd \in {"open", "set"} THEN {[s EXCEPT !.lvl = op.n, !.rd = "set"]} ELSE {})
               \cup (IF s.rd \in {"open", "text"} THEN {[s EXCEPT !.text = @ \o LevelStreamed(op.n), !.rd = "text"]} ELSE {})
     [] op.k = "cls" -> {[s EXCEPT !.cls = op.n]}
     [] op.k = "err" -> {[s EXCEPT !.err = op.n]}
     [] op.k = "errs" -> {[s EXCEPT !.err = ParseInt(op.s)]}
     [] op.k \in TextKinds -> {[s EXCEPT !.text = @ \o PieceText(c, s, op)]}
     [] op.k = "setattr" -> {[s EXCEPT !.obj = op.n]}
     [] op.k = "clear" -> {[s EXCEPT !.text = <<>>]}
     [] op.k \in ExcKinds -> {[s EXCEPT !.lvl = IF @ = 0 THEN 2 ELSE @, !.cls = IF @ = 0 THEN 1 ELSE @,
                                   !.file = op.f, !.proto = op.p, !.line = op.n, !.text = @ \o op.s]}

\* ---- declarative: the record as a function of the history h of operations
LastIdx(h, K) == LET I == {i \in 1..Len(h) : h[i].k \in K} IN IF I = {} THEN 0 ELSE CHOOSE i \in I : \A j \in I : j <= i
ExcAfter(h, j) == \E i \in (j + 1)..Len(h) : h[i].k \in ExcKinds
\* value of a property with "not set" value 0 that an exception defaults to dflt when it is not set
LastOrDefault(h, kind, dflt) == LET j == LastIdx(h, {kind})
                                IN IF j # 0 /\ h[j].n # 0 THEN h[j].n ELSE IF ExcAfter(h, j) THEN dflt ELSE 0
\* index of the operation that sets the level explicitly for the first time (0: none)
FirstSet(h) == LET I == {i \in 1..Len(h) : h[i].k = "lvl" /\ h[i].n # 0} IN IF I = {} THEN 0 ELSE CHOOSE i \in I : \A j \in I : i <= j
DeclLevel(h, rd) == IF rd = "text" /\ FirstSet(h) # 0 THEN h[FirstSet(h)].n ELSE LastOrDefault(h, "lvl", 2)
\* levels behind the first explicit one are text pieces in the reading "text"
IsLevelText(h, rd, i) == rd = "text" /\ h[i].k = "lvl" /\ FirstSet(h) # 0 /\ i > FirstSet(h)
DeclObj(h, i) == LET j == LastIdx(SubSeq(h, 1, i - 1), {"setattr"}) IN IF j = 0 THEN 0 ELSE h[j].n
DeclText(c, h, rd) ==
   LET from == LastIdx(h, {"clear"}) + 1
       P[i \in from..(Len(h) + 1)] ==
          IF i > Len(h) THEN <<>>
          ELSE (IF h[i].k \in TextKinds
                  THEN PieceText(c, [obj |-> DeclObj(h, i)], h[i])
                ELSE IF h[i].k \in ExcKinds THEN h[i].s
                ELSE IF IsLevelText(h, rd, i) THEN LevelStreamed(h[i].n)
                ELSE <<>>) \o P[i + 1]
   IN P[from]
\* reading that the history fixes: "open" while no level was passed behind an explicit one
Decl(c, s0, h, rd) ==
   LET e == LastIdx(h, ExcKinds)
       er == LastIdx(h, {"err", "errs"})
       n == Len(h) + 1
   IN [s0 EXCEPT !.rd = rd, !.lvl = DeclLevel(h, rd), !.lset = (FirstSet(h) # 0), !.cls = LastOrDefault(h, "cls", 1),
                 !.err = IF er = 0 THEN 0 ELSE IF h[er].k = "err" THEN h[er].n ELSE ParseInt(h[er].s),
                 !.text = DeclText(c, h, rd), !.obj = DeclObj(h, n),
                 !.file = IF e = 0 THEN s0.file ELSE h[e].f, !.proto = IF e = 0 THEN s0.proto ELSE h[e].p,
                 !.line = IF e = 0 THEN s0.line ELSE h[e].n]

\* ------------------------------------------------------------------ delivery
BitSet(ids) == {ids[i] : i \in 1..Len(ids)}
Selected(c, by, ids, name) == IF by = "ids" THEN {k \in 1..Len(c.logs) : (k - 1) \in BitSet(ids)}
                              ELSE {k \in 1..Len(c.logs) : c.logs[k].name = name}
\* a log with a maximum-level filter passes levels up to that level
LogPasses(c, k, lvl) == c.logs[k].max = 0 \/ lvl <= c.logs[k].max
\* the message record a destination sees (func / func2: the two readings of the function name, see FuncName.tla)
Msg(file, proto, line, lvl, cls, err, text, obj) ==
   [file |-> Basename(file), func |-> ScanName(proto), func2 |-> ShortScanName(proto), line |-> line, lvl |-> lvl, cls |-> cls, err |-> err, text |-> text, obj |-> obj]
MsgOf(s) == Msg(s.file, s.proto, s.line, s.lvl, s.cls, s.err, s.text, s.obj)
Deliveries(c, by, ids, name, m) == {[log |-> k, m |-> m] : k \in {j \in Selected(c, by, ids, name) : LogPasses(c, j, m.lvl)}}
\* a stream log without text delivers nothing
StreamDeliveries(c, s) == IF s.text = <<>> THEN {} ELSE Deliveries(c, s.by, s.ids, s.name, MsgOf(s))
\* the level pre-check of the LOG_LEVEL.. macros: the (single) log does not exist or does not pass the level
Discards(c, by, ids, name, lvl) == \A k \in Selected(c, by, ids, name) : ~LogPasses(c, k, lvl)

\* ------------------------------------------------------------------ actions
NoOut == [kind |-> "none"]
NoTarget(by, ids, name) == (by = "ids" /\ ids = <<>>) \/ (by = "name" /\ name = <<>>)
\* StreamLog( ids | name, file, function, line).  No log id / an empty name: the documentation names no outcome
\* (the constructors are noexcept( false)); refused or accepted (then nothing can be delivered)
Create(by, ids, name, file, proto, line, res) ==
   /\ ~sl.open
   /\ cfg.site.mk = "none"
   /\ IF NoTarget(by, ids, name)
      THEN \/ res = "exception" /\ sl' = NoSL
           \/ res = "ok" /\ sl' = NewSL(by, ids, name, file, proto, line)
      ELSE res = "ok" /\ sl' = NewSL(by, ids, name, file, proto, line)
   /\ hist' = <<>>
   /\ out' = [kind |-> "create", res |-> res]
   /\ UNCHANGED <<cfg, np, nw>>
\* sl << piece / level / class / errnbr << n / attributes object / clear / exception
StreamOp(op) ==
   /\ sl.open
   /\ sl' \in Outcomes(cfg, sl, op)
   /\ hist' = Append(hist, op)
   /\ out' = [kind |-> "op"]
   /\ UNCHANGED <<cfg, np, nw>>
\* ~StreamLog(): exactly one message to every selected log that passes it
Destroy ==
   /\ sl.open
   /\ out' = [kind |-> "deliver", set |-> StreamDeliveries(cfg, sl)]
   /\ sl' = NoSL /\ hist' = <<>>
   /\ UNCHANGED <<cfg, np, nw>>

RECURSIVE RunOps(_, _, _)
\* all records a sequence of operations can lead to
RunOps(c, S, ops) == IF ops = <<>> THEN S ELSE RunOps(c, UNION {Outcomes(c, s, ops[1]) : s \in S}, Tail(ops))
\* the macros LOG( a) << .., LOG_ATTR( a, attr) << .., LOG_LEVEL( a, l) << .., LOG_LEVEL_ATTR( a, l, attr) << ..
\* in one statement: create, apply the operations, destroy.  LOG_LEVEL..: nothing is created (and no operand evaluated)
\* when the pre-check discards the level; otherwise the level is already set and the attributes object attached.
MacroOps(m, mlvl, obj, ops) ==
   CASE m = "LOG" -> ops
     [] m = "LOG_ATTR" -> <<Op("setattr", obj, <<>>, <<>>, <<>>)>> \o ops
     [] m = "LOG_LEVEL" -> <<Op("lvl", mlvl, <<>>, <<>>, <<>>)>> \o ops
     [] m = "LOG_LEVEL_ATTR" -> <<Op("lvl", mlvl, <<>>, <<>>, <<>>), Op("setattr", obj, <<>>, <<>>, <<>>)>> \o ops
MacroSets(c, m, by, ids, name, mlvl, obj, ops, file, proto, line) ==
   IF m \in {"LOG_LEVEL", "LOG_LEVEL_ATTR"} /\ Discards(c, by, ids, name, mlvl) THEN {[evald |-> FALSE, set |-> {}]}
   ELSE {[evald |-> TRUE, set |-> StreamDeliveries(c, s)] :
            s \in RunOps(c, {NewSL(by, ids, name, file, proto, line)}, MacroOps(m, mlvl, obj, ops))}
\* scoped: the attributes of LOG_ATTRIBUTE( n, v) objects that live around the statement, outermost first ("The log
\* attribute is accessible while the object exists": they count as the newest global attributes)
MacroLog(m, by, ids, name, mlvl, obj, ops, file, proto, line, scoped, res) ==
   /\ ~sl.open /\ cfg.site.mk = "none"
   /\ \/ /\ res = "ok"
         /\ \E r \in MacroSets([cfg EXCEPT !.gattrs = @ \o scoped], m, by, ids, name, mlvl, obj, ops, file, proto, line) :
               out' = [kind |-> "macro", evald |-> r.evald, set |-> r.set]
      \/ /\ res = "exception" /\ NoTarget(by, ids, name)            \* as for Create: refused, nothing is delivered
         /\ \E b \in BOOLEAN : out' = [kind |-> "macro", evald |-> b, set |-> {}]
   /\ UNCHANGED <<cfg, sl, hist, np, nw>>
\* detail::printf( file, function, line, log, level, class, format, ...) = LOG_PRINTF.  A message whose text is
\* empty: delivered or not (only the stream log documents that messages without text are discarded).
PrintfLog(by, ids, name, lvl, cls, fmt, args, file, proto, line) ==
   /\ ~sl.open /\ cfg.site.mk = "none"
   /\ LET t == Format(fmt, args)
          d == Deliveries(cfg, by, ids, name, Msg(file, proto, line, lvl, cls, 0, t, 0))
      IN \/ out' = [kind |-> "printf", set |-> d]
         \/ t = <<>> /\ out' = [kind |-> "printf", set |-> {}]
   /\ UNCHANGED <<cfg, sl, hist, np, nw>>
\* the call-point macros (one call point per execution, level 'info', parameter cfg.site.m): the call point is passed once
\*   once : creates the message at most once;  max : at most m times;  after : only when the call point has been
\*   passed at least m times before;  every : every m-th time.  A pass whose level the pre-check discards creates
\*   nothing; for 'max' the documentation does not say whether such a pass counts, both readings are allowed.
PassWrites(mk, m, passed, written, disc) ==
   IF disc THEN {FALSE}
   ELSE CASE mk = "once"  -> {written = 0}
          [] mk = "max"   -> IF passed < m THEN {TRUE} ELSE IF written >= m THEN {FALSE} ELSE {TRUE, FALSE}
          [] mk = "after" -> {passed >= m}
          [] mk = "every" -> {(passed + 1) % m = 0}
Pass(by, ids, name, ops, file, proto, line) ==
   /\ cfg.site.mk # "none"
   /\ \E w \in PassWrites(cfg.site.mk, cfg.site.m, np, nw, Discards(cfg, by, ids, name, 4)) :
         /\ nw' = IF w THEN nw + 1 ELSE nw
         /\ IF w THEN \E r \in MacroSets(cfg, "LOG_LEVEL", by, ids, name, 4, 0, ops, file, proto, line) :
                         out' = [kind |-> "pass", evald |-> TRUE, set |-> r.set]
            ELSE out' = [kind |-> "pass", evald |-> FALSE, set |-> {}]
   /\ np' = np + 1
   /\ UNCHANGED <<cfg, sl, hist>>
\* logLevel2text / text2logLevel / logClass2text / text2logClass
Conv(d, n, s) ==
   /\ \/ d = "l2t" /\ n \in 0..6 /\ out' = [kind |-> "conv", rn |-> 0, rs |-> LevelText[n + 1]]
      \/ d = "c2t" /\ n \in 0..6 /\ out' = [kind |-> "conv", rn |-> 0, rs |-> ClassText[n + 1]]
      \/ d = "t2l" /\ \E v \in TextToValues(LevelText, s) : out' = [kind |-> "conv", rn |-> v, rs |-> <<>>]
      \/ d = "t2c" /\ \E v \in TextToValues(ClassText, s) : out' = [kind |-> "conv", rn |-> v, rs |-> <<>>]
   /\ UNCHANGED <<cfg, sl, hist, np, nw>>
\* GET_LOG( id | name): the log object or NULL
GetLog(by, ids, name) ==
   /\ out' = [kind |-> "getlog", found |-> (Selected(cfg, by, ids, name) # {})]
   /\ UNCHANGED <<cfg, sl, hist, np, nw>>

\* ------------------------------------------------------------------ properties
\* operational and declarative formulation agree (the reading is "open" exactly while the history does not need one)
NeedsReading(h) == FirstSet(h) # 0 /\ \E i \in (FirstSet(h) + 1)..Len(h) : h[i].k = "lvl"
OpDeclAgree == sl.open =>
   LET s0 == NewSL(sl.by, sl.ids, sl.name, <<>>, <<>>, 0) IN
   /\ (sl.rd = "open") = ~NeedsReading(hist)
   /\ [sl EXCEPT !.file = <<>>, !.proto = <<>>, !.line = 0] = [Decl(cfg, s0, hist, sl.rd) EXCEPT !.file = <<>>, !.proto = <<>>, !.line = 0]
   /\ (LastIdx(hist, ExcKinds) # 0 => LET e == hist[LastIdx(hist, ExcKinds)] IN sl.file = e.f /\ sl.proto = e.p /\ sl.line = e.n)
\* a delivered message: exactly one per selected log, carrying a clean function name and the file name without path
DeliveredOK == out.kind \in {"deliver", "macro", "printf", "pass"} =>
   /\ \A d1 \in out.set : \A d2 \in out.set : d1.log = d2.log => d1 = d2
   /\ \A d \in out.set : 47 \notin {d.m.file[i] : i \in 1..Len(d.m.file)}
\* messages the call-point macros create never exceed their bounds
CallPointOK == /\ nw <= np
               /\ (cfg.site.mk = "once" => nw <= 1)
               /\ (cfg.site.mk = "max" => nw <= cfg.site.m)
               /\ (cfg.site.mk = "after" => nw <= IF np > cfg.site.m THEN np - cfg.site.m ELSE 0)
               /\ (cfg.site.mk = "every" => nw <= np \div cfg.site.m)
=============================================================================
