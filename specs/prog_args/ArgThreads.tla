------------------------------- MODULE ArgThreads -------------------------------
(* Independent handlers used concurrently (property C09).  Each thread t owns its handler, *)
(* its list separator sep[t] and its value text txt[t]; splitting a value list takes three *)
(* steps (the separator is written to a one-character string cell, the tokenizer copies it *)
(* from there, the text is split).  In the design every thread has its own cell.  With     *)
(* SharedCell = TRUE all threads use ONE process-wide cell - the model of a function-local *)
(* static buffer - and TLC exhibits the interleaving in which a thread splits its list at  *)
(* another thread's separator (negative instance, must violate Isolation).                 *)
EXTENDS ArgEval
CONSTANTS N, SharedCell
VARIABLES pc, cell, got, res
Threads == 1..N
Sep(t) == <<44, 59, 58, 43>>[((t - 1) % 4) + 1]                 \* , ; : +
Txt(t) == <<49, Sep(t), 50, Sep(((t) % N) + 1), 51>>              \* "1<own>2<other's>3"
CellOf(t) == IF SharedCell THEN 1 ELSE t
Init == /\ pc = [t \in Threads |-> "write"]
        /\ cell = [c \in Threads |-> 0]
        /\ got = [t \in Threads |-> 0]
        /\ res = [t \in Threads |-> <<>>]
WriteSep(t) == pc[t] = "write" /\ cell' = [cell EXCEPT ![CellOf(t)] = Sep(t)] /\ pc' = [pc EXCEPT ![t] = "read"] /\ UNCHANGED <<got, res>>
ReadSep(t)  == pc[t] = "read" /\ got' = [got EXCEPT ![t] = cell[CellOf(t)]] /\ pc' = [pc EXCEPT ![t] = "split"] /\ UNCHANGED <<cell, res>>
Split(t)    == pc[t] = "split" /\ res' = [res EXCEPT ![t] = SplitAt(Txt(t), got[t])] /\ pc' = [pc EXCEPT ![t] = "done"] /\ UNCHANGED <<cell, got>>
Next == \E t \in Threads : WriteSep(t) \/ ReadSep(t) \/ Split(t)
Spec == Init /\ [][Next]_<<pc, cell, got, res>>
\* every thread observes exactly what it would observe running alone
Isolation == \A t \in Threads : pc[t] = "done" => res[t] = SplitAt(Txt(t), Sep(t))
\* no two threads access the same cell (one of them writing): data-race freedom of the modelled state
NoSharedWrite == \A t, u \in Threads : t # u /\ pc[t] \in {"write", "read"} /\ pc[u] \in {"write", "read"} => CellOf(t) # CellOf(u)
=============================================================================
