------------------------------- MODULE MCArgSplit -------------------------------
(* Bounded instance: all lists of up to MaxWords non-empty words of up to MaxLen characters over *)
(* {a, blank, ', ", \}, every quoting scheme per word, one or two blanks between words, optional *)
(* leading/trailing blanks.  The scanner is stepped one character at a time; at the end the      *)
(* words found must be exactly the original ones (quoting is inverted).                          *)
EXTENDS ArgSplit, TLC, Json
CONSTANTS MaxWords, MaxLen, MaxGap
VARIABLES ws, sch, gaps, trail, sc, k
Alpha == {97, Blank, SQuote, DQuote, BSlash}
WordSet == UNION {[1..n -> Alpha] : n \in 1..MaxLen}
Cmd == JoinWords(ws, sch, gaps, trail)
MCInit == /\ ws \in UNION {[1..n -> WordSet] : n \in 0..MaxWords}
          /\ sch \in [1..Len(ws) -> Schemes]
          /\ gaps \in {g \in [1..Len(ws) -> 0..MaxGap] : \A j \in 2..Len(ws) : g[j] >= 1}
          /\ trail \in 0..1
          /\ sc = ScanInit /\ k = 1
MCNext == /\ k <= Len(Cmd) + 1
          /\ IF k <= Len(Cmd) THEN sc' = ScanChar(sc, Cmd[k]) ELSE sc' = [sc EXCEPT !.out = ScanFinish(sc), !.cur = <<>>]
          /\ k' = k + 1
          /\ UNCHANGED <<ws, sch, gaps, trail>>
MCSpec == MCInit /\ [][MCNext]_<<ws, sch, gaps, trail, sc, k>>
Done == k = Len(Cmd) + 2
\* C07 first clause: splitting inverts quoting
Inverts == Done => sc.out = ws
\* the scanner never loses an open state at the end for well-formed input
Balanced == Done => ~sc.inq /\ ~sc.bs
\* step function and closure coincide
ClosureOK == Done => SplitStr(Cmd) = sc.out
EdgeOut == IF k' = Len(Cmd) + 2 THEN PrintT("EDGE " \o ToJson([i |-> TRUE, pre |-> 0, post |-> 1, a |-> [cmd |-> Cmd, words |-> ws]])) ELSE TRUE
=============================================================================
