------------------------------- MODULE ArgEval -------------------------------
(* Evaluation of a command line by celma::prog_args::Handler.                     *)
(* Operational layer: the documented algorithm as a deterministic step function   *)
(* on a state record (cursor of the argv tokenizer, last argument, destinations,  *)
(* pending dynamic constraints, history of uses).  One step = one call of         *)
(* evalSingleArgument, the final step = the end-of-line checks.                   *)
(* Texts are sequences of byte codes.  A configuration cfg is a record (see       *)
(* docs/notes_prog_args.md for the JSON form the driver reads).                   *)
EXTENDS Integers, Sequences, FiniteSets, TLC, ArgSplit

\* ---------------------------------------------------------------- characters
Dash == 45
EqSign == 61
Plus == 43
CtrlChars == {40, 41, 33}            \* ( ) !
IsDigit(c) == c >= 48 /\ c <= 57
IsLower(c) == c >= 97 /\ c <= 122
IsUpper(c) == c >= 65 /\ c <= 90
ToUpper(t) == [k \in 1..Len(t) |-> IF IsLower(t[k]) THEN t[k] - 32 ELSE t[k]]
ToLower(t) == [k \in 1..Len(t) |-> IF IsUpper(t[k]) THEN t[k] + 32 ELSE t[k]]
Tail2(t, from) == IF from > Len(t) THEN <<>> ELSE SubSeq(t, from, Len(t))
IsPrefixOf(p, t) == Len(p) <= Len(t) /\ SubSeq(t, 1, Len(p)) = p
PosOf(t, c) == IF \E k \in 1..Len(t) : t[k] = c THEN CHOOSE k \in 1..Len(t) : t[k] = c /\ \A j \in 1..(k-1) : t[j] # c ELSE 0
SeqToSet(s) == {s[k] : k \in 1..Len(s)}

\* split at a separator, dropping empty elements (tokenizer semantics)
RECURSIVE SplitAt(_, _)
SplitAt(t, sep) ==
   IF Len(t) = 0 THEN <<>>
   ELSE LET p == PosOf(t, sep) IN
        IF p = 0 THEN <<t>>
        ELSE IF p = 1 THEN SplitAt(Tail2(t, 2), sep)
        ELSE <<SubSeq(t, 1, p - 1)>> \o SplitAt(Tail2(t, p + 1), sep)

\* ---------------------------------------------------------------- integers
\* decimal text of an int (lexical_cast<int>): optional sign, at least one digit, fits 32 bits.
\* TLC integers are 32 bit: magnitudes are compared digit-wise before anything is multiplied.
Digits(t) == IF Len(t) > 0 /\ (t[1] = Dash \/ t[1] = Plus) THEN Tail2(t, 2) ELSE t
RECURSIVE StripZeros(_)
StripZeros(d) == IF Len(d) > 1 /\ d[1] = 48 THEN StripZeros(Tail2(d, 2)) ELSE d
MaxMag == <<50, 49, 52, 55, 52, 56, 51, 54, 52, 55>>      \* 2147483647
RECURSIVE LexLeq(_, _)
LexLeq(a, b) == IF Len(a) = 0 THEN TRUE
                ELSE IF a[1] < b[1] THEN TRUE
                ELSE IF a[1] > b[1] THEN FALSE
                ELSE LexLeq(Tail2(a, 2), Tail2(b, 2))
IsIntText(t) ==
   LET d == Digits(t) IN
   /\ Len(d) > 0
   /\ \A k \in 1..Len(d) : IsDigit(d[k])
   /\ LET z == StripZeros(d) IN
      \/ Len(z) < 10
      \/ Len(z) = 10 /\ LexLeq(z, MaxMag)       \* -2147483648 is left out of the domain
\* a decimal number of any size
IsNumText(t) == Len(Digits(t)) > 0 /\ \A k \in 1..Len(Digits(t)) : IsDigit(Digits(t)[k])
RECURSIVE MagOf(_, _)
MagOf(d, acc) == IF Len(d) = 0 THEN acc ELSE MagOf(Tail2(d, 2), acc * 10 + (d[1] - 48))
IntOf(t) == LET m == MagOf(StripZeros(Digits(t)), 0) IN IF t[1] = Dash THEN 0 - m ELSE m

\* floating-point destinations: the modelled texts are decimals with at most two fractional digits that
\* are multiples of 1/4 (exactly representable); the value is carried as the number of quarters.
Dot == 46
FracQuarters(f) == IF f = <<>> \/ f = <<48>> \/ f = <<48, 48>> THEN 0
                   ELSE IF f = <<50, 53>> THEN 1 ELSE IF f = <<53>> \/ f = <<53, 48>> THEN 2 ELSE IF f = <<55, 53>> THEN 3 ELSE -1
IsQuarterText(t) ==
   LET d == Digits(t)
       p == PosOf(d, Dot)
       ip == IF p = 0 THEN d ELSE SubSeq(d, 1, p - 1)
       fp == IF p = 0 THEN <<>> ELSE Tail2(d, p + 1) IN
   /\ Len(ip) > 0 /\ Len(ip) <= 8 /\ \A k \in 1..Len(ip) : IsDigit(ip[k])
   /\ (p = 0 \/ Len(fp) > 0) /\ FracQuarters(fp) >= 0
QuartersOf(t) ==
   LET d == Digits(t)
       p == PosOf(d, Dot)
       ip == IF p = 0 THEN d ELSE SubSeq(d, 1, p - 1)
       fp == IF p = 0 THEN <<>> ELSE Tail2(d, p + 1)
       m == 4 * MagOf(StripZeros(ip), 0) + FracQuarters(fp) IN
   IF t[1] = Dash THEN 0 - m ELSE m

\* ---------------------------------------------------------------- keys (property C05)
\* A key typed on the command line is a short character (kind "s") or a long word (kind "l").
\* Exact keys always win; a proper prefix designates an argument iff abbreviations are enabled
\* and exactly one long key starts with it.
NArgs(cfg) == Len(cfg.args)
\* the handler flag hfEndValues defines the standard argument --endvalues (index NArgs+1 in lookups): it ends the
\* value list of a multi-value argument and takes part in key matching like any other long key
EndValuesKey == <<101, 110, 100, 118, 97, 108, 117, 101, 115>>
EndValuesIdx(cfg) == NArgs(cfg) + 1
LongIdx(cfg) == IF cfg.endvalues THEN 1..(NArgs(cfg) + 1) ELSE 1..NArgs(cfg)
LongKeyOf(cfg, a) == IF a <= NArgs(cfg) THEN cfg.args[a].l ELSE EndValuesKey
ShortMatches(cfg, c) == {a \in 1..NArgs(cfg) : cfg.args[a].s = c}
ExactLong(cfg, w) == {a \in LongIdx(cfg) : LongKeyOf(cfg, a) = w}
PrefixLong(cfg, w) == {a \in LongIdx(cfg) : Len(LongKeyOf(cfg, a)) > 0 /\ IsPrefixOf(w, LongKeyOf(cfg, a))}
\* result: a > 0 argument index, 0 unknown, -1 ambiguous
LookupShort(cfg, c) == IF ShortMatches(cfg, c) = {} THEN 0 ELSE CHOOSE a \in ShortMatches(cfg, c) : TRUE
LookupLong(cfg, w) ==
   IF Len(w) = 1 THEN LookupShort(cfg, w[1])            \* "--x" is the short key x
   ELSE IF ExactLong(cfg, w) # {} THEN CHOOSE a \in ExactLong(cfg, w) : TRUE
   ELSE IF ~cfg.abbr THEN 0
   ELSE IF Cardinality(PrefixLong(cfg, w)) = 1 THEN CHOOSE a \in PrefixLong(cfg, w) : TRUE
   ELSE IF PrefixLong(cfg, w) = {} THEN 0 ELSE -1
PosArg(cfg) == LET P == {a \in 1..NArgs(cfg) : cfg.args[a].pos} IN IF P = {} THEN 0 ELSE CHOOSE a \in P : TRUE

\* ---------------------------------------------------------------- tokenizer (ArgListIterator, property C04)
\* cursor: i = index of the current word, pos = 0 at the start of a word or the index of the next
\* character inside a "-abc" group, nval = the rest of the word is the value after "--key=",
\* dashed = a bare "--" was seen (every further word is a value).
\* Element: [t |-> "end" | "val" | "short" | "long" | "err" | "undef", c, w, i, pos, nval, dashed]
\* "undef": constructs whose meaning the documentation does not fix (control characters, a dash
\* inside a group of short keys): the specification then leaves the outcome open.
El(t, c, w, i, pos, nval, dashed) == [t |-> t, c |-> c, w |-> w, i |-> i, pos |-> pos, nval |-> nval, dashed |-> dashed]
RECURSIVE Elem(_, _, _, _, _, _)
Elem(words, i, pos, nval, dashed, remAsVal) ==
   IF i > Len(words) THEN El("end", 0, <<>>, i, 0, FALSE, dashed)
   ELSE LET w == words[i] IN
   IF nval THEN El("val", 0, Tail2(w, pos), i + 1, 0, FALSE, dashed)
   ELSE IF pos > 0 /\ remAsVal THEN El("val", 0, Tail2(w, pos), i + 1, 0, FALSE, dashed)
   ELSE IF pos > 0 THEN
      IF w[pos] = Dash THEN El("undef", 0, <<>>, i, pos, FALSE, dashed)
      ELSE IF pos = Len(w) THEN El("short", w[pos], <<>>, i + 1, 0, FALSE, dashed)
      ELSE El("short", w[pos], <<>>, i, pos + 1, FALSE, dashed)
   ELSE IF Len(w) = 1 /\ w[1] \in CtrlChars THEN El("undef", 0, <<>>, i, 0, FALSE, dashed)   \* also after "--" (which only covers dashes)
   ELSE IF dashed THEN El("val", 0, w, i + 1, 0, FALSE, dashed)
   ELSE IF Len(w) = 0 \/ w[1] # Dash THEN El("val", 0, w, i + 1, 0, FALSE, dashed)
   ELSE IF Len(w) = 1 THEN El("err", 0, <<>>, i, 0, FALSE, dashed)             \* single dash
   ELSE IF w[2] = Dash THEN
      IF Len(w) = 2 THEN Elem(words, i + 1, 0, FALSE, TRUE, FALSE)             \* bare "--"
      ELSE IF w[3] = Dash THEN El("undef", 0, <<>>, i, 0, FALSE, dashed)       \* three or more dashes: not documented
      ELSE LET name == Tail2(w, 3)
               e == PosOf(name, EqSign) IN
           IF e = 0 THEN El("long", 0, name, i + 1, 0, FALSE, dashed)
           ELSE IF e = 1 THEN El("err", 0, <<>>, i, 0, FALSE, dashed)            \* empty key
           ELSE El("long", 0, SubSeq(name, 1, e - 1), i, 2 + e + 1, TRUE, dashed)
   ELSE IF Len(w) = 2 THEN El("short", w[2], <<>>, i + 1, 0, FALSE, dashed)
   ELSE El("short", w[2], <<>>, i, 3, FALSE, dashed)

\* C04 index clause: a cursor produced by the tokenizer stays inside argv and inside the word
CursorOK(words, st) == /\ st.i >= 1 /\ st.i <= Len(words) + 1
                       /\ st.pos >= 0
                       /\ (st.pos > 0 => st.i <= Len(words) /\ st.pos <= Len(words[st.i]) + 1)

\* ---------------------------------------------------------------- value checks, formats, conversion
\* pattern checks (std::regex, whole value must match): a fixed list of patterns whose languages are given here
\*   1: [a-z]+     2: [0-9]{2,4}     3: a.*z     4: [A-Z][a-z0-9_]*
PatternOK(id, t) ==
   CASE id = 1 -> Len(t) >= 1 /\ \A k \in 1..Len(t) : IsLower(t[k])
     [] id = 2 -> Len(t) >= 2 /\ Len(t) <= 4 /\ \A k \in 1..Len(t) : IsDigit(t[k])
     [] id = 3 -> Len(t) >= 2 /\ t[1] = 97 /\ t[Len(t)] = 122 /\ \A k \in 1..Len(t) : t[k] # 10 /\ t[k] # 13
     [] id = 4 -> Len(t) >= 1 /\ IsUpper(t[1]) /\ \A k \in 2..Len(t) : IsLower(t[k]) \/ IsDigit(t[k]) \/ t[k] = 95
     [] OTHER -> TRUE
CheckOK(ch, raw) ==
   CASE ch.k = "lower"  -> IsIntText(raw) /\ IntOf(raw) >= ch.a                 \* inclusive
     [] ch.k = "upper"  -> IsIntText(raw) /\ IntOf(raw) < ch.a                  \* exclusive
     [] ch.k = "range"  -> IsIntText(raw) /\ IntOf(raw) >= ch.a /\ IntOf(raw) < ch.b
     [] ch.k = "values" -> \E k \in 1..Len(ch.vals) : ch.vals[k] = raw
     [] ch.k = "pattern" -> PatternOK(ch.a, raw)
     [] ch.k = "minlen" -> Len(raw) >= ch.a
     [] ch.k = "maxlen" -> Len(raw) <= ch.a
     [] OTHER -> TRUE
ChecksOK(arg, raw) == \A k \in 1..Len(arg.checks) : CheckOK(arg.checks[k], raw)
\* the same checks applied to a number (level counter: the incremented level is checked before it is stored)
NumCheckOK(ch, n) ==
   CASE ch.k = "lower"  -> n >= ch.a
     [] ch.k = "upper"  -> n < ch.a
     [] ch.k = "range"  -> n >= ch.a /\ n < ch.b
     [] ch.k = "values" -> \E k \in 1..Len(ch.vals) : IsIntText(ch.vals[k]) /\ StripZeros(ch.vals[k]) = ch.vals[k] /\ IntOf(ch.vals[k]) = n
     [] OTHER -> TRUE
NumChecksOK(arg, n) == \A k \in 1..Len(arg.checks) : NumCheckOK(arg.checks[k], n)
RECURSIVE Formatted(_, _, _)
Formatted(fs, k, t) == IF k > Len(fs) THEN t
                       ELSE Formatted(fs, k + 1, IF fs[k] = "upper" THEN ToUpper(t) ELSE IF fs[k] = "lower" THEN ToLower(t) ELSE t)
\* destination kinds.  Containers differ in where a new element is placed and in what they refuse:
\*   back: vector, list, deque, queue (projection of a queue: pop order)      front: forward_list, stack (pop order)
\*   set: ordered, unique        mset: ordered, duplicates kept        pq: priority_queue (pop order: descending)
\*   arr3/sarr3: int[3] / std::array<int,3>, filled from index 0, refuse a 4th element
\*   tup: std::tuple<int,string,int>, exactly three values     bits8: std::bitset<8>, values are bit positions
\*   vecbool / dynbits: std::vector<bool> / container::DynamicBitset: values are bit positions, the destination grows as
\*      needed (by how much is not specified: the projection is the ascending sequence of the positions that are set)
\*   mapsi: std::map<std::string,int> (key-value container): values are pairs "key,value", projection: <<key, value>>
\*      pairs in ascending key order
\*   valint: value argument (DEST_VAR_VALUE) on an int variable: used like a flag, stores arg.setval in the variable of
\*      argument arg.dst (several value arguments may share one variable)
\*   sub: sub-group argument (Handler::addArgument( arg_spec, subGroup, desc)): used like a flag, it enters the handler
\*      described by arg.sub (a configuration of its own); the words that follow are offered to that handler until one of
\*      them is not for it.  Projection: the destinations of the sub-group's arguments, as a nested sequence
IntKinds == {"int", "optint", "level", "vecint", "setint", "listint", "dequeint", "arr3", "sarr3", "fwdint", "msetint",
             "stackint", "queueint", "pqint", "bits8", "vecbool", "dynbits"}
ContKinds == {"vecint", "vecstr", "setint", "listint", "dequeint", "arr3", "sarr3", "fwdint", "msetint",
              "stackint", "queueint", "pqint", "tup", "bits8", "vecbool", "dynbits", "mapsi"}
ArrKinds == {"arr3", "sarr3"}
GrowBitKinds == {"vecbool", "dynbits"}
\* second destination variable of a pair argument (DEST_PAIR): arg.pair = [on, val, init]
PairOn(arg) == "pair" \in DOMAIN arg /\ arg.pair.on
IsSub(arg) == arg.kind = "sub"
\* value mode "command" (std::string destinations only): "the remaining argument string is passed as value to its
\* destination variable"; for a positional argument "this and all the following arguments and values"
IsCmd(arg) == arg.vm = "cmd"
ElemIsInt(kind) == kind \in IntKinds
IsContainer(kind) == kind \in ContKinds
IsArr(kind) == kind \in ArrKinds
\* one element: raw text -> [ok, v]; idx = 0-based index of the element in the destination (tuples)
\* formats attached to one position of the destination (addFormatPos( idx, ...): "index 0 means the first value etc."); only
\* tuple arguments carry them (field fmtpos: sequence of [p |-> 0-based position, f |-> format]); applied after the general ones
PosFormats(arg, idx) == IF "fmtpos" \in DOMAIN arg
                          THEN LET sel == SelectSeq(arg.fmtpos, LAMBDA x : x.p = idx) IN [k \in 1..Len(sel) |-> sel[k].f]
                          ELSE <<>>
\* destinations of other integral types (kinds u64, i64, u32, u16, i16: std::uint64_t, std::int64_t, unsigned int, unsigned short,
\* short): their values do not fit TLC's integers and are carried as canonical decimal text (no sign for positive numbers, no
\* leading zeros, "-" for negative ones); a text converts iff it is a decimal number inside the range of the type
WideKinds == {"u64", "i64", "u32", "u16", "i16"}
WideMax(kind) == CASE kind = "u64" -> <<49, 56, 52, 52, 54, 55, 52, 52, 48, 55, 51, 55, 48, 57, 53, 53, 49, 54, 49, 53>>    \* 18446744073709551615
                   [] kind = "i64" -> <<57, 50, 50, 51, 51, 55, 50, 48, 51, 54, 56, 53, 52, 55, 55, 53, 56, 48, 55>>        \* 9223372036854775807
                   [] kind = "u32" -> <<52, 50, 57, 52, 57, 54, 55, 50, 57, 53>>                                            \* 4294967295
                   [] kind = "u16" -> <<54, 53, 53, 51, 53>>                                                                \* 65535
                   [] OTHER        -> <<51, 50, 55, 54, 55>>                                                                \* 32767
WideMinMag(kind) == CASE kind = "i64" -> <<57, 50, 50, 51, 51, 55, 50, 48, 51, 54, 56, 53, 52, 55, 55, 53, 56, 48, 56>>     \* 9223372036854775808
                      [] kind = "i16" -> <<51, 50, 55, 54, 56>>                                                             \* 32768
                      [] OTHER        -> <<48>>
MagLeq(z, m) == Len(z) < Len(m) \/ (Len(z) = Len(m) /\ LexLeq(z, m))
ConvWide(kind, f) ==
   IF ~IsNumText(f) THEN [ok |-> FALSE, v |-> 0]
   ELSE LET z == StripZeros(Digits(f))
            neg == f[1] = Dash /\ z # <<48>> IN
        IF neg THEN (IF MagLeq(z, WideMinMag(kind)) THEN [ok |-> TRUE, v |-> <<Dash>> \o z] ELSE [ok |-> FALSE, v |-> 0])
        ELSE IF MagLeq(z, WideMax(kind)) THEN [ok |-> TRUE, v |-> z] ELSE [ok |-> FALSE, v |-> 0]
\* a negative number for an unsigned destination: boost::lexical_cast wraps it around silently, nothing documents what the
\* handler makes of it - left open
WideUndef(arg, f) == arg.kind \in {"u64", "u32", "u16"} /\ IsNumText(f) /\ f[1] = Dash
ConvElemAt(arg, raw, idx) ==
   LET f == Formatted(PosFormats(arg, idx), 1, Formatted(arg.formats, 1, raw))
       isint == IF arg.kind = "tup" THEN idx # 1 ELSE ElemIsInt(arg.kind) IN
   IF ~ChecksOK(arg, raw) THEN [ok |-> FALSE, v |-> 0]
   ELSE IF arg.kind \in WideKinds THEN ConvWide(arg.kind, f)
   ELSE IF arg.kind = "dbl" THEN (IF IsQuarterText(f) THEN [ok |-> TRUE, v |-> QuartersOf(f)] ELSE [ok |-> FALSE, v |-> 0])
   ELSE IF isint THEN (IF IsIntText(f) THEN [ok |-> TRUE, v |-> IntOf(f)] ELSE [ok |-> FALSE, v |-> 0])
   ELSE [ok |-> TRUE, v |-> f]
ConvElem(arg, raw) == ConvElemAt(arg, raw, 0)

\* container placement and options (property C06)
Contains(s, v) == \E k \in 1..Len(s) : s[k] = v
RECURSIVE InsertSorted(_, _)
InsertSorted(s, v) == IF Len(s) = 0 THEN <<v>>
                      ELSE IF v < s[1] THEN <<v>> \o s
                      ELSE <<s[1]>> \o InsertSorted(Tail2(s, 2), v)
RECURSIVE InsertDesc(_, _)
InsertDesc(s, v) == IF Len(s) = 0 THEN <<v>>
                    ELSE IF v > s[1] THEN <<v>> \o s
                    ELSE <<s[1]>> \o InsertDesc(Tail2(s, 2), v)
RECURSIVE SortInts(_)
SortInts(s) == IF Len(s) = 0 THEN <<>> ELSE InsertSorted(SortInts(Tail2(s, 2)), s[1])
\* strings sort like std::string compares: byte-wise, a prefix first (LexLt is defined with the key-value containers below)
RECURSIVE LexLt(_, _)
RECURSIVE InsertSortedStr(_, _)
InsertSortedStr(s, v) == IF Len(s) = 0 THEN <<v>>
                         ELSE IF LexLt(v, s[1]) THEN <<v>> \o s
                         ELSE <<s[1]>> \o InsertSortedStr(Tail2(s, 2), v)
RECURSIVE SortStrs(_)
SortStrs(s) == IF Len(s) = 0 THEN <<>> ELSE InsertSortedStr(SortStrs(Tail2(s, 2)), s[1])
SortElems(kind, s) == IF kind = "vecstr" THEN SortStrs(s) ELSE SortInts(s)
AddTo(kind, s, v) ==
   CASE kind = "setint"  -> IF Contains(s, v) THEN s ELSE InsertSorted(s, v)
     [] kind = "msetint" -> InsertSorted(s, v)
     [] kind = "pqint"   -> InsertDesc(s, v)
     [] kind \in {"fwdint", "stackint"} -> <<v>> \o s
     [] OTHER -> Append(s, v)
SortedKind(kind) == kind \in {"setint", "msetint", "pqint"}

\* key-value containers: pair text "key,value" (default pair format), content ordered by key (byte-wise)
PairSep == 44
LexLt(a, b) == IF Len(b) = 0 THEN FALSE
               ELSE IF Len(a) = 0 THEN TRUE
               ELSE IF a[1] < b[1] THEN TRUE
               ELSE IF a[1] > b[1] THEN FALSE
               ELSE LexLt(Tail2(a, 2), Tail2(b, 2))
HasKey(c, key) == \E k \in 1..Len(c) : c[k][1] = key
RECURSIVE InsertByKey(_, _)
InsertByKey(c, kv) == IF Len(c) = 0 THEN <<kv>>
                      ELSE IF LexLt(kv[1], c[1][1]) THEN <<kv>> \o c
                      ELSE <<c[1]>> \o InsertByKey(Tail2(c, 2), kv)
MapKey(tok) == SubSeq(tok, 1, PosOf(tok, PairSep) - 1)
MapVal(tok) == Tail2(tok, PosOf(tok, PairSep) + 1)
\* a pair needs the separator, a key and a value in front of / behind its first occurrence
MapShapeOK(tok) == PosOf(tok, PairSep) > 1 /\ PosOf(tok, PairSep) < Len(tok)
RemoveVal(s, v) == SelectSeq(s, LAMBDA x : x # v)

\* fold the tokens of one value text into container content c; filled = elements stored so far in a
\* fixed-size destination.  result [ok, c, filled, un]; un: the documentation does not fix the outcome
FR(ok, c, filled) == [ok |-> ok, c |-> c, filled |-> filled, un |-> FALSE]
FU(c, filled) == [ok |-> FALSE, c |-> c, filled |-> filled, un |-> TRUE]
RECURSIVE FoldTokens(_, _, _, _, _)
FoldTokens(arg, toks, k, c, filled) ==
   IF k > Len(toks) THEN FR(TRUE, c, filled)
   ELSE IF arg.kind = "mapsi" THEN
        LET tok == toks[k] IN
        \* checks see the whole pair text, formats are set per key/value: neither is modelled
        IF Len(arg.formats) > 0 \/ Len(arg.checks) > 0 THEN FU(c, filled)
        ELSE IF ~MapShapeOK(tok) THEN FR(FALSE, c, filled)
        ELSE IF arg.uniq # "no" /\ HasKey(c, MapKey(tok)) THEN
             (IF arg.uniq = "error" THEN FR(FALSE, c, filled)
              ELSE IF ~IsIntText(MapVal(tok)) THEN FU(c, filled)      \* discarded pair with a value that is not a number: open
              ELSE FoldTokens(arg, toks, k + 1, c, filled))
        ELSE IF ~IsIntText(MapVal(tok)) THEN FR(FALSE, c, filled)
        \* std::map: "attempts to insert an already existing key are simply ignored"
        ELSE FoldTokens(arg, toks, k + 1, IF HasKey(c, MapKey(tok)) THEN c ELSE InsertByKey(c, <<MapKey(tok), IntOf(MapVal(tok))>>), filled)
   ELSE LET r == ConvElemAt(arg, toks[k], filled) IN
        IF arg.kind = "tup" THEN
             (IF filled >= 3 \/ ~r.ok THEN FR(FALSE, c, filled)
              ELSE FoldTokens(arg, toks, k + 1, [c EXCEPT ![filled + 1] = r.v], filled + 1))
        \* growing bit sets: the documentation names no largest position; numbers beyond the int range are left open
        ELSE IF ~r.ok /\ arg.kind \in GrowBitKinds /\ ChecksOK(arg, toks[k]) /\ IsNumText(Formatted(arg.formats, 1, toks[k])) THEN FU(c, filled)
        ELSE IF ~r.ok THEN FR(FALSE, c, filled)
        ELSE IF arg.kind = "bits8" THEN
             (IF r.v < 0 \/ r.v >= 8 THEN FR(FALSE, c, filled)
              ELSE FoldTokens(arg, toks, k + 1, [c EXCEPT ![r.v + 1] = ~arg.unset], filled))
        ELSE IF arg.kind \in GrowBitKinds THEN
             \* positions are unsigned; what a negative number means is not documented
             (IF r.v < 0 THEN FU(c, filled)
              ELSE FoldTokens(arg, toks, k + 1, IF arg.unset THEN RemoveVal(c, r.v)
                                                ELSE IF Contains(c, r.v) THEN c ELSE InsertSorted(c, r.v), filled))
        \* a full fixed-size destination refuses a further element; whether a value that unique-data would drop anyway is
        \* "a further element" is not documented (as built it is refused before the duplicate test): open
        ELSE IF IsArr(arg.kind) /\ filled >= 3 /\ arg.uniq = "ignore" /\ Contains(SubSeq(c, 1, filled), r.v) THEN FU(c, filled)
        ELSE IF IsArr(arg.kind) /\ filled >= 3 THEN FR(FALSE, c, filled)
        ELSE IF arg.uniq # "no" /\ Contains(IF IsArr(arg.kind) THEN SubSeq(c, 1, filled) ELSE c, r.v) THEN
             (IF arg.uniq = "error" THEN FR(FALSE, c, filled)
              ELSE FoldTokens(arg, toks, k + 1, c, filled))
        ELSE IF IsArr(arg.kind) THEN FoldTokens(arg, toks, k + 1, [c EXCEPT ![filled + 1] = r.v], filled + 1)
        ELSE FoldTokens(arg, toks, k + 1, AddTo(arg.kind, c, r.v), filled)

\* ---------------------------------------------------------------- state
\* sub[a]: the state of the handler of sub-group argument a (it lives as long as the main handler: a sub-group that is
\* entered twice goes on where it was left), 0 for every other argument; dest[a] / aux[a] of a sub-group argument are the
\* destinations / second variables of that state
RECURSIVE InitState(_)
InitState(cfg) ==
   LET S == [a \in 1..NArgs(cfg) |-> IF IsSub(cfg.args[a]) THEN InitState(cfg.args[a].sub) ELSE 0] IN
   [i |-> 1, pos |-> 0, nval |-> FALSE, dashed |-> FALSE, last |-> 0,
    dest |-> [a \in 1..NArgs(cfg) |-> IF IsSub(cfg.args[a]) THEN S[a].dest ELSE cfg.args[a].init],
    aux |-> [a \in 1..NArgs(cfg) |-> IF IsSub(cfg.args[a]) THEN S[a].aux ELSE IF PairOn(cfg.args[a]) THEN cfg.args[a].pair.init ELSE 0],
    sub |-> S,
    has |-> [a \in 1..NArgs(cfg) |-> FALSE],
    cnt |-> [a \in 1..NArgs(cfg) |-> 0],
    cleared |-> [a \in 1..NArgs(cfg) |-> FALSE],
    filled |-> [a \in 1..NArgs(cfg) |-> 0],
    reqd |-> {}, excl |-> {}, hist |-> <<>>, depth |-> 0, out |-> "run"]

Fail(st) == [st EXCEPT !.out = "err"]
Undef(st) == [st EXCEPT !.out = "undef"]
WithCursor(st, e) == [st EXCEPT !.i = e.i, !.pos = e.pos, !.nval = e.nval, !.dashed = e.dashed]

\* default cardinality: at most one use for scalars, exactly three values for the tuple, none for containers
EffCard(arg) == IF arg.card.t # "dflt" THEN arg.card
                ELSE IF arg.kind = "tup" THEN [t |-> "exact", a |-> 3, b |-> 0]
                \* "a sub-group can hold multiple arguments, so it should be possible to call it multiple times"
                ELSE IF IsContainer(arg.kind) \/ arg.kind \in {"level", "sub"} THEN [t |-> "none", a |-> 0, b |-> 0]
                ELSE [t |-> "max", a |-> 1, b |-> 0]
CardMax(card) == CASE card.t = "max" -> card.a [] card.t = "exact" -> card.a
                   [] card.t = "range" -> card.b [] OTHER -> -1
HasCard(arg) == EffCard(arg).t # "none"

\* ---- argument files: text -> effective lines (not empty, not starting with '#'), each split like a command string
RECURSIVE TextLines(_)
TextLines(t) == IF Len(t) = 0 THEN <<>>
                ELSE LET p == PosOf(t, 10) IN
                     IF p = 0 THEN <<t>> ELSE <<SubSeq(t, 1, p - 1)>> \o TextLines(Tail2(t, p + 1))
EffLines(t) == SelectSeq(TextLines(t), LAMBDA ln : Len(ln) > 0 /\ ln[1] # 35)
FileWords(t) == [k \in 1..Len(EffLines(t)) |-> SplitStr(EffLines(t)[k])]
\* files known to an evaluation: cfg.files = sequence of [name, text] (only present when argument-file arguments are used)
FileIdx(cfg, name) == IF "files" \in DOMAIN cfg THEN {k \in 1..Len(cfg.files) : cfg.files[k].name = name} ELSE {}
MaxFileDepth == 4
RECURSIVE RunLines(_, _, _, _)
RECURSIVE RunWords(_, _, _, _)

\* value arguments that write the variable owned by argument d
ValGroup(cfg, d) == {b \in 1..NArgs(cfg) : cfg.args[b].kind = "valint" /\ cfg.args[b].dst = d}

\* store value text v (hasv = a value was given) in argument a; count = cardinality applies
AssignTo0(cfg, st, a, hasv, v, count) ==
   LET arg == cfg.args[a]
       c1 == IF count /\ HasCard(arg) THEN st.cnt[a] + 1 ELSE st.cnt[a] IN
   IF arg.depr THEN Fail(st)
   ELSE IF count /\ HasCard(arg) /\ CardMax(EffCard(arg)) >= 0 /\ c1 > CardMax(EffCard(arg)) THEN Fail(st)
   ELSE IF arg.kind = "argfile" THEN
        \* argument-file argument: the named file is read at once, line by line, as arguments that do not count for
        \* the cardinality; afterwards the evaluation goes on behind the file name (files may include files)
        IF FileIdx(cfg, v) = {} THEN Fail(st)                                  \* file cannot be opened
        ELSE IF st.depth >= MaxFileDepth THEN Undef(st)
        ELSE LET text == cfg.files[CHOOSE k \in FileIdx(cfg, v) : TRUE].text
                 inner == RunLines(cfg, FileWords(text), 1, [st EXCEPT !.cnt[a] = c1, !.has[a] = TRUE, !.depth = st.depth + 1, !.out = "run"]) IN
             IF inner.out # "run" THEN inner
             ELSE [inner EXCEPT !.i = st.i, !.pos = st.pos, !.nval = st.nval, !.dashed = st.dashed, !.depth = st.depth]
   ELSE IF arg.kind = "flag" THEN
        [st EXCEPT !.dest[a] = IF arg.unset THEN FALSE ELSE ~arg.init, !.has[a] = TRUE, !.cnt[a] = c1]
   ELSE IF arg.kind = "sub" THEN
        \* the sub-group argument itself: "was used" (the words behind it are handled by StepCore)
        [st EXCEPT !.has[a] = TRUE, !.cnt[a] = c1]
   ELSE IF arg.kind = "valint" THEN
        \* value argument: "it is checked that the original value of the destination variable is modified only once";
        \* without the check the last argument that modifies the variable wins
        LET G == ValGroup(cfg, arg.dst)
            orig == cfg.args[arg.dst].init IN
        IF arg.chkorig /\ st.dest[a] # orig THEN Fail(st)
        \* the variable was already set, to a value that happens to equal the original one: not documented
        ELSE IF arg.chkorig /\ (\E b \in G : st.has[b]) THEN Undef(st)
        ELSE [st EXCEPT !.dest = [b \in 1..NArgs(cfg) |-> IF b \in G THEN arg.setval ELSE st.dest[b]], !.has[a] = TRUE, !.cnt[a] = c1]
   ELSE IF arg.kind = "level" THEN
        \* level counter: without value the level is incremented, with a value it is set; mixing both (or
        \* setting twice) is refused unless allowed.  filled[a]: 1 = incremented, 2 = set, 3 = both
        LET inc == st.filled[a] \in {1, 3}
            set == st.filled[a] \in {2, 3} IN
        IF hasv /\ Len(v) = 0 THEN Undef(st)        \* an empty word as value: "no value" or "bad value"? not documented
        ELSE IF ~hasv THEN
           (IF set /\ ~arg.mix THEN Fail(st)
            ELSE IF ~NumChecksOK(arg, st.dest[a] + 1) THEN Fail(st)
            ELSE [st EXCEPT !.dest[a] = st.dest[a] + 1, !.has[a] = TRUE, !.cnt[a] = c1, !.filled[a] = IF set THEN 3 ELSE 1])
        ELSE
           (IF ~arg.mix /\ (set \/ inc) THEN Fail(st)
            ELSE LET r == ConvElem(arg, v) IN
                 IF ~r.ok THEN Fail(st)
                 ELSE [st EXCEPT !.dest[a] = r.v, !.has[a] = TRUE, !.cnt[a] = c1, !.filled[a] = IF inc THEN 3 ELSE 2])
   ELSE IF WideUndef(arg, v) THEN Undef(st)
   ELSE IF ~IsContainer(arg.kind) THEN
        LET r == ConvElem(arg, v) IN
        IF ~r.ok THEN Fail(st)
        ELSE [st EXCEPT !.dest[a] = IF arg.kind = "optint" THEN <<r.v>> ELSE r.v, !.has[a] = TRUE, !.cnt[a] = c1]
   ELSE
        LET toks == SplitAt(v, arg.sep)
            base == IF arg.clear /\ ~st.cleared[a]
                      THEN (IF arg.kind = "bits8" THEN [k \in 1..8 |-> FALSE] ELSE IF IsArr(arg.kind) \/ arg.kind = "tup" THEN st.dest[a] ELSE <<>>)
                      ELSE st.dest[a]
            \* every element after the first of one value text counts for the cardinality as well
            c2 == IF HasCard(arg) /\ Len(toks) > 1 THEN c1 + Len(toks) - 1 ELSE c1
            r == FoldTokens(arg, toks, 1, base, st.filled[a])
            sorted == IF arg.sort /\ ~SortedKind(arg.kind)
                        THEN (IF IsArr(arg.kind) THEN SortInts(SubSeq(r.c, 1, r.filled)) \o Tail2(r.c, r.filled + 1) ELSE SortElems(arg.kind, r.c))
                        ELSE r.c IN
        IF r.un THEN Undef(st)
        ELSE IF HasCard(arg) /\ CardMax(EffCard(arg)) >= 0 /\ c2 > CardMax(EffCard(arg)) THEN Fail(st)
        ELSE IF ~r.ok THEN Fail(st)
        ELSE [st EXCEPT !.dest[a] = sorted, !.has[a] = TRUE, !.cnt[a] = c2, !.cleared[a] = TRUE, !.filled[a] = r.filled]

\* pair arguments (DEST_PAIR): whenever the first variable was assigned, the second one gets its fixed value
AssignTo(cfg, st, a, hasv, v, count) ==
   LET s1 == AssignTo0(cfg, st, a, hasv, v, count) IN
   IF s1.out = "run" /\ PairOn(cfg.args[a]) THEN [s1 EXCEPT !.aux[a] = cfg.args[a].pair.val] ELSE s1

\* handler constraints that are evaluated when an argument is identified
UsesOf(st, S) == {k \in 1..Len(st.hist) : st.hist[k] \in S}
ViolatesOnUse(cfg, st, a) ==
   \E h \in 1..Len(cfg.hcons) :
      /\ cfg.hcons[h].k \in {"anyOf", "oneOf"}
      /\ a \in SeqToSet(cfg.hcons[h].args)
      /\ UsesOf(st, SeqToSet(cfg.hcons[h].args)) # {}
\* the same any-of/one-of argument used twice: not fixed by the documentation
UndefOnUse(cfg, st, a) ==
   \E h \in 1..Len(cfg.hcons) :
      /\ cfg.hcons[h].k \in {"anyOf", "oneOf"}
      /\ a \in SeqToSet(cfg.hcons[h].args)
      /\ UsesOf(st, {a}) # {}

\* an identified argument (key typed, or positional value): constraints, assignment, activation
HandleArg(cfg, st, a, hasv, v, fromCmd) ==
   IF a \in st.excl THEN Fail(st)
   ELSE IF UndefOnUse(cfg, st, a) THEN Undef(st)
   ELSE IF ViolatesOnUse(cfg, st, a) THEN Fail(st)
   ELSE LET s1 == AssignTo(cfg, [st EXCEPT !.reqd = st.reqd \ {a}], a, hasv, v, fromCmd) IN
        IF s1.out # "run" THEN s1
        ELSE [s1 EXCEPT !.hist = Append(st.hist, a),
                        !.reqd = s1.reqd \cup SeqToSet(cfg.args[a].req),
                        !.excl = s1.excl \cup SeqToSet(cfg.args[a].exc)]

\* end of the command line
Mag(x) == IF x < 0 THEN 0 - x ELSE x
RECURSIVE EndChecks(_, _)
EndChecks(cfg, st) ==
   LET A == 1..NArgs(cfg)
       used(S) == UsesOf(st, S) # {}
       cardBad(a) == LET card == EffCard(cfg.args[a]) IN
                     /\ st.cnt[a] # 0
                     /\ \/ card.t = "exact" /\ st.cnt[a] # card.a
                        \/ card.t = "range" /\ st.cnt[a] < card.a
       hbad(h) == LET S == SeqToSet(h.args) IN
                  CASE h.k = "allOf"  -> \E a \in S : ~used({a})
                    [] h.k = "oneOf"  -> ~used(S)
                    [] h.k = "differ" -> \E a, b \in S : a # b /\ st.has[a] /\ st.has[b] /\ st.dest[a] = st.dest[b]
                    [] h.k = "disjoint" -> \E a, b \in S : a # b /\ (SeqToSet(st.dest[a]) \cap SeqToSet(st.dest[b])) # {}
                    [] OTHER -> FALSE
       hundef(h) == h.k = "allOf" /\ ~used(SeqToSet(h.args))           \* "all or none" vs "all": left open
   IN
   IF \E a \in A : cfg.args[a].mand /\ ~st.has[a] THEN Fail(st)
   ELSE IF \E a \in A : cardBad(a) THEN Fail(st)
   ELSE IF st.reqd # {} THEN Fail(st)
   ELSE IF \E k \in 1..Len(cfg.hcons) : hbad(cfg.hcons[k]) /\ ~hundef(cfg.hcons[k]) THEN Fail(st)
   ELSE IF \E k \in 1..Len(cfg.hcons) : hundef(cfg.hcons[k]) THEN Undef(st)
   \* the documentation does not say when (or whether) the end-of-line rules of a sub-group handler are checked: mandatory
   \* arguments, lower cardinality bounds, requirements and handler constraints inside a sub-group that are not met
   \* leave the outcome open
   ELSE IF \E a \in A : IsSub(cfg.args[a]) /\ EndChecks(cfg.args[a].sub, [st.sub[a] EXCEPT !.out = "run"]).out # "ok" THEN Undef(st)
   ELSE [st EXCEPT !.out = "ok"]

\* ---------------------------------------------------------------- one step of iterateArguments
\* fromCmd: FALSE while the words come from an argument file or the environment variable
\* (cardinality is then not counted: a later command line value may override).
\* StepCore = Handler::evalSingleArgument for one handler (main handler, member of a group or sub-group handler).  Results
\* beyond those of StepWords:  "unk": the element is not for this handler (state unchanged), "amb": ambiguous abbreviation,
\* "last": an argument with value mode "command" took the rest of the command line (evaluation stops there).
Unk(st) == [st EXCEPT !.out = "unk"]
\* the words from index `from` on, "like they were entered on the command line": joined with single blanks
RestOfLine(ws, from) ==
   IF from > Len(ws) THEN <<>>
   ELSE LET F[k \in from..Len(ws)] == IF k = from THEN ws[k] ELSE F[k - 1] \o <<32>> \o ws[k] IN F[Len(ws)]
AtEnd(st, words) == [st EXCEPT !.i = Len(words) + 1, !.pos = 0, !.nval = FALSE]
Last(st) == IF st.out = "run" THEN [st EXCEPT !.out = "last"] ELSE st
RECURSIVE StepCore(_, _, _, _)
RECURSIVE SubLoop(_, _, _, _)
StepCore(cfg, words, st, fromCmd) ==
   LET e == Elem(words, st.i, st.pos, st.nval, st.dashed, FALSE) IN
   CASE e.t = "end"   -> [WithCursor(st, e) EXCEPT !.out = "eol"]
     [] e.t = "err"   -> Fail(st)
     [] e.t = "undef" -> Undef(st)
     [] e.t = "val"   ->
          LET s1 == WithCursor(st, e) IN
          IF st.last # 0 /\ cfg.args[st.last].multi THEN
             LET s2 == AssignTo(cfg, s1, st.last, TRUE, e.w, fromCmd) IN s2
          ELSE IF PosArg(cfg) # 0 /\ IsCmd(cfg.args[PosArg(cfg)]) THEN
             \* positional argument with value mode "command": "this and all the following arguments and values ... should
             \* be assigned as complete argument string to the value of the argument".  Left open: a value that is only a
             \* part of its word (behind "--key="), words from a file line or the environment variable
             IF ~fromCmd \/ st.nval \/ st.pos > 0 THEN Undef(st)
             ELSE Last(HandleArg(cfg, AtEnd(s1, words), PosArg(cfg), TRUE, RestOfLine(words, e.i - 1), fromCmd))
          ELSE IF PosArg(cfg) # 0 THEN HandleArg(cfg, s1, PosArg(cfg), TRUE, e.w, fromCmd)
          ELSE Unk(st)
     [] OTHER ->      \* short or long key
          LET a == IF e.t = "short" THEN LookupShort(cfg, e.c) ELSE LookupLong(cfg, e.w)
              s1 == WithCursor(st, e) IN
          IF a = 0 THEN Unk(st)
          ELSE IF a < 0 THEN [st EXCEPT !.out = "amb"]
          ELSE IF a = EndValuesIdx(cfg) THEN
               \* --endvalues: takes no value; the next free value no longer belongs to the last argument
               (IF s1.nval THEN [s1 EXCEPT !.last = 0] ELSE [s1 EXCEPT !.last = 0])
          ELSE IF cfg.args[a].pos THEN Unk(st)
          ELSE LET arg == cfg.args[a]
                   s2 == [s1 EXCEPT !.last = a] IN
               IF IsSub(arg) THEN
                  \* sub-group: the argument is handled like a flag (constraints, mandatory), then the following words are
                  \* offered to the sub-group's handler as long as it takes them; the first word that is not for it is handled
                  \* by this handler again.  A key ends the value list of a multi-value argument, here and in the sub-group
                  \* (when it is entered again).  Left open: "--key=value" on the sub-group argument, sub-groups entered from
                  \* an argument file / the environment variable (the sub-group's handler does not know about the source)
                  IF ~fromCmd \/ s1.nval THEN Undef(st)
                  ELSE LET s3 == HandleArg(cfg, [s1 EXCEPT !.last = 0], a, FALSE, <<>>, fromCmd) IN
                       IF s3.out # "run" THEN s3
                       ELSE LET sin == [s3.sub[a] EXCEPT !.i = s3.i, !.pos = s3.pos, !.nval = s3.nval, !.dashed = s3.dashed, !.last = 0, !.out = "run"]
                                r == SubLoop(arg.sub, words, sin, fromCmd) IN
                            IF r.out # "run" THEN [s3 EXCEPT !.out = r.out]
                            ELSE [s3 EXCEPT !.sub[a] = r, !.dest[a] = r.dest, !.aux[a] = r.aux,
                                            !.i = r.i, !.pos = r.pos, !.nval = r.nval, !.dashed = r.dashed]
               ELSE IF IsCmd(arg) THEN
                  \* value mode "command": the remaining argument string is the value, evaluation ends here.
                  \* "argument_error when called while evaluating a group of single-character arguments": the key must be a
                  \* word of its own ("-x", "--exec").  Left open: "--exec=..." (is the rest of that word part of the value?),
                  \* nothing behind the key (empty value or missing value?), file lines / environment variable
                  IF ~fromCmd \/ s1.nval THEN Undef(st)
                  ELSE IF e.t = "short" /\ ~(st.pos = 0 /\ s1.pos = 0) THEN Fail(st)
                  ELSE IF s1.i > Len(words) THEN Undef(st)
                  ELSE Last(HandleArg(cfg, AtEnd(s2, words), a, TRUE, RestOfLine(words, s1.i), fromCmd))
               ELSE IF arg.vm = "none" THEN HandleArg(cfg, s2, a, FALSE, <<>>, fromCmd)
               ELSE LET e2 == Elem(words, s2.i, s2.pos, s2.nval, s2.dashed, arg.vm = "req") IN
                    IF e2.t = "val" THEN HandleArg(cfg, WithCursor(s2, e2), a, TRUE, e2.w, fromCmd)
                    ELSE IF e2.t = "undef" THEN Undef(st)
                    ELSE IF arg.vm = "opt" THEN HandleArg(cfg, s2, a, FALSE, <<>>, fromCmd)
                    ELSE Fail(st)

\* the words offered to a sub-group handler: result "run" = state in front of the first element it did not take (or at the
\* end of the words); an ambiguous abbreviation inside the sub-group (the main handler may know the word) and a command-mode
\* argument inside a sub-group are not documented
SubLoop(cfg, words, st, fromCmd) ==
   LET r == StepCore(cfg, words, st, fromCmd) IN
   IF r.out = "run" THEN SubLoop(cfg, words, r, fromCmd)
   ELSE IF r.out \in {"unk", "eol"} THEN [st EXCEPT !.out = "run"]
   ELSE IF r.out \in {"amb", "last"} THEN Undef(st)
   ELSE r

\* one step of the handler that evaluates the command line: an element nobody knows is an error, a command-mode argument
\* ends the line (the end-of-line checks follow)
StepWords(cfg, words, st, fromCmd) ==
   LET r == StepCore(cfg, words, st, fromCmd) IN
   IF r.out \in {"unk", "amb"} THEN Fail(st)
   ELSE IF r.out = "last" THEN [r EXCEPT !.out = "eol"]
   ELSE r

\* all words of one source (one file line, the environment string, or argv)
RunWords(cfg, words, st, fromCmd) ==
   IF st.out # "run" THEN st ELSE RunWords(cfg, words, StepWords(cfg, words, st, fromCmd), fromCmd)

\* the lines of one argument file (or the pre-sources), one word list after the other; cardinality not counted
RunLines(cfg, lines, k, st) ==
   IF k > Len(lines) \/ st.out # "run" THEN st
   ELSE LET s1 == RunWords(cfg, lines[k], [st EXCEPT !.i = 1, !.pos = 0, !.nval = FALSE, !.dashed = FALSE], FALSE) IN
        IF s1.out = "eol" THEN RunLines(cfg, lines, k + 1, [s1 EXCEPT !.out = "run"]) ELSE s1

\* restart the cursor for the next source; "last argument" is reset after argv only (as documented
\* for repeated use of the same object), so it carries over from one file line to the next
NextSource(st) == [st EXCEPT !.i = 1, !.pos = 0, !.nval = FALSE, !.dashed = FALSE, !.out = "run"]
RECURSIVE RunPre(_, _, _, _)
RunPre(cfg, pre, k, st) ==
   IF k > Len(pre) THEN st
   ELSE LET s1 == RunWords(cfg, pre[k], st, FALSE) IN
        IF s1.out = "eol" THEN RunPre(cfg, pre, k + 1, NextSource(s1)) ELSE s1

\* Eval: pre = word lists delivered before argv (file lines, environment variable), words = argv[1..]
Eval(cfg, pre, words) ==
   LET s0 == RunPre(cfg, pre, 1, InitState(cfg)) IN
   IF s0.out # "run" THEN s0
   \* the "last argument" carries over from the file lines / environment into argv: a multi-value argument
   \* that ends a file line still takes free values from the next line or from the command line, exactly as if
   \* all words had been given on the command line
   ELSE LET s1 == RunWords(cfg, words, s0, TRUE) IN
        IF s1.out = "eol" THEN EndChecks(cfg, [s1 EXCEPT !.out = "run"]) ELSE s1

Outcome(st) == IF st.out = "ok" THEN "ok" ELSE IF st.out = "undef" THEN "undef" ELSE "err"
=============================================================================
