------------------------------- MODULE ArgSplit -------------------------------
(* Splitting a command string into words (appl::make_arg_array, property C07 first half). *)
(* Operational: the scanner, one step per character.  Declarative: quoting schemes and    *)
(* the theorem  SplitStr(JoinWords(escaped words)) = words  for non-empty words.          *)
EXTENDS Integers, Sequences
Blank == 32
SQuote == 39
DQuote == 34
BSlash == 92
Special == {Blank, SQuote, DQuote, BSlash}

\* ---- operational: scanner state [cur, inq, q, bs, out]
ScanInit == [cur |-> <<>>, inq |-> FALSE, q |-> 0, bs |-> FALSE, out |-> <<>>]
ScanChar(sc, ch) ==
   IF sc.bs THEN [sc EXCEPT !.cur = Append(sc.cur, ch), !.bs = FALSE]               \* escaped character: verbatim
   ELSE IF ch = BSlash THEN [sc EXCEPT !.bs = TRUE]
   ELSE IF sc.inq THEN (IF ch = sc.q THEN [sc EXCEPT !.inq = FALSE, !.q = 0] ELSE [sc EXCEPT !.cur = Append(sc.cur, ch)])
   ELSE IF ch = SQuote \/ ch = DQuote THEN [sc EXCEPT !.inq = TRUE, !.q = ch]
   ELSE IF ch = Blank THEN (IF Len(sc.cur) > 0 THEN [sc EXCEPT !.out = Append(sc.out, sc.cur), !.cur = <<>>] ELSE sc)
   ELSE [sc EXCEPT !.cur = Append(sc.cur, ch)]
ScanFinish(sc) == IF Len(sc.cur) > 0 THEN Append(sc.out, sc.cur) ELSE sc.out
RECURSIVE ScanFrom(_, _, _)
ScanFrom(sc, str, k) == IF k > Len(str) THEN sc ELSE ScanFrom(ScanChar(sc, str[k]), str, k + 1)
SplitStr(str) == ScanFinish(ScanFrom(ScanInit, str, 1))

\* ---- declarative: how a word may be written so that it survives splitting
RECURSIVE EscBS(_)
EscBS(w) == IF Len(w) = 0 THEN <<>>
            ELSE (IF w[1] \in Special THEN <<BSlash, w[1]>> ELSE <<w[1]>>) \o EscBS(SubSeq(w, 2, Len(w)))
RECURSIVE EscIn(_, _)
EscIn(w, q) == IF Len(w) = 0 THEN <<>>
               ELSE (IF w[1] = q \/ w[1] = BSlash THEN <<BSlash, w[1]>> ELSE <<w[1]>>) \o EscIn(SubSeq(w, 2, Len(w)), q)
Escaped(w, scheme) == CASE scheme = "bs" -> EscBS(w)
                        [] scheme = "sq" -> <<SQuote>> \o EscIn(w, SQuote) \o <<SQuote>>
                        [] scheme = "dq" -> <<DQuote>> \o EscIn(w, DQuote) \o <<DQuote>>
Schemes == {"bs", "sq", "dq"}
Blanks(n) == [k \in 1..n |-> Blank]
\* join escaped words: gaps[k] blanks before word k (gaps[1] >= 0, others >= 1), trail blanks at the end
RECURSIVE JoinFrom(_, _, _, _)
JoinFrom(ws, schemes, gaps, k) ==
   IF k > Len(ws) THEN <<>>
   ELSE Blanks(gaps[k]) \o Escaped(ws[k], schemes[k]) \o JoinFrom(ws, schemes, gaps, k + 1)
JoinWords(ws, schemes, gaps, trail) == JoinFrom(ws, schemes, gaps, 1) \o Blanks(trail)
=============================================================================
