SPECIFICATION MCSpec
CONSTANTS NArgsMC = 2
INVARIANTS ListingOK ContentsOK
ACTION_CONSTRAINT EdgeOut
CHECK_DEADLOCK FALSE
