------------------------------- MODULE ArgSummary -------------------------------
(* The argument summary of celma::prog_args::Handler / Groups (extension X01).                  *)
(*   "After calling evalArguments(), prints the list of arguments that were used and the        *)
(*    values that were set."                                  (handler.hpp, groups.hpp)         *)
(*   "After evaluating the arguments from the command line, a summary can be printed (list of   *)
(*    arguments used and values set)."                        (doc/argument_handler.md)         *)
(* One handler object: Construct (definition of the arguments = configuration cfg of ArgEval),  *)
(* EvalArguments (operator Eval of ArgEval: which arguments a command line uses and what their  *)
(* destinations hold afterwards) and PrintSummary.  The abstract summary is the sequence of     *)
(* entries [argument, value of its destination]; the options with_type / with_key only add      *)
(* parts to the text of an entry, they never change which entries there are.                    *)
(* Operational formulation: SumEntries walks over the stored arguments and keeps those that     *)
(* "have been set" (storage.hpp).  Declarative formulation: DeclEntries takes the used          *)
(* arguments and their values from the abstract command line (ArgDecl: Used, Intended).         *)
(* MCArgSummary checks the two against each other.                                              *)
EXTENDS ArgDecl, ArgUsage

VARIABLES cfg,     \* configuration the handler(s) were built from (ArgEval)
          mode,    \* "handler": one Handler;  "groups": member handlers of Groups, summary printed by Groups::printSummary
          phase,   \* "new" (nothing evaluated) | "done" (evalArguments() returned) | "failed" (it threw) | "open" (outcome not fixed by ArgEval)
          st,      \* evaluation state of ArgEval: has[a] (argument a was used), dest[a], aux[a], sub[a]
          out      \* what the last printSummary() call wrote, abstractly: [printed, none, entries]
svars == <<cfg, mode, phase, st, out>>

\* ---------------------------------------------------------------- texts
RECURSIVE NatText(_)
NatText(n) == IF n < 10 THEN <<48 + n>> ELSE NatText(n \div 10) \o <<48 + (n % 10)>>
DecText(n) == IF n < 0 THEN <<Dash>> \o NatText(0 - n) ELSE NatText(n)
BoolText(b) == IF b THEN <<116, 114, 117, 101>> ELSE <<102, 97, 108, 115, 101>>              \* "true" "false"
\* to_string.hpp: "Add double quotation marks to the string"
QuotedText(t) == <<34>> \o t \o <<34>>
SumJoin(ts, sep) == LET F[k \in 0..Len(ts)] == IF k = 0 THEN <<>> ELSE IF k = 1 THEN ts[1] ELSE F[k-1] \o sep \o ts[k] IN F[Len(ts)]
IsSuffixOf(s, t) == Len(s) <= Len(t) /\ SubSeq(t, Len(t) - Len(s) + 1, Len(t)) = s
RECURSIVE StripLead(_)
StripLead(t) == IF Len(t) > 0 /\ t[1] = 32 THEN StripLead(Tail2(t, 2)) ELSE t
\* the driver names the destination variable of argument a "v<a>" (second argument of destination())
VarName(a) == <<118>> \o NatText(a)

\* ---- value texts.  Fixed: bool, int, LevelCounter, value arguments, optional<int> (the value), std::string (quoted), sequence and
\* ordered containers of int / std::string as comma lists in iteration order.  Adapters without iteration order (stack, queue,
\* priority_queue): the same elements in any order.  vector<bool> / DynamicBitset: "binary number" (to_string.hpp): the bit with
\* position p is the p-th character from the right.  std::bitset: a string of 0/1 with as many 1 as bits are set.
\* Open: double, C array / std::array, tuple, key-value containers.
ScalarKinds == {"flag", "int", "level", "valint", "optint", "str"}
OrderedListKinds == {"vecint", "listint", "dequeint", "setint", "msetint", "fwdint", "vecstr"}
BagListKinds == {"stackint", "queueint", "pqint"}
ScalarText(kind, v) == CASE kind = "flag" -> BoolText(v)
                         [] kind \in {"int", "level", "valint"} -> DecText(v)
                         [] kind = "optint" -> DecText(v[1])
                         [] OTHER -> QuotedText(v)
ElemTexts(kind, v) == [k \in 1..Len(v) |-> IF kind = "vecstr" THEN QuotedText(v[k]) ELSE DecText(v[k])]
\* the complete texts accepted for the (first) destination variable; {} = not fixed
FirstTexts(arg, v) ==
   IF arg.kind \in ScalarKinds THEN {ScalarText(arg.kind, v)}
   ELSE IF arg.kind \in OrderedListKinds THEN {SumJoin(ElemTexts(arg.kind, v), <<44, 32>>), SumJoin(ElemTexts(arg.kind, v), <<44>>)}
   ELSE {}
BagListOK(v, txt) ==
   LET toks == SplitAt(txt, 44)
       ts == [k \in 1..Len(toks) |-> StripLead(toks[k])] IN
   /\ Len(ts) = Len(v)
   /\ \A k \in 1..Len(ts) : IsIntText(ts[k])
   /\ SortInts([k \in 1..Len(ts) |-> IntOf(ts[k])]) = SortInts(v)
BinaryDigits(txt) == \A k \in 1..Len(txt) : txt[k] \in {48, 49}
BitTextOK(arg, v, txt) ==
   IF arg.kind = "bits8"
     THEN BinaryDigits(txt) /\ Cardinality({k \in 1..Len(txt) : txt[k] = 49}) = Cardinality({k \in 1..Len(v) : v[k]})
     ELSE /\ BinaryDigits(txt)
          /\ \A p \in SeqToSet(v) : p < Len(txt)
          /\ \A p \in 0..(Len(txt) - 1) : (txt[Len(txt) - p] = 49) <=> (p \in SeqToSet(v))
\* pair arguments: "Prints the two current values of the destination variables" (typed_arg_pair.hpp): the first one in front, the
\* second one at the end (with the type parts in between the text is left open)
ValueTextOK(arg, v, aux, txt, wtype) ==
   IF PairOn(arg) THEN \/ wtype
                       \/ /\ (FirstTexts(arg, v) = {} \/ \E f \in FirstTexts(arg, v) : IsPrefixOf(f, txt) /\ Len(txt) > Len(f))
                          /\ IsSuffixOf(DecText(aux), txt)
   ELSE IF FirstTexts(arg, v) # {} THEN txt \in FirstTexts(arg, v)
   ELSE IF arg.kind \in BagListKinds THEN BagListOK(v, txt)
   ELSE IF arg.kind \in {"bits8", "vecbool", "dynbits"} THEN BitTextOK(arg, v, txt)
   ELSE TRUE
\* "with_type: Also prints the type of the destination variable." - the names that are beyond doubt; <<>> = any non-empty text
TypeNameOf(kind) ==
   CASE kind = "flag" -> <<98, 111, 111, 108>>                                                                                 \* bool
     [] kind \in {"int", "valint"} -> <<105, 110, 116>>                                                                        \* int
     [] kind = "str" -> <<115, 116, 100, 58, 58, 115, 116, 114, 105, 110, 103>>                                                \* std::string
     [] kind = "vecint" -> <<115, 116, 100, 58, 58, 118, 101, 99, 116, 111, 114, 60, 105, 110, 116, 62>>                       \* std::vector<int>
     [] kind = "vecstr" -> <<115, 116, 100, 58, 58, 118, 101, 99, 116, 111, 114, 60, 115, 116, 100, 58, 58, 115, 116, 114, 105, 110, 103, 62>>
     [] OTHER -> <<>>

\* ---------------------------------------------------------------- the abstract summary
\* operational (storage.hpp: "Iterates over the stored arguments, checks which ones have been set and prints the details"):
\* the arguments of the handler, then - with the key of the sub-group argument as prefix (handler.hpp: "arg_prefix: Specifies the
\* prefix for the arguments of this handler.  Used when the argument handler handles the arguments of a sub-group") - those of
\* its sub-group handlers.  A sub-group argument itself has no destination and no entry.
RECURSIVE SumEntries(_, _, _, _)
SumEntries(c, s, prefix, ppath) ==
   LET F[a \in 0..NArgs(c)] ==
          IF a = 0 THEN <<>>
          ELSE F[a - 1] \o
               (IF IsSub(c.args[a]) THEN SumEntries(c.args[a].sub, s.sub[a], KeyText("all", c.args[a]), Append(ppath, a))
                ELSE IF s.has[a] THEN <<[path |-> Append(ppath, a), var |-> VarName(a), arg |-> c.args[a], v |-> s.dest[a],
                                         aux |-> s.aux[a], key |-> KeyText("all", c.args[a]), prefix |-> prefix]>>
                ELSE <<>>)
   IN F[NArgs(c)]
NoOut == [printed |-> FALSE, none |-> FALSE, entries |-> <<>>]
\* handler.hpp (standalone): "prints a title and a line if no arguments were found"
Printed(c, s) == LET E == SumEntries(c, s, <<>>, <<>>) IN [printed |-> TRUE, none |-> Len(E) = 0, entries |-> E]
AfterEval(c, pre, words) ==
   LET r == Eval(c, pre, words) IN
   [st |-> r, phase |-> IF Outcome(r) = "ok" THEN "done" ELSE IF Outcome(r) = "err" THEN "failed" ELSE "open"]

\* declarative: "the list of arguments that were used and the values that were set" - from the abstract command line
DeclEntries(c, line) ==
   {[path |-> <<a>>, v |-> Intended(c, line)[a], aux |-> IntendedAux(c, line)[a]] : a \in {x \in 1..NArgs(c) : ~IsSub(c.args[x]) /\ Used(line, x)}}
   \cup UNION {LET sc == c.args[a].sub
                   L == SubLine(line, a, 1) IN
               {[path |-> <<a, b>>, v |-> Intended(sc, L)[b], aux |-> IntendedAux(sc, L)[b]] : b \in {x \in 1..NArgs(sc) : Used(L, x)}}
               : a \in {x \in 1..NArgs(c) : IsSub(c.args[x]) /\ Used(line, x)}}
OutTriples(o) == {[path |-> o.entries[k].path, v |-> o.entries[k].v, aux |-> o.entries[k].aux] : k \in 1..Len(o.entries)}

\* ---------------------------------------------------------------- actions (one per public operation)
\* Handler( os, err_os, flags) + addArgument(...) per argument of c  /  Groups::getArgHandler() per member
Construct(c, m) == cfg' = c /\ mode' = m /\ phase' = "new" /\ st' = InitState(c) /\ out' = NoOut
\* evalArguments( argc, argv): pre = word lists from the argument file / environment variable, words = argv[1..]
EvalArguments(pre, words) ==
   /\ phase = "new"
   /\ LET r == AfterEval(cfg, pre, words) IN st' = r.st /\ phase' = r.phase
   /\ out' = NoOut
   /\ UNCHANGED <<cfg, mode>>
\* printSummary( contents_set, os) / printSummary( os) / Groups::printSummary(...): o = [type, key, ovl].  After an evaluation
\* that threw nothing is promised ("After calling evalArguments()").  Printing does not change the handler.
PrintSummary(o) ==
   /\ phase \in {"new", "done"}
   /\ out' = Printed(cfg, st)
   /\ UNCHANGED <<cfg, mode, phase, st>>

\* ---------------------------------------------------------------- properties
\* the "no arguments" line is there exactly when nothing was used
NoneIffEmpty == out.printed => (out.none <=> Len(out.entries) = 0)
\* every argument at most once
EachOnce == \A i, j \in 1..Len(out.entries) : i # j => out.entries[i].path # out.entries[j].path
\* before evalArguments() nothing was used
NewIsEmpty == phase = "new" /\ out.printed => out.none

\* ---------------------------------------------------------------- the text of one printed summary (trace validation)
\* rec = what the driver recorded of one printSummary() call: res, kinds (per line "t" title / "e" entry / "o" other), entries
\* (var, val, type, key, prefix, haskey).  printSummary( os) prints without the optional parts.
EffOpts(o) == IF o.ovl = "os" THEN [type |-> FALSE, key |-> FALSE] ELSE [type |-> o.type, key |-> o.key]
\* entries of standard arguments of the handler (--endvalues is listed with its own text as variable name): not specified
IsForeign(e) == ~(Len(e.var) >= 2 /\ e.var[1] = 118 /\ \A k \in 2..Len(e.var) : IsDigit(e.var[k]))
Fits(x, e, o) ==
   /\ e.var = x.var
   /\ e.haskey = o.key                                                    \* "with_key: Also prints the key of the argument that was used"
   /\ (o.key => (x.arg.pos \/ e.key = x.key) /\ e.prefix = x.prefix)      \* (key text of a positional argument: open)
   /\ (o.type => Len(e.type) > 0 /\ (PairOn(x.arg) \/ TypeNameOf(x.arg.kind) = <<>> \/ e.type = TypeNameOf(x.arg.kind)))
   /\ ValueTextOK(x.arg, x.v, x.aux, e.val, o.type)
RemoveAt(s, k) == SubSeq(s, 1, k - 1) \o Tail2(s, k + 1)
\* the order of the entries is not documented: the printed entries are the expected ones in some order
RECURSIVE BagMatch(_, _, _)
BagMatch(exp, got, o) ==
   IF Len(exp) = 0 THEN Len(got) = 0
   ELSE \E k \in 1..Len(got) : Fits(exp[1], got[k], o) /\ BagMatch(Tail2(exp, 2), RemoveAt(got, k), o)
RenderedOK(c, sum, o, rec) ==
   \E own \in {SelectSeq(rec.entries, LAMBDA e : ~IsForeign(e))} :
   /\ rec.res = "ok"
   /\ Len(rec.kinds) >= 1 /\ rec.kinds[1] = "t" /\ \A k \in 2..Len(rec.kinds) : rec.kinds[k] # "t"      \* one title, in front
   /\ IF Len(rec.entries) = 0 THEN rec.kinds = <<"t", "o">>                                               \* title + the "no arguments" line
      ELSE \A k \in 2..Len(rec.kinds) : rec.kinds[k] = "e"                                                \* title + entries, nothing else
   /\ (Len(own) < Len(rec.entries) => c.endvalues)
   /\ BagMatch(sum.entries, own, o)
=============================================================================
