SPECIFICATION MCSpec
CONSTANTS MaxWords = 2
          MaxLen = 3
          MaxGap = 1
INVARIANTS Inverts Balanced ClosureOK
ACTION_CONSTRAINT EdgeOut
CHECK_DEADLOCK FALSE
