------------------------------- MODULE MCArgKey -------------------------------
(* Bounded instance for C05: all sequences of up to MaxKeys key specifications over a pool of   *)
(* prefix-related keys, abbreviations on and off.  Checked: a key designates at most one stored *)
(* argument; an exact key designates its own argument and a proper prefix designates an argument *)
(* iff abbreviations are on and exactly one long key starts with it - for EVERY definition order *)
(* (all permutations of the stored keys give the same designation).                              *)
EXTENDS ArgKey, Json
CONSTANTS MaxKeys
VARIABLES keys, abbr, done
K(s, l) == [s |-> s, l |-> l]
\* a=97 b=98 c=99 ; ab abc abd abcd ba
LongPool == {<<>>, <<97, 98>>, <<97, 98, 99>>, <<97, 98, 100>>, <<97, 98, 99, 100>>, <<98, 97>>}
ShortPool == {0, 97, 98, 99}
KeyPool == {K(s, l) : s \in ShortPool, l \in LongPool} \ {K(0, <<>>)}
A1(k, n) == [s |-> k.s, l |-> k.l, pos |-> FALSE, kind |-> "int", vm |-> "req", mand |-> FALSE,
             card |-> [t |-> "none", a |-> 0, b |-> 0], checks |-> <<>>, formats |-> <<>>, sep |-> 44, clear |-> FALSE,
             sort |-> FALSE, uniq |-> "no", multi |-> FALSE, req |-> <<>>, exc |-> <<>>, init |-> 0 - n, depr |-> FALSE,
             unset |-> FALSE, cspell |-> 0, grp |-> 0, hidden |-> FALSE, dashes |-> FALSE, mix |-> FALSE]
CfgOf(ks, ab) == [abbr |-> ab, endvalues |-> FALSE, hcons |-> <<>>, args |-> [n \in 1..Len(ks) |-> A1(ks[n], n)]]
MCInit == /\ keys \in UNION {[1..n -> KeyPool] : n \in 1..MaxKeys}
          /\ abbr \in BOOLEAN
          /\ done = FALSE
MCNext == ~done /\ done' = TRUE /\ UNCHANGED <<keys, abbr>>
MCSpec == MCInit /\ [][MCNext]_<<keys, abbr, done>>
Cfg == CfgOf(keys, abbr)
SC == StoredCfg(Cfg)
\* all long words that can be typed: every non-empty prefix of every long key in the pool
Typed == UNION {{SubSeq(l, 1, n) : n \in 1..Len(l)} : l \in LongPool}
Perms(n) == {p \in [1..n -> 1..n] : \A i, j \in 1..n : i # j => p[i] # p[j]}
Permuted(cfg, p) == [cfg EXCEPT !.args = [i \in 1..Len(cfg.args) |-> cfg.args[p[i]]]]
KeyUnique == Unique(Cfg) /\ UniqueLong(Cfg)
ExactWins == \A a \in 1..NArgs(SC) : Len(SC.args[a].l) > 1 => LookupLong(SC, SC.args[a].l) = a
PrefixRule == \A w \in Typed : Len(w) > 1 /\ ExactLong(SC, w) = {} =>
                 LET r == LookupLong(SC, w) IN
                 /\ (r > 0 <=> abbr /\ Cardinality(PrefixLong(SC, w)) = 1)
                 /\ (r > 0 => IsPrefixOf(w, SC.args[r].l))
OrderIndependent == \A p \in Perms(NArgs(SC)) : \A w \in Typed : Designated(Permuted(SC, p), w) = Designated(SC, w)
EdgeOut == PrintT("EDGE " \o ToJson([i |-> TRUE, pre |-> 0, post |-> 1, a |-> [keys |-> keys, abbr |-> abbr, res |-> DefineRes(Cfg)]]))
=============================================================================
