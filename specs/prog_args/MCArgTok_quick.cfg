SPECIFICATION MCSpec
CONSTANTS MaxWords = 2
          MaxWordLen = 2
INVARIANTS CursorInv
PROPERTY Progress
ACTION_CONSTRAINT EdgeOut
CHECK_DEADLOCK FALSE
