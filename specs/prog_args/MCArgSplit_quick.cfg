SPECIFICATION MCSpec
CONSTANTS MaxWords = 2
          MaxLen = 2
          MaxGap = 1
INVARIANTS Inverts Balanced ClosureOK
ACTION_CONSTRAINT EdgeOut
CHECK_DEADLOCK FALSE
