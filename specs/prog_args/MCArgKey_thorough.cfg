SPECIFICATION MCSpec
CONSTANTS MaxKeys = 3
INVARIANTS KeyUnique ExactWins PrefixRule OrderIndependent
ACTION_CONSTRAINT EdgeOut
CHECK_DEADLOCK FALSE
