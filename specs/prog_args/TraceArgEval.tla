---------------------------- MODULE TraceArgEval ----------------------------
(* Validates executions recorded by arg_driver against ArgEval.                           *)
(* {"e":"Reset","cfg":{...}}     one configuration per execution                          *)
(* {"e":"Eval","mode":..,"pre":[[word..]..],"argv":[word..],"out":"ok"|"err",..,"dest":[..],"tag":{..}} *)
(* Eval is accepted iff the logged outcome class and (on success) every destination value *)
(* equal what the specification computes for the same configuration and words.            *)
EXTENDS ArgKey, Json, IOUtils
VARIABLES l, cfg
Log == ndJsonDeserialize(IOEnv.TRACE)
Ev == Log[l]
TInit == l = 1 /\ cfg = [args |-> <<>>]
DestEq(r) == \A a \in 1..NArgs(cfg) : r.dest[a] = Ev.dest[a]
\* "lenient" configurations (C05): refused definitions are skipped by the driver, the handler holds the rest
Lenient == "lenient" \in DOMAIN cfg /\ cfg.lenient
EffCfg == IF ~Lenient THEN cfg
          ELSE [cfg EXCEPT !.args = [k \in 1..Len(cfg.args) |->
                   IF DefineRes(cfg)[k] = "refused" THEN [cfg.args[k] EXCEPT !.s = 0, !.l = <<>>, !.pos = FALSE, !.mand = FALSE]
                   ELSE cfg.args[k]]]
EvalMatches ==
   LET r == Eval(EffCfg, Ev.pre, Ev.argv) IN
   \/ Outcome(r) = "undef" /\ Ev.out \in {"ok", "err"}
   \/ Outcome(r) = "err" /\ Ev.out = "err"
   \/ Outcome(r) = "ok" /\ Ev.out = "ok" /\ Len(Ev.dest) = NArgs(cfg) /\ DestEq(r)
TNext == /\ l <= Len(Log) /\ l' = l + 1
         /\ \/ Ev.e = "Reset" /\ cfg' = Ev.cfg
            \/ Ev.e = "Eval" /\ EvalMatches /\ UNCHANGED cfg
            \/ Ev.e = "Define" /\ UNCHANGED cfg
               /\ LET d == DefineRes(cfg)
                      firstRef == IF \E k \in 1..Len(d) : d[k] = "refused" THEN CHOOSE k \in 1..Len(d) : d[k] = "refused" /\ \A j \in 1..(k-1) : d[j] = "ok" ELSE Len(d) + 1
                  IN Ev.res = IF Ev.mode = "groups" THEN [k \in 1..Len(d) |-> IF k <= firstRef THEN d[k] ELSE "skipped"] ELSE d
TSpec == TInit /\ [][TNext]_<<l, cfg>>
Accepted == TLCGet("stats").diameter = Len(Log) + 1
=============================================================================
