---------------------------- MODULE TraceArgEval ----------------------------
(* Validates executions recorded by arg_driver against ArgEval.                           *)
(* {"e":"Reset","cfg":{...}}     one configuration per execution                          *)
(* {"e":"Eval","mode":..,"pre":[[word..]..],"argv":[word..],"out":"ok"|"err",..,"dest":[..],"tag":{..}} *)
(* Eval is accepted iff the logged outcome class and (on success) every destination value *)
(* equal what the specification computes for the same configuration and words.            *)
EXTENDS ArgKey, ArgSplit, ArgUsage, Json, IOUtils
VARIABLES l, cfg
Log == ndJsonDeserialize(IOEnv.TRACE)
Ev == Log[l]
TInit == l = 1 /\ cfg = [args |-> <<>>]
DestEq(r) == /\ \A a \in 1..NArgs(cfg) : r.dest[a] = Ev.dest[a]
             \* second variables of pair arguments (traces recorded before pair arguments existed have no such field)
             /\ ("aux" \in DOMAIN Ev => Len(Ev.aux) = NArgs(cfg) /\ \A a \in 1..NArgs(cfg) : r.aux[a] = Ev.aux[a])
\* "lenient" configurations (C05): refused definitions are skipped by the driver, the handler holds the rest
Lenient == "lenient" \in DOMAIN cfg /\ cfg.lenient
EffCfg == IF ~Lenient THEN cfg
          ELSE [cfg EXCEPT !.args = [k \in 1..Len(cfg.args) |->
                   IF DefineRes(cfg)[k] = "refused" THEN [cfg.args[k] EXCEPT !.s = 0, !.l = <<>>, !.pos = FALSE, !.mand = FALSE]
                   ELSE cfg.args[k]]]
\* words delivered before argv: the effective lines of the argument file (not empty, not starting
\* with '#'), each split like a command string, then the environment variable (if not empty)
PreOf(ev) == (IF ev.presrc \in {"file", "both"} THEN [k \in 1..Len(EffLines(ev.filetext)) |-> SplitStr(EffLines(ev.filetext)[k])] ELSE <<>>)
             \o (IF ev.presrc \in {"env", "both"} /\ Len(ev.envstr) > 0 THEN <<SplitStr(ev.envstr)>> ELSE <<>>)
EvalMatches ==
   IF Ev.tag.k = "raw" THEN Ev.out \in {"ok", "err"} ELSE
   LET ecfg == IF "files" \in DOMAIN Ev THEN [files |-> Ev.files] @@ EffCfg ELSE EffCfg
       r == Eval(ecfg, PreOf(Ev), IF Ev.mode = "string" THEN SplitStr(Ev.cmd) ELSE Ev.argv) IN
   \/ Ev.tag.k = "raw" /\ Ev.out \in {"ok", "err"}      \* C04: arbitrary bytes: only "returns or throws a std::exception"
   \/ Outcome(r) = "undef" /\ Ev.out \in {"ok", "err"}
   \/ Outcome(r) = "err" /\ Ev.out = "err"
   \/ Outcome(r) = "ok" /\ Ev.out = "ok" /\ Len(Ev.dest) = NArgs(cfg) /\ DestEq(r)
TNext == /\ l <= Len(Log) /\ l' = l + 1
         /\ \/ Ev.e = "Reset" /\ cfg' = Ev.cfg
            \/ Ev.e = "Eval" /\ EvalMatches /\ UNCHANGED cfg
            \/ Ev.e = "Split" /\ UNCHANGED cfg          \* make_arg_array: words, argc, argv[argc] = NULL, program name
               \* strings that are not the join of escaped non-empty words (raw = TRUE: unbalanced quotes, empty quoted
               \* words, trailing backslash) carry no claim about the words, only about argc / NULL / program name
               /\ Ev.out = "ok" /\ (Ev.raw \/ Ev.words = SplitStr(Ev.cmd))
               /\ Ev.argc = Len(Ev.words) + 1 /\ Ev.nullterm
               /\ Ev.prog0 = (IF Ev.withprog THEN Ev.prog ELSE <<112, 114, 111, 103, 114, 97, 109, 110, 97, 109, 101>>)
            \/ Ev.e = "Usage" /\ UNCHANGED cfg /\ Ev.out = "ok" /\ Ev.stray = 0
               /\ Ev.entries = Listing(EffCfg, ContOf(Ev.via, Ev.argv))
            \* help for one argument: the argument's description (header line + its text; the text carries the token
            \* unless the argument has none) or "unknown" - never both, never neither
            \/ Ev.e = "HelpArg" /\ UNCHANGED cfg
               /\ LET a == HelpArgOf(EffCfg, Ev.key) IN
                  CASE a > 0 -> Ev.out = "ok" /\ Ev.header /\ ~Ev.unknown /\ Ev.toks = (IF cfg.args[a].nodesc THEN <<>> ELSE <<a>>)
                    [] a = 0 -> Ev.out = "ok" /\ ~Ev.header /\ Ev.unknown /\ Ev.toks = <<>>
                    [] OTHER -> TRUE
            \/ Ev.e = "UsageLayout" /\ UNCHANGED cfg /\ Ev.out = "ok" /\ LayoutOK(Ev.width, Ev.lens, Ev.nwords)
            \/ Ev.e = "Define" /\ UNCHANGED cfg
               /\ LET d == DefineRes(cfg)
                      firstRef == IF \E k \in 1..Len(d) : d[k] = "refused" THEN CHOOSE k \in 1..Len(d) : d[k] = "refused" /\ \A j \in 1..(k-1) : d[j] = "ok" ELSE Len(d) + 1
                  IN Ev.res = IF Ev.mode = "groups" THEN [k \in 1..Len(d) |-> IF k <= firstRef THEN d[k] ELSE "skipped"] ELSE d
TSpec == TInit /\ [][TNext]_<<l, cfg>>
Accepted == TLCGet("stats").diameter = Len(Log) + 1
=============================================================================
