---------------------------- MODULE TraceArgEval ----------------------------
(* Validates executions recorded by arg_driver against ArgEval.                           *)
(* {"e":"Reset","cfg":{...}}     one configuration per execution                          *)
(* {"e":"Eval","mode":..,"pre":[[word..]..],"argv":[word..],"out":"ok"|"err",..,"dest":[..],"tag":{..}} *)
(* Eval is accepted iff the logged outcome class and (on success) every destination value *)
(* equal what the specification computes for the same configuration and words.            *)
EXTENDS ArgEval, Json, IOUtils
VARIABLES l, cfg
Log == ndJsonDeserialize(IOEnv.TRACE)
Ev == Log[l]
TInit == l = 1 /\ cfg = [args |-> <<>>]
DestEq(r) == \A a \in 1..NArgs(cfg) : r.dest[a] = Ev.dest[a]
EvalMatches ==
   LET r == Eval(cfg, Ev.pre, Ev.argv) IN
   \/ Outcome(r) = "undef" /\ Ev.out \in {"ok", "err"}
   \/ Outcome(r) = "err" /\ Ev.out = "err"
   \/ Outcome(r) = "ok" /\ Ev.out = "ok" /\ Len(Ev.dest) = NArgs(cfg) /\ DestEq(r)
TNext == /\ l <= Len(Log) /\ l' = l + 1
         /\ \/ Ev.e = "Reset" /\ cfg' = Ev.cfg
            \/ Ev.e = "Eval" /\ EvalMatches /\ UNCHANGED cfg
TSpec == TInit /\ [][TNext]_<<l, cfg>>
Accepted == TLCGet("stats").diameter = Len(Log) + 1
=============================================================================
