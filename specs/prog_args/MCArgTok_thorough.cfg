SPECIFICATION MCSpec
CONSTANTS MaxWords = 2
          MaxWordLen = 3
INVARIANTS CursorInv
PROPERTY Progress
ACTION_CONSTRAINT EdgeOut
CHECK_DEADLOCK FALSE
