---------------------------- MODULE TraceArgDecl ----------------------------
(* Consistency of the two specification layers on generated inputs: every Eval event that *)
(* carries its abstract line (tag.k = "line") must satisfy Agrees(cfg, line, argv), i.e.   *)
(* the operational Eval and the declarative Valid/Intended coincide on it.  A rejection   *)
(* here is a defect of the specification or of the generator's spelling, not of Celma:    *)
(* the runner reports it as a machinery error.                                            *)
EXTENDS ArgDecl, Json, IOUtils
VARIABLES l, cfg
Log == ndJsonDeserialize(IOEnv.TRACE)
Ev == Log[l]
TInit == l = 1 /\ cfg = [args |-> <<>>]
\* [argument, values] or, for a use of a sub-group argument, [argument, values, line given inside the sub-group]
RECURSIVE LineOf(_)
LineOf(L) == [k \in 1..Len(L) |-> IF Len(L[k]) > 2 THEN [a |-> L[k][1], vals |-> L[k][2], sub |-> LineOf(L[k][3])]
                                   ELSE [a |-> L[k][1], vals |-> L[k][2]]]
TNext == /\ l <= Len(Log) /\ l' = l + 1
         /\ \/ Ev.e = "Reset" /\ cfg' = Ev.cfg
            \/ Ev.e = "Eval" /\ UNCHANGED cfg
               /\ (Ev.tag.k = "line" /\ Ev.presrc = "none" /\ Ev.mode # "string" => Agrees(cfg, LineOf(Ev.tag.line), Ev.argv))
TSpec == TInit /\ [][TNext]_<<l, cfg>>
Accepted == TLCGet("stats").diameter = Len(Log) + 1
=============================================================================
