------------------------------- MODULE MCArgSummary -------------------------------
(* Bounded instance for the argument summary (X01): the configuration family, value pools and     *)
(* abstract lines of MCArgEval (up to MaxUses uses per line), one legal spelling per line (or all  *)
(* of them), optionally the first uses (at most MaxCut) delivered through the environment          *)
(* variable, both ways of building the handler(s).  Behaviours: printSummary() in every option     *)
(* set before and after evalArguments().  Checked: the structural properties of ArgSummary and the *)
(* agreement of the operational summary (from the evaluation state) with the declarative one (from *)
(* the abstract line).  The ghost act (last action) is kept out of the state identity by VIEW.     *)
EXTENDS ArgSummary, Json
CONSTANTS MaxUses, CfgSel, Modes, MaxCut, AllSpellings
VARIABLES ci, line, words, pre, act
Fam == INSTANCE MCArgEval
Cfgs == Fam!Cfgs
Sel == IF CfgSel = {} THEN 1..Len(Cfgs) ELSE CfgSel
ASSUME PrintT("CFGS " \o ToJson(Cfgs))

Opts == {[type |-> t, key |-> k, ovl |-> "set"] : t, k \in BOOLEAN}
        \cup {[type |-> FALSE, key |-> FALSE, ovl |-> "os"], [type |-> TRUE, key |-> TRUE, ovl |-> "cout"]}
SpellingsOf(c, L) == LET S == Spellings(c, L) IN IF AllSpellings \/ S = {} THEN S ELSE {CHOOSE w \in S : TRUE}
\* a word that survives the splitting of the environment variable's text as it is
EnvSafe(ws) == \A k \in 1..Len(ws) : Len(ws[k]) > 0 /\ \A j \in 1..Len(ws[k]) : ws[k][j] \notin Special
\* uses that ArgEval evaluates the same way from the environment variable (no sub-groups, no command mode, no --endvalues)
\* and the first use on the command line keeps its meaning (a free value behind a multi-value argument that ended the environment
\* variable's text would be one more of its values: "last argument" carries over, see ArgEval.Eval)
\* (written with IF: inside the initial predicate TLC explores both sides of a disjunction)
CutOK(c, L, k) == IF k = 0 THEN TRUE
                  ELSE IF k > Len(L) THEN FALSE
                  ELSE IF \E j \in 1..Len(L) : L[j].a = 0 \/ IsSub(c.args[L[j].a]) \/ IsCmd(c.args[L[j].a]) THEN FALSE
                  ELSE IF k = Len(L) THEN TRUE
                  ELSE IF PosPlaceOK(c, L, k + 1) THEN TRUE ELSE FALSE
\* floating-point texts outside the modelled language of ArgEval (decimals that are not multiples of 1/4, "1.3" of MCArgEval's pool):
\* ArgEval calls them unconvertible, the handler accepts them - kept out as in C01 (only in-language lines are replayed there)
DecimalShape(t) == LET d == Digits(t)
                       p == PosOf(d, Dot) IN
                   p > 1 /\ p < Len(d) /\ \A k \in 1..Len(d) : k = p \/ IsDigit(d[k])
DblOutside(c, L) == \E k \in 1..Len(L) : IF L[k].a = 0 THEN FALSE
                                          ELSE c.args[L[k].a].kind = "dbl" /\ \E j \in 1..Len(L[k].vals) : DecimalShape(L[k].vals[j]) /\ ~IsQuarterText(L[k].vals[j])
NoAct == [n |-> "Init", o |-> [type |-> FALSE, key |-> FALSE, ovl |-> "set"]]

MCInit == /\ ci \in Sel
          /\ line \in Fam!Lines(Cfgs[ci])
          /\ (IF DblOutside(Cfgs[ci], line) THEN FALSE ELSE TRUE)
          /\ \E k \in 0..MaxCut :
                /\ CutOK(Cfgs[ci], line, k)
                /\ \E pw \in (IF k = 0 THEN {<<>>} ELSE SpellingsOf(Cfgs[ci], SubSeq(line, 1, k))) :
                      /\ EnvSafe(pw)
                      /\ pre = IF k = 0 THEN <<>> ELSE <<pw>>
                /\ words \in SpellingsOf(Cfgs[ci], SubSeq(line, k + 1, Len(line)))
          /\ mode \in Modes /\ (Len(pre) > 0 => mode = "handler")      \* Groups::evalArguments() does not read the environment variable
          /\ cfg = Cfgs[ci] /\ phase = "new" /\ st = InitState(Cfgs[ci]) /\ out = NoOut
          /\ act = NoAct
MCNext == /\ \/ EvalArguments(pre, words) /\ act' = [NoAct EXCEPT !.n = "Eval"]
             \/ \E o \in Opts : PrintSummary(o) /\ act' = [n |-> "Print", o |-> o]
          /\ UNCHANGED <<ci, line, words, pre>>
MCSpec == MCInit /\ [][MCNext]_<<svars, ci, line, words, pre, act>>
MCView == <<svars, ci, line, words, pre>>

\* operational = declarative on every valid line whose meaning the documentation fixes (all given on the command line)
DeclApplies == phase = "done" /\ out.printed /\ Len(pre) = 0 /\ Valid(cfg, line) /\ ~Open(cfg, line)
DeclAgrees == DeclApplies => OutTriples(out) = DeclEntries(cfg, line)
\* whatever the source (environment variable, command line): exactly the arguments that were used
PathsAgree == phase = "done" /\ out.printed /\ (\A k \in 1..Len(line) : line[k].a # 0 /\ ~IsSub(cfg.args[line[k].a]))
                 => {out.entries[k].path : k \in 1..Len(out.entries)} = {<<a>> : a \in {x \in 1..NArgs(cfg) : Used(line, x)}}
\* a valid line of the documented language is accepted (otherwise nothing is checked above)
ValidAccepted == Len(pre) = 0 /\ Valid(cfg, line) /\ ~Open(cfg, line) => phase \in {"new", "done", "open"}

\* graph nodes of the replay: the state of the handler object (out is the result of the last call, not part of the object)
St == [ci |-> ci, w |-> words, p |-> pre, m |-> mode, ph |-> phase]
StP == [ci |-> ci', w |-> words', p |-> pre', m |-> mode', ph |-> phase']
EdgeOut == PrintT("EDGE " \o ToJson([i |-> (phase = "new"), pre |-> St,
                      a |-> [n |-> act'.n, o |-> act'.o, ci |-> ci, words |-> words, p |-> pre, m |-> mode,
                             ne |-> Len(out'.entries), decl |-> (phase' = "done" /\ out'.printed /\ Len(pre) = 0 /\ Valid(cfg, line) /\ ~Open(cfg, line))],
                      post |-> StP]))
=============================================================================
