---- MODULE ArgThreads_TTrace_1790849912 ----
EXTENDS Sequences, ArgThreads, TLCExt, Toolbox, Naturals, TLC

_expression ==
    LET ArgThreads_TEExpression == INSTANCE ArgThreads_TEExpression
    IN ArgThreads_TEExpression!expression
----

_trace ==
    LET ArgThreads_TETrace == INSTANCE ArgThreads_TETrace
    IN ArgThreads_TETrace!trace
----

_inv ==
    ~(
        TLCGet("level") = Len(_TETrace)
        /\
        res = (<<<<>>, <<<<49, 59, 50>>, <<51>>>>>>)
        /\
        pc = (<<"read", "done">>)
        /\
        cell = (<<44, 0>>)
        /\
        got = (<<0, 44>>)
    )
----

_init ==
    /\ pc = _TETrace[1].pc
    /\ res = _TETrace[1].res
    /\ got = _TETrace[1].got
    /\ cell = _TETrace[1].cell
----

_next ==
    /\ \E i,j \in DOMAIN _TETrace:
        /\ \/ /\ j = i + 1
              /\ i = TLCGet("level")
        /\ pc  = _TETrace[i].pc
        /\ pc' = _TETrace[j].pc
        /\ res  = _TETrace[i].res
        /\ res' = _TETrace[j].res
        /\ got  = _TETrace[i].got
        /\ got' = _TETrace[j].got
        /\ cell  = _TETrace[i].cell
        /\ cell' = _TETrace[j].cell

\* Uncomment the ASSUME below to write the states of the error trace
\* to the given file in Json format. Note that you can pass any tuple
\* to `JsonSerialize`. For example, a sub-sequence of _TETrace.
    \* ASSUME
    \*     LET J == INSTANCE Json
    \*         IN J!JsonSerialize("ArgThreads_TTrace_1790849912.json", _TETrace)

=============================================================================

 Note that you can extract this module `ArgThreads_TEExpression`
  to a dedicated file to reuse `expression` (the module in the 
  dedicated `ArgThreads_TEExpression.tla` file takes precedence 
  over the module `ArgThreads_TEExpression` below).

---- MODULE ArgThreads_TEExpression ----
EXTENDS Sequences, ArgThreads, TLCExt, Toolbox, Naturals, TLC

expression == 
    [
        \* To hide variables of the `ArgThreads` spec from the error trace,
        \* remove the variables below.  The trace will be written in the order
        \* of the fields of this record.
        pc |-> pc
        ,res |-> res
        ,got |-> got
        ,cell |-> cell
        
        \* Put additional constant-, state-, and action-level expressions here:
        \* ,_stateNumber |-> _TEPosition
        \* ,_pcUnchanged |-> pc = pc'
        
        \* Format the `pc` variable as Json value.
        \* ,_pcJson |->
        \*     LET J == INSTANCE Json
        \*     IN J!ToJson(pc)
        
        \* Lastly, you may build expressions over arbitrary sets of states by
        \* leveraging the _TETrace operator.  For example, this is how to
        \* count the number of times a spec variable changed up to the current
        \* state in the trace.
        \* ,_pcModCount |->
        \*     LET F[s \in DOMAIN _TETrace] ==
        \*         IF s = 1 THEN 0
        \*         ELSE IF _TETrace[s].pc # _TETrace[s-1].pc
        \*             THEN 1 + F[s-1] ELSE F[s-1]
        \*     IN F[_TEPosition - 1]
    ]

=============================================================================



Parsing and semantic processing can take forever if the trace below is long.
 In this case, it is advised to uncomment the module below to deserialize the
 trace from a generated binary file.

\*
\*---- MODULE ArgThreads_TETrace ----
\*EXTENDS IOUtils, ArgThreads, TLC
\*
\*trace == IODeserialize("ArgThreads_TTrace_1790849912.bin", TRUE)
\*
\*=============================================================================
\*

---- MODULE ArgThreads_TETrace ----
EXTENDS ArgThreads, TLC

trace == 
    <<
    ([res |-> <<<<>>, <<>>>>,pc |-> <<"write", "write">>,cell |-> <<0, 0>>,got |-> <<0, 0>>]),
    ([res |-> <<<<>>, <<>>>>,pc |-> <<"write", "read">>,cell |-> <<59, 0>>,got |-> <<0, 0>>]),
    ([res |-> <<<<>>, <<>>>>,pc |-> <<"read", "read">>,cell |-> <<44, 0>>,got |-> <<0, 0>>]),
    ([res |-> <<<<>>, <<>>>>,pc |-> <<"read", "split">>,cell |-> <<44, 0>>,got |-> <<0, 44>>]),
    ([res |-> <<<<>>, <<<<49, 59, 50>>, <<51>>>>>>,pc |-> <<"read", "done">>,cell |-> <<44, 0>>,got |-> <<0, 44>>])
    >>
----


=============================================================================

---- CONFIG ArgThreads_TTrace_1790849912 ----
CONSTANTS
    N = 2
    SharedCell = TRUE

INVARIANT
    _inv

CHECK_DEADLOCK
    \* CHECK_DEADLOCK off because of PROPERTY or INVARIANT above.
    FALSE

INIT
    _init

NEXT
    _next

CONSTANT
    _TETrace <- _trace

ALIAS
    _expression
=============================================================================
\* Generated on Thu Oct 01 10:18:33 UTC 2026