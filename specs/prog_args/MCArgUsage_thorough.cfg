SPECIFICATION MCSpec
CONSTANTS NArgsMC = 3
INVARIANTS ListingOK ContentsOK
ACTION_CONSTRAINT EdgeOut
CHECK_DEADLOCK FALSE
