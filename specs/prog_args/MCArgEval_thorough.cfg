SPECIFICATION MCSpec
CONSTANTS MaxUses = 3
          CfgSel = {}
INVARIANTS CursorInv AgreesInv ClosureInv
ACTION_CONSTRAINT EdgeOut
CHECK_DEADLOCK FALSE
