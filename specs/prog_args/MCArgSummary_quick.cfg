SPECIFICATION MCSpec
CONSTANTS MaxUses = 2
          CfgSel = {1, 4, 7, 11, 21, 22}
          Modes = {"handler", "groups"}
          MaxCut = 1
          AllSpellings = FALSE
INVARIANTS NoneIffEmpty EachOnce NewIsEmpty DeclAgrees PathsAgree ValidAccepted
VIEW MCView
ACTION_CONSTRAINT EdgeOut
CHECK_DEADLOCK FALSE
