------------------------------- MODULE ArgDecl -------------------------------
(* Declarative layer of the argument handler specification (properties C01, C02, C03,   *)
(* C06): what a command line MEANS, independent of the evaluation algorithm.             *)
(* An abstract line is a sequence of uses [a |-> argument index, vals |-> value texts]   *)
(* in command line order.  Valid(cfg, line) is the conjunction of the declared rules in  *)
(* their documented sense, Intended(cfg, line) the destination values, Spellings(cfg,    *)
(* line) the set of legal surface forms.  TLC checks the operational Eval of ArgEval     *)
(* against these (MCArgEval), and every generated test input carries its abstract line.  *)
EXTENDS ArgEval

\* A use with a = 0 is the standard argument --endvalues (handler flag hfEndValues): it ends the value list of the multi-value
\* argument in front of it and has no other meaning; it may be given any number of times.
\* A use of a sub-group argument carries one more field: sub = the abstract line (over the sub-group's configuration) given
\* behind it.  A use of a command-mode argument has the whole remaining text as its single value and must be the last use.
UsesIdx(line, a) == {k \in 1..Len(line) : line[k].a = a}
Used(line, a) == UsesIdx(line, a) # {}
RECURSIVE AllVals(_, _, _)
AllVals(line, a, k) == IF k > Len(line) THEN <<>>
                       ELSE (IF line[k].a = a THEN line[k].vals ELSE <<>>) \o AllVals(line, a, k + 1)
LastUse(line, a) == CHOOSE k \in UsesIdx(line, a) : \A j \in UsesIdx(line, a) : j <= k
\* everything given to sub-group argument a, over all the times it was entered
RECURSIVE SubLine(_, _, _)
SubLine(line, a, k) == IF k > Len(line) THEN <<>>
                       ELSE (IF line[k].a = a THEN line[k].sub ELSE <<>>) \o SubLine(line, a, k + 1)

\* ---- one value: convertible and accepted by all checks
ValueOK(arg, raw) == ConvElem(arg, raw).ok
ValueOf(arg, raw) == ConvElem(arg, raw).v

\* ---- container fold (C06): content after giving the values vs (texts, all acceptable) in order
RECURSIVE FoldVals(_, _, _, _)
FoldVals(arg, vs, k, c) ==
   IF k > Len(vs) THEN c
   ELSE LET v == ValueOf(arg, vs[k]) IN
        IF arg.uniq # "no" /\ Contains(c, v) THEN FoldVals(arg, vs, k + 1, c)
        ELSE FoldVals(arg, vs, k + 1, AddTo(arg.kind, c, v))
\* ascending sequence of a finite set of integers
RECURSIVE SetToSortedSeq(_)
SetToSortedSeq(S) == IF S = {} THEN <<>>
                     ELSE LET m == CHOOSE x \in S : \A y \in S : x <= y IN <<m>> \o SetToSortedSeq(S \ {m})
\* key-value container: a well-formed pair text has a key, the separator and a number
MapOK(raw) == MapShapeOK(raw) /\ IsIntText(MapVal(raw))
\* the first value given for a key is the one that is kept (insertion of an existing key is ignored)
RECURSIVE FoldMap(_, _, _)
FoldMap(vs, k, c) == IF k > Len(vs) THEN c
                     ELSE FoldMap(vs, k + 1, IF HasKey(c, MapKey(vs[k])) THEN c ELSE InsertByKey(c, <<MapKey(vs[k]), IntOf(MapVal(vs[k]))>>))
RECURSIVE MapHasDup(_, _, _)
MapHasDup(vs, k, keys) == IF k > Len(vs) THEN FALSE
                          ELSE MapKey(vs[k]) \in keys \/ MapHasDup(vs, k + 1, keys \cup {MapKey(vs[k])})
ContainerIntended(arg, vs) ==
   IF arg.kind = "mapsi" THEN FoldMap(vs, 1, IF arg.clear THEN <<>> ELSE arg.init)
   ELSE IF arg.kind \in GrowBitKinds THEN
      \* all positions given are set in (or, with unsetFlag, removed from) the initial (or cleared) content
      LET P == {ValueOf(arg, vs[j]) : j \in 1..Len(vs)}
          B == IF arg.clear THEN {} ELSE SeqToSet(arg.init) IN
      SetToSortedSeq(IF arg.unset THEN B \ P ELSE B \cup P)
   ELSE IF IsArr(arg.kind) THEN
      LET got == FoldVals(arg, vs, 1, <<>>)
          s == IF arg.sort THEN SortInts(got) ELSE got IN
      [k \in 1..3 |-> IF k <= Len(s) THEN s[k] ELSE arg.init[k]]
   ELSE IF arg.kind = "tup" THEN
      [k \in 1..3 |-> IF k <= Len(vs) THEN ConvElemAt(arg, vs[k], k - 1).v ELSE arg.init[k]]
   ELSE IF arg.kind = "bits8" THEN
      [k \in 1..8 |-> LET given == \E j \in 1..Len(vs) : ValueOf(arg, vs[j]) = k - 1 IN
                      IF arg.unset THEN ~given /\ ~arg.clear /\ arg.init[k] ELSE given \/ (~arg.clear /\ arg.init[k])]
   ELSE LET base == IF arg.clear THEN <<>> ELSE arg.init
            got == FoldVals(arg, vs, 1, base) IN
        IF arg.sort /\ ~SortedKind(arg.kind) THEN SortElems(arg.kind, got) ELSE got
\* number of elements a fixed-size destination would have to hold
StoredCount(arg, vs) == Len(FoldVals(arg, vs, 1, <<>>))
\* a duplicate among the values given (or against the previous content) when duplicates are errors
RECURSIVE HasDup(_, _, _, _)
HasDup(arg, vs, k, c) ==
   IF k > Len(vs) THEN FALSE
   ELSE LET v == ValueOf(arg, vs[k]) IN
        IF Contains(c, v) THEN TRUE ELSE HasDup(arg, vs, k + 1, AddTo(arg.kind, c, v))

\* level counter: every use without value adds one, a use with a value sets the level
RECURSIVE LevelAfter(_, _, _, _)
LevelAfter(arg, line, a, k) ==
   IF k = 0 THEN arg.init
   ELSE IF line[k].a # a THEN LevelAfter(arg, line, a, k - 1)
   ELSE IF Len(line[k].vals) = 0 THEN LevelAfter(arg, line, a, k - 1) + 1
   ELSE ValueOf(arg, line[k].vals[1])
\* without "mix": either only increments, or one single use that sets the level; every level reached passes the checks
LevelValid(arg, line, a) ==
   LET U == UsesIdx(line, a) IN
   /\ \A k \in U : Len(line[k].vals) <= 1 /\ (Len(line[k].vals) = 1 => ValueOK(arg, line[k].vals[1]))
   /\ \A k \in U : Len(line[k].vals) = 0 => NumChecksOK(arg, LevelAfter(arg, line, a, k))
   /\ (arg.mix \/ (\A k \in U : Len(line[k].vals) = 0) \/ Cardinality(U) = 1)

\* value arguments (DEST_VAR_VALUE) writing the variable owned by argument d: uses in line order
ValUses(cfg, line, d) == {k \in 1..Len(line) : line[k].a \in ValGroup(cfg, d)}
\* value of that variable in front of use k (k = Len(line) + 1: at the end)
ValBefore(cfg, line, d, k) ==
   LET U == {j \in ValUses(cfg, line, d) : j < k} IN
   IF U = {} THEN cfg.args[d].init ELSE cfg.args[line[CHOOSE j \in U : \A i \in U : i <= j].a].setval
\* "the original value of the destination variable is modified only once" (unless the check is switched off)
ValArgOK(cfg, line, a) ==
   \A k \in UsesIdx(line, a) : cfg.args[a].chkorig => ValBefore(cfg, line, cfg.args[a].dst, k) = cfg.args[cfg.args[a].dst].init
\* not documented: a checked use after the variable was set to a value equal to its original value
ValArgOpen(cfg, line, a) ==
   \E k \in UsesIdx(line, a) : /\ cfg.args[a].chkorig
                                /\ \E j \in ValUses(cfg, line, cfg.args[a].dst) : j < k
                                /\ ValBefore(cfg, line, cfg.args[a].dst, k) = cfg.args[cfg.args[a].dst].init

RECURSIVE Intended(_, _)
Intended(cfg, line) ==
   [a \in 1..NArgs(cfg) |->
      LET arg == cfg.args[a] IN
      IF IsSub(arg) THEN Intended(arg.sub, SubLine(line, a, 1))
      ELSE IF arg.kind = "valint" THEN ValBefore(cfg, line, arg.dst, Len(line) + 1)
      ELSE IF ~Used(line, a) THEN arg.init
      ELSE IF arg.kind = "flag" THEN ~arg.init
      ELSE IF arg.kind = "level" THEN LevelAfter(arg, line, a, Len(line))
      ELSE IF IsContainer(arg.kind) THEN ContainerIntended(arg, AllVals(line, a, 1))
      ELSE LET v == ValueOf(arg, line[LastUse(line, a)].vals[1]) IN
           IF arg.kind = "optint" THEN <<v>> ELSE v]

\* second variable of pair arguments: its fixed value once the argument was used
RECURSIVE IntendedAux(_, _)
IntendedAux(cfg, line) ==
   [a \in 1..NArgs(cfg) |-> IF IsSub(cfg.args[a]) THEN IntendedAux(cfg.args[a].sub, SubLine(line, a, 1))
                            ELSE IF ~PairOn(cfg.args[a]) THEN 0 ELSE IF Used(line, a) THEN cfg.args[a].pair.val ELSE cfg.args[a].pair.init]

\* ---- validity
\* endr: the rules that can only be judged at the end of the command line (mandatory, lower cardinality bounds, requirements,
\* all-of / one-of / differ / disjoint) are included.  Without them: the rules that are enforced while the words are read.
CardOK(arg, nuses, nvals, endr) ==
   LET n == IF IsContainer(arg.kind) THEN nvals ELSE nuses
       card == EffCard(arg) IN
   CASE card.t = "none"  -> TRUE
     [] card.t = "max"   -> n <= card.a
     [] card.t = "exact" -> n <= card.a /\ (endr => n = card.a)
     [] card.t = "range" -> (endr => n >= card.a) /\ n <= card.b
     [] OTHER -> TRUE

RECURSIVE ValidX(_, _, _)
ArgValid(cfg, line, a, endr) ==
   LET arg == cfg.args[a]
       vs == AllVals(line, a, 1) IN
   IF ~Used(line, a) THEN endr => ~arg.mand
   ELSE IF arg.kind = "level" THEN ~arg.depr /\ LevelValid(arg, line, a) /\ CardOK(arg, Cardinality(UsesIdx(line, a)), Len(vs), endr)
   \* sub-group: used like a flag; what was given inside it obeys the rules that its handler enforces while reading
   ELSE IF IsSub(arg) THEN /\ ~arg.depr
                           /\ \A k \in UsesIdx(line, a) : Len(line[k].vals) = 0
                           /\ CardOK(arg, Cardinality(UsesIdx(line, a)), 0, endr)
                           /\ ValidX(arg.sub, SubLine(line, a, 1), FALSE)
   ELSE /\ ~arg.depr
        /\ \A k \in UsesIdx(line, a) :
              IF arg.kind \in {"flag", "valint"} THEN Len(line[k].vals) = 0
              ELSE IF IsContainer(arg.kind) THEN Len(line[k].vals) >= 1
              ELSE Len(line[k].vals) = 1
        /\ \A k \in 1..Len(vs) : IF arg.kind = "tup" THEN k <= 3 /\ ConvElemAt(arg, vs[k], k - 1).ok
                                  ELSE IF arg.kind = "mapsi" THEN MapOK(vs[k])
                                  ELSE ValueOK(arg, vs[k])
        /\ (arg.kind = "valint" => ValArgOK(cfg, line, a))
        /\ (arg.kind \in GrowBitKinds => \A k \in 1..Len(vs) : ValueOf(arg, vs[k]) >= 0)
        /\ CardOK(arg, Cardinality(UsesIdx(line, a)), Len(vs), endr)
        /\ (IsArr(arg.kind) => StoredCount(arg, vs) <= 3)
        /\ (arg.kind = "bits8" => \A k \in 1..Len(vs) : ValueOf(arg, vs[k]) >= 0 /\ ValueOf(arg, vs[k]) < 8)
        /\ (IsContainer(arg.kind) /\ arg.kind # "mapsi" /\ arg.uniq = "error" =>
               ~HasDup(arg, vs, 1, IF IsArr(arg.kind) \/ arg.clear THEN <<>> ELSE arg.init))
        /\ (arg.kind = "mapsi" /\ arg.uniq = "error" =>
               ~MapHasDup(vs, 1, IF arg.clear THEN {} ELSE {arg.init[j][1] : j \in 1..Len(arg.init)}))

\* requires/excludes in their documented, order-sensitive sense
ConstraintsOK(cfg, line, endr) ==
   \A k \in {j \in 1..Len(line) : line[j].a # 0} :
      LET arg == cfg.args[line[k].a] IN
      /\ endr => \A j \in SeqToSet(arg.req) : \E m \in (k+1)..Len(line) : line[m].a = j
      /\ \A j \in SeqToSet(arg.exc) : \A m \in (k+1)..Len(line) : line[m].a # j

HConsOK(cfg, line, h, endr) ==
   LET S == SeqToSet(h.args)
       usedS == {a \in S : Used(line, a)}
       D == Intended(cfg, line) IN
   CASE h.k = "allOf"  -> endr => usedS = S
     [] h.k = "anyOf"  -> Cardinality(usedS) <= 1
     [] h.k = "oneOf"  -> Cardinality(usedS) <= 1 /\ (endr => Cardinality(usedS) = 1)
     [] h.k = "differ" -> endr => \A a, b \in usedS : a # b => D[a] # D[b]
     [] h.k = "disjoint" -> endr => \A a, b \in S : a # b => (SeqToSet(D[a]) \cap SeqToSet(D[b])) = {}
     [] OTHER -> TRUE
\* cases the documentation leaves open: all-of with none of its arguments used; an any-of/one-of
\* argument used more than once
HConsOpen(cfg, line, h) ==
   LET S == SeqToSet(h.args) IN
   \/ h.k = "allOf" /\ \A a \in S : ~Used(line, a)
   \/ h.k \in {"anyOf", "oneOf"} /\ \E a \in S : Cardinality(UsesIdx(line, a)) > 1
ValidX(cfg, line, endr) ==
   /\ \A k \in 1..Len(line) : line[k].a = 0 => cfg.endvalues              \* --endvalues exists only when the handler defines it
   /\ \A a \in 1..NArgs(cfg) : ArgValid(cfg, line, a, endr)
   /\ ConstraintsOK(cfg, line, endr)
   /\ \A k \in 1..Len(cfg.hcons) : HConsOK(cfg, line, cfg.hcons[k], endr)
Valid(cfg, line) == ValidX(cfg, line, TRUE)

\* a command-mode argument given without anything behind its key: empty value or missing value?  not documented
CmdOpen(cfg, line) == \E k \in 1..Len(line) : line[k].a # 0 /\ IsCmd(cfg.args[line[k].a]) /\ Len(line[k].vals) = 0
RECURSIVE Open(_, _)
Open(cfg, line) == \/ \E k \in 1..Len(cfg.hcons) : HConsOpen(cfg, line, cfg.hcons[k])
                   \/ \E a \in 1..NArgs(cfg) : cfg.args[a].kind = "valint" /\ ValArgOpen(cfg, line, a)
                   \/ CmdOpen(cfg, line)
                   \* sub-groups: the end-of-line rules of the sub-group's handler (nobody says when they are checked) are not met
                   \/ \E a \in 1..NArgs(cfg) : IsSub(cfg.args[a]) /\ LET L == SubLine(line, a, 1) IN
                         Open(cfg.args[a].sub, L) \/ (ValidX(cfg.args[a].sub, L, FALSE) /\ ~ValidX(cfg.args[a].sub, L, TRUE))

\* The operational evaluation agrees with the declarative meaning for a spelling `words` of `line`
\* (C01/C03: valid lines are accepted with the intended values; C02: invalid ones are rejected).
Agrees(cfg, line, words) ==
   LET r == Eval(cfg, <<>>, words) IN
   \/ Open(cfg, line) \/ Outcome(r) = "undef"
   \/ Valid(cfg, line) /\ Outcome(r) = "ok" /\ \A a \in 1..NArgs(cfg) : r.dest[a] = Intended(cfg, line)[a] /\ r.aux[a] = IntendedAux(cfg, line)[a]
   \/ ~Valid(cfg, line) /\ Outcome(r) = "err"

\* ---------------------------------------------------------------- legal spellings (C01)
JoinSep(vs, sep) == LET F[k \in 0..Len(vs)] == IF k = 0 THEN <<>> ELSE IF k = 1 THEN vs[1] ELSE F[k-1] \o <<sep>> \o vs[k] IN F[Len(vs)]
\* unambiguous proper prefixes (length >= 2) of the long key of argument a that are not themselves a key
Abbrevs(cfg, a) ==
   IF ~cfg.abbr THEN {}
   ELSE {p \in {SubSeq(LongKeyOf(cfg, a), 1, n) : n \in 2..(Len(LongKeyOf(cfg, a)) - 1)} :
            /\ ExactLong(cfg, p) = {}
            /\ PrefixLong(cfg, p) = {a}}
NextWordOK(v) == ~(Len(v) > 0 /\ v[1] = Dash) /\ ~(Len(v) = 1 /\ v[1] \in CtrlChars)
\* the words of a command-mode value: the text cut at its blanks (texts with leading, trailing or double blanks have no spelling)
CmdWords(v) == SplitAt(v, 32)
CmdTextOK(v) == Len(v) > 0 /\ RestOfLine(CmdWords(v), 1) = v
IsShortFlagWord(cfg, w) == Len(w) >= 2 /\ w[1] = Dash /\ w[2] # Dash
                           /\ \A k \in 2..Len(w) : \E a \in 1..NArgs(cfg) : cfg.args[a].s = w[k] /\ cfg.args[a].vm \in {"none", "opt"}
\* (the key of a command-mode argument must stay a word of its own)
IsShortKeyWord(cfg, w) == Len(w) >= 2 /\ w[1] = Dash /\ w[2] # Dash /\ \E a \in 1..NArgs(cfg) : cfg.args[a].s = w[2] /\ ~IsCmd(cfg.args[a])
\* grouping of adjacent short keys behind one dash: "-a" "-b" -> "-ab", "-a" "-n5"/"-n" -> "-an5"/"-an"
Merges(cfg, ws) ==
   {SubSeq(ws, 1, k - 1) \o <<ws[k] \o Tail2(ws[k+1], 2)>> \o Tail2(ws, k + 2) :
       k \in {j \in 1..(Len(ws) - 1) : IsShortFlagWord(cfg, ws[j]) /\ IsShortKeyWord(cfg, ws[j+1])}}
\* is the first word of a spelling taken by the handler with configuration sc (a sub-group that was entered before)?
\* A key it knows (exactly, abbreviated or ambiguously); a free value if it has a positional argument or `freeval`
\* (its last argument still takes values)
TakenBySub(sc, w, freeval) ==
   IF Len(w) >= 2 /\ w[1] = Dash /\ w[2] # Dash THEN LookupShort(sc, w[2]) # 0
   ELSE IF Len(w) > 2 /\ w[1] = Dash /\ w[2] = Dash THEN
        LET name == Tail2(w, 3)
            e == PosOf(name, EqSign) IN
        LookupLong(sc, IF e = 0 THEN name ELSE SubSeq(name, 1, e - 1)) # 0
   ELSE freeval \/ PosArg(sc) # 0
\* surface forms of one use: set of word sequences
RECURSIVE SpellFrom(_, _, _)
RECURSIVE Spellings(_, _)
SpellUse(cfg, u) ==
   \* --endvalues: the full key or an unambiguous abbreviation, never with a value
   IF u.a = 0 THEN {<<<<Dash, Dash>> \o w>> : w \in {EndValuesKey} \cup Abbrevs(cfg, EndValuesIdx(cfg))} ELSE
   LET arg == cfg.args[u.a]
       shortK == IF arg.s # 0 THEN {<<Dash, arg.s>>} ELSE {}
       longK == IF Len(arg.l) > 0 THEN {<<Dash, Dash>> \o w : w \in {arg.l} \cup Abbrevs(cfg, u.a)} ELSE {}
   IN
   IF IsSub(arg) THEN
        \* the key, then the sub-group's line in any of its spellings; the short key may lead a group that goes on with
        \* short keys of the sub-group ("-oc mycache")
        LET S == Spellings(arg.sub, u.sub) IN
        {<<k>> \o t : k \in shortK \cup longK, t \in S}
        \cup {<<k \o Tail2(t[1], 2)>> \o Tail2(t, 2) : k \in shortK, t \in {x \in S : Len(x) > 0 /\ IsShortKeyWord(arg.sub, x[1])}}
   ELSE IF IsCmd(arg) THEN
        IF Len(u.vals) = 0 THEN (IF arg.pos THEN {} ELSE {<<k>> : k \in shortK \cup longK})
        ELSE IF ~CmdTextOK(u.vals[1]) THEN {}
        ELSE IF arg.pos THEN (IF NextWordOK(CmdWords(u.vals[1])[1]) THEN {CmdWords(u.vals[1])} ELSE {})
        ELSE {<<k>> \o CmdWords(u.vals[1]) : k \in shortK \cup longK}
   \* (an empty word as positional value is kept out: nothing says whether it is a value at all)
   ELSE IF arg.pos THEN LET pv == IF IsContainer(arg.kind) THEN JoinSep(u.vals, arg.sep) ELSE u.vals[1] IN
                   IF NextWordOK(pv) /\ Len(pv) > 0 THEN {<<pv>>} ELSE {}
   ELSE IF Len(u.vals) = 0 THEN {<<k>> : k \in shortK \cup longK}
   ELSE LET v == IF IsContainer(arg.kind) THEN JoinSep(u.vals, arg.sep) ELSE u.vals[1] IN
        {<<k, v>> : k \in {x \in shortK \cup longK : NextWordOK(v)}}
        \cup {<<k \o v>> : k \in {x \in shortK : arg.vm = "req" /\ Len(v) > 0}}
        \cup {<<k \o <<EqSign>> \o v>> : k \in longK}
\* all concatenations of one form per use, in line order
\* a positional value directly behind a multi-value argument (it would be one more of its values) or behind an
\* optional-mode argument used without value (it would be its value) has no legal spelling at that place
\* (behind --endvalues it is legal again: that is what the marker is for)
PosPlaceOK(cfg, line, k) ==
   line[k].a = 0 \/ ~cfg.args[line[k].a].pos \/ k = 1 \/ line[k-1].a = 0
   \/ LET prev == cfg.args[line[k-1].a] IN
      ~prev.multi /\ ~(prev.vm = "opt" /\ Len(line[k-1].vals) = 0)
\* nothing can follow a command-mode argument (it would be part of its value)
CmdPlaceOK(cfg, line, k) == k = 1 \/ line[k-1].a = 0 \/ ~IsCmd(cfg.args[line[k-1].a])
\* behind a sub-group the first word of the next use must be one the sub-group's handler does not take
AfterSubOK(cfg, line, k, ws) ==
   k = 1 \/ line[k-1].a = 0 \/ ~IsSub(cfg.args[line[k-1].a]) \/ Len(ws) = 0
   \/ LET sc == cfg.args[line[k-1].a].sub
          L == line[k-1].sub
          lastu == L[Len(L)]
          freeval == Len(L) > 0 /\ lastu.a # 0 /\ (sc.args[lastu.a].multi \/ (sc.args[lastu.a].vm = "opt" /\ Len(lastu.vals) = 0)) IN
      ~TakenBySub(sc, ws[1], freeval)
SpellFrom(cfg, line, k) ==
   IF k > Len(line) THEN {<<>>}
   ELSE IF ~PosPlaceOK(cfg, line, k) \/ ~CmdPlaceOK(cfg, line, k) THEN {}
   ELSE {h \o t : h \in {x \in SpellUse(cfg, line[k]) : AfterSubOK(cfg, line, k, x)}, t \in SpellFrom(cfg, line, k + 1)}
\* a command-mode use (the last one) is spelled as it is: what stands behind it is text, not keys that could be grouped
Spellings(cfg, line) ==
   LET n == Len(line)
       hasCmd == n > 0 /\ line[n].a # 0 /\ IsCmd(cfg.args[line[n].a])
       head == IF hasCmd THEN SubSeq(line, 1, n - 1) ELSE line
       base == SpellFrom(cfg, head, 1)
       m1 == UNION {Merges(cfg, ws) : ws \in base}
       m2 == UNION {Merges(cfg, ws) : ws \in m1}
       H == base \cup m1 \cup m2 IN
   IF ~hasCmd THEN H
   ELSE IF ~PosPlaceOK(cfg, line, n) \/ ~CmdPlaceOK(cfg, line, n) THEN {}
   ELSE {h \o c : h \in H, c \in {x \in SpellUse(cfg, line[n]) : AfterSubOK(cfg, line, n, x)}}
=============================================================================
