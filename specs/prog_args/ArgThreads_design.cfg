SPECIFICATION Spec
CONSTANTS N = 3
          SharedCell = FALSE
INVARIANTS Isolation NoSharedWrite
CHECK_DEADLOCK FALSE
