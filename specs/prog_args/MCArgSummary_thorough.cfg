SPECIFICATION MCSpec
CONSTANTS MaxUses = 2
          CfgSel = {}
          Modes = {"handler", "groups"}
          MaxCut = 2
          AllSpellings = FALSE
INVARIANTS NoneIffEmpty EachOnce NewIsEmpty DeclAgrees PathsAgree ValidAccepted
VIEW MCView
ACTION_CONSTRAINT EdgeOut
CHECK_DEADLOCK FALSE
