------------------------------- MODULE MCArgUsage -------------------------------
(* Bounded instance for C18: all argument sets of NArgsMC arguments over every combination of  *)
(* mandatory / hidden / deprecated (replaced) / short-only / long-only / both keys, under every *)
(* display setting.  Checked: the listing contains every visible argument exactly once under   *)
(* the right caption and no invisible one.                                                      *)
EXTENDS ArgUsage, Json
CONSTANTS NArgsMC
VARIABLES shapes, hid, dep, cont, nd, done
Shape == [keys : {"s", "l", "sl"}, mand : BOOLEAN, hidden : BOOLEAN, depr : {"no", "depr", "repl"}]
OkShape(sh) == ~(sh.mand /\ sh.depr # "no")            \* a deprecated argument cannot be mandatory (refused at definition)
LongOf(n) == <<108, 111, 110, 103, 48 + n>>            \* "long<n>"
ArgOf(sh, n) == [s |-> IF sh.keys \in {"s", "sl"} THEN 96 + n ELSE 0, l |-> IF sh.keys \in {"l", "sl"} THEN LongOf(n) ELSE <<>>,
                 pos |-> FALSE, kind |-> "int", vm |-> "req", mand |-> sh.mand, card |-> [t |-> "dflt", a |-> 0, b |-> 0],
                 checks |-> <<>>, formats |-> <<>>, sep |-> 44, clear |-> FALSE, sort |-> FALSE, uniq |-> "no", multi |-> FALSE,
                 req |-> <<>>, exc |-> <<>>, init |-> n, depr |-> sh.depr # "no", unset |-> FALSE, cspell |-> 0, grp |-> 0,
                 hidden |-> sh.hidden, dashes |-> FALSE, mix |-> FALSE, printdef |-> "dflt", nodesc |-> (n = nd),
                 repl |-> IF sh.depr = "repl" THEN <<45, 45, 110, 101, 119>> ELSE <<>>]
CfgOf == [abbr |-> TRUE, endvalues |-> FALSE, hcons |-> <<>>, args |-> [n \in 1..NArgsMC |-> ArgOf(shapes[n], n)],
          usagehidden |-> hid, usagedepr |-> dep, usageshort |-> cont = "short", usagelong |-> cont = "long", help |-> cont # "all"]
Via == IF cont = "all" THEN "stream" ELSE "help"
Argv == IF cont = "short" THEN <<<<45, 45, 104, 101, 108, 112, 45, 115, 104, 111, 114, 116>>, <<45, 104>>>>
        ELSE IF cont = "long" THEN <<<<45, 45, 104, 101, 108, 112, 45, 108, 111, 110, 103>>, <<45, 104>>>> ELSE <<>>
MCInit == /\ shapes \in {f \in [1..NArgsMC -> Shape] : \A n \in 1..NArgsMC : OkShape(f[n])}
          /\ hid \in BOOLEAN /\ dep \in BOOLEAN /\ cont \in {"all", "short", "long"}
          /\ nd \in 0..NArgsMC                   \* the argument defined with an empty description (0: none)
          /\ done = FALSE
MCNext == ~done /\ done' = TRUE /\ UNCHANGED <<shapes, hid, dep, cont, nd>>
MCSpec == MCInit /\ [][MCNext]_<<shapes, hid, dep, cont, nd, done>>
ListingOK == ExactlyVisibleOnce(CfgOf, cont) /\ ContOf(Via, Argv) = cont
\* short-only / long-only display shows exactly the arguments that have such a key
ContentsOK == \A k \in 1..Len(Listing(CfgOf, cont)) :
                 LET e == Listing(CfgOf, cont)[k] IN
                 Len(e.toks) = 1 => LET a == CfgOf.args[e.toks[1]] IN (cont = "short" => a.s # 0) /\ (cont = "long" => Len(a.l) > 0)
EdgeOut == PrintT("EDGE " \o ToJson([i |-> TRUE, pre |-> 0, post |-> 1, a |-> [cfg |-> CfgOf, via |-> Via, argv |-> Argv]]))
=============================================================================
