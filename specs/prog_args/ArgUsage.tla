------------------------------- MODULE ArgUsage -------------------------------
(* The usage listing (property C18): which arguments are listed, under which caption, with  *)
(* which key text and which markers.  cfg carries the display settings: usagehidden,        *)
(* usagedepr (print hidden / deprecated arguments), usageshort / usagelong (contents).       *)
EXTENDS ArgEval
\* Display settings: cfg.usagehidden / cfg.usagedepr print hidden / deprecated arguments.  Short-only or
\* long-only contents are selected on the command line with --help-short / --help-long (arguments that
\* exist when cfg.usageshort / cfg.usagelong are set); cfg.help adds -h,--help.  These standard
\* arguments are listed like any other optional argument (they come first: defined by the constructor).
StdArg(s, l) == [s |-> s, l |-> l, pos |-> FALSE, mand |-> FALSE, hidden |-> FALSE, depr |-> FALSE, repl |-> <<>>,
                 checks |-> <<>>, req |-> <<>>, exc |-> <<>>, kind |-> "flag", printdef |-> "no", std |-> TRUE, nodesc |-> FALSE]
StdArgs(cfg) == (IF cfg.help THEN <<StdArg(104, <<104, 101, 108, 112>>)>> ELSE <<>>)
                \o (IF cfg.usageshort THEN <<StdArg(0, <<104, 101, 108, 112, 45, 115, 104, 111, 114, 116>>)>> ELSE <<>>)
                \o (IF cfg.usagelong THEN <<StdArg(0, <<104, 101, 108, 112, 45, 108, 111, 110, 103>>)>> ELSE <<>>)
\* (an argument whose definition was refused - it has no key left in the effective configuration - is not an argument of the handler)
Visible(cfg, cont, arg) ==
   /\ (arg.s # 0 \/ Len(arg.l) > 0 \/ arg.pos)
   /\ (cfg.usagehidden \/ ~arg.hidden)
   /\ (cfg.usagedepr \/ ~arg.depr)
   /\ CASE cont = "short" -> arg.s # 0
        [] cont = "long"  -> Len(arg.l) > 0
        [] OTHER -> TRUE
KeyText(cont, arg) ==
   LET sk == <<Dash, arg.s>>
       lk == <<Dash, Dash>> \o arg.l IN
   CASE cont = "short" -> sk
     [] cont = "long"  -> lk
     [] OTHER -> IF arg.s # 0 /\ Len(arg.l) > 0 THEN sk \o <<44>> \o lk ELSE IF arg.s # 0 THEN sk ELSE lk
\* default value printed: optional argument whose destination type prints defaults (or explicitly switched)
PrintsDefault(arg) == ~arg.mand /\ (IF arg.printdef = "dflt" THEN arg.kind \in {"int", "str", "dbl", "level", "valint"} ELSE arg.printdef = "yes")
\* arg.nodesc: the argument was defined with an empty description text (then no token identifies its entry: the
\* entry is there all the same, recognised by its key text)
EntryOf(cont, arg, toks) ==
   [cap |-> IF arg.mand THEN "m" ELSE "o", key |-> KeyText(cont, arg), toks |-> IF arg.nodesc THEN <<>> ELSE toks,
    dflt |-> PrintsDefault(arg), check |-> Len(arg.checks) > 0, cons |-> Len(arg.req) + Len(arg.exc) > 0,
    hid |-> arg.hidden, depr |-> arg.depr /\ Len(arg.repl) = 0, repl |-> arg.depr /\ Len(arg.repl) > 0]
RECURSIVE ListFrom(_, _, _, _)
ListFrom(cfg, cont, mandPass, a) ==
   IF a > NArgs(cfg) THEN <<>>
   ELSE (IF cfg.args[a].mand = mandPass /\ Visible(cfg, cont, cfg.args[a]) THEN <<EntryOf(cont, cfg.args[a], <<a>>)>> ELSE <<>>)
        \o ListFrom(cfg, cont, mandPass, a + 1)
StdEntries(cfg, cont) == LET S == SelectSeq(StdArgs(cfg), LAMBDA x : Visible(cfg, cont, x)) IN [k \in 1..Len(S) |-> EntryOf(cont, S[k], <<>>)]
\* mandatory arguments first, then the optional ones (standard arguments first), each group in definition order
Listing(cfg, cont) == ListFrom(cfg, cont, TRUE, 1) \o StdEntries(cfg, cont) \o ListFrom(cfg, cont, FALSE, 1)
\* contents selected by the words in front of the help argument
ContOf(via, argv) == IF via = "help" /\ \E k \in 1..Len(argv) : argv[k] = <<45, 45, 104, 101, 108, 112, 45, 115, 104, 111, 114, 116>> THEN "short"
                     ELSE IF via = "help" /\ \E k \in 1..Len(argv) : argv[k] = <<45, 45, 104, 101, 108, 112, 45, 108, 111, 110, 103>> THEN "long"
                     ELSE "all"

\* ---- the property, declaratively (an entry belongs to argument a when it carries a's token or, for an argument
\* without description text, a's key text - key texts of different arguments differ)
EntryIsOf(cfg, cont, e, a) == IF cfg.args[a].nodesc THEN e.toks = <<>> /\ e.key = KeyText(cont, cfg.args[a]) ELSE e.toks = <<a>>
ExactlyVisibleOnce(cfg, cont) ==
   LET L == Listing(cfg, cont) IN
   /\ \A a \in 1..NArgs(cfg) : Cardinality({k \in 1..Len(L) : EntryIsOf(cfg, cont, L[k], a)}) = (IF Visible(cfg, cont, cfg.args[a]) THEN 1 ELSE 0)
   /\ \A k \in 1..Len(L), a \in 1..NArgs(cfg) : EntryIsOf(cfg, cont, L[k], a) => L[k].cap = (IF cfg.args[a].mand THEN "m" ELSE "o")

\* layout of the usage (property C17 applied to the usage text, which is written through TextBlock behind the key column): no line
\* is longer than the line length in force unless it holds a single word (a key of its own line, a word that cannot fit)
LayoutOK(width, lens, nwords) == Len(lens) = Len(nwords) /\ \A i \in 1..Len(lens) : lens[i] <= width \/ nwords[i] <= 1

\* help for one argument: typed key text (short character, complete long key or - when the handler accepts
\* abbreviations - an unambiguous beginning of a long key) -> argument index, 0 (unknown) or -1 (ambiguous: open)
HelpArgOf(cfg, key) == IF Len(key) = 1 THEN LookupShort(cfg, key[1]) ELSE LookupLong(cfg, key)
=============================================================================
