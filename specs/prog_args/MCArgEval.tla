------------------------------- MODULE MCArgEval -------------------------------
(* Bounded instance: a family of configurations x all abstract lines of up to MaxUses   *)
(* uses over small value pools x all legal spellings.  Every behaviour is one           *)
(* evaluation, stepped through the operational specification; the declarative layer is  *)
(* checked at the end of every behaviour, the tokenizer cursor in every state.          *)
EXTENDS ArgDecl, Json
CONSTANTS MaxUses, CfgSel
VARIABLES ci, line, words, st

A0(s, l, kind) == [s |-> s, l |-> l, pos |-> FALSE, kind |-> kind, vm |-> IF kind = "flag" THEN "none" ELSE IF kind = "level" THEN "opt" ELSE "req",
                   mand |-> FALSE, card |-> [t |-> "dflt", a |-> 0, b |-> 0], checks |-> <<>>, formats |-> <<>>,
                   sep |-> 44, clear |-> FALSE, sort |-> FALSE, uniq |-> "no", multi |-> FALSE, req |-> <<>>, exc |-> <<>>,
                   init |-> CASE kind = "flag" -> FALSE [] kind \in {"int", "dbl", "level", "valint"} -> 0 [] kind \in {"arr3", "sarr3"} -> <<0, 0, 0>>
                             [] kind = "tup" -> <<0, <<>>, 0>> [] kind = "bits8" -> [k \in 1..8 |-> FALSE] [] OTHER -> <<>>,
                   depr |-> FALSE, unset |-> FALSE, cspell |-> 0, grp |-> 0, hidden |-> FALSE, dashes |-> FALSE, mix |-> FALSE,
                   \* isize: initial size of a vector<bool>/DynamicBitset (driver only); value arguments: setval, dst (owner of the
                   \* variable), chkorig; pair arguments: second variable [on, val, init]
                   isize |-> 0, setval |-> 0, dst |-> 0, chkorig |-> TRUE, pair |-> [on |-> FALSE, val |-> 0, init |-> 0]]
\* value argument storing v in the variable owned by argument d
AV(s, l, v, d) == [A0(s, l, "valint") EXCEPT !.vm = "none", !.setval = v, !.dst = d]
\* sub-group argument entering the handler with configuration sc (ctor = 1: built with the sub-group constructor
\* Handler( main_ah, flags)); command-mode argument (std::string destination)
SUBA(s, l, sc, ctor) == [sub |-> sc, subctor |-> ctor] @@ [A0(s, l, "flag") EXCEPT !.kind = "sub"]
CMD(s, l) == [A0(s, l, "str") EXCEPT !.vm = "cmd"]
Ck(k, a, b) == [k |-> k, a |-> a, b |-> b, vals |-> <<>>]
C0(args, hcons, abbr) == [abbr |-> abbr, endvalues |-> FALSE, args |-> args, hcons |-> hcons]
H(k, as) == [k |-> k, args |-> as, cspell |-> 0, grp |-> 0]
\* key texts:  a=97 b=98 n=110 v=118 ; "al" "alt" "num" "val"
K_a == <<97>>  K_b == <<98>>
K_fil == <<102, 105, 108>>  K_out == <<111, 117, 116>>  K_in == <<105, 110>>  K_exec == <<101, 120, 101, 99>>
K_al == <<97, 108>>  K_alt == <<97, 108, 116>>  K_num == <<110, 117, 109>>  K_val == <<118, 97, 108>>
Cfgs == <<
   \* 1: flags + required int, prefix-related long keys
   C0(<<A0(97, K_al, "flag"), A0(98, K_alt, "flag"), A0(110, K_num, "int")>>, <<>>, TRUE),
   \* 2: same without abbreviations, int mandatory with lower/upper checks
   C0(<<A0(97, K_al, "flag"), [A0(110, K_num, "int") EXCEPT !.mand = TRUE, !.checks = <<Ck("lower", 0, 0), Ck("upper", 10, 0)>>],
        A0(0, K_val, "str")>>, <<>>, FALSE),
   \* 3: requires / excludes
   C0(<<[A0(97, K_al, "flag") EXCEPT !.req = <<3>>], [A0(98, K_alt, "flag") EXCEPT !.exc = <<1>>], A0(110, K_num, "int")>>, <<>>, TRUE),
   \* 4: containers: vector with unique+sort, set
   C0(<<[A0(118, K_val, "vecint") EXCEPT !.uniq = "ignore", !.sort = TRUE, !.init = <<7>>], A0(110, K_num, "setint"), A0(97, <<>>, "flag")>>, <<>>, TRUE),
   \* 5: handler constraints one-of / differ
   C0(<<A0(97, <<>>, "int"), A0(98, <<>>, "int"), A0(110, K_num, "flag")>>, <<H("oneOf", <<1, 3>>), H("differ", <<1, 2>>)>>, TRUE),
   \* 6: fixed-size array, clear-before-assign vector, cardinality exact 2
   C0(<<[A0(97, K_al, "arr3") EXCEPT !.sort = TRUE], [A0(118, K_val, "vecint") EXCEPT !.clear = TRUE, !.init = <<1, 2>>, !.card = [t |-> "exact", a |-> 2, b |-> 0]], A0(98, <<>>, "flag")>>, <<>>, TRUE),
   \* 7: string with formats and length checks, optional<int>, any-of
   C0(<<[A0(118, K_val, "str") EXCEPT !.formats = <<"upper">>, !.checks = <<Ck("maxlen", 2, 0)>>], A0(110, K_num, "optint"), A0(97, K_al, "flag")>>, <<H("anyOf", <<2, 3>>)>>, TRUE),
   \* 8: all-of + cardinality max 2 on a scalar
   C0(<<[A0(110, K_num, "int") EXCEPT !.card = [t |-> "max", a |-> 2, b |-> 0]], A0(97, K_al, "flag"), A0(98, <<>>, "flag")>>, <<H("allOf", <<2, 3>>)>>, TRUE),
   \* 9: forward_list, multiset with unique data, priority queue
   C0(<<[A0(97, K_al, "fwdint") EXCEPT !.init = <<2, 1>>], [A0(118, K_val, "msetint") EXCEPT !.uniq = "ignore"], A0(110, K_num, "pqint")>>, <<>>, TRUE),
   \* 10: stack, queue, std::array with duplicates refused
   C0(<<A0(97, K_al, "stackint"), [A0(118, K_val, "queueint") EXCEPT !.init = <<1, 2>>], [A0(110, K_num, "sarr3") EXCEPT !.uniq = "error"]>>, <<>>, TRUE),
   \* 11: tuple, bitset with clear-before-assign, sorted list with its own separator, disjoint vectors
   C0(<<A0(97, K_al, "tup"), [A0(98, <<>>, "bits8") EXCEPT !.clear = TRUE, !.init = [k \in 1..8 |-> k = 2]],
        [A0(118, K_val, "listint") EXCEPT !.sort = TRUE, !.sep = 59]>>, <<>>, TRUE),
   \* 12: disjoint constraint on two vectors, one of them with unique data
   C0(<<A0(97, K_al, "vecint"), [A0(118, K_val, "vecint") EXCEPT !.uniq = "ignore", !.init = <<7>>]>>, <<H("disjoint", <<1, 2>>)>>, TRUE),
   \* 13: floating-point destinations (values are multiples of 1/4), differ constraint
   C0(<<[A0(97, K_al, "dbl") EXCEPT !.init = 10], A0(118, K_val, "dbl"), A0(98, <<>>, "flag")>>, <<H("differ", <<1, 2>>)>>, TRUE),
   \* 14: level counters (optional value mode): plain with an upper limit, and one that allows mixing increment and set
   C0(<<[A0(118, K_val, "level") EXCEPT !.checks = <<Ck("upper", 3, 0)>>], [A0(110, K_num, "level") EXCEPT !.mix = TRUE, !.init = 7], A0(97, K_al, "flag")>>, <<>>, TRUE),
   \* 15: multi-value vector ended by --endvalues (the long key "en" of the flag is a prefix of the standard key), positional string
   [C0(<<[A0(118, K_val, "vecint") EXCEPT !.multi = TRUE], A0(97, <<101, 110>>, "flag"),
         [A0(0, <<>>, "str") EXCEPT !.pos = TRUE, !.card = [t |-> "none", a |-> 0, b |-> 0]]>>, <<>>, TRUE) EXCEPT !.endvalues = TRUE],
   \* 16: multi-value string vector, a flag and a positional string: which argument gets a free value
   C0(<<[A0(118, K_val, "vecstr") EXCEPT !.multi = TRUE], A0(97, K_al, "flag"), [A0(0, <<>>, "str") EXCEPT !.pos = TRUE, !.card = [t |-> "none", a |-> 0, b |-> 0]]>>, <<>>, TRUE),
   \* 17: growing bit sets: vector<bool> of initial size 1 (bit 0 set), DynamicBitset with clear-before-assign
   C0(<<[A0(118, K_val, "vecbool") EXCEPT !.init = <<0>>, !.isize = 1], [A0(110, K_num, "dynbits") EXCEPT !.clear = TRUE, !.init = <<2>>, !.isize = 4]>>, <<>>, TRUE),
   \* 18: bit sets with unsetFlag: vector<bool> (multi-value), DynamicBitset
   C0(<<[A0(118, K_val, "vecbool") EXCEPT !.unset = TRUE, !.init = <<1, 7>>, !.isize = 10, !.multi = TRUE],
        [A0(110, K_num, "dynbits") EXCEPT !.unset = TRUE, !.init = <<0, 12>>, !.isize = 13]>>, <<>>, TRUE),
   \* 19: key-value containers: plain map with initial content, map with clear-before-assign that refuses duplicate keys
   C0(<<[A0(118, K_val, "mapsi") EXCEPT !.sep = 59, !.init = <<<<K_b, 5>>>>],
        [A0(110, K_num, "mapsi") EXCEPT !.sep = 58, !.clear = TRUE, !.uniq = "error", !.init = <<<<K_a, 3>>>>]>>, <<>>, TRUE),
   \* 20: value arguments: two checked ones and an unchecked one (any number of uses) on one variable, one on its own
   \*     variable that stores the original value again
   C0(<<[AV(97, K_al, 1, 1) EXCEPT !.init = 4], [AV(98, K_alt, 2, 1) EXCEPT !.init = 4],
        [AV(110, K_num, 4, 1) EXCEPT !.init = 4, !.chkorig = FALSE, !.card = [t |-> "none", a |-> 0, b |-> 0]],
        [AV(118, K_val, 0, 4) EXCEPT !.card = [t |-> "max", a |-> 2, b |-> 0]]>>, <<>>, TRUE),
   \* 21: pair arguments: int, vector<int> (multi-value) and flag as first variable
   C0(<<[A0(110, K_num, "int") EXCEPT !.pair = [on |-> TRUE, val |-> 9, init |-> 1]],
        [A0(118, K_val, "vecint") EXCEPT !.multi = TRUE, !.pair = [on |-> TRUE, val |-> -2, init |-> 0]],
        [A0(97, K_al, "flag") EXCEPT !.pair = [on |-> TRUE, val |-> 5, init |-> 5]]>>, <<>>, TRUE),
   \* 22: sub-group o/out {string f/fil, flag c, int n} next to a flag and an int n/num of the main handler (the key n exists
   \*     in both: inside the sub-group it is the sub-group's)
   C0(<<A0(97, K_al, "flag"), A0(110, K_num, "int"),
        SUBA(111, K_out, C0(<<A0(102, K_fil, "str"), A0(99, <<>>, "flag"), A0(110, <<>>, "int")>>, <<>>, TRUE), 0)>>, <<>>, TRUE),
   \* 23: two sub-groups with the same keys inside (i/in: string f/fil as pair argument, flag c; o/out: multi-value vector v,
   \*     flag c) and a positional string of the main handler (a free value behind a sub-group)
   C0(<<SUBA(105, K_in, C0(<<[A0(102, K_fil, "str") EXCEPT !.pair = [on |-> TRUE, val |-> 2, init |-> 0]], A0(99, <<>>, "flag")>>, <<>>, TRUE), 1),
        SUBA(111, K_out, C0(<<[A0(118, <<>>, "vecint") EXCEPT !.multi = TRUE], A0(99, <<>>, "flag")>>, <<>>, TRUE), 0),
        [A0(0, <<>>, "str") EXCEPT !.pos = TRUE, !.card = [t |-> "none", a |-> 0, b |-> 0]]>>, <<>>, TRUE),
   \* 24: keyed command-mode argument x/exec (at most 7 characters) behind a flag and an int
   C0(<<A0(97, K_al, "flag"), A0(110, K_num, "int"), [CMD(120, K_exec) EXCEPT !.checks = <<Ck("maxlen", 7, 0)>>]>>, <<>>, TRUE),
   \* 25: positional command-mode argument, a flag and a mandatory int
   C0(<<A0(97, K_al, "flag"), [A0(110, K_num, "int") EXCEPT !.mand = TRUE], [CMD(0, <<>>) EXCEPT !.pos = TRUE]>>, <<>>, TRUE),
   \* 26: differ over three int arguments (equal values on the first and the third with the second unused)
   C0(<<A0(97, <<>>, "int"), A0(98, <<>>, "int"), A0(99, <<>>, "int")>>, <<H("differ", <<1, 2, 3>>)>>, TRUE),
   \* 27: string vectors with a format and unique data: the formatted element is the one that counts (upper case, sorted / duplicates
   \*     dropped; lower case / duplicates refused, "x" is there from the start)
   C0(<<[A0(118, K_val, "vecstr") EXCEPT !.formats = <<"upper">>, !.uniq = "ignore", !.sort = TRUE],
        [A0(110, K_num, "vecstr") EXCEPT !.formats = <<"lower">>, !.uniq = "error", !.init = <<<<120>>>>]>>, <<>>, TRUE)
>>
Sel == IF CfgSel = {} THEN 1..Len(Cfgs) ELSE CfgSel
Cfg == Cfgs[ci]

IntPool == {<<48>>, <<55>>, <<45, 51>>, <<120>>, <<49, 50>>}          \* "0" "7" "-3" "x" "12"
StrPool == {<<120>>, <<97, 98>>, <<45, 121>>, <<88, 121, 122>>, <<>>}  \* "x" "ab" "-y" "Xyz" and the empty text
CasePool == {<<120>>, <<88>>, <<97, 98>>}                              \* "x" "X" "ab": equal after a case format
\* positions are unsigned: negative numbers are outside the documented domain (ArgEval leaves them open) and not generated
BitPool == {<<48>>, <<49>>, <<49, 50>>, <<120>>, <<55>>}     \* "0" "1" "12" "x" "7"
MapPool == {<<97, 44, 49>>, <<98, 44, 50>>, <<97, 44, 55>>, <<97, 44, 120>>, <<97>>, <<44, 49>>, <<99, 44>>}   \* "a,1" "b,2" "a,7" "a,x" "a" ",1" "c,"
\* command-mode values: "ls"  "ls -l"  "-a -n 7"  "ls --al x" (keyed: also nothing at all);  positional: "ls"  "ls -a"  "x --num 7"
CmdPool == {<<108, 115>>, <<108, 115, 32, 45, 108>>, <<45, 97, 32, 45, 110, 32, 55>>, <<108, 115, 32, 45, 45, 97, 108, 32, 120>>}
CmdPosPool == {<<108, 115>>, <<108, 115, 32, 45, 97>>, <<120, 32, 45, 45, 110, 117, 109, 32, 55>>}
ValChoices(arg) ==
   IF arg.kind \in {"flag", "valint"} THEN {<<>>}
   ELSE IF IsCmd(arg) THEN (IF arg.pos THEN {<<v>> : v \in CmdPosPool} ELSE {<<>>} \cup {<<v>> : v \in CmdPool})
   ELSE IF arg.kind \in GrowBitKinds THEN {<<v>> : v \in BitPool} \cup {<<v, w>> : v, w \in {<<49>>, <<55>>}}
   ELSE IF arg.kind = "mapsi" THEN {<<v>> : v \in MapPool} \cup {<<v, w>> : v \in {<<97, 44, 49>>, <<98, 44, 50>>}, w \in {<<97, 44, 55>>, <<98, 44, 50>>}}
   ELSE IF arg.kind = "level" THEN {<<>>, <<<<50>>>>, <<<<55>>>>, <<<<120>>>>}
   ELSE IF arg.kind = "dbl" THEN {<<v>> : v \in {<<50, 46, 53>>, <<45, 48, 46, 50, 53>>, <<51>>, <<120>>, <<49, 46, 55, 53>>, <<49, 46, 51>>}}   \* "2.5" "-0.25" "3" "x" "1.75" "1.3"
   ELSE IF arg.kind = "tup" THEN {<<<<55>>, <<97, 98>>, <<45, 51>>>>, <<<<48>>, <<120>>, <<120>>>>, <<<<55>>, <<120>>>>, <<<<48>>>>, <<<<55>>, <<120>>, <<48>>, <<55>>>>}
   ELSE IF arg.kind = "vecstr" /\ Len(arg.formats) > 0 THEN {<<v>> : v \in CasePool} \cup {<<v, w>> : v, w \in CasePool}
   ELSE IF IsContainer(arg.kind) THEN {<<v>> : v \in IntPool \ {<<49, 50>>}} \cup {<<v, w>> : v, w \in {<<48>>, <<55>>, <<45, 51>>}}
   ELSE IF ElemIsInt(arg.kind) THEN {<<v>> : v \in IntPool}
   ELSE {<<v>> : v \in StrPool}
\* inside a sub-group: smaller pools; sub-group lines: nothing, every single use, and every pair of uses with first values
SubValChoices(arg) ==
   IF arg.kind = "int" THEN {<<<<55>>>>, <<<<120>>>>}                     \* "7" "x"
   ELSE IF arg.kind = "str" THEN {<<<<120>>>>, <<<<45, 121>>>>}           \* "x" "-y"
   ELSE IF arg.kind = "vecint" THEN {<<<<55>>>>, <<<<120>>>>, <<<<48>>, <<55>>>>}     \* "7" "x" "0,7"
   ELSE ValChoices(arg)
FirstVal(arg) == IF arg.kind \in {"int", "vecint"} THEN <<<<55>>>> ELSE IF arg.kind = "str" THEN <<<<120>>>> ELSE <<>>
SubUses(sc) == UNION {{[a |-> a, vals |-> vs] : vs \in SubValChoices(sc.args[a])} : a \in 1..NArgs(sc)}
SubUses1(sc) == {[a |-> a, vals |-> FirstVal(sc.args[a])] : a \in 1..NArgs(sc)}
SubLines(sc) == {<<>>} \cup {<<u>> : u \in SubUses(sc)} \cup {<<u, w>> : u, w \in SubUses1(sc)}
\* configurations with the standard argument --endvalues: the marker (a = 0) is a use like any other
UseSet(cfg) == (IF cfg.endvalues THEN {[a |-> 0, vals |-> <<>>]} ELSE {}) \cup UNION {IF IsSub(cfg.args[a]) THEN {[a |-> a, vals |-> <<>>, sub |-> L] : L \in SubLines(cfg.args[a].sub)}
                      ELSE {[a |-> a, vals |-> vs] : vs \in ValChoices(cfg.args[a])} : a \in 1..NArgs(cfg)}
Lines(cfg) == UNION {[1..n -> UseSet(cfg)] : n \in 0..MaxUses}

ASSUME PrintT("CFGS " \o ToJson(Cfgs))

MCInit == /\ ci \in Sel
          /\ line \in Lines(Cfgs[ci])
          /\ words \in Spellings(Cfgs[ci], line)
          /\ st = InitState(Cfgs[ci])
MCNext == /\ st.out \in {"run", "eol"}
          /\ st' = IF st.out = "run" THEN StepWords(Cfg, words, st, TRUE) ELSE EndChecks(Cfg, [st EXCEPT !.out = "run"])
          /\ UNCHANGED <<ci, line, words>>
MCSpec == MCInit /\ [][MCNext]_<<ci, line, words, st>>

Final == st.out \in {"ok", "err", "undef"}
\* C04 (index clause): the cursor never leaves argv or the current word
CursorInv == CursorOK(words, st)
\* C01 + C03: a valid line is accepted in every spelling with exactly the intended values;
\* C02: an invalid line is rejected in every spelling (no silent acceptance)
AgreesInv == Final =>
   \/ Open(Cfg, line) \/ st.out = "undef"
   \/ Valid(Cfg, line) /\ st.out = "ok" /\ \A a \in 1..NArgs(Cfg) : st.dest[a] = Intended(Cfg, line)[a] /\ st.aux[a] = IntendedAux(Cfg, line)[a]
   \/ ~Valid(Cfg, line) /\ st.out = "err"
\* the step function and the recursive closure used for trace validation are the same function
ClosureInv == Final => Outcome(Eval(Cfg, <<>>, words)) = Outcome(st)
\* one line per finished behaviour: the input of the replay in the real code
EdgeOut == IF st'.out \in {"ok", "err", "undef"}
             THEN PrintT("EDGE " \o ToJson([i |-> TRUE, pre |-> 0, post |-> 0,
                      a |-> [ci |-> ci, words |-> words, line |-> line, valid |-> Valid(Cfg, line), out |-> st'.out]]))
             ELSE TRUE
=============================================================================
