---------------------------- MODULE TraceArgSummary ----------------------------
(* Validates executions recorded by arg_driver (action "Summary") against ArgSummary.               *)
(* {"e":"Reset","cfg":{...}}      one configuration per execution                                   *)
(* {"e":"Summary","mode":"handler"|"groups","evaluate":b,"presrc":..,"filetext":[..],"envstr":[..], *)
(*  "argv":[word..],"out":"none"|"ok"|"err","dest":[..],"aux":[..],                                 *)
(*  "presums":[rec..],"sums":[rec..],"tag":{..}}                                                    *)
(*    rec = {"type":b,"key":b,"ovl":"set"|"os"|"cout","res":"ok","kinds":["t"|"e"|"o"..],           *)
(*           "entries":[{"var","val","type","key","prefix","haskey"}..],"others":[text..]}          *)
(* One Summary event is a fresh handler: Construct, PrintSummary for every element of presums,      *)
(* EvalArguments (when "evaluate"), PrintSummary for every element of sums.  It is accepted iff      *)
(* the outcome class and the destination values are those of ArgEval and every recorded summary    *)
(* is a rendering of the abstract summary of ArgSummary for its options.                            *)
EXTENDS ArgSummary, Json, IOUtils
VARIABLE l
Log == ndJsonDeserialize(IOEnv.TRACE)
Ev == Log[l]
TInit == l = 1 /\ cfg = [args |-> <<>>] /\ mode = "handler" /\ phase = "new" /\ st = InitState([args |-> <<>>]) /\ out = NoOut
\* words delivered before argv: the effective lines of the argument file, then the environment variable (as TraceArgEval)
PreOf(ev) == (IF ev.presrc \in {"file", "both"} THEN [k \in 1..Len(EffLines(ev.filetext)) |-> SplitStr(EffLines(ev.filetext)[k])] ELSE <<>>)
             \o (IF ev.presrc \in {"env", "both"} /\ Len(ev.envstr) > 0 THEN <<SplitStr(ev.envstr)>> ELSE <<>>)
DestEq(r) == /\ Len(Ev.dest) = NArgs(cfg) /\ \A a \in 1..NArgs(cfg) : r.dest[a] = Ev.dest[a]
             /\ Len(Ev.aux) = NArgs(cfg) /\ \A a \in 1..NArgs(cfg) : r.aux[a] = Ev.aux[a]
\* (values that are needed several times are bound by \E over a one-element set: TLC evaluates a bound value once, a LET
\* definition or an operator argument every time it is referenced)
AllRendered(s, recs) == \E sm \in {Printed(cfg, s)} : \A k \in 1..Len(recs) : RenderedOK(cfg, sm, EffOpts(recs[k]), recs[k])
SummaryEvent ==
   \E s0 \in {InitState(cfg)} :
   \E ae \in {IF Ev.evaluate THEN AfterEval(cfg, PreOf(Ev), Ev.argv) ELSE [st |-> s0, phase |-> "new"]} :
   \* Construct; PrintSummary* on the fresh handler
   /\ AllRendered(s0, Ev.presums)
   \* EvalArguments
   /\ CASE ae.phase = "new"    -> Ev.out = "none"
        [] ae.phase = "done"   -> Ev.out = "ok" /\ DestEq(ae.st)
        [] ae.phase = "failed" -> Ev.out = "err"
        [] OTHER               -> Ev.out \in {"ok", "err"}
   \* PrintSummary*
   /\ (ae.phase \in {"new", "done"} => AllRendered(ae.st, Ev.sums))
   /\ mode' = Ev.mode /\ st' = ae.st /\ phase' = ae.phase
   /\ out' = IF ae.phase \in {"new", "done"} /\ Len(Ev.sums) > 0 THEN Printed(cfg, ae.st)
             ELSE IF ~Ev.evaluate /\ Len(Ev.presums) > 0 THEN Printed(cfg, s0) ELSE NoOut
   /\ UNCHANGED cfg
TNext == /\ l <= Len(Log) /\ l' = l + 1
         /\ \/ Ev.e = "Reset" /\ Construct(Ev.cfg, "handler")
            \/ Ev.e = "Summary" /\ SummaryEvent
TSpec == TInit /\ [][TNext]_<<svars, l>>
Accepted == TLCGet("stats").diameter = Len(Log) + 1
=============================================================================
