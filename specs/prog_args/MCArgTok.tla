------------------------------- MODULE MCArgTok -------------------------------
(* Bounded instance for C04: EVERY argv of up to MaxWords words of up to MaxWordLen characters  *)
(* over the structural alphabet  - = a b ! (  is evaluated for a few handler configurations.    *)
(* Checked in every state: the tokenizer cursor stays inside argv and inside the current word;  *)
(* on every step: the evaluation makes progress (a variant decreases), so it terminates.        *)
EXTENDS ArgEval, Json
CONSTANTS MaxWords, MaxWordLen
VARIABLES ci, words, st
A0(s, l, kind) == [s |-> s, l |-> l, pos |-> FALSE, kind |-> kind, vm |-> IF kind = "flag" THEN "none" ELSE "req",
                   mand |-> FALSE, card |-> [t |-> "none", a |-> 0, b |-> 0], checks |-> <<>>, formats |-> <<>>,
                   sep |-> 44, clear |-> FALSE, sort |-> FALSE, uniq |-> "no", multi |-> FALSE, req |-> <<>>, exc |-> <<>>,
                   init |-> CASE kind = "flag" -> FALSE [] kind = "int" -> 0 [] OTHER -> <<>>,
                   depr |-> FALSE, unset |-> FALSE, cspell |-> 0, grp |-> 0, hidden |-> FALSE, dashes |-> FALSE, mix |-> FALSE]
C0(args) == [abbr |-> TRUE, endvalues |-> FALSE, args |-> args, hcons |-> <<>>]
Cfgs == <<
   C0(<<A0(97, <<>>, "flag"), A0(98, <<97, 98>>, "str")>>),                                   \* flag a, string b/ab
   C0(<<A0(97, <<97, 97>>, "flag"), [A0(98, <<>>, "vecstr") EXCEPT !.multi = TRUE]>>),        \* flag a/aa, multi-value b
   C0(<<A0(97, <<>>, "str"), [A0(0, <<>>, "str") EXCEPT !.pos = TRUE]>>),                     \* string a, positional
   C0(<<A0(97, <<97, 98>>, "int"), A0(98, <<97, 98, 98>>, "flag")>>),                          \* int a/ab, flag b/abb
   C0(<<A0(97, <<>>, "flag"), [A0(98, <<97, 98>>, "str") EXCEPT !.vm = "cmd"]>>),             \* flag a, command-mode string b/ab
   C0(<<A0(97, <<>>, "flag"),                                                                 \* flag a, sub-group b with a string a/aa inside
        [sub |-> C0(<<A0(97, <<97, 97>>, "str")>>), subctor |-> 0] @@ [A0(98, <<>>, "flag") EXCEPT !.kind = "sub"]>>)
>>
Alpha == {45, 61, 97, 98, 33, 40}
WordSet == UNION {[1..n -> Alpha] : n \in 0..MaxWordLen}
MCInit == /\ ci \in 1..Len(Cfgs)
          /\ words \in UNION {[1..n -> WordSet] : n \in 0..MaxWords}
          /\ st = InitState(Cfgs[ci])
MCNext == /\ st.out \in {"run", "eol"}
          /\ st' = IF st.out = "run" THEN StepWords(Cfgs[ci], words, st, TRUE) ELSE EndChecks(Cfgs[ci], [st EXCEPT !.out = "run"])
          /\ UNCHANGED <<ci, words>>
vars == <<ci, words, st>>
MCSpec == MCInit /\ [][MCNext]_vars
CursorInv == CursorOK(words, st)
\* characters (plus one per word) that are still in front of the cursor
RECURSIVE Remaining(_, _)
Remaining(ws, j) == IF j > Len(ws) THEN 0 ELSE Len(ws[j]) + 1 + Remaining(ws, j + 1)
Measure(s) == Remaining(words, s.i) - (IF s.pos > 0 THEN s.pos - 1 ELSE 0)
Progress == [][st.out = "run" /\ st'.out = "run" => Measure(st') < Measure(st)]_vars
EdgeOut == IF st'.out \in {"ok", "err", "undef"}
             THEN PrintT("EDGE " \o ToJson([i |-> TRUE, pre |-> 0, post |-> 0, a |-> [ci |-> ci, words |-> words, out |-> st'.out]]))
             ELSE TRUE
ASSUME PrintT("CFGS " \o ToJson(Cfgs))
=============================================================================
