------------------------------- MODULE ArgKey -------------------------------
(* Keys of one handler (property C05): which definitions are refused, and which argument a  *)
(* typed key designates.  Lookup itself is LookupShort/LookupLong of ArgEval (exact key     *)
(* first, then unique prefix when abbreviations are enabled).                               *)
EXTENDS ArgEval
\* two key specifications collide: same short key or same long key (this covers both "already
\* used" and "short/long pair contradicts an existing pair")
Collide(k1, k2) == \/ k1.s # 0 /\ k1.s = k2.s
                   \/ Len(k1.l) > 0 /\ k1.l = k2.l
                   \/ k1.pos /\ k2.pos
\* result of defining the arguments of cfg in order: "ok" | "refused" per argument
RECURSIVE DefineFrom(_, _, _)
DefineFrom(args, k, stored) ==
   IF k > Len(args) THEN <<>>
   ELSE IF \E j \in stored : Collide(args[k], args[j])
        THEN <<"refused">> \o DefineFrom(args, k + 1, stored)
        ELSE <<"ok">> \o DefineFrom(args, k + 1, stored \cup {k})
DefineRes(cfg) == DefineFrom(cfg.args, 1, {})
Stored(cfg) == {k \in 1..NArgs(cfg) : DefineRes(cfg)[k] = "ok"}
\* the configuration that the handler really holds after the definitions
StoredCfg(cfg) == [cfg EXCEPT !.args = SelectSeq(cfg.args, LAMBDA a : \E k \in Stored(cfg) : cfg.args[k] = a)]

\* ---- the property, declaratively
\* a key designates at most one argument
Unique(cfg) == \A c \in 1..255 : Cardinality(ShortMatches(StoredCfg(cfg), c)) <= 1
UniqueLong(cfg) == \A a \in 1..NArgs(StoredCfg(cfg)) :
                      Len(StoredCfg(cfg).args[a].l) > 0 => Cardinality(ExactLong(StoredCfg(cfg), StoredCfg(cfg).args[a].l)) = 1
\* what a typed long word designates, as a key record (independent of positions in the table)
Designated(cfg, w) == LET r == LookupLong(cfg, w) IN IF r > 0 THEN [r |-> "arg", s |-> cfg.args[r].s, l |-> cfg.args[r].l]
                                                      ELSE [r |-> IF r = 0 THEN "unknown" ELSE "ambiguous", s |-> 0, l |-> <<>>]
=============================================================================
