SPECIFICATION Spec
CONSTANTS N = 2
          SharedCell = TRUE
INVARIANTS Isolation
CHECK_DEADLOCK FALSE
