SPECIFICATION TSpec
INVARIANTS NoneIffEmpty EachOnce NewIsEmpty
POSTCONDITION Accepted
CHECK_DEADLOCK FALSE
