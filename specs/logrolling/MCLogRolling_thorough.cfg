SPECIFICATION MCSpec
CONSTANTS
  Configs <- MCConfigs
  CountLimits = {1, 2, 3}
  SizeLimits = {4, 5, 6, 7, 8, 9, 10, 11, 12}
  Gens = {1, 2, 3}
  WithSimple = TRUE
  MaxEvents = 8
  MaxEventsM = 6
  MaxCrashes = 1
  CLens = {1, 3}
  MLens = {1, 2, 3, 4, 5}
  AsBuilt = TRUE
INVARIANTS WellFormed NoGaps Retained Limit NoEarlyRoll NewestLast NoStuck
PROPERTIES DropsOnlyOldest RestartPreserves
VIEW MCView
ACTION_CONSTRAINT EdgeOut
CHECK_DEADLOCK FALSE
