---------------------------- MODULE LogRolling ----------------------------
(* Rolling log files of celma::log::files (property C15).                                     *)
(*   policies  Counted(maxEntries, G)   MaxSize(maxBytes, G)   Simple (one file, never rolls) *)
(* One policy object writes one message per line into generation 0; generation g is the g-th  *)
(* newest roll-over, 0..G-1 are kept.  The state is what is on disk (`ex`, `files`) plus the   *)
(* control state of the call in progress.  A call is several steps so that a process can die  *)
(* between two renames of a roll-over:                                                        *)
(*   OpenBegin ; [RollStep]* ; OpenEnd            PolicyBase::open()                          *)
(*   WriteBegin(len) ; [RollStep]* ; WriteEnd     PolicyBase::writeMessage()                  *)
(*   Close                                        destruction of the policy object            *)
(*   Crash                                        the process dies inside a roll-over          *)
(* Restart = Close (or Crash) followed by OpenBegin of a NEW policy object on the same files.  *)
(* Where the documentation leaves a choice (size exactly at the limit, a full file found by    *)
(* open()) the actions allow both outcomes; the bounded model narrows them to the as-built one.*)
EXTENDS Integers, Sequences, FiniteSets
LOCAL INSTANCE SequencesExt       \* FoldLeft (evaluated iteratively by TLC)
CONSTANTS Configs        \* set of [kind, limit, G] records explored by the bounded model
VARIABLES kind,          \* "counted" | "maxsize" | "simple"
          limit,         \* maxEntries resp. maxBytes (0 for simple)
          G,             \* number of generations kept (generation numbers 0..G-1)
          ex,            \* generation numbers whose file exists
          files,         \* [0..G-1 -> Seq([id, len])], <<>> for a missing file
          pc,            \* "closed" | "ocheck" | "idle" | "wcheck" | "rolling" | "fresh"
          k,             \* rolling: destination generation of the next rename (G-1 .. 1)
          pend,          \* message of the writeMessage() in progress, None otherwise
          written,       \* ghost: all messages ever appended, in order
          nid,           \* id of the next message
          crashes,       \* ghost: number of crashes so far
          nev            \* ghost: number of WriteBegin/Close events so far
cfgv == <<kind, limit, G>>
vars == <<kind, limit, G, ex, files, pc, k, pend, written, nid, crashes, nev>>

None == [id |-> 0, len |-> 0]
\* bytes on disk of a sequence of messages: text + newline each
Bytes(s) == FoldLeft(LAMBDA a, m : a + m.len + 1, 0, s)
\* the generations read from oldest to newest
RetainedOf(f) == LET F[i \in 0..G] == IF i = 0 THEN <<>> ELSE F[i-1] \o f[G - i] IN F[G]
RetainedSeq == RetainedOf(files)
EndsWith(s, t) == Len(s) <= Len(t) /\ s = SubSeq(t, Len(t) - Len(s) + 1, Len(t))

Init == /\ \E c \in Configs : kind = c.kind /\ limit = c.limit /\ G = c.G
        /\ ex = {} /\ files = [g \in 0..G-1 |-> <<>>]
        /\ pc = "closed" /\ k = 0 /\ pend = None /\ written = <<>> /\ nid = 1 /\ crashes = 0 /\ nev = 0

\* ---- when may / must a new generation be started (property text + doc comments) ----
\* the message fits: the policy must not roll
MayStay(len) == CASE kind = "counted" -> Len(files[0]) + 1 <= limit
                  [] kind = "maxsize" -> IF files[0] = <<>> THEN TRUE ELSE Bytes(files[0]) + len + 1 <= limit
                  [] OTHER -> TRUE
\* the message would exceed the limit (for bytes: reach or exceed, the code compares strictly): may roll
MayRoll(len) == CASE kind = "counted" -> Len(files[0]) + 1 > limit
                  [] kind = "maxsize" -> Bytes(files[0]) + len + 1 >= limit
                  [] OTHER -> FALSE
\* open() found a file no further message fits into ("limit is reached"): may roll at once
FullAtOpen == CASE kind = "counted" -> Len(files[0]) >= limit
                [] kind = "maxsize" -> Bytes(files[0]) + 1 >= limit
                [] OTHER -> FALSE

\* ---- actions ----
OpenBegin == /\ pc = "closed"
             /\ ex' = ex \cup {0}                      \* the file is created when missing, never emptied
             /\ pc' = "ocheck"
             /\ UNCHANGED <<cfgv, files, k, pend, written, nid, crashes, nev>>

\* rename(generation kk-1 -> kk): an existing destination is replaced, a missing source is ignored
RenameOk(kk) == (kk - 1) \in ex
DoRename(kk) == IF RenameOk(kk)
                  THEN /\ files' = [files EXCEPT ![kk] = files[kk-1], ![kk-1] = <<>>]
                       /\ ex' = (ex \ {kk-1}) \cup {kk}
                  ELSE UNCHANGED <<files, ex>>
\* kk = destination of this rename
RollStepAt(kk) == /\ kk >= 1
                  /\ DoRename(kk)
                  /\ k' = kk - 1
                  /\ pc' = IF kk = 1 THEN "fresh" ELSE "rolling"
                  /\ UNCHANGED <<cfgv, pend, written, nid, crashes, nev>>
\* first rename of a roll-over = the decision to roll
RollStartOpen  == pc = "ocheck" /\ G > 1 /\ FullAtOpen /\ RollStepAt(G-1)
RollStartWrite == pc = "wcheck" /\ G > 1 /\ MayRoll(pend.len) /\ RollStepAt(G-1)
RollNext       == pc = "rolling" /\ RollStepAt(k)
RollStep       == RollStartOpen \/ RollStartWrite \/ RollNext
NextRenameDest == IF pc = "rolling" THEN k ELSE G - 1

\* end of open(): roll = TRUE only for G = 1 (no rename happens, the single file starts afresh)
OpenEnd(roll) ==
   /\ pend = None
   /\ \/ pc = "ocheck" /\ ~roll /\ UNCHANGED <<files, ex>>
      \/ pc = "ocheck" /\ roll /\ G = 1 /\ FullAtOpen /\ files[0] # <<>>
           /\ files' = [files EXCEPT ![0] = <<>>] /\ UNCHANGED ex
      \/ pc = "fresh" /\ ~roll /\ files' = [files EXCEPT ![0] = <<>>] /\ ex' = ex \cup {0}
   /\ pc' = "idle" /\ k' = 0
   /\ UNCHANGED <<cfgv, pend, written, nid, crashes, nev>>

WriteBegin(len) == /\ pc = "idle"
                   /\ pend' = [id |-> nid, len |-> len] /\ nid' = nid + 1 /\ nev' = nev + 1
                   /\ pc' = "wcheck"
                   /\ UNCHANGED <<cfgv, ex, files, k, written, crashes>>

\* the message is appended to generation 0 (after the roll-over, if there was one)
WriteEnd(roll) ==
   /\ pend # None
   /\ \/ pc = "wcheck" /\ ~roll /\ MayStay(pend.len)
           /\ files' = [files EXCEPT ![0] = files[0] \o <<pend>>]
      \/ pc = "wcheck" /\ roll /\ G = 1 /\ MayRoll(pend.len) /\ files[0] # <<>>
           /\ files' = [files EXCEPT ![0] = <<pend>>]
      \/ pc = "fresh" /\ ~roll /\ files' = [files EXCEPT ![0] = <<pend>>]
   /\ ex' = ex \cup {0}
   /\ written' = written \o <<pend>>
   /\ pend' = None /\ pc' = "idle" /\ k' = 0
   /\ UNCHANGED <<cfgv, nid, crashes, nev>>

Close == /\ pc = "idle" /\ pc' = "closed" /\ nev' = nev + 1
         /\ UNCHANGED <<cfgv, ex, files, k, pend, written, nid, crashes>>

\* the process dies after at least one rename of a roll-over (before the new file is opened);
\* the message being written, if any, is not written
Crash == /\ pc \in {"rolling", "fresh"} /\ G > 1
         /\ pc' = "closed" /\ pend' = None /\ k' = 0 /\ crashes' = crashes + 1
         /\ UNCHANGED <<cfgv, ex, files, written, nid, nev>>

\* ---- the property (C15) ----
WellFormed == /\ ex \subseteq 0..G-1
              /\ \A g \in 0..G-1 : g \notin ex => files[g] = <<>>
              /\ kind = "simple" => ex \subseteq {0}
\* without crashes the existing generations are 0..n (no gaps), so as many generations as possible are kept
NoGaps == crashes = 0 /\ pc \notin {"rolling", "fresh"} => \A g \in ex : g = 0 \/ (g-1) \in ex
\* the generations from oldest to newest are the most recent messages, complete and in order
Retained == EndsWith(RetainedSeq, written)
\* no generation exceeds its limit (a single message longer than the limit cannot be avoided)
Limit == \A g \in ex : /\ kind = "counted" => Len(files[g]) <= limit
                       /\ kind = "maxsize" => Bytes(files[g]) <= limit \/ Len(files[g]) = 1
\* declarative form of "a new generation is started only when the next message would exceed":
\* every closed generation is full with respect to the first message of the next newer one
\* (crashes lose the message that caused the roll-over, so they are exempt)
Exceeds(c, len) == CASE kind = "counted" -> Len(c) + 1 > limit
                     [] kind = "maxsize" -> Bytes(c) + len + 1 >= limit
                     [] OTHER -> FALSE
NoEarlyRoll == crashes = 0 =>
                 \A g \in 1..G-1 : g \in ex /\ files[g-1] # <<>> => Exceeds(files[g], files[g-1][1].len)
\* messages leave the retained window only as the whole generation G-1 (without crashes that is:
\* only when all G generations exist)
StepOK == LET r == RetainedSeq  r2 == RetainedOf(files')
              drop == IF (G-1) \in ex THEN {<<>>, files[G-1]} ELSE {<<>>}
              add == IF written' = written THEN <<>> ELSE <<written'[Len(written')]>>
          IN \E d \in drop : d \o r2 = r \o add
DropsOnlyOldest == [][StepOK]_vars
\* closing and opening again (restart) leaves every file as it was
RestartStepOK == (pc = "idle" /\ pc' = "closed") \/ (pc = "closed" /\ pc' = "ocheck") \/ (pc = "ocheck" /\ pc' = "idle" /\ ~FullAtOpen)
                    => files' = files
RestartPreserves == [][RestartStepOK]_vars
\* after a completed write the message is the last line of generation 0
NewestLast == pc = "idle" /\ written # <<>> /\ files[0] # <<>> => files[0][Len(files[0])] = written[Len(written)]
=============================================================================
