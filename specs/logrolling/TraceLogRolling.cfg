SPECIFICATION TSpec
CONSTANTS Configs = {}
INVARIANTS WellFormed NoGaps Retained Limit NoEarlyRoll NewestLast
PROPERTIES TDropsOnlyOldest TRestartPreserves
POSTCONDITION Accepted
CHECK_DEADLOCK FALSE
