---------------------------- MODULE TraceLogRolling ----------------------------
(* Validates executions recorded from the real policies (logrolling_driver).                      *)
(* Events:  {"e":"Reset","kind":"counted"|"maxsize"|"simple","limit":n,"G":n,"via":v} empty dir.  *)
(*          (via = "policy" | "handler": how the driver reaches the policy; not constrained)      *)
(*          {"e":"OpenBegin"}                              before new policy object + open()       *)
(*          {"e":"Rename","k":dest gen,"src":src gen,"rc":0|-1,"log":P}   inside FileOperations::rename *)
(*          {"e":"OpenEnd","res":"ok"|"exception","cur":n,"log":P} after open() returned; cur =    *)
(*                                   generation number in logFileName() (also in WriteEnd)         *)
(*          {"e":"BadDef","def":"nogen"|"empty","res":..} constructor with a definition without     *)
(*                                   generation number / without parts                             *)
(*          {"e":"WriteBegin","id":n,"len":n}              before writeMessage()                   *)
(*          {"e":"WriteEnd","res":"ok"|"exception","cur":n,"log":P} after writeMessage() returned  *)
(*          {"e":"Close","log":P}                          policy object destroyed                 *)
(*          {"e":"Kill","log":P}                           injected death after a rename           *)
(* P = files on disk, ascending generation: [{"g":n,"ids":[..],"lens":[..],"bytes":n,"tail":n},..] *)
(*     ids/lens = the complete lines, tail = bytes after the last newline.                         *)
(* Every event has at most one successor state, so the number of generated states locates a       *)
(* rejected event.                                                                                *)
EXTENDS LogRolling, TLC, Json, IOUtils
VARIABLE l
Log == ndJsonDeserialize(IOEnv.TRACE)
Ev == Log[l]
\* the logged projection is exactly the specification's disk state (e, f)
ProjOK(e, f) == /\ Len(Ev.log) = Cardinality(e)
                /\ \A i \in 1..Len(Ev.log) :
                     LET p == Ev.log[i] IN
                     /\ p.g \in e
                     /\ i > 1 => Ev.log[i-1].g < p.g
                     /\ Len(p.ids) = Len(f[p.g]) /\ Len(p.lens) = Len(f[p.g])
                     /\ \A j \in 1..Len(p.ids) : p.ids[j] = f[p.g][j].id /\ p.lens[j] = f[p.g][j].len
                     /\ p.bytes = Bytes(f[p.g])
                     /\ p.tail = 0
TInit == /\ l = 1 /\ kind = "simple" /\ limit = 0 /\ G = 1 /\ ex = {} /\ files = [g \in 0..0 |-> <<>>]
         /\ pc = "closed" /\ k = 0 /\ pend = None /\ written = <<>> /\ nid = 1 /\ crashes = 0 /\ nev = 0
TNext == /\ l <= Len(Log) /\ l' = l + 1
         /\ \/ Ev.e = "OpenBegin" /\ OpenBegin
            \/ Ev.e = "Rename" /\ Ev.k = NextRenameDest /\ Ev.src = Ev.k - 1
                 /\ Ev.rc = (IF RenameOk(Ev.k) THEN 0 ELSE -1)
                 /\ RollStep /\ ProjOK(ex', files')
            \/ Ev.e = "OpenEnd" /\ Ev.res = "ok" /\ Ev.cur = 0 /\ (\E roll \in BOOLEAN : OpenEnd(roll)) /\ ProjOK(ex', files')
            \/ Ev.e = "WriteBegin" /\ Ev.id = nid /\ Ev.len >= 0 /\ WriteBegin(Ev.len)
            \/ Ev.e = "WriteEnd" /\ Ev.res = "ok" /\ Ev.cur = 0 /\ (\E roll \in BOOLEAN : WriteEnd(roll)) /\ ProjOK(ex', files')
            \/ Ev.e = "BadDef" /\ Ev.res = (IF Ev.def = "empty" \/ kind # "simple" THEN "exception" ELSE "ok")
                 /\ UNCHANGED vars
            \/ Ev.e = "Close" /\ Close /\ ProjOK(ex', files')
            \/ Ev.e = "Kill" /\ Crash /\ ProjOK(ex', files')
            \/ /\ Ev.e = "Reset" /\ Ev.kind \in {"counted", "maxsize", "simple"} /\ Ev.G >= 1
               /\ kind' = Ev.kind /\ limit' = Ev.limit /\ G' = Ev.G
               /\ ex' = {} /\ files' = [g \in 0..Ev.G-1 |-> <<>>]
               /\ pc' = "closed" /\ k' = 0 /\ pend' = None /\ written' = <<>> /\ nid' = 1 /\ crashes' = 0 /\ nev' = 0
TSpec == TInit /\ [][TNext]_<<vars, l>>
\* the step properties of LogRolling, for every step that is not the start of a new execution
TDropsOnlyOldest == [][Ev.e = "Reset" \/ StepOK]_<<vars, l>>
TRestartPreserves == [][Ev.e = "Reset" \/ RestartStepOK]_<<vars, l>>
Accepted == TLCGet("stats").diameter = Len(Log) + 1
=============================================================================
