---------------------------- MODULE MCLogRolling ----------------------------
(* Bounded instance of LogRolling: all histories of at most MaxEvents (MaxSize: MaxEventsM)     *)
(* WriteBegin/Close events (plus at most MaxCrashes crashes inside roll-overs) for every       *)
(* configuration of Configs.                                                                   *)
(* AsBuilt = TRUE narrows the documented choices to what the implementation does (so that every *)
(* generated transition can be replayed in the real code); AsBuilt = FALSE explores every      *)
(* outcome the specification allows (properties only, no replay).                              *)
(* States are identified up to renaming of message ids (VIEW): behaviour depends on lengths.   *)
EXTENDS LogRolling, TLC, Json
CONSTANTS MaxEvents, MaxEventsM, MaxCrashes, CLens, MLens, AsBuilt,
          CountLimits, SizeLimits, Gens, WithSimple       \* configurations: limits x generation counts (+ Simple)
VARIABLE act
MCConfigs == {[kind |-> "counted", limit |-> l, G |-> g] : l \in CountLimits, g \in Gens}
             \cup {[kind |-> "maxsize", limit |-> l, G |-> g] : l \in SizeLimits, g \in Gens}
             \cup (IF WithSimple THEN {[kind |-> "simple", limit |-> 0, G |-> 1]} ELSE {})
LensFor == IF kind = "maxsize" THEN MLens ELSE CLens
MaxEv == IF kind = "maxsize" THEN MaxEventsM ELSE MaxEvents      \* bound on the WriteBegin/Close events of a history
\* as built: MaxSize compares strictly, open() rolls a file whose limit is reached
BuiltRollW == CASE kind = "counted" -> Len(files[0]) + 1 > limit
                [] kind = "maxsize" -> ~(Bytes(files[0]) + pend.len + 1 < limit)
                [] OTHER -> FALSE
BuiltRollO == CASE kind = "counted" -> Len(files[0]) >= limit
                [] kind = "maxsize" -> Bytes(files[0]) >= limit
                [] OTHER -> FALSE
BuiltRoll == IF pc = "ocheck" THEN BuiltRollO ELSE IF pc = "wcheck" THEN BuiltRollW ELSE pc = "rolling"
A(n, len, roll) == [n |-> n, len |-> len, roll |-> roll]
MCInit == Init /\ act = A("Init", 0, FALSE)
MCOpenBegin  == OpenBegin /\ act' = A("OpenBegin", 0, FALSE)
MCRollStep   == (AsBuilt => BuiltRoll) /\ RollStep /\ act' = A("RollStep", NextRenameDest, TRUE)
MCOpenEnd    == \E roll \in BOOLEAN : /\ (AsBuilt /\ pc = "ocheck" => IF G = 1 THEN roll = (BuiltRollO /\ files[0] # <<>>) ELSE ~roll /\ ~BuiltRollO)
                                      /\ OpenEnd(roll) /\ act' = A("OpenEnd", 0, roll)
MCWriteBegin == \E len \in LensFor : nev < MaxEv /\ WriteBegin(len) /\ act' = A("WriteBegin", len, FALSE)
MCWriteEnd   == \E roll \in BOOLEAN : /\ (AsBuilt /\ pc = "wcheck" => IF G = 1 THEN roll = (BuiltRollW /\ files[0] # <<>>) ELSE ~roll /\ ~BuiltRollW)
                                      /\ WriteEnd(roll) /\ act' = A("WriteEnd", 0, roll)
MCClose      == nev < MaxEv /\ Close /\ act' = A("Close", 0, FALSE)
MCCrash      == crashes < MaxCrashes /\ Crash /\ act' = A("Crash", 0, FALSE)
MCNext == MCOpenBegin \/ MCRollStep \/ MCOpenEnd \/ MCWriteBegin \/ MCWriteEnd \/ MCClose \/ MCCrash
MCSpec == MCInit /\ [][MCNext]_<<vars, act>>
\* a call in progress can always be completed (no stuck control state)
NoStuck == pc \in {"ocheck", "wcheck", "rolling", "fresh"} => ENABLED (RollStep \/ OpenEnd(TRUE) \/ OpenEnd(FALSE) \/ WriteEnd(TRUE) \/ WriteEnd(FALSE))
\* state up to message ids
Lens(f) == [i \in 1..G |-> [j \in 1..Len(f[i-1]) |-> f[i-1][j].len]]
Ex(e) == [i \in 1..G |-> (i-1) \in e]
St == [kind |-> kind, limit |-> limit, G |-> G, ex |-> Ex(ex), f |-> Lens(files), pc |-> pc, k |-> k, pl |-> pend.len,
       cr |-> crashes, nev |-> nev]
StP == [kind |-> kind', limit |-> limit', G |-> G', ex |-> Ex(ex'), f |-> Lens(files'), pc |-> pc', k |-> k', pl |-> pend'.len,
        cr |-> crashes', nev |-> nev']
MCView == St
EdgeOut == PrintT("EDGE " \o ToJson([i |-> (act.n = "Init"), pre |-> St,
                     a |-> [n |-> act'.n, len |-> act'.len, roll |-> act'.roll, kind |-> kind, limit |-> limit, G |-> G],
                     post |-> StP]))
=============================================================================
