---------------------------- MODULE TraceLogFormat ----------------------------
(* Validates executions recorded from the real Creator / Format / attribute classes          *)
(* (harness/logformat_driver.cpp).  Events (all fields always present):                      *)
(*  {"e":"Reset"}                                          fresh Definition + Creator, no attributes  *)
(*  builder events, each with "fields":[{"k","c","w","l"}..] = the definition as stored after the call *)
(*    {"e":"NewCreator","s":[..],"null":b}   {"e":"Width","n":k}   {"e":"Left"}               *)
(*    {"e":"FormatString","f":[..]}   {"e":"Separator","s":[..],"null":b}                     *)
(*    {"e":"Field","k":"date"|..}   {"e":"Const","t":[..]}   {"e":"Attribute","name":[..]}    *)
(*    {"e":"MakeFormat"}                                                                      *)
(*  attribute events, each with "vis":[{"n","g","o","i"}..] = for every name in use what       *)
(*  Logging::getAttribute / outer.getAttribute / inner.getAttribute answer after the call      *)
(*    {"e":"AddGlobal","name","value"} {"e":"RemoveGlobal","name"} {"e":"EnterScope","name","value"} *)
(*    {"e":"LeaveScope","name"} {"e":"AddMsg","c","name","value"} {"e":"RemoveMsgLast","c"}   *)
(*    {"e":"RemoveMsg","c","name"}                                                            *)
(*  {"e":"Render","m":{lvl,cls,err,line,path,file,func,text,ts,ms,us,pid,tid,sel},"out":[..]} *)
(*  {"e":"Stream","m":{..same, as received by a recording destination..},"in":{lvl,cls,err,line},       *)
(*     "pieces":[{"a":b,"t":[..]}..],"n":k,"delivered":b,"out":[..]}   (message built with StreamLog)   *)
EXTENDS LogFormat, TLC, Json, IOUtils
VARIABLE l
Log == ndJsonDeserialize(IOEnv.TRACE)
Ev == Log[l]

CKinds == DateKinds \cup {"const", "attr"}      \* kinds whose stored text matters
FieldsMatch(logged, fs) ==
   /\ Len(logged) = Len(fs)
   /\ \A i \in 1..Len(fs) : /\ logged[i].k = fs[i].k /\ logged[i].w = fs[i].w /\ logged[i].l = fs[i].l
                            /\ (fs[i].k \in CKinds => logged[i].c = fs[i].c)
BuilderOK == FieldsMatch(Ev.fields, fields')
VisOK == \A i \in 1..Len(Ev.vis) :
            LET x == Ev.vis[i]
            IN /\ x.g = Lookup(gattrs', x.n)
               /\ x.o = OuterLookup(mattrs', x.n)
               /\ x.i = InnerLookup(mattrs', x.n)
\* the message as the formatter sees it: the file name is the path without its directories
MsgOK(m) == /\ m.file = Basename(m.path)
            /\ m.lvl \in 0..6 /\ m.cls \in 0..6 /\ m.sel \in 0..2
            /\ m.ts >= 0 /\ m.ms \in 0..999 /\ m.us \in 0..999999
DatesInModel == \A i \in 1..Len(fmt) : fmt[i].k \in DateKinds => FmtInModel(fmt[i].c)

TInit == l = 1 /\ Init
TNext ==
  /\ l <= Len(Log) /\ l' = l + 1
  /\ \/ Ev.e = "Reset" /\ pw' = 0 /\ pl' = FALSE /\ pf' = <<>> /\ sep' = <<>> /\ fields' = <<>> /\ lfields' = <<>>
                       /\ made' = FALSE /\ fmt' = <<>> /\ lfmt' = <<>>
                       /\ gattrs' = <<>> /\ scopes' = <<>> /\ mattrs' = << <<>>, <<>> >>
     \/ Ev.e = "NewCreator"   /\ NewCreator(Ev.s)      /\ BuilderOK
     \/ Ev.e = "Width"        /\ Width(Ev.n)           /\ BuilderOK
     \/ Ev.e = "Left"         /\ AlignLeft             /\ BuilderOK
     \/ Ev.e = "FormatString" /\ FormatString(Ev.f)    /\ BuilderOK
     \/ Ev.e = "Separator"    /\ Separator(Ev.s)       /\ BuilderOK
     \/ Ev.e = "Field"        /\ Field(Ev.k)           /\ BuilderOK
     \/ Ev.e = "Const"        /\ Const(Ev.t)           /\ BuilderOK
     \/ Ev.e = "Attribute"    /\ Attribute(Ev.name)    /\ BuilderOK
     \/ Ev.e = "MakeFormat"   /\ MakeFormat            /\ BuilderOK
     \/ Ev.e = "AddGlobal"    /\ Ev.value # <<>> /\ AddGlobalAttr(Ev.name, Ev.value) /\ VisOK
     \/ Ev.e = "RemoveGlobal" /\ RemoveGlobalAttr(Ev.name) /\ VisOK
     \/ Ev.e = "EnterScope"   /\ Ev.value # <<>> /\ EnterScope(Ev.name, Ev.value) /\ VisOK
     \/ Ev.e = "LeaveScope"   /\ scopes # <<>> /\ Ev.name = scopes[Len(scopes)] /\ LeaveScope /\ VisOK
     \/ Ev.e = "AddMsg"       /\ Ev.value # <<>> /\ AddMsgAttr(Ev.c, Ev.name, Ev.value) /\ VisOK
     \/ Ev.e = "RemoveMsgLast" /\ RemoveMsgAttrLast(Ev.c) /\ VisOK
     \/ Ev.e = "RemoveMsg"    /\ RemoveMsgAttr(Ev.c, Ev.name) /\ VisOK
     \/ Ev.e = "Render"       /\ MsgOK(Ev.m) /\ DatesInModel /\ Render(Ev.m) /\ Ev.out = Rendered(Ev.m)
     \/ Ev.e = "Stream"       /\ MsgOK(Ev.m) /\ NoClock(fmt) /\ Render(Ev.m)
                              /\ Ev.m.text = StreamText(Ev.pieces, Ev.m.sel)
                              /\ Ev.delivered = (Ev.m.text # <<>>)
                              /\ Ev.n = (IF Ev.delivered THEN 1 ELSE 0)
                              /\ Ev.m.lvl = Ev.in.lvl /\ Ev.m.cls = Ev.in.cls /\ Ev.m.err = Ev.in.err /\ Ev.m.line = Ev.in.line
                              /\ Ev.out = IF Ev.delivered THEN Rendered(Ev.m) ELSE <<>>
TSpec == TInit /\ [][TNext]_<<vars, l>>
Accepted == TLCGet("stats").diameter = Len(Log) + 1
=============================================================================
