\* slice "kinds": every field kind alone with every option, every message
SPECIFICATION MCSpec
CONSTANTS FieldKinds <- AllPlain
          ConstTexts <- C_three
          AttrNames <- Nm_one
          Widths <- W_all
          AllowLeft = TRUE
          Fmts <- Fm_four
          Seps <- Sp_none
          MaxFields = 1
          FullOnly = TRUE
          Ascending = FALSE
          MsgIds <- M_all
          Sels <- Sel_none
          StreamPieces <- P_none
          MaxGlobal = 1
          MaxScopes = 0
          MaxMsgAttrs = 0
          MaxAttrOps = 1
INVARIANTS RenderAgree WidthKept ScopesOK StoredOK
ACTION_CONSTRAINT EdgeOut
VIEW View
CHECK_DEADLOCK FALSE
