---------------------------- MODULE MCLogFormat ----------------------------
(* Bounded instances of LogFormat.  One module, several configurations ("slices"): the     *)
(* constants select which builder operations, attribute operations and messages are        *)
(* enumerated.  Builder operations are enumerated before the Format object is made,        *)
(* attribute operations and deliveries after it (a bound of the model, not of the          *)
(* specification: recorded traces mix them freely).                                        *)
EXTENDS LogFormat, TLC, Json
CONSTANTS FieldKinds,     \* kinds added with Field(k)
          ConstTexts,     \* texts added with Const(t)
          AttrNames,      \* names for Attribute(n) and the attribute operations
          Widths,         \* values for Width(n)
          AllowLeft,      \* Left enumerated
          Fmts,           \* values for FormatString(f)
          Seps,           \* values for Separator(s) / NewCreator(s)
          MaxFields,      \* user fields per definition
          FullOnly,       \* Format objects only for definitions of exactly MaxFields fields
          Ascending,      \* attribute fields only in ascending name order (cuts symmetric definitions)
          MsgIds,         \* indices into MsgTab for Render
          Sels,           \* which attribute object the delivered message carries
          StreamPieces,   \* piece lists for messages built with the stream interface ({} = none)
          MaxGlobal, MaxScopes, MaxMsgAttrs, MaxAttrOps
VARIABLES act,            \* ghost: last action and its arguments
          nops            \* ghost: attribute operations so far (bounds the attribute phase)

NoMsg == [lvl |-> 0, cls |-> 0, err |-> 0, line |-> 0, path |-> <<>>, func |-> <<>>, text |-> <<>>, ts |-> 0, sel |-> 0]
A(name) == [n |-> name, t |-> <<>>, v |-> <<>>, i |-> 0, m |-> NoMsg, p |-> <<>>]

\* messages: every level and every class, empty / one-word / multi-word texts, timestamps at day, month,
\* leap-day and year boundaries, negative / zero / large numbers, paths with and without directories
MsgTab == <<
  [lvl |-> 0, cls |-> 0, err |-> 0,          line |-> 0,      path |-> <<109,46,99>>,                         func |-> <<102>>,         text |-> <<>>,                                ts |-> 0],
  [lvl |-> 1, cls |-> 1, err |-> -1,         line |-> 7,      path |-> <<47,115,47,109,97,105,110,46,99>>,    func |-> <<114,117,110>>, text |-> <<104,105>>,                         ts |-> 86399],
  [lvl |-> 2, cls |-> 2, err |-> 13,         line |-> 1234,   path |-> <<97,47,98,46,99,112,112>>,            func |-> <<103,111>>,     text |-> <<116,119,111,32,119,111,114,100,115>>, ts |-> 86400],
  [lvl |-> 3, cls |-> 3, err |-> 2147483647, line |-> 99999,  path |-> <<120,46,104,112,112>>,                func |-> <<109,97,105,110>>, text |-> <<32,97,32,32,98,32>>,            ts |-> 951782399],
  [lvl |-> 4, cls |-> 4, err |-> -2147483647, line |-> 1,     path |-> <<46,47,121,46,99>>,                   func |-> <<104>>,         text |-> <<37,100,32,37,37>>,                 ts |-> 951868800],
  [lvl |-> 5, cls |-> 5, err |-> 100,        line |-> 10,     path |-> <<47,116,109,112,47,122,46,99>>,       func |-> <<105,110,105,116>>, text |-> <<108,111,110,103,101,114,32,116,104,97,110,32,101,105,103,104,116>>, ts |-> 1230767999],
  [lvl |-> 6, cls |-> 6, err |-> 9,          line |-> 2147483647, path |-> <<100,47>>,                        func |-> <<122,122>>,     text |-> <<120>>,                             ts |-> 2147483647] >>

\* ---- values for the configurations (cfg files substitute these with <-)
T_ab    == <<97,98>>                       \* "ab"
T_pct   == <<37,100,32>>                   \* "%d " (constant text is not a format string)
T_long  == <<108,111,110,103,32,116,101,120,116,33>>   \* "long text!" (longer than the widths)
S_bar   == <<124>>                         \* "|"
S_cs    == <<44,32>>                       \* ", "
F_dmy   == <<37,100,46,37,109,46,37,89>>   \* "%d.%m.%Y"
F_hm    == <<37,72,104,37,77,32,37,37>>    \* "%Hh%M %%"
F_all   == <<37,70,84,37,84,32,37,83>>     \* "%FT%T %S"
N_a     == <<97>>
N_b     == <<98,98>>
NoTexts == {}
AllPlain == PlainKinds
K_few   == {"text", "date"}
K_none  == {}
K_one   == {"level"}
W_none  == {}
K_two   == {"level", "line"}
C_one   == {T_ab}
C_two   == {<<>>, T_ab}
C_three == {<<>>, T_ab, T_long, T_pct}
W_all   == {0, 1, 3, 8}
W_two   == {0, 8}
W_one   == {8}
Fm_none == {}
Fm_one  == {F_dmy}
Fm_two  == {F_dmy, F_hm}
Fm_three == {<<>>, F_dmy, F_hm, F_all}
F_long  == Flat([i \in 1..7 |-> <<37,70,32,37,84,124>>])   \* 7 x "%F %T|": 140 characters when expanded
Fm_four == {<<>>, F_dmy, F_hm, F_all, F_long}
Sp_none == {}
Sp_one  == {S_bar}
Sp_two  == {<<>>, S_bar}
Sp_three == {<<>>, S_bar, S_cs}
Nm_none == {}
Nm_one  == {N_a}
Nm_two  == {N_a, N_b}
M_one   == {3}
M_two   == {3, 6}
M_three == {1, 4, 6}
M_all   == 1..7
Sel_none == {0}
P_none  == {}
P_txt   == {<<>>, <<[a |-> FALSE, t |-> T_ab], [a |-> FALSE, t |-> <<>>], [a |-> FALSE, t |-> <<32,120>>]>>}
P_attr  == {<<>>, <<[a |-> TRUE, t |-> N_b]>>, <<[a |-> FALSE, t |-> <<120,61>>], [a |-> TRUE, t |-> N_a], [a |-> TRUE, t |-> N_b]>>}
Sel_all == {0, 1, 2}

UserFields == Len(lfields)
Room == UserFields < MaxFields /\ ~made
AttrFieldsBelow(n) == \A i \in 1..Len(lfields) : lfields[i].k = "attr" => lfields[i].c[1] < n[1]
\* value tokens "v1", "v2", ...: the smallest one no living entry carries, so any mix-up is visible
Tok(i) == <<118, 48 + i>>
Live == {gattrs[i].v : i \in 1..Len(gattrs)} \cup {mattrs[1][i].v : i \in 1..Len(mattrs[1])} \cup {mattrs[2][i].v : i \in 1..Len(mattrs[2])}
Fresh == Tok(CHOOSE i \in 1..9 : Tok(i) \notin Live /\ \A j \in 1..(i-1) : Tok(j) \in Live)
Unscoped == Len(SelectSeq(gattrs, LAMBDA e : e.s = 0))
AttrRoom == made /\ nops < MaxAttrOps

MCInit == Init /\ act = A("Init") /\ nops = 0
Builder ==
   \/ \E k \in FieldKinds : Room /\ Field(k) /\ act' = [A("Field") EXCEPT !.t = k]
   \/ \E t \in ConstTexts : Room /\ Const(t) /\ act' = [A("Const") EXCEPT !.t = t]
   \/ \E n \in AttrNames : Room /\ (Ascending => AttrFieldsBelow(n)) /\ Attribute(n) /\ act' = [A("Attribute") EXCEPT !.t = n]
   \/ \E w \in Widths : Room /\ pw # w /\ Width(w) /\ act' = [A("Width") EXCEPT !.i = w]
   \/ AllowLeft /\ Room /\ ~pl /\ AlignLeft /\ act' = A("Left")
   \/ \E f \in Fmts : Room /\ pf # f /\ FormatString(f) /\ act' = [A("FormatString") EXCEPT !.t = f]
   \/ \E s \in Seps : Room /\ sep # s /\ Separator(s) /\ act' = [A("Separator") EXCEPT !.t = s]
   \/ \E s \in Seps : Room /\ UserFields = 1 /\ (pw > 0 \/ pl \/ pf # <<>>) /\ NewCreator(s) /\ act' = [A("NewCreator") EXCEPT !.t = s]
   \/ ~made /\ pw = 0 /\ ~pl /\ pf = <<>> /\ (FullOnly => UserFields = MaxFields) /\ MakeFormat /\ act' = A("MakeFormat")
Attrs ==
   \/ \E n \in AttrNames : AttrRoom /\ Unscoped < MaxGlobal /\ AddGlobalAttr(n, Fresh) /\ act' = [A("AddGlobal") EXCEPT !.t = n, !.v = Fresh]
   \/ \E n \in AttrNames : AttrRoom /\ RemoveGlobalAttr(n) /\ act' = [A("RemoveGlobal") EXCEPT !.t = n]
   \/ \E n \in AttrNames : AttrRoom /\ Len(scopes) < MaxScopes /\ EnterScope(n, Fresh) /\ act' = [A("EnterScope") EXCEPT !.t = n, !.v = Fresh]
   \/ AttrRoom /\ LeaveScope /\ act' = [A("LeaveScope") EXCEPT !.t = scopes[Len(scopes)]]
   \/ \E c \in {1, 2}, n \in AttrNames : AttrRoom /\ Len(mattrs[1]) + Len(mattrs[2]) < MaxMsgAttrs /\ AddMsgAttr(c, n, Fresh)
                                          /\ act' = [A("AddMsg") EXCEPT !.t = n, !.v = Fresh, !.i = c]
   \/ \E c \in {1, 2} : AttrRoom /\ mattrs[c] # <<>> /\ RemoveMsgAttrLast(c) /\ act' = [A("RemoveMsgLast") EXCEPT !.i = c]
   \/ \E c \in {1, 2}, n \in AttrNames : AttrRoom /\ mattrs[c] # <<>> /\ RemoveMsgAttr(c, n) /\ act' = [A("RemoveMsg") EXCEPT !.t = n, !.i = c]
Deliver ==
   \/ \E i \in MsgIds, s \in Sels : Render(MsgTab[i]) /\ act' = [A("Render") EXCEPT !.m = MsgTab[i] @@ [sel |-> s]]
   \/ \E i \in MsgIds, s \in Sels, ps \in StreamPieces :
         NoClock(fmt) /\ Render(MsgTab[i]) /\ act' = [A("Stream") EXCEPT !.m = MsgTab[i] @@ [sel |-> s], !.p = ps]
MCNext == \/ Builder /\ nops' = nops
          \/ Attrs /\ nops' = nops + 1
          \/ Deliver /\ nops' = nops
MCSpec == MCInit /\ [][MCNext]_<<vars, act, nops>>
\* the ghost act does not distinguish states (every state is expanded once, every transition still printed)
View == <<vars, nops>>

St(a, b, c, d, e, f, g, h, i, j) == [pw |-> a, pl |-> b, pf |-> c, sep |-> d, fields |-> e, made |-> f, fmt |-> g,
                                     gattrs |-> h, scopes |-> i, mattrs |-> j]
EdgeOut == PrintT("EDGE " \o ToJson([i |-> (act.n = "Init"),
                                     pre |-> St(pw, pl, pf, sep, fields, made, fmt, gattrs, scopes, mattrs),
                                     a |-> act',
                                     post |-> St(pw', pl', pf', sep', fields', made', fmt', gattrs', scopes', mattrs')]))
=============================================================================
