---------------------------- MODULE LogFormat ----------------------------
(* celma::log::formatting::{Creator, Definition, Format} and the log attributes             *)
(* (Logging::add/removeAttribute, detail::ScopedAttribute, LogAttributes) -- property C16.  *)
(*                                                                                          *)
(* One action per public operation.  Texts are sequences of byte codes.  The text written   *)
(* for a message is the operator RenderOp (operational: the stored field list, the          *)
(* automatic separator being an ordinary constant entry, as the builder documents) and      *)
(* RenderDecl (declarative: the user's fields joined by the separator that was in force     *)
(* when the field was added); RenderAgree checks them against each other.                   *)
EXTENDS Integers, Sequences

VARIABLES pw, pl, pf,   \* builder: pending width / left alignment / format string (next field only)
          sep,          \* builder: automatic separator, <<>> = feature off
          fields,       \* the definition as stored: sequence of [k, c, w, l], separators included
          lfields,      \* the definition as written by the user: [k, c, w, l, s] (s = separator in front)
          made,         \* a Format object exists
          fmt, lfmt,    \* the copy of fields / lfields taken when the Format object was created
          gattrs,       \* global attributes (Logging): sequence of [n, v, s]; s = depth of the owning
                        \*   scoped-attribute object, 0 = added directly
          scopes,       \* names of the living scoped attributes, innermost last
          mattrs        \* <<outer, inner>>: the two LogAttributes objects a message can carry; inner's
                        \*   parent is outer; each a sequence of [n, v]
vars == <<pw, pl, pf, sep, fields, lfields, made, fmt, lfmt, gattrs, scopes, mattrs>>
builderVars == <<pw, pl, pf, sep, fields, lfields>>
attrVars == <<gattrs, scopes, mattrs>>

DateKinds  == {"date", "time", "date_time"}
PlainKinds == {"date", "time", "time_ms", "time_us", "date_time", "pid", "tid", "line", "func", "file",
               "level", "class", "errnbr", "text"}
AllKinds   == PlainKinds \cup {"const", "attr"}

\* ------------------------------------------------------------------ texts
Flat(ss) == LET F[i \in 0..Len(ss)] == IF i = 0 THEN <<>> ELSE F[i-1] \o ss[i] IN F[Len(ss)]
Blanks(k) == [i \in 1..k |-> 32]
\* pad only, never truncate (std::setw semantics)
Pad(t, w, left) == IF Len(t) >= w THEN t
                   ELSE IF left THEN t \o Blanks(w - Len(t)) ELSE Blanks(w - Len(t)) \o t
Digits(n) == LET D[k \in 0..n] == IF k < 10 THEN <<48 + k>> ELSE D[k \div 10] \o <<48 + (k % 10)>> IN D[n]
\* TLC evaluates D lazily, only the entries on the path n, n/10, n/100 ... are computed
Dec(n) == IF n < 0 THEN <<45>> \o Digits(0 - n) ELSE Digits(n)
Zero(n, width) == LET d == Digits(n) IN IF Len(d) >= width THEN d ELSE [i \in 1..(width - Len(d)) |-> 48] \o d
HexChars == <<48,49,50,51,52,53,54,55,56,57,97,98,99,100,101,102>>

LevelText == <<  <<117,110,100,101,102,105,110,101,100>>,           \* 0 undefined
                 <<70,97,116,97,108,32,69,114,114,111,114>>,        \* 1 Fatal Error
                 <<69,114,114,111,114>>,                            \* 2 Error
                 <<87,97,114,110,105,110,103>>,                     \* 3 Warning
                 <<73,110,102,111>>,                                \* 4 Info
                 <<68,101,98,117,103>>,                             \* 5 Debug
                 <<70,117,108,108,32,68,101,98,117,103>> >>         \* 6 Full Debug
ClassText == <<  <<117,110,100,101,102,105,110,101,100>>,           \* 0 undefined
                 <<83,121,115,67,97,108,108>>,                      \* 1 SysCall
                 <<68,97,116,97>>,                                  \* 2 Data
                 <<67,111,109,109,117,110,105,99,97,116,105,111,110>>,   \* 3 Communication
                 <<65,112,112,108,105,99,97,116,105,111,110>>,      \* 4 Application
                 <<65,99,99,111,117,110,116,105,110,103>>,          \* 5 Accounting
                 <<79,112,101,114,97,116,111,114,32,65,99,116,105,111,110>> >>  \* 6 Operator Action

\* ------------------------------------------------------------------ date and time (UTC)
\* broken-down time from seconds since the epoch (0 <= ts < 2^31), proleptic Gregorian calendar
Civil(ts) ==
   LET days == ts \div 86400
       sod  == ts % 86400
       z    == days + 719468
       era  == z \div 146097
       doe  == z - era * 146097
       yoe  == (doe - doe \div 1460 + doe \div 36524 - doe \div 146096) \div 365
       doy  == doe - (365 * yoe + yoe \div 4 - yoe \div 100)
       mp   == (5 * doy + 2) \div 153
       d    == doy - (153 * mp + 2) \div 5 + 1
       m    == IF mp < 10 THEN mp + 3 ELSE mp - 9
       y    == yoe + era * 400 + (IF m <= 2 THEN 1 ELSE 0)
   IN [Y |-> y, m |-> m, d |-> d, H |-> sod \div 3600, M |-> (sod % 3600) \div 60, S |-> sod % 60]

FmtDate     == <<37,70>>               \* "%F"
FmtTime     == <<37,84>>               \* "%T"
FmtDateTime == <<37,70,32,37,84>>      \* "%F %T"
\* the modelled strftime directives: %Y %m %d %H %M %S %F %T %%
Directives == {89, 109, 100, 72, 77, 83, 70, 84, 37}
DateText(tm) == Zero(tm.Y, 4) \o <<45>> \o Zero(tm.m, 2) \o <<45>> \o Zero(tm.d, 2)
ClockText(tm) == Zero(tm.H, 2) \o <<58>> \o Zero(tm.M, 2) \o <<58>> \o Zero(tm.S, 2)
Directive(c, tm) == CASE c = 89  -> Zero(tm.Y, 4)
                      [] c = 109 -> Zero(tm.m, 2)
                      [] c = 100 -> Zero(tm.d, 2)
                      [] c = 72  -> Zero(tm.H, 2)
                      [] c = 77  -> Zero(tm.M, 2)
                      [] c = 83  -> Zero(tm.S, 2)
                      [] c = 70  -> DateText(tm)
                      [] c = 84  -> ClockText(tm)
                      [] c = 37  -> <<37>>
                      [] OTHER   -> <<37, c>>          \* outside the model, never generated
\* a format string inside the model: every % is followed by a modelled directive
FmtInModel(f) == LET G[i \in 1..(Len(f) + 2)] ==
                        IF i > Len(f) THEN TRUE
                        ELSE IF f[i] = 37 THEN i < Len(f) /\ f[i+1] \in Directives /\ G[i+2]
                        ELSE G[i+1]
                 IN G[1]
StrFTime(f, tm) == LET E[i \in 1..(Len(f) + 2)] ==
                          IF i > Len(f) THEN <<>>
                          ELSE IF f[i] = 37 /\ i < Len(f) THEN Directive(f[i+1], tm) \o E[i+2]
                          ELSE <<f[i]>> \o E[i+1]
                   IN E[1]

\* ------------------------------------------------------------------ attributes
Lookup(s, n) == LET idx == {i \in 1..Len(s) : s[i].n = n}
                IN IF idx = {} THEN <<>> ELSE s[CHOOSE i \in idx : \A j \in idx : j <= i].v
Without(s, i) == [j \in 1..(Len(s) - 1) |-> IF j < i THEN s[j] ELSE s[j+1]]
\* removing the most recently added entry with this name
RemoveLatest(s, n) == LET idx == {i \in 1..Len(s) : s[i].n = n}
                      IN IF idx = {} THEN s ELSE Without(s, CHOOSE i \in idx : \A j \in idx : j <= i)
\* what a LogAttributes object answers: its own entries first, then its parent's
OuterLookup(ma, n) == Lookup(ma[1], n)
InnerLookup(ma, n) == IF Lookup(ma[2], n) # <<>> THEN Lookup(ma[2], n) ELSE Lookup(ma[1], n)
\* sel: which LogAttributes object the message carries: 0 none, 1 outer, 2 inner
\* the message's own attributes take precedence over the global ones
AttrValue(ga, ma, n, sel) == LET own == IF sel = 2 THEN InnerLookup(ma, n) ELSE IF sel = 1 THEN OuterLookup(ma, n) ELSE <<>>
                             IN IF own # <<>> THEN own ELSE Lookup(ga, n)

\* ------------------------------------------------------------------ rendering
\* m: [lvl, cls, err, line, file, func, text, ts, ms, us, pid, tid, sel]
Basename(p) == LET idx == {i \in 1..Len(p) : p[i] = 47}
               IN IF idx = {} THEN p ELSE SubSeq(p, (CHOOSE i \in idx : \A j \in idx : j <= i) + 1, Len(p))
FieldText(f, m, ga, ma) ==
   CASE f.k = "const"     -> f.c
     [] f.k = "date"      -> StrFTime(IF f.c = <<>> THEN FmtDate ELSE f.c, Civil(m.ts))
     [] f.k = "time"      -> StrFTime(IF f.c = <<>> THEN FmtTime ELSE f.c, Civil(m.ts))
     [] f.k = "date_time" -> StrFTime(IF f.c = <<>> THEN FmtDateTime ELSE f.c, Civil(m.ts))
     [] f.k = "time_ms"   -> Zero(m.ms, 3)
     [] f.k = "time_us"   -> Zero(m.us, 6)
     [] f.k = "pid"       -> Dec(m.pid)
     [] f.k = "tid"       -> <<48, 120>> \o [i \in 1..Len(m.tid) |-> HexChars[m.tid[i] + 1]]
     [] f.k = "line"      -> Dec(m.line)
     [] f.k = "func"      -> m.func
     [] f.k = "file"      -> m.file
     [] f.k = "level"     -> LevelText[m.lvl + 1]
     [] f.k = "class"     -> ClassText[m.cls + 1]
     [] f.k = "errnbr"    -> Dec(m.err)
     [] f.k = "text"      -> m.text
     [] f.k = "attr"      -> AttrValue(ga, ma, f.c, m.sel)
Cell(f, m, ga, ma) == Pad(FieldText(f, m, ga, ma), f.w, f.l)
\* operational: the stored entries one after the other
RenderOp(fs, m, ga, ma) == Flat([i \in 1..Len(fs) |-> Cell(fs[i], m, ga, ma)])
\* declarative: the user's fields in definition order, each padded to its width, the separator that was
\* set when the field was added in front of every field but the first
RenderDecl(ls, m, ga, ma) == Flat([i \in 1..Len(ls) |-> (IF i > 1 THEN ls[i].s ELSE <<>>) \o Cell(ls[i], m, ga, ma)])

\* ------------------------------------------------------------------ builder (Creator on one Definition)
Init == /\ pw = 0 /\ pl = FALSE /\ pf = <<>> /\ sep = <<>> /\ fields = <<>> /\ lfields = <<>>
        /\ made = FALSE /\ fmt = <<>> /\ lfmt = <<>>
        /\ gattrs = <<>> /\ scopes = <<>> /\ mattrs = << <<>>, <<>> >>

\* a further Creator object for the same definition: nothing pending, its own separator
NewCreator(s) == /\ pw' = 0 /\ pl' = FALSE /\ pf' = <<>> /\ sep' = s
                 /\ UNCHANGED <<fields, lfields, made, fmt, lfmt, attrVars>>
Width(n) == /\ n >= 0 /\ pw' = n
            /\ UNCHANGED <<pl, pf, sep, fields, lfields, made, fmt, lfmt, attrVars>>
AlignLeft == /\ pl' = TRUE
             /\ UNCHANGED <<pw, pf, sep, fields, lfields, made, fmt, lfmt, attrVars>>
FormatString(f) == /\ pf' = f
                   /\ UNCHANGED <<pw, pl, sep, fields, lfields, made, fmt, lfmt, attrVars>>
\* s = <<>> (NULL pointer or empty text) turns the feature off; used from the next field on
Separator(s) == /\ sep' = s
                /\ UNCHANGED <<pw, pl, pf, fields, lfields, made, fmt, lfmt, attrVars>>
SepEntry(s) == [k |-> "const", c |-> s, w |-> 0, l |-> FALSE]
\* the pending options go into this field and are cleared
AddField(k, c) == /\ fields' = fields \o (IF sep # <<>> /\ fields # <<>> THEN <<SepEntry(sep)>> ELSE <<>>)
                                      \o <<[k |-> k, c |-> c, w |-> pw, l |-> pl]>>
                  /\ lfields' = lfields \o <<[k |-> k, c |-> c, w |-> pw, l |-> pl,
                                              s |-> IF fields # <<>> THEN sep ELSE <<>>]>>
                  /\ pw' = 0 /\ pl' = FALSE /\ pf' = <<>>
                  /\ UNCHANGED <<sep, made, fmt, lfmt, attrVars>>
Field(k) == k \in PlainKinds /\ AddField(k, IF k \in DateKinds THEN pf ELSE <<>>)
Const(t) == AddField("const", t)
Attribute(n) == AddField("attr", n)
\* Format( def) copies the definition
MakeFormat == /\ made' = TRUE /\ fmt' = fields /\ lfmt' = lfields
              /\ UNCHANGED <<builderVars, attrVars>>

\* ------------------------------------------------------------------ attribute operations
AddGlobalAttr(n, v) == /\ gattrs' = gattrs \o <<[n |-> n, v |-> v, s |-> 0]>>
                       /\ UNCHANGED <<builderVars, made, fmt, lfmt, scopes, mattrs>>
\* Logging::removeAttribute: "the attribute that was added last is removed"
RemoveGlobalAttr(n) == /\ gattrs' = RemoveLatest(gattrs, n)
                       /\ UNCHANGED <<builderVars, made, fmt, lfmt, scopes, mattrs>>
\* a scoped attribute object is created ...
EnterScope(n, v) == /\ gattrs' = gattrs \o <<[n |-> n, v |-> v, s |-> Len(scopes) + 1]>>
                    /\ scopes' = scopes \o <<n>>
                    /\ UNCHANGED <<builderVars, made, fmt, lfmt, mattrs>>
\* ... and destroyed (innermost first): the attribute *it* added disappears, if it still exists
LeaveScope == /\ scopes # <<>>
              /\ LET d   == Len(scopes)
                     idx == {i \in 1..Len(gattrs) : gattrs[i].s = d}
                 IN gattrs' = IF idx = {} THEN gattrs ELSE Without(gattrs, CHOOSE i \in idx : TRUE)
              /\ scopes' = SubSeq(scopes, 1, Len(scopes) - 1)
              /\ UNCHANGED <<builderVars, made, fmt, lfmt, mattrs>>
AddMsgAttr(c, n, v) == /\ c \in {1, 2}
                       /\ mattrs' = [mattrs EXCEPT ![c] = @ \o <<[n |-> n, v |-> v]>>]
                       /\ UNCHANGED <<builderVars, made, fmt, lfmt, gattrs, scopes>>
RemoveMsgAttrLast(c) == /\ c \in {1, 2}
                        /\ mattrs' = [mattrs EXCEPT ![c] = IF @ = <<>> THEN @ ELSE SubSeq(@, 1, Len(@) - 1)]
                        /\ UNCHANGED <<builderVars, made, fmt, lfmt, gattrs, scopes>>
RemoveMsgAttr(c, n) == /\ c \in {1, 2}
                       /\ mattrs' = [mattrs EXCEPT ![c] = RemoveLatest(@, n)]
                       /\ UNCHANGED <<builderVars, made, fmt, lfmt, gattrs, scopes>>

\* ------------------------------------------------------------------ delivering a message
\* The text a stream destination receives for message m; the state does not change.
Rendered(m) == RenderOp(fmt, m, gattrs, mattrs)
Render(m) == made /\ UNCHANGED vars
\* A message built with the stream interface (StreamLog): the text is the concatenation of the pieces,
\* attribute pieces replaced by the attribute's value; a message without text is discarded.
PieceText(p, sel) == IF p.a THEN AttrValue(gattrs, mattrs, p.t, sel) ELSE p.t
StreamText(pieces, sel) == Flat([i \in 1..Len(pieces) |-> PieceText(pieces[i], sel)])
ClockKinds == {"date", "time", "time_ms", "time_us", "date_time"}
NoClock(fs) == \A i \in 1..Len(fs) : fs[i].k \notin ClockKinds

\* ------------------------------------------------------------------ properties
ProbeMsg(sel) == [lvl |-> 3, cls |-> 4, err |-> -13, line |-> 1234, file |-> <<102,46,99>>, func |-> <<102,110>>,
                  text |-> <<104,105,32,116,104,101,114,101>>, ts |-> 951868799, ms |-> 7, us |-> 7042,
                  pid |-> 4711, tid |-> <<7,15,0,10>>, sel |-> sel]
\* the two formulations of the rendering agree (on the definition being built and on the copy in use)
RenderAgree == \A sel \in 0..2 :
                  /\ RenderOp(fields, ProbeMsg(sel), gattrs, mattrs) = RenderDecl(lfields, ProbeMsg(sel), gattrs, mattrs)
                  /\ RenderOp(fmt, ProbeMsg(sel), gattrs, mattrs) = RenderDecl(lfmt, ProbeMsg(sel), gattrs, mattrs)
\* every user field occupies at least its width; nothing is truncated
WidthKept == \A sel \in {0} : Len(RenderOp(fmt, ProbeMsg(sel), gattrs, mattrs)) >=
                 LET W[i \in 0..Len(lfmt)] == IF i = 0 THEN 0 ELSE W[i-1] + lfmt[i].w + (IF i > 1 THEN Len(lfmt[i].s) ELSE 0)
                 IN W[Len(lfmt)]
\* entries owned by scoped attributes belong to living scopes, at most one per scope
ScopesOK == /\ \A i \in 1..Len(gattrs) : gattrs[i].s <= Len(scopes) /\ (gattrs[i].s > 0 => gattrs[i].n = scopes[gattrs[i].s])
            /\ \A i, j \in 1..Len(gattrs) : (i # j /\ gattrs[i].s > 0) => gattrs[i].s # gattrs[j].s
\* nothing stays pending after a field, stored separators are never padded
StoredOK == /\ Len(lfields) <= Len(fields) /\ Len(fields) <= 2 * Len(lfields)
            /\ (fields = <<>>) = (lfields = <<>>)
=============================================================================
