\* slice "opts": options apply to the next field only (three fields, all option combinations, separators)
SPECIFICATION MCSpec
CONSTANTS FieldKinds <- K_few
          ConstTexts <- C_one
          AttrNames <- Nm_none
          Widths <- W_two
          AllowLeft = TRUE
          Fmts <- Fm_one
          Seps <- Sp_two
          MaxFields = 3
          FullOnly = FALSE
          Ascending = FALSE
          MsgIds <- M_two
          Sels <- Sel_none
          StreamPieces <- P_none
          MaxGlobal = 0
          MaxScopes = 0
          MaxMsgAttrs = 0
          MaxAttrOps = 0
INVARIANTS RenderAgree WidthKept ScopesOK StoredOK
ACTION_CONSTRAINT EdgeOut
VIEW View
CHECK_DEADLOCK FALSE
