SPECIFICATION TSpec
INVARIANTS RenderAgree WidthKept ScopesOK StoredOK
POSTCONDITION Accepted
CHECK_DEADLOCK FALSE
