\* slice "seps": separator placement and change over four fields
SPECIFICATION MCSpec
CONSTANTS FieldKinds <- K_one
          ConstTexts <- C_one
          AttrNames <- Nm_none
          Widths <- W_one
          AllowLeft = FALSE
          Fmts <- Fm_none
          Seps <- Sp_three
          MaxFields = 4
          FullOnly = FALSE
          Ascending = FALSE
          MsgIds <- M_one
          Sels <- Sel_none
          StreamPieces <- P_txt
          MaxGlobal = 0
          MaxScopes = 0
          MaxMsgAttrs = 0
          MaxAttrOps = 0
INVARIANTS RenderAgree WidthKept ScopesOK StoredOK
ACTION_CONSTRAINT EdgeOut
VIEW View
CHECK_DEADLOCK FALSE
