\* slice "attrs": attribute precedence and scopes: two attribute fields, five attribute operations
SPECIFICATION MCSpec
CONSTANTS FieldKinds <- K_none
          ConstTexts <- NoTexts
          AttrNames <- Nm_two
          Widths <- W_none
          AllowLeft = FALSE
          Fmts <- Fm_none
          Seps <- Sp_none
          MaxFields = 2
          FullOnly = TRUE
          Ascending = TRUE
          MsgIds <- M_one
          Sels <- Sel_all
          StreamPieces <- P_attr
          MaxGlobal = 2
          MaxScopes = 2
          MaxMsgAttrs = 3
          MaxAttrOps = 4
INVARIANTS RenderAgree WidthKept ScopesOK StoredOK
ACTION_CONSTRAINT EdgeOut
VIEW View
CHECK_DEADLOCK FALSE
