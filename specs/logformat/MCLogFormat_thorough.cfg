\* slice "kinds": two fields over all kinds, all options on either, every message
SPECIFICATION MCSpec
CONSTANTS FieldKinds <- AllPlain
          ConstTexts <- C_two
          AttrNames <- Nm_one
          Widths <- W_one
          AllowLeft = TRUE
          Fmts <- Fm_one
          Seps <- Sp_one
          MaxFields = 2
          FullOnly = TRUE
          Ascending = FALSE
          MsgIds <- M_two
          Sels <- Sel_none
          StreamPieces <- P_none
          MaxGlobal = 1
          MaxScopes = 0
          MaxMsgAttrs = 0
          MaxAttrOps = 1
INVARIANTS RenderAgree WidthKept ScopesOK StoredOK
ACTION_CONSTRAINT EdgeOut
VIEW View
CHECK_DEADLOCK FALSE
