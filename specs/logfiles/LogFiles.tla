---------------------------- MODULE LogFiles ----------------------------
(* The log file policies Simple and Timestamped of celma::log::files (extension component X03,   *)
(* second half), on top of the file name definition built by the Creator (LogFileName).          *)
(*   Simple       "Open the file and write. No rolling, no generations, no nothing."             *)
(*   Timestamped  "All log messages with the same timestamp are written into the same file."     *)
(*                writeCheck(): "checks if the timestamp of the log message still matches the    *)
(*                date part of the log filename"; factory: "Automatically open a new file        *)
(*                depending on the timestamp of the log messages."                               *)
(* The state is what is on disk: files = name -> sequence of messages [id, len] (one line each), *)
(* plus what the policy object tells: whether it is open and logFileName() ("the path and file   *)
(* name of the currently open log file").                                                        *)
(* Actions: Open(now)  a NEW policy object + open(), now = the system time of the call           *)
(*          Write(now, ts, len)  writeMessage() of a message with timestamp ts and len bytes      *)
(*          Close      destruction of the policy object                                          *)
(*          Restart(now) = Close followed by Open(now) (new object on the same files)            *)
(* Two formulations: operational (the current file is followed from call to call) and            *)
(* declarative (FileOf: the file of a message as a function of the message alone).               *)
EXTENDS LogFileName, FiniteSets
VARIABLES kind,          \* "simple" | "timestamped"
          pid,           \* process id (part of the environment of the name rendering)
          files,         \* name -> Seq([id, len]); the domain is the set of existing files
          isOpen,        \* a policy object exists and is open
          cur,           \* isOpen: logFileName()
          otime,         \* isOpen: the time the current object was opened at
          written,       \* ghost: every message ever written: [id, len, ts, otime, fof]; fof = FileOf, see below
          nid,           \* id of the next message
          clock          \* the latest system time seen (times never run backwards)
pvars == <<kind, pid, files, isOpen, cur, otime, written, nid, clock>>
allvars == <<vars, pvars>>
defvars == <<items, parts, pf, pw, pc, ps, env, kind, pid>>      \* the configuration of an execution

\* the name of generation 0 for a point in time ("logfile_nbr = 0" is the default of Builder::filename)
Name(t) == Render(0, t, pid)
\* constructor contracts: PolicyBase "@throw std::invalid argument when the filename definition contains no parts",
\* Timestamped "Checks if the given log filename definition contains a date field."
CtorOK(k) == ~IsEmpty /\ (k = "timestamped" => HasDate)

PInit == /\ kind = "simple" /\ pid = 1 /\ files = <<>> /\ isOpen = FALSE /\ cur = <<>> /\ otime = 0
         /\ written = <<>> /\ nid = 1 /\ clock = 0

Msg(m) == [id |-> m.id, len |-> m.len]
\* appending creates a missing file, never empties an existing one
Appended(f, n, ms) == [x \in DOMAIN f \cup {n} |-> IF x = n THEN (IF n \in DOMAIN f THEN f[n] ELSE <<>>) \o ms ELSE f[x]]

\* "Opens the current log file": the file named for the current time exists afterwards; existing content stays
Open(now) == /\ ~isOpen /\ CtorOK(kind) /\ now >= clock
             /\ cur' = Name(now) /\ otime' = now /\ isOpen' = TRUE /\ clock' = now
             /\ files' = Appended(files, Name(now), <<>>)
             /\ UNCHANGED <<vars, kind, pid, written, nid>>
\* operational: the file the open object writes a message into: Simple stays with its file; Timestamped stays with the
\* current file while the name rendered for the message's timestamp is the current name, else it starts that file
Target(ts) == IF kind = "timestamped" THEN (IF Name(ts) = cur THEN cur ELSE Name(ts)) ELSE cur
\* declarative: the file of a message as a function of the message (and the configuration) alone.
\* Timestamped: the name rendered for the message's timestamp; Simple: the one file of the object that wrote it
FileOfMsg(ts, ot) == IF kind = "timestamped" THEN Name(ts) ELSE Name(ot)
Write(now, ts, len) ==
   LET tgt == Target(ts) IN
   /\ isOpen /\ now >= clock
   /\ files' = Appended(files, tgt, <<[id |-> nid, len |-> len]>>)
   /\ cur' = tgt
   /\ written' = written \o <<[id |-> nid, len |-> len, ts |-> ts, otime |-> otime, fof |-> FileOfMsg(ts, otime)]>>
   /\ nid' = nid + 1 /\ clock' = now
   /\ UNCHANGED <<vars, kind, pid, isOpen, otime>>
Close == /\ isOpen /\ isOpen' = FALSE
         /\ UNCHANGED <<vars, kind, pid, files, cur, otime, written, nid, clock>>
Restart(now) == /\ isOpen /\ now >= clock
                /\ cur' = Name(now) /\ otime' = now /\ clock' = now
                /\ files' = Appended(files, Name(now), <<>>)
                /\ UNCHANGED <<vars, kind, pid, isOpen, written, nid>>

\* ---- declarative: the file of a message ----
\* (FileOfMsg is a function of the message and of the configuration, which never changes inside an execution: its
\* value is kept in the ghost record so that the invariants do not render every name again in every state)
FileOf(m) == m.fof
MsgsOf(n) == LET sel == SelectSeq(written, LAMBDA m : FileOf(m) = n) IN [i \in 1..Len(sel) |-> Msg(sel[i])]

\* ---- properties ----
WellFormed == isOpen => cur \in DOMAIN files
\* every message written is in exactly one file, in order; Timestamped: each file holds exactly the messages whose
\* rendered name equals the file's name
EachInItsFile == /\ \A n \in DOMAIN files : files[n] = MsgsOf(n)
                 /\ \A i \in 1..Len(written) : FileOf(written[i]) \in DOMAIN files
\* logFileName() names the file of the latest message
CurIsNewest == isOpen /\ written # <<>> /\ written[Len(written)].otime = otime => cur = FileOf(written[Len(written)])
IsPrefixOf(p, t) == Len(p) <= Len(t) /\ SubSeq(t, 1, Len(p)) = p
\* nothing is ever truncated or removed
KeepsOK == \A n \in DOMAIN files : n \in DOMAIN files' /\ IsPrefixOf(files[n], files'[n])
NeverTruncates == [][KeepsOK]_allvars
\* closing and opening again (restart) leaves every file as it was; at most the (empty) file for the current time appears
RestartOK == written' = written => /\ \A n \in DOMAIN files : files'[n] = files[n]
                                   /\ \A n \in DOMAIN files' \ DOMAIN files : files'[n] = <<>> /\ isOpen' /\ n = cur'
RestartPreserves == [][RestartOK]_allvars
\* a new file is started exactly when the name changes (Timestamped); Simple never changes its file
NewFileOK == written' # written /\ isOpen =>
                /\ (cur' # cur) = (kind = "timestamped" /\ FileOf(written'[Len(written')]) # cur)
                /\ DOMAIN files' # DOMAIN files => cur' # cur
                /\ \A n \in DOMAIN files : n # cur' => files'[n] = files[n]
NewFileExactlyOnNameChange == [][NewFileOK]_allvars
=============================================================================
