---------------------------- MODULE MCLogFileName ----------------------------
(* Bounded instance of LogFileName: every sequence of at most MaxItems Creator operations over a  *)
(* small alphabet (texts with and without slashes at their ends, one width, one fill character,   *)
(* one format string, one environment variable with two values), every name rendered for the      *)
(* probe inputs (generation number, timestamp) in both formulations.                              *)
EXTENDS LogFileName, TLC, Json
CONSTANTS Texts, Widths, Fills, Fmts, EnvVals, MaxItems, Probes, Pid
VARIABLE act
\* probe inputs of the rendering: 2021-03-04 23:58:30, 2021-12-31 23:59:59, 2024-02-29 12:34:56 (UTC)
MCProbes == {[nbr |-> 0, ts |-> 1614902310], [nbr |-> 0, ts |-> 1614902400], [nbr |-> 7, ts |-> 1640995199], [nbr |-> 12, ts |-> 1709210096]}
A(n, k, s, num) == [n |-> n, k |-> k, s |-> s, num |-> num]
\* alphabets ("/b" "c/" (thorough: "a" "" as well), fill '_', format "%Hh", variable E with the values "" and "v/")
EnvQ   == {<<69>>}
TextsQ == {<<47, 98>>, <<99, 47>>}
TextsT == {<<47, 98>>, <<99, 47>>, <<>>}
FillsQ == {95}
FmtsQ  == {<<37, 72, 104>>}
FmtsT  == {<<37, 72, 104>>, <<37, 89, 37, 106>>}
ValsQ  == {<<>>, <<118, 47>>}
MCInit == Init /\ act = A("Init", "", <<>>, 0)
Room == Len(items) < MaxItems
MCAddText   == \E s \in Texts : Room /\ AddText(s) /\ act' = A("Item", "text", s, 0)
\* path_sep only where it is documented: behind a constant text and in front of one
MCAddEnv    == \E v \in EnvNames : Room /\ ~ps /\ AddEnv(v) /\ act' = A("Item", "env", v, 0)
MCAddDate   == Room /\ ~ps /\ AddDate /\ act' = A("Item", "date", <<>>, 0)
MCAddNumber == Room /\ ~ps /\ AddNumber /\ act' = A("Item", "number", <<>>, 0)
MCAddPid    == Room /\ ~ps /\ AddPid /\ act' = A("Item", "pid", <<>>, 0)
MCSetWidth  == \E w \in Widths : Room /\ SetWidth(w) /\ act' = A("Item", "width", <<>>, w)
MCSetFill   == \E c \in Fills : Room /\ SetFill(c) /\ act' = A("Item", "fill", <<>>, c)
MCSetFormat == \E f \in Fmts : Room /\ SetFormat(f) /\ act' = A("Item", "fmt", f, 0)
MCPathSep   == Room /\ parts # <<>> /\ parts[Len(parts)].t = "constant" /\ PathSep /\ act' = A("Item", "sep", <<>>, 0)
\* the environment changes only while a definition that uses it exists (otherwise the change is not observable)
MCSetEnv    == \E v \in EnvNames, x \in EnvVals : /\ env[v] # x /\ \E i \in 1..Len(parts) : parts[i].t = "env"
                                                  /\ SetEnvVar(v, x) /\ act' = A("SetEnv", "", v, 0) 
MCNext == MCAddText \/ MCAddEnv \/ MCAddDate \/ MCAddNumber \/ MCAddPid \/ MCSetWidth \/ MCSetFill \/ MCSetFormat
          \/ MCPathSep \/ MCSetEnv
MCSpec == MCInit /\ [][MCNext]_<<vars, act>>
\* operational and declarative rendering agree for every probe
InSepDomain == SepDomain(items)
SameNames == \A p \in Probes : Render(p.nbr, p.ts, Pid) = RenderDecl(items, p.nbr, p.ts, env, Pid)
St  == [items |-> items, env |-> [v \in EnvNames |-> env[v]]]
StP == [items |-> items', env |-> [v \in EnvNames |-> env'[v]]]
EdgeOut == PrintT("EDGE " \o ToJson([i |-> (act.n = "Init"), pre |-> St,
                     a |-> [n |-> act'.n, k |-> act'.k, s |-> act'.s, num |-> act'.num,
                            val |-> IF act'.n = "SetEnv" THEN env'[act'.s] ELSE <<>>],
                     post |-> StP]))
=============================================================================
