SPECIFICATION TSpec
CONSTANTS EnvNames <- TEnvNames
INVARIANTS SameParts SameObservers NothingPending PendingIsLast WellFormed EachInItsFile CurIsNewest
PROPERTIES TNeverTruncates TRestartPreserves TNewFileExactlyOnNameChange
POSTCONDITION Accepted
CHECK_DEADLOCK FALSE
