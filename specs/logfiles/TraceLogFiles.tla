---------------------------- MODULE TraceLogFiles ----------------------------
(* Validates executions recorded from the real Creator / Builder / Simple / Timestamped / Handler       *)
(* (logfiles_driver).  One trace specification for both halves: an execution builds a definition        *)
(* through the Creator (Item events) and may then run a policy object on it.                            *)
(* Events                                                                                               *)
(*  {"e":"Reset","kind":"simple"|"timestamped","pid":n,"env":[{"n":name,"v":value},..],"via":v,"cfg":c} *)
(*        new Definition + Creator, empty scratch directory, every variable of the model environment   *)
(*        set to "" ; via (policy | handler | factory) and cfg are not constrained                      *)
(*  {"e":"Item","k":kind,"s":text,"n":number,"how":"op"|"method","empty":b,"hasnbr":b,"hasdate":b,      *)
(*        "parts":[{"t":type,"s":text,"w":width,"f":fill},..],"r":[probe,..]}                           *)
(*        one call of the Creator; the Definition afterwards (observers, parts as a derived class sees *)
(*        them) and rendered names:  probe = {"nbr":n,"ts":n,"how":h,"name":text,"res":r}               *)
(*        how = static (Builder::filename(def,nbr,ts)) | object (Builder object, fresh string) | reuse  *)
(*        (Builder object, the string already holds a name) | default (Builder::filename(def): nbr 0,    *)
(*        timestamp = system time = ts); res = ok | invalid_argument | exception                        *)
(*  {"e":"SetEnv","var":name,"val":value,"r":[probe,..]}                                                *)
(*  {"e":"Ctor","kind":k,"res":"ok"|"exception"}     policy object constructed and destroyed            *)
(*  {"e":"Open"|"Restart","now":n,"ts":0,"id":0,"len":0,"res":r,"hascur":b,"cur":name,"log":P}          *)
(*  {"e":"Write","now":n,"ts":n,"id":n,"len":n,"res":r,"hascur":b,"cur":name,"log":P}                   *)
(*  {"e":"Close","log":P}                                                                               *)
(*  P = the files below the scratch directory, ascending by name:                                       *)
(*      [{"name":text,"ids":[..],"lens":[..],"tail":n},..]   (complete lines; tail = bytes after the    *)
(*      last newline); names and cur are relative to the scratch directory                              *)
(* Texts are arrays of character codes.  Every event has at most one successor state.                   *)
EXTENDS LogFiles, TLC, Json, IOUtils
VARIABLE l
Log == ndJsonDeserialize(IOEnv.TRACE)
Ev == Log[l]
TEnvNames == {<<69>>, <<88, 48, 51, 95, 70>>}        \* "E", "X03_F"

\* ---- the definition as the derived class sees it
PartOK(lp, p) == /\ lp.t = p.t
                 /\ p.t \in {"constant", "env", "date"} => lp.s = p.s
                 /\ p.t \in {"number", "pid"} => lp.w = p.w /\ lp.f = p.f
PartsOK(lps, ps_) == Len(lps) = Len(ps_) /\ \A i \in 1..Len(ps_) : PartOK(lps[i], ps_[i])
\* every date format inside the modelled strftime directives
FmtsInModel(ps_) == \A i \in 1..Len(ps_) : ps_[i].t = "date" => FmtInModel(ps_[i].s)
\* a rendered name: the Builder refuses an empty definition ("@throw std::invalid_argument when the definition object
\* contains no parts"); "@param[out] dest Returns the log file path and name", whatever the string held before
ProbeOK(p, ps_, e) == IF ps_ = <<>> THEN p.res = "invalid_argument"
                      ELSE /\ p.res = "ok"
                           /\ PartsInDomain(ps_, p.nbr, pid) /\ FmtsInModel(ps_) => p.name = RenderParts(ps_, p.nbr, p.ts, e, pid)
ProbesOK(r, ps_, e) == \A i \in 1..Len(r) : ProbeOK(r[i], ps_, e)

\* ---- the files on disk
ProjOK(f) == /\ Len(Ev.log) = Cardinality(DOMAIN f)
             /\ Cardinality({Ev.log[i].name : i \in 1..Len(Ev.log)}) = Len(Ev.log)
             /\ \A i \in 1..Len(Ev.log) :
                  LET p == Ev.log[i] IN
                  /\ p.name \in DOMAIN f
                  /\ Len(p.ids) = Len(f[p.name]) /\ Len(p.lens) = Len(f[p.name])
                  /\ \A j \in 1..Len(p.ids) : p.ids[j] = f[p.name][j].id /\ p.lens[j] = f[p.name][j].len
                  /\ p.tail = 0
CurOK(c) == Ev.hascur => Ev.cur = c

EnvOf(list) == [v \in TEnvNames |-> LET S == {i \in 1..Len(list) : list[i].n = v} IN IF S = {} THEN <<>> ELSE list[CHOOSE i \in S : TRUE].v]

TInit == /\ l = 1 /\ Init /\ PInit
TNext == /\ l <= Len(Log) /\ l' = l + 1
         /\ \/ /\ Ev.e = "Item" /\ Ev.k \in ValueKinds \cup PropKinds
               /\ Apply(Item(Ev.k, Ev.s, Ev.n))
               /\ Ev.empty = (parts' = <<>>)
               /\ Ev.hasnbr = (\E i \in 1..Len(parts') : parts'[i].t = "number")
               /\ Ev.hasdate = (\E i \in 1..Len(parts') : parts'[i].t = "date")
               /\ SepDomain(items') => PartsOK(Ev.parts, parts') /\ ProbesOK(Ev.r, parts', env')
               /\ UNCHANGED pvars
            \/ /\ Ev.e = "SetEnv" /\ SetEnvVar(Ev.var, Ev.val) /\ (SepDomain(items) => ProbesOK(Ev.r, parts', env'))
               /\ UNCHANGED pvars
            \/ /\ Ev.e = "Ctor" /\ Ev.res = (IF CtorOK(Ev.kind) THEN "ok" ELSE "exception") /\ UNCHANGED allvars
            \/ /\ Ev.e = "Open" /\ SepDomain(items) /\ Ev.res = "ok" /\ Open(Ev.now) /\ CurOK(cur') /\ ProjOK(files')
            \/ /\ Ev.e = "Restart" /\ Ev.res = "ok" /\ Restart(Ev.now) /\ CurOK(cur') /\ ProjOK(files')
            \/ /\ Ev.e = "Write" /\ Ev.res = "ok" /\ Ev.id = nid /\ Ev.len >= 1 /\ Write(Ev.now, Ev.ts, Ev.len)
               /\ CurOK(cur') /\ ProjOK(files')
            \/ /\ Ev.e = "Close" /\ Close /\ ProjOK(files')
            \/ /\ Ev.e = "Reset" /\ Ev.kind \in {"simple", "timestamped"}
               /\ items' = <<>> /\ parts' = <<>> /\ pf' = <<>> /\ pw' = 0 /\ pc' = DefaultFill /\ ps' = FALSE
               /\ env' = EnvOf(Ev.env) /\ \A v \in TEnvNames : env'[v] = <<>>
               /\ kind' = Ev.kind /\ pid' = Ev.pid
               /\ files' = <<>> /\ isOpen' = FALSE /\ cur' = <<>> /\ otime' = 0 /\ written' = <<>> /\ nid' = 1 /\ clock' = 0
TSpec == TInit /\ [][TNext]_<<allvars, l>>
\* the step properties of LogFiles, for every step that is not the start of a new execution
TNeverTruncates == [][Ev.e = "Reset" \/ KeepsOK]_<<allvars, l>>
TRestartPreserves == [][Ev.e = "Reset" \/ RestartOK]_<<allvars, l>>
TNewFileExactlyOnNameChange == [][Ev.e = "Reset" \/ NewFileOK]_<<allvars, l>>
Accepted == TLCGet("stats").diameter = Len(Log) + 1
=============================================================================
