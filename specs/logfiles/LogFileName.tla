---------------------------- MODULE LogFileName ----------------------------
(* Log file names of celma::log::filename (extension component X03, first half).                  *)
(*   Definition  the parts of a file name: constant text, environment variable, date (with        *)
(*               format string), log file number and process id (with fixed width and fill        *)
(*               character)                                                                       *)
(*   Creator     stream-style builder of a Definition.  "As usual with streams, you set the       *)
(*               properties first and then the value to which the properties apply.  Unlike       *)
(*               output streams, there are no sticky properties, meaning you have to set them     *)
(*               for each field where they are required, but you don't need to reset them."       *)
(*   Builder     filename(def, logfile_nbr, timestamp) renders the name                           *)
(* One action per public operation of Creator.  Two formulations that TLC checks against each     *)
(* other in the bounded model:                                                                    *)
(*   operational  the Creator state machine: pending width / fill character / format string /     *)
(*                path separator flag, consumed and cleared by the next part; `parts` is the      *)
(*                Definition built so far, rendered by RenderParts                                 *)
(*   declarative  the name as a function of the list of everything streamed so far (`items`):     *)
(*                a property belongs to the value that directly follows the run of properties      *)
(*                it stands in (RenderDecl, DeclParts)                                             *)
EXTENDS FileNameText
CONSTANTS EnvNames          \* the environment variables of the model (texts)
VARIABLES items,            \* ghost: everything streamed into the Creator so far, in order
          parts,            \* the Definition: sequence of parts
          pf, pw, pc, ps,   \* pending format string, fixed width, fill character, path separator check
          env               \* the environment: EnvNames -> value (text)
vars == <<items, parts, pf, pw, pc, ps, env>>

\* item: [k |-> kind, s |-> text, n |-> number]
\*   values       "text" (s = the text)  "env" (s = variable name)  "date"  "number"  "pid"
\*   properties   "width" (n)  "fill" (n = character code)  "fmt" (s = format string)  "sep"
ValueKinds == {"text", "env", "date", "number", "pid"}
PropKinds  == {"width", "fill", "fmt", "sep"}
Item(k, s, n) == [k |-> k, s |-> s, n |-> n]
IsValue(it) == it.k \in ValueKinds
DefaultFill == 48           \* Creator: "char mFillChar = '0'" - the fill character if only a fixed width is specified

Init == /\ items = <<>> /\ parts = <<>> /\ pf = <<>> /\ pw = 0 /\ pc = DefaultFill /\ ps = FALSE
        /\ env = [v \in EnvNames |-> <<>>]

\* ------------------------------------------------------------------ operational: the Creator state machine
Part(t, s, w, f) == [t |-> t, s |-> s, w |-> w, f |-> f]
\* "Multiple, subsequent elements of constant text are internally concatenated to one constant string."
\* path_sep: only between two constant texts
AddPart(p) ==
   /\ parts' = IF p.t = "constant" /\ parts # <<>> /\ parts[Len(parts)].t = "constant"
                 THEN [parts EXCEPT ![Len(parts)].s = IF ps THEN JoinSep(@, p.s) ELSE @ \o p.s]
                 ELSE parts \o <<p>>
   /\ pf' = <<>> /\ pw' = 0 /\ pc' = DefaultFill /\ ps' = FALSE       \* no sticky properties
   /\ UNCHANGED env
Streamed(it) == items' = items \o <<it>>

AddText(s)   == Streamed(Item("text", s, 0))   /\ AddPart(Part("constant", s, 0, 0))
AddEnv(name) == Streamed(Item("env", name, 0)) /\ AddPart(Part("env", name, 0, 0))
AddDate      == Streamed(Item("date", <<>>, 0))   /\ AddPart(Part("date", pf, 0, 0))
AddNumber    == Streamed(Item("number", <<>>, 0)) /\ AddPart(Part("number", <<>>, pw, pc))
AddPid       == Streamed(Item("pid", <<>>, 0))    /\ AddPart(Part("pid", <<>>, pw, pc))
SetWidth(n)  == Streamed(Item("width", <<>>, n)) /\ pw' = n /\ UNCHANGED <<parts, pf, pc, ps, env>>
SetFill(c)   == Streamed(Item("fill", <<>>, c))  /\ pc' = c /\ UNCHANGED <<parts, pf, pw, ps, env>>
SetFormat(f) == Streamed(Item("fmt", f, 0))      /\ pf' = f /\ UNCHANGED <<parts, pw, pc, ps, env>>
PathSep      == Streamed(Item("sep", <<>>, 0))   /\ ps' = TRUE /\ UNCHANGED <<parts, pf, pw, pc, env>>
\* applying an item record (used by the trace specification and by LogFiles)
Apply(it) == CASE it.k = "text"   -> AddText(it.s)
               [] it.k = "env"    -> AddEnv(it.s)
               [] it.k = "date"   -> AddDate
               [] it.k = "number" -> AddNumber
               [] it.k = "pid"    -> AddPid
               [] it.k = "width"  -> SetWidth(it.n)
               [] it.k = "fill"   -> SetFill(it.n)
               [] it.k = "fmt"    -> SetFormat(it.s)
               [] it.k = "sep"    -> PathSep
\* "An environment variable whose value is evaluated only when a logfile name is created."
SetEnvVar(name, val) == /\ name \in EnvNames /\ env' = [env EXCEPT ![name] = val]
                        /\ UNCHANGED <<items, parts, pf, pw, pc, ps>>

\* the observers of Definition and Builder
IsEmpty == parts = <<>>
HasNbr  == \E i \in 1..Len(parts) : parts[i].t = "number"
HasDate == \E i \in 1..Len(parts) : parts[i].t = "date"
Render(nbr, ts, pid) == RenderParts(parts, nbr, ts, env, pid)

\* ------------------------------------------------------------------ declarative: from the list of streamed items
\* position of the value in front of position i (0 = none)
PrevValue(its, i) == LET P[j \in 0..Len(its)] == IF j = 0 THEN 0 ELSE IF IsValue(its[j]) THEN j ELSE P[j-1]
                     IN P[i-1]
\* the properties in front of the value at position i: those between the previous value and i; the last one of a kind counts
PropIdx(its, i, kind) == {j \in (PrevValue(its, i) + 1)..(i - 1) : its[j].k = kind}
LastIdx(S) == CHOOSE j \in S : \A q \in S : q <= j
WidthAt(its, i) == IF PropIdx(its, i, "width") = {} THEN 0 ELSE its[LastIdx(PropIdx(its, i, "width"))].n
FillAt(its, i)  == IF PropIdx(its, i, "fill") = {} THEN DefaultFill ELSE its[LastIdx(PropIdx(its, i, "fill"))].n
FmtAt(its, i)   == IF PropIdx(its, i, "fmt") = {} THEN <<>> ELSE its[LastIdx(PropIdx(its, i, "fmt"))].s
SepAt(its, i)   == PropIdx(its, i, "sep") # {}
\* the constant text that ends with the text item at position i: consecutive texts are one text
ConstRun(its, i) == LET C[j \in 0..Len(its)] ==
                          IF j = 0 \/ its[j].k # "text" THEN <<>>
                          ELSE LET p == PrevValue(its, j) IN
                               IF p = 0 \/ its[p].k # "text" THEN its[j].s
                               ELSE IF SepAt(its, j) THEN JoinSep(C[p], its[j].s) ELSE C[p] \o its[j].s
                    IN C[i]
NextValue(its, i) == LET S == {j \in (i+1)..Len(its) : IsValue(its[j])}
                     IN IF S = {} THEN 0 ELSE CHOOSE j \in S : \A q \in S : j <= q
\* what the value at position i contributes to the name
Piece(its, i, nbr, ts, e, pid) ==
   CASE its[i].k = "text"   -> LET nx == NextValue(its, i) IN
                               IF nx # 0 /\ its[nx].k = "text" THEN <<>> ELSE ConstRun(its, i)
     [] its[i].k = "env"    -> e[its[i].s]
     [] its[i].k = "date"   -> DateOf(FmtAt(its, i), ts)
     [] its[i].k = "number" -> NumText(nbr, WidthAt(its, i), FillAt(its, i))
     [] its[i].k = "pid"    -> NumText(pid, WidthAt(its, i), FillAt(its, i))
     [] OTHER -> <<>>
RenderDecl(its, nbr, ts, e, pid) ==
   LET R[i \in 0..Len(its)] == IF i = 0 THEN <<>> ELSE R[i-1] \o Piece(its, i, nbr, ts, e, pid) IN R[Len(its)]
\* the parts of the definition, declaratively: one per value, consecutive texts counted once
DeclParts(its) ==
   LET P[i \in 0..Len(its)] ==
          IF i = 0 THEN <<>>
          ELSE IF ~IsValue(its[i]) THEN P[i-1]
          ELSE CASE its[i].k = "text" -> LET nx == NextValue(its, i) IN
                                         IF nx # 0 /\ its[nx].k = "text" THEN P[i-1]
                                         ELSE P[i-1] \o <<Part("constant", ConstRun(its, i), 0, 0)>>
                 [] its[i].k = "env"  -> P[i-1] \o <<Part("env", its[i].s, 0, 0)>>
                 [] its[i].k = "date" -> P[i-1] \o <<Part("date", FmtAt(its, i), 0, 0)>>
                 [] OTHER             -> P[i-1] \o <<Part(its[i].k, <<>>, WidthAt(its, i), FillAt(its, i))>>
   IN P[Len(its)]
\* path_sep is documented for the place between two constant texts only (setCheckPathSeparator(): "When adding two
\* parts of constant text ... call this function in between"; path_sep: "check that the previous constant path part
\* and the next following one are separated by exactly one slash"): a definition with a path_sep anywhere else is
\* outside the documented domain, its parts and names are not constrained
SepDomain(its) == \A j \in 1..Len(its) : its[j].k = "sep" =>
                     LET p == PrevValue(its, j)  nx == NextValue(its, j)
                     IN p # 0 /\ its[p].k = "text" /\ (nx = 0 \/ its[nx].k = "text")
DeclEmpty   == \A i \in 1..Len(items) : ~IsValue(items[i])
DeclHasNbr  == \E i \in 1..Len(items) : items[i].k = "number"
DeclHasDate == \E i \in 1..Len(items) : items[i].k = "date"
\* number and pid parts inside the documented domain for this number / pid
InDomain(nbr, pid) == PartsInDomain(parts, nbr, pid)

\* ------------------------------------------------------------------ properties
\* the two formulations agree on the definition ...
SameParts == parts = DeclParts(items)
SameObservers == IsEmpty = DeclEmpty /\ HasNbr = DeclHasNbr /\ HasDate = DeclHasDate
\* ... and nothing stays pending behind a value ("no sticky properties")
NothingPending == items # <<>> /\ IsValue(items[Len(items)]) => pf = <<>> /\ pw = 0 /\ pc = DefaultFill /\ ~ps
\* a pending property is exactly the last one of its kind since the last value
PendingIsLast == LET n == Len(items) + 1 IN
                 /\ pw = WidthAt(items \o <<Item("date", <<>>, 0)>>, n)
                 /\ pc = FillAt(items \o <<Item("date", <<>>, 0)>>, n)
                 /\ pf = FmtAt(items \o <<Item("date", <<>>, 0)>>, n)
                 /\ ps = SepAt(items \o <<Item("date", <<>>, 0)>>, n)
=============================================================================
