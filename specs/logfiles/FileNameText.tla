---------------------------- MODULE FileNameText ----------------------------
(* Pure operators shared by the log file name specification (LogFileName) and the log file      *)
(* policy specification (LogFiles): texts as sequences of character codes, decimal numbers,     *)
(* broken-down UTC time, the modelled strftime directives, the path separator rule and the      *)
(* rendering of a list of file name parts.                                                      *)
EXTENDS Integers, Sequences
LOCAL INSTANCE SequencesExt       \* FoldLeft (evaluated iteratively by TLC)

Slash   == 47
Percent == 37
Zero    == 48

\* ------------------------------------------------------------------ numbers
Digits(n) == LET D[k \in 0..n] == IF k < 10 THEN <<48 + k>> ELSE D[k \div 10] \o <<48 + (k % 10)>> IN D[n]
\* fill on the left up to the width (a number never loses digits)
PadLeft(t, w, f) == IF Len(t) >= w THEN t ELSE [i \in 1..(w - Len(t)) |-> f] \o t
\* "Specifies the width of the following log file number" / "the fill character to use with the following log
\* file number": width 0 = no width set
NumText(n, w, f) == PadLeft(Digits(n), w, f)
\* a number part is inside the documented domain when the number fits its fixed width (the documentation does not
\* say what happens to a number that is wider than the "fixed width")
NumFits(n, w) == w = 0 \/ Len(Digits(n)) <= w

\* ------------------------------------------------------------------ date and time (UTC)
\* days since 1970-01-01 of a civil date (proleptic Gregorian calendar)
DaysFromCivil(y0, m, d) ==
   LET y   == IF m <= 2 THEN y0 - 1 ELSE y0
       era == y \div 400
       yoe == y - era * 400
       mp  == IF m > 2 THEN m - 3 ELSE m + 9
       doy == (153 * mp + 2) \div 5 + d - 1
       doe == yoe * 365 + yoe \div 4 - yoe \div 100 + doy
   IN era * 146097 + doe - 719468
\* broken-down time from seconds since the epoch (0 <= ts < 2^31)
Civil(ts) ==
   LET days == ts \div 86400
       sod  == ts % 86400
       z    == days + 719468
       era  == z \div 146097
       doe  == z - era * 146097
       yoe  == (doe - doe \div 1460 + doe \div 36524 - doe \div 146096) \div 365
       doy  == doe - (365 * yoe + yoe \div 4 - yoe \div 100)
       mp   == (5 * doy + 2) \div 153
       d    == doy - (153 * mp + 2) \div 5 + 1
       m    == IF mp < 10 THEN mp + 3 ELSE mp - 9
       y    == yoe + era * 400 + (IF m <= 2 THEN 1 ELSE 0)
   IN [Y |-> y, m |-> m, d |-> d, H |-> sod \div 3600, M |-> (sod % 3600) \div 60, S |-> sod % 60,
       j |-> days - DaysFromCivil(y, 1, 1) + 1]

\* the modelled strftime directives (C standard): %Y %y %m %d %e %j %H %M %S %F %T %R %%
Directives == {89, 121, 109, 100, 101, 106, 72, 77, 83, 70, 84, 82, 37}
Z(n, w) == PadLeft(Digits(n), w, 48)
DateText(tm)  == Z(tm.Y, 4) \o <<45>> \o Z(tm.m, 2) \o <<45>> \o Z(tm.d, 2)
Directive(c, tm) == CASE c = 89  -> Z(tm.Y, 4)                                         \* %Y
                      [] c = 121 -> Z(tm.Y % 100, 2)                                   \* %y
                      [] c = 109 -> Z(tm.m, 2)                                         \* %m
                      [] c = 100 -> Z(tm.d, 2)                                         \* %d
                      [] c = 101 -> PadLeft(Digits(tm.d), 2, 32)                       \* %e
                      [] c = 106 -> Z(tm.j, 3)                                         \* %j
                      [] c = 72  -> Z(tm.H, 2)                                         \* %H
                      [] c = 77  -> Z(tm.M, 2)                                         \* %M
                      [] c = 83  -> Z(tm.S, 2)                                         \* %S
                      [] c = 70  -> DateText(tm)                                       \* %F
                      [] c = 84  -> Z(tm.H, 2) \o <<58>> \o Z(tm.M, 2) \o <<58>> \o Z(tm.S, 2)    \* %T
                      [] c = 82  -> Z(tm.H, 2) \o <<58>> \o Z(tm.M, 2)                 \* %R
                      [] c = 37  -> <<37>>                                             \* %%
                      [] OTHER   -> <<37, c>>              \* outside the model, never generated
\* a format string inside the model: every % is followed by a modelled directive
FmtInModel(f) == LET G[i \in 1..(Len(f) + 2)] ==
                        IF i > Len(f) THEN TRUE
                        ELSE IF f[i] = 37 THEN i < Len(f) /\ f[i+1] \in Directives /\ G[i+2]
                        ELSE G[i+1]
                 IN G[1]
StrFTime(f, tm) == LET E[i \in 1..(Len(f) + 2)] ==
                          IF i > Len(f) THEN <<>>
                          ELSE IF f[i] = 37 /\ i < Len(f) THEN Directive(f[i+1], tm) \o E[i+2]
                          ELSE <<f[i]>> \o E[i+1]
                   IN E[1]
\* "If no date format is specified, '%F' is used."
DefaultDateFmt == <<37, 70>>
DateOf(fmt, ts) == StrFTime(IF fmt = <<>> THEN DefaultDateFmt ELSE fmt, Civil(ts))

\* ------------------------------------------------------------------ path separator
\* path_sep: "Makes sure that the previous and the following part are correctly separated by one path separator
\* character (a slash)" / "... are separated by exactly one slash": joining two constant texts
EndsSlash(a)   == Len(a) > 0 /\ a[Len(a)] = Slash
StartsSlash(b) == Len(b) > 0 /\ b[1] = Slash
JoinSep(a, b) == IF EndsSlash(a) /\ StartsSlash(b) THEN a \o SubSeq(b, 2, Len(b))
                 ELSE IF ~EndsSlash(a) /\ ~StartsSlash(b) THEN a \o <<Slash>> \o b
                 ELSE a \o b

\* ------------------------------------------------------------------ rendering of a definition
\* part: [t |-> "constant"|"env"|"date"|"number"|"pid", s |-> text / variable name / format string, w |-> width, f |-> fill]
\* env: function from variable names to their current values
PartText(p, nbr, ts, env, pid) ==
   CASE p.t = "constant" -> p.s
     [] p.t = "env"      -> env[p.s]
     [] p.t = "date"     -> DateOf(p.s, ts)
     [] p.t = "number"   -> NumText(nbr, p.w, p.f)
     [] p.t = "pid"      -> NumText(pid, p.w, p.f)
RenderParts(parts, nbr, ts, env, pid) ==
   FoldLeft(LAMBDA acc, p : acc \o PartText(p, nbr, ts, env, pid), <<>>, parts)
PartsInDomain(parts, nbr, pid) ==
   \A i \in 1..Len(parts) : /\ parts[i].t = "number" => NumFits(nbr, parts[i].w)
                            /\ parts[i].t = "pid" => NumFits(pid, parts[i].w)
=============================================================================
