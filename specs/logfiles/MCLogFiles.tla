---------------------------- MODULE MCLogFiles ----------------------------
(* Bounded instance of LogFiles: every history of at most MaxEvents Open / Write / Close / Restart  *)
(* events for the policies Simple and Timestamped over a few file name definitions (day, hour and   *)
(* minute granularity, with environment variable, number and pid parts), with the system time and  *)
(* the message timestamps taken from a few points around the end of a minute / hour / day.         *)
(* Messages carry the system time of the call as their timestamp (synchronous logging), time never *)
(* runs backwards.                                                                                 *)
EXTENDS LogFiles, TLC, Json
CONSTANTS DefIds, Kinds, Times, Lens, MaxEvents
VARIABLES act, nev
T(s) == Item("text", s, 0)
\* the definitions (as the items streamed into the Creator)
Def(d) == CASE d = 1 -> << T(<<108,111,103,46>>), Item("date", <<>>, 0), T(<<46,116,120,116>>) >>          \* "log." date ".txt"
            [] d = 2 -> << T(<<104>>), Item("fmt", <<37,70,95,37,72>>, 0), Item("date", <<>>, 0) >>         \* "h" %F_%H
            [] d = 3 -> << Item("fmt", <<37,106,45,37,72,37,77>>, 0), Item("date", <<>>, 0), T(<<46,109>>) >>   \* %j-%H%M ".m"
            [] d = 4 -> << T(<<112,108,97,105,110>>), T(<<46,108,111,103>>) >>                              \* "plain" ".log" (no date)
            [] d = 5 -> << Item("env", <<69>>, 0), T(<<45>>), Item("width", <<>>, 3), Item("number", <<>>, 0), T(<<46>>),
                           Item("fmt", <<37,100>>, 0), Item("date", <<>>, 0), Item("fill", <<>>, 120), Item("width", <<>>, 4), Item("pid", <<>>, 0) >>
                                                                                                            \* $E "-" 000 "." %d xx42
MCEnvNames == {<<69>>}
MCEnv == [v \in EnvNames |-> <<118>>]
MCPid == 42
HasDateItem(d) == \E i \in 1..Len(Def(d)) : Def(d)[i].k = "date"
MCConfigs == {c \in [kind : Kinds, d : DefIds] : c.kind = "timestamped" => HasDateItem(c.d)}
A(n, now, len) == [n |-> n, now |-> now, len |-> len]
VARIABLE did
MCInit == /\ \E c \in MCConfigs : /\ did = c.d /\ kind = c.kind /\ items = Def(c.d) /\ parts = DeclParts(Def(c.d))
          /\ pf = <<>> /\ pw = 0 /\ pc = DefaultFill /\ ps = FALSE /\ env = MCEnv /\ pid = MCPid
          /\ files = <<>> /\ isOpen = FALSE /\ cur = <<>> /\ otime = 0 /\ written = <<>> /\ nid = 1 /\ clock = 0
          /\ act = A("Init", 0, 0) /\ nev = 0
Ev == nev < MaxEvents /\ nev' = nev + 1 /\ UNCHANGED did
MCOpen    == \E t \in Times : Ev /\ Open(t) /\ act' = A("Open", t, 0)
MCWrite   == \E t \in Times, len \in Lens : Ev /\ Write(t, t, len) /\ act' = A("Write", t, len)
MCClose   == Ev /\ Close /\ act' = A("Close", 0, 0)
MCRestart == \E t \in Times : Ev /\ Restart(t) /\ act' = A("Restart", t, 0)
MCNext == MCOpen \/ MCWrite \/ MCClose \/ MCRestart
MCSpec == MCInit /\ [][MCNext]_<<allvars, act, nev, did>>
\* the two formulations of the definition agree for the configurations used here as well
DefOK == SameParts /\ SameObservers
\* node key of the transition graph: the configuration and the history determine everything else
Hist(w) == [i \in 1..Len(w) |-> [len |-> w[i].len, ts |-> w[i].ts, ot |-> w[i].otime]]
St  == [kind |-> kind, d |-> did, w |-> Hist(written), open |-> isOpen, ot |-> otime, clock |-> clock, nev |-> nev,
        nf |-> Cardinality(DOMAIN files)]
StP == [kind |-> kind', d |-> did', w |-> Hist(written'), open |-> isOpen', ot |-> otime', clock |-> clock', nev |-> nev',
        nf |-> Cardinality(DOMAIN files')]
EnvList == [i \in 1..1 |-> [n |-> <<69>>, v |-> env[<<69>>]]]
EdgeOut == PrintT("EDGE " \o ToJson([i |-> (act.n = "Init"), pre |-> St,
                     a |-> [n |-> act'.n, now |-> act'.now, ts |-> act'.now, len |-> act'.len,
                            kind |-> kind, def |-> items, env |-> EnvList, pid |-> pid],
                     post |-> StP]))
=============================================================================
