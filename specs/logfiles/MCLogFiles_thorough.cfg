SPECIFICATION MCSpec
CONSTANTS
  EnvNames <- MCEnvNames
  DefIds = {1, 2, 3, 4, 5}
  Kinds = {"simple", "timestamped"}
  Times = {1614902310, 1614902340, 1614902399, 1614902400, 1614902460, 1614906000}
  Lens = {1, 3}
  MaxEvents = 5
INVARIANTS WellFormed EachInItsFile CurIsNewest DefOK
PROPERTIES NeverTruncates RestartPreserves NewFileExactlyOnNameChange
ACTION_CONSTRAINT EdgeOut
CHECK_DEADLOCK FALSE
