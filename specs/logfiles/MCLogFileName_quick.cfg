SPECIFICATION MCSpec
CONSTANTS
  EnvNames <- EnvQ
  Texts <- TextsQ
  Widths = {2}
  Fills <- FillsQ
  Fmts <- FmtsQ
  EnvVals <- ValsQ
  MaxItems = 4
  Probes <- MCProbes
  Pid = 42
INVARIANTS SameParts SameObservers NothingPending PendingIsLast SameNames InSepDomain
ACTION_CONSTRAINT EdgeOut
CHECK_DEADLOCK FALSE
