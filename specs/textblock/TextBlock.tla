---------------------------- MODULE TextBlock ----------------------------
(* celma::format::TextBlock (property C17).                                            *)
(*                                                                                     *)
(* Two formulations that TLC checks against each other:                                *)
(*  - operational: format() as BeginLine (one per input line) and formatLine() as the  *)
(*    state machine (cur, dash, out) with one action per token: ForcedBreak (the `nn`  *)
(*    token), Wrap, FirstWord, NextWord;                                               *)
(*  - declarative: WordsOK, IndentOK, NewlineOK, WidthOK, predicates over the triple   *)
(*    (cfg, inp, out) only.  They are invariants of the operational machine (module    *)
(*    MCTextBlock) and are evaluated on every output recorded from the real class      *)
(*    (module TraceTextBlock), where nothing but these predicates is required.         *)
(*                                                                                     *)
(* A token is a record [len, dash, nn, id]: len = number of characters, dash = first   *)
(* character is '-', nn = the token is exactly "nn", id = what tells equal-looking     *)
(* tokens apart (the position in the model, the bytes in a recorded trace).            *)
(* An output line is a record [len, lead, ws]: its number of characters, the number of *)
(* blanks it starts with, the words on it (maximal runs of non-blank characters).      *)
EXTENDS Naturals, Sequences, SequencesExt
CONSTANTS Cfgs          \* configurations [indent, width, first] explored by the bounded model
VARIABLES cfg,          \* [indent |-> Nat, width |-> Nat, first |-> BOOLEAN]  (constructor arguments)
          inp,          \* input consumed so far: sequence of lines, each a sequence of tokens
          out,          \* output produced so far: sequence of output lines
          cur,          \* currLength in formatLine()
          dash          \* lineStartsWithDash in formatLine()
vars == <<cfg, inp, out, cur, dash>>

\* ---------------------------------------------------------------- helpers (all iterative: FoldLeft)
Flat(ss) == FoldLeft(LAMBDA a, x : a \o x, <<>>, ss)
RealWords(line) == SelectSeq(line, LAMBDA t : ~t.nn)
InWords == Flat([L \in 1..Len(inp) |-> RealWords(inp[L])])
OutWords == Flat([k \in 1..Len(out) |-> out[k].ws])
\* position [L, j] (input line, token index) of every real word, in input order
InPos == Flat([L \in 1..Len(inp) |->
               LET idx == SelectSeq([j \in 1..Len(inp[L]) |-> j], LAMBDA j : ~inp[L][j].nn)
               IN [m \in 1..Len(idx) |-> [L |-> L, j |-> idx[m]]]])
\* Cum(s, f)[k] = f(s[1]) + .. + f(s[k-1])   (k = 1 .. Len(s)+1)
Cum(s, f(_)) == FoldLeft(LAMBDA a, x : Append(a, a[Len(a)] + f(x)), <<0>>, s)
OutBefore == Cum(out, LAMBDA l : Len(l.ws))                   \* words on the output lines before line k
InBefore == Cum(inp, LAMBDA line : Len(RealWords(line)))      \* real words on the input lines before line L

\* ---------------------------------------------------------------- declarative formulation (C17)
\* no word lost, duplicated, reordered, split or merged; `nn` tokens consumed
WordsOK == OutWords = InWords

\* every output line starts with the indentation; the first one only when requested
IndentOK == \A k \in 1..Len(out) :
               IF k = 1 /\ ~cfg.first THEN out[k].lead = 0 ELSE out[k].lead >= cfg.indent

\* every explicit newline of the input starts a new output line: the first word of every input
\* line but the first is the first word on its output line
\* (quantification over singleton sets binds each sum to a value that TLC computes once per state)
NewlineOK == \A ob \in {OutBefore}, ib \in {InBefore} :
                \A starts \in {{ob[k] : k \in {j \in 1..Len(out) : out[j].ws # <<>>}}} :   \* words before each line start
                   \A L \in 2..Len(inp) : RealWords(inp[L]) # <<>> => ib[L] \in starts

\* A word may be regarded as sitting on the continuation line of a list entry (two more blanks)
\* when a word starting with a dash opened an output line of the same input line before it: at
\* the start of the input line or right after a forced break.
MaybeList(L, j) == \E i \in 1..(j-1) : /\ inp[L][i].dash /\ ~inp[L][i].nn
                                       /\ (i = 1 \/ inp[L][i-1].nn)
\* "a single word that cannot fit": alone on its line, and too long for the room behind the
\* indentation (+2 on a list continuation line)
Excuse(k, ob, pos) == /\ Len(out[k].ws) = 1
                      /\ ob[k] + 1 <= Len(pos)
                      /\ LET p == pos[ob[k] + 1]
                             w == out[k].ws[1]
                         IN \/ cfg.indent + w.len > cfg.width
                            \/ MaybeList(p.L, p.j) /\ cfg.indent + 2 + w.len > cfg.width
WidthOK == \/ \A k \in 1..Len(out) : out[k].len <= cfg.width
           \/ \A ob \in {OutBefore}, pos \in {InPos} :
                 \A k \in 1..Len(out) : out[k].len <= cfg.width \/ Excuse(k, ob, pos)

DeclOK == WordsOK /\ IndentOK /\ NewlineOK /\ WidthOK

\* ---------------------------------------------------------------- operational formulation
Init == cfg \in Cfgs /\ inp = <<>> /\ out = <<>> /\ cur = 0 /\ dash = FALSE

NewOutLine(lead, ws, len) == [len |-> len, lead |-> lead, ws |-> ws]
LastOut == out[Len(out)]
\* a word written behind what the last output line holds, after `sp` blanks (0 or 1)
PutWord(t, sp) == [out EXCEPT ![Len(out)] =
                     IF @.ws = <<>> THEN NewOutLine(@.lead + sp, <<t>>, @.len + sp + t.len)
                                    ELSE NewOutLine(@.lead, Append(@.ws, t), @.len + sp + t.len)]
Consume(t) == inp' = [inp EXCEPT ![Len(inp)] = Append(@, t)]

\* format(): the next (non-empty) input line starts.  First line: indentation only when
\* requested; every other line: line break + indentation.  formatLine() starts with
\* currLength = indent and lineStartsWithDash = false.
BeginLine == /\ inp' = Append(inp, <<>>)
             /\ out' = IF inp = <<>>
                       THEN <<NewOutLine(IF cfg.first THEN cfg.indent ELSE 0, <<>>, IF cfg.first THEN cfg.indent ELSE 0)>>
                       ELSE Append(out, NewOutLine(cfg.indent, <<>>, cfg.indent))
             /\ cur' = cfg.indent /\ dash' = FALSE
             /\ UNCHANGED cfg

\* the token `nn`: line break + indentation; in a list entry one more blank
ForcedBreak(t) == /\ inp # <<>> /\ t.nn
                  /\ Consume(t)
                  /\ LET n == cfg.indent + (IF dash THEN 1 ELSE 0)
                     IN out' = Append(out, NewOutLine(n, <<>>, n)) /\ cur' = n
                  /\ UNCHANGED <<cfg, dash>>
\* the word does not fit any more: line break + indentation (+2 in a list entry) + word
Wrap(t) == /\ inp # <<>> /\ ~t.nn
           /\ cur + t.len + 1 > cfg.width
           /\ Consume(t)
           /\ LET n == cfg.indent + (IF dash THEN 2 ELSE 0)
              IN out' = Append(out, NewOutLine(n, <<t>>, n + t.len)) /\ cur' = n + t.len
           /\ UNCHANGED <<cfg, dash>>
\* the word fits and is the first on its line: no blank; a leading dash starts a list entry
FirstWord(t) == /\ inp # <<>> /\ ~t.nn
                /\ cur + t.len + 1 <= cfg.width
                /\ cur = cfg.indent
                /\ Consume(t)
                /\ out' = PutWord(t, 0)
                /\ cur' = cur + t.len
                /\ dash' = (dash \/ t.dash)
                /\ UNCHANGED cfg
\* the word fits behind what is on the line: blank + word
NextWord(t) == /\ inp # <<>> /\ ~t.nn
               /\ cur + t.len + 1 <= cfg.width
               /\ cur # cfg.indent
               /\ Consume(t)
               /\ out' = PutWord(t, 1)
               /\ cur' = cur + 1 + t.len
               /\ UNCHANGED <<cfg, dash>>
Token(t) == ForcedBreak(t) \/ Wrap(t) \/ FirstWord(t) \/ NextWord(t)

\* ---------------------------------------------------------------- consistency of the machine
\* the line-length counter never under-estimates the line it describes (it over-estimates by the
\* indentation on a first line that is not indented)
CurOK == out # <<>> => /\ LastOut.len <= cur
                       /\ (Len(out) > 1 \/ cfg.first) => LastOut.len = cur
\* list mode only after a word with a leading dash opened an output line of this input line
DashOK == dash => /\ inp # <<>>
                  /\ \E i \in 1..Len(inp[Len(inp)]) : LET t == inp[Len(inp)][i]
                                                      IN t.dash /\ ~t.nn /\ (i = 1 \/ inp[Len(inp)][i-1].nn)
LineShapeOK == \A k \in 1..Len(out) :
                  LET l == out[k]
                      wl == FoldLeft(LAMBDA a, w : a + w.len, 0, l.ws)
                  IN l.len = l.lead + wl + (IF l.ws = <<>> THEN 0 ELSE Len(l.ws) - 1)
=============================================================================
