---------------------------- MODULE MCTextBlock ----------------------------
(* Bounded instance of TextBlock: every text of at most MaxLines lines and Depth tokens in     *)
(* total (Depth depends on the configuration, see Budget; a second line counts as one token),  *)
(* word lengths 1..width+2 or 1..room+2 (room = width - indent; every longer word behaves like *)
(* room+2: it is always wrapped and always too long), the `nn` token at every position, a      *)
(* leading dash wherever it can matter (first token of a line / after `nn`), for every         *)
(* configuration indent x width x first-line mode.  The whole input and output are part of the *)
(* state, so the declarative predicates are evaluated on every (text, output) pair.  A line    *)
(* without token stands for an input line that holds blanks only.                              *)
EXTENDS TextBlock, TLC, Json
CONSTANTS Widths, Indents, MaxLines,
          MaxTokens,     \* at most this many tokens per text ...
          Budget,        \* ... and (number of token choices)^(tokens) <= Budget: narrow blocks are explored deeper
          LenFrom        \* "width": word lengths 1..width+2;  "room": 1..(width-indent)+2
VARIABLE act                                   \* ghost: last action and its arguments
MCCfgs == [indent : Indents, width : Widths, first : BOOLEAN]
NTok == FoldLeft(LAMBDA a, line : a + Len(line), 0, inp)
CurLine == inp[Len(inp)]
\* a leading dash is only distinguishable where the word can open an output line
DashChoices == IF CurLine = <<>> \/ CurLine[Len(CurLine)].nn THEN {FALSE, TRUE} ELSE {FALSE}
MaxLen == (IF LenFrom = "width" THEN cfg.width ELSE cfg.width - cfg.indent) + 2
Toks == {[len |-> n, dash |-> d, nn |-> FALSE, id |-> NTok + 1] : n \in 1..MaxLen, d \in DashChoices}
        \cup {[len |-> 2, dash |-> FALSE, nn |-> TRUE, id |-> NTok + 1]}
ActOf(name, t) == [n |-> name, len |-> t.len, dash |-> t.dash, nn |-> t.nn]
MCInit == cfg \in MCCfgs /\ inp = <<>> /\ out = <<>> /\ cur = 0 /\ dash = FALSE
          /\ act = [n |-> "Init", len |-> 0, dash |-> FALSE, nn |-> FALSE]
Alphabet == MaxLen + 1
Depth == LET ok == {d \in 2..MaxTokens : Alphabet^d <= Budget} IN IF ok = {} THEN 2 ELSE CHOOSE d \in ok : \A e \in ok : e <= d
More == inp # <<>> /\ NTok + (Len(inp) - 1) < Depth      \* a second line costs one token
DoBeginLine == /\ Len(inp) < MaxLines
               /\ BeginLine
               /\ act' = [n |-> "BeginLine", len |-> 0, dash |-> FALSE, nn |-> FALSE]
DoForcedBreak == More /\ \E t \in Toks : ForcedBreak(t) /\ act' = ActOf("ForcedBreak", t)
DoWrap == More /\ \E t \in Toks : Wrap(t) /\ act' = ActOf("Wrap", t)
DoFirstWord == More /\ \E t \in Toks : FirstWord(t) /\ act' = ActOf("FirstWord", t)
DoNextWord == More /\ \E t \in Toks : NextWord(t) /\ act' = ActOf("NextWord", t)
MCNext == DoBeginLine \/ DoForcedBreak \/ DoWrap \/ DoFirstWord \/ DoNextWord
MCSpec == MCInit /\ [][MCNext]_<<vars, act>>
\* graph node key: the machine is deterministic, so (cfg, inp) identifies the state
Code(t) == IF t.nn THEN 0 ELSE t.len + (IF t.dash THEN 100 ELSE 0)
St(c, in) == [c |-> <<c.indent, c.width, IF c.first THEN 1 ELSE 0>>,
              t |-> [L \in 1..Len(in) |-> [j \in 1..Len(in[L]) |-> Code(in[L][j])]]]
EdgeOut == PrintT("EDGE " \o ToJson([i |-> (act.n = "Init"), pre |-> St(cfg, inp),
                                     a |-> [n |-> act'.n, len |-> act'.len, dash |-> act'.dash, nn |-> act'.nn,
                                            indent |-> cfg.indent, width |-> cfg.width, first |-> cfg.first],
                                     post |-> St(cfg', inp')]))
=============================================================================
