SPECIFICATION TSpec
CONSTANTS Cfgs = {}
INVARIANTS WordsOK IndentOK NewlineOK WidthOK
POSTCONDITION Accepted
CHECK_DEADLOCK FALSE
