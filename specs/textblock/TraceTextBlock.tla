---------------------------- MODULE TraceTextBlock ----------------------------
(* Validates outputs recorded from celma::format::TextBlock (textblock_driver).                 *)
(* Events:  {"e":"Reset","indent":i,"width":w,"first":b}     a TextBlock(i, w, b) is constructed *)
(*          {"e":"Format","text":[bytes],"out":[bytes],"res":"ok"}   format(os, text) wrote out  *)
(* Soundness: the trace specification does not replay the operational machine.  It parses the   *)
(* text and the output (here, in TLA+) and adopts them as inp/out; what is required of them are  *)
(* exactly the declarative predicates of TextBlock.tla (DeclOK, conjoined to the Format step so *)
(* that the first unexplained event is where TLC stops; also listed as invariants).  Any layout  *)
(* that keeps the words, the indentation, the line starts and the width is accepted.            *)
EXTENDS TextBlock, TLC, Json, IOUtils
VARIABLE l
Log == ndJsonDeserialize(IOEnv.TRACE)
Ev == Log[l]
NL == 10
BL == 32
\* Split(s, c): the pieces of s between occurrences of c (empty pieces included)
Split(s, c) == LET n == Len(s)
                   p == SelectSeq([i \in 1..n |-> i], LAMBDA i : s[i] = c)      \* where the separators are
                   m == Len(p)
                   lo(k) == IF k = 1 THEN 1 ELSE p[k-1] + 1
                   hi(k) == IF k = m + 1 THEN n ELSE p[k] - 1
               IN [k \in 1..(m + 1) |-> SubSeq(s, lo(k), hi(k))]
NonEmptyOnes(ss) == SelectSeq(ss, LAMBDA x : x # <<>>)
Tok(b) == [len |-> Len(b), dash |-> (b[1] = 45), nn |-> (b = <<110, 110>>), id |-> b]
Words(line) == LET ws == NonEmptyOnes(Split(line, BL)) IN [j \in 1..Len(ws) |-> Tok(ws[j])]
\* input: lines = non-empty pieces between newlines; tokens = non-empty pieces between blanks
ParseText(t) == LET ls == NonEmptyOnes(Split(t, NL)) IN [L \in 1..Len(ls) |-> Words(ls[L])]
LeadOf(line) == LET i == SelectInSeq(line, LAMBDA x : x # BL) IN IF i = 0 THEN Len(line) ELSE i - 1
\* output: nothing written = no line; otherwise every piece between newlines is a line
ParseOut(o) == IF o = <<>> THEN <<>>
               ELSE LET ls == Split(o, NL)
                    IN [k \in 1..Len(ls) |-> [len |-> Len(ls[k]), lead |-> LeadOf(ls[k]), ws |-> Words(ls[k])]]
TInit == l = 1 /\ cfg = [indent |-> 0, width |-> 0, first |-> FALSE] /\ inp = <<>> /\ out = <<>> /\ cur = 0 /\ dash = FALSE
TNext == /\ l <= Len(Log) /\ l' = l + 1
         /\ \/ /\ Ev.e = "Reset"
               /\ cfg' = [indent |-> Ev.indent, width |-> Ev.width, first |-> Ev.first]
               /\ inp' = <<>> /\ out' = <<>>
            \/ /\ Ev.e = "Format" /\ Ev.res = "ok"
               /\ UNCHANGED cfg
               /\ inp' = ParseText(Ev.text)
               /\ out' = ParseOut(Ev.out)
               /\ DeclOK'             \* the event is explained only if the output satisfies all four predicates
         /\ cur' = 0 /\ dash' = FALSE
TSpec == TInit /\ [][TNext]_<<vars, l>>
Accepted == TLCGet("stats").diameter = Len(Log) + 1
=============================================================================
