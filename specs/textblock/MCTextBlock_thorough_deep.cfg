SPECIFICATION MCSpec
CONSTANTS Cfgs = {}
          Widths = {6, 7, 8, 9, 10, 11, 12}
          Indents = {0, 1, 2, 3}
          MaxLines = 2
          MaxTokens = 5
          Budget = 12000
          LenFrom = "room"
INVARIANTS WordsOK IndentOK NewlineOK WidthOK CurOK DashOK LineShapeOK
ACTION_CONSTRAINT EdgeOut
CHECK_DEADLOCK FALSE
