---------------------------- MODULE TraceInt2Str ----------------------------
(* Validates executions recorded from celma::format::int2string / grouped_int2string / GroupedInt (int2str_driver). *)
(* Events:  {"e":"Reset"}                                                                                          *)
(*          {"e":"Conv","w":8|16|32|64,"signed":b,"bits":[w bits, msb first],"fn":"str|buf|gstr|gbuf|gstream",     *)
(*           "g":code of the group character (39 for the ungrouped variants),"dflt":b (group character left to the *)
(*           default argument),"text":[byte codes],"ret":n,"nul":b,"guard_ok":b,"back":[bits] ([] = threw)}        *)
(*   text      str/gstr/gstream: the returned std::string / what was written to the stream;                        *)
(*             buf/gbuf: the buffer content in front of the first NUL (buffer prefilled with 'Z', exactly          *)
(*             sized heap block: guard | buffer | guard)                                                          *)
(*   ret       the returned length (size() of the string for the string variants)                                  *)
(*   nul       buffer[ret] = NUL  (c_str()[size()] for the string variants)                                        *)
(*   guard_ok  the guard bytes in front of and behind the buffer are untouched                                     *)
(*   back      stringTo<T>(text without group characters) as bit list                                              *)
(* A call is accepted iff text is the numeral the specification derives from the logged bits, ret is its length,   *)
(* the NUL follows directly, nothing else was written and the text reads back as the same value.                   *)
EXTENDS Int2Str, Json, IOUtils
VARIABLE l
Log == ndJsonDeserialize(IOEnv.TRACE)
Ev == Log[l]
ConvOK == /\ Ev.fn \in Fns /\ Ev.g \in GroupChars
          /\ ((~IsGroupedFn(Ev.fn)) => Ev.g = 39)
          /\ (Ev.dflt => Ev.g = 39)                                  \* documented default group character
          /\ Convert(Ev.w, Ev.signed, Ev.bits)
          /\ Let1(IF IsGroupedFn(Ev.fn) THEN GroupText(num', Ev.g) ELSE num', LAMBDA t : Ev.text = t /\ Ev.ret = Len(t))
          /\ Ev.nul /\ Ev.guard_ok
          /\ Ev.back = Ev.bits
TInit == l = 1 /\ Init
TNext == /\ l <= Len(Log) /\ l' = l + 1
         /\ \/ Ev.e = "Conv"  /\ ConvOK
            \/ Ev.e = "Reset" /\ Reset
TSpec == TInit /\ [][TNext]_<<vars, l>>
Accepted == TLCGet("stats").diameter = Len(Log) + 1
=============================================================================
