------------------------------ MODULE Int2Str ------------------------------
(* celma::format::int2string() / grouped_int2string() / GroupedInt<T,S>  (property C13).      *)
(*                                                                                             *)
(* Values are BIT LISTS: the raw two's-complement pattern of the argument, most significant    *)
(* bit first, length = width of the type (TLC integers are 32 bit, so a uint32_t/int64_t       *)
(* cannot be a TLC number).  Texts are sequences of byte codes.                                *)
(*                                                                                             *)
(* Two formulations that TLC checks against each other (MCInt2Str):                            *)
(*   declarative  Digits / Grouped: the decimal numeral of the number a bit list denotes,      *)
(*                computed by double-and-add over decimal digit sequences (Horner over the     *)
(*                bits); a negative number is '-' followed by the numeral of 2^w - U(bits).    *)
(*   operational  the algorithm the doc comments of src/library/format/detail/ and             *)
(*                src/celma/format/detail/intNN_str_length.hpp describe, on machine words      *)
(*                (bit lists with compare / div 10 / mod 10 / negate): digit count by the      *)
(*                comparison tree over powers of ten, negation into the unsigned type, a       *)
(*                result string/buffer of exactly that length written back to front, grouped   *)
(*                length n + (n-1) div 3, NUL behind the text, '-' in front.                   *)
(* Every call is independent of every other call: the only state is the last argument and its  *)
(* numeral (kept so that consecutive calls with the same argument - the drivers push every     *)
(* value through all function variants - need not derive it again).                            *)
(*                                                                                             *)
(* Note on style: TLC evaluates operator arguments and LET definitions by name (again at every *)
(* use) and keeps function constructors unevaluated.  Let1 binds through a bounded quantifier  *)
(* (evaluated once) and Strict = TLCEval computes a function value completely; both are the    *)
(* identity semantically.  Without them the nested folds below cost exponential time.          *)
EXTENDS Integers, Sequences, TLC

VARIABLES cur,   \* argument of the last conversion: [w |-> width, sg |-> signed type?, bits |-> bit list]; w = 0: none yet
          num    \* its decimal numeral = Digits(cur.bits, cur.sg);  <<>>: none yet
vars == <<cur, num>>

Widths     == {8, 16, 32, 64}
GroupChars == {39, 44, 46, 32, 95, 0, 255}  \* ' , . blank _ NUL 0xFF  (39 is the documented default)
Fns        == {"str", "buf", "gstr", "gbuf", "gstream"}
\*  str     std::string int2string(T)                     buf   int int2string(char*, T)
\*  gstr    std::string grouped_int2string(T, char)       gbuf  int grouped_int2string(char*, T, char)
\*  gstream os << GroupedInt<T, S>(value)
MinusCh == 45
ZeroCh  == 48
NoValue == [w |-> 0, sg |-> FALSE, bits |-> <<>>]

Strict(v)      == TLCEval(v)
Let1(e, F(_))  == CHOOSE r \in {F(x) : x \in {e}} : TRUE          \* F(e), e evaluated once
\* f(...f(f(x0, 1), 2)..., n), every step evaluated once; folded in chunks of 8 so that TLC's evaluation stack stays
\* shallow (depth n/8 + 8 instead of n)
FoldN(f(_, _), x0, n) ==
   LET Chunk(x, from, cnt) == LET G[j \in 0..cnt] == IF j = 0 THEN x ELSE Let1(G[j-1], LAMBDA y : f(y, from + j)) IN G[cnt]
       nc == (n + 7) \div 8
       F[c \in 0..nc] == IF c = 0 THEN x0
                         ELSE Let1(F[c-1], LAMBDA x : Chunk(x, 8 * (c-1), IF 8 * c <= n THEN 8 ELSE n - 8 * (c-1)))
   IN F[nc]
IsBits(b, w)   == Len(b) = w /\ \A i \in 1..w : b[i] \in {0, 1}

(*********************************************************************************************)
(* Decimal digit sequences: least significant digit FIRST, digits 0..9, no leading zero      *)
(* (last element # 0) except the number zero = <<0>>.                                         *)
(*********************************************************************************************)
IsDec(d) == Len(d) >= 1 /\ (\A i \in 1..Len(d) : d[i] \in 0..9) /\ (Len(d) > 1 => d[Len(d)] # 0)

StripZeros(d0) == Let1(d0, LAMBDA d :
                     Let1(IF \A i \in 1..Len(d) : d[i] = 0 THEN 1
                          ELSE CHOOSE k \in 1..Len(d) : d[k] # 0 /\ \A j \in (k+1)..Len(d) : d[j] = 0,
                          LAMBDA n : Strict([i \in 1..n |-> d[i]])))

\* 2*d + b  (b in {0,1}).  The carry into digit i is 1 exactly when digit i-1 is >= 5 (2*x+c >= 10 <=> x >= 5
\* for c in {0,1}), so no carry chain is needed; the numeral grows by one digit iff the top digit is >= 5.
Dbl(d0, b) == Let1(d0, LAMBDA d :
                 Strict([i \in 1..(IF d[Len(d)] >= 5 THEN Len(d) + 1 ELSE Len(d)) |->
                            ((IF i <= Len(d) THEN 2 * d[i] ELSE 0)
                             + (IF i = 1 THEN b ELSE IF d[i-1] >= 5 THEN 1 ELSE 0)) % 10]))

\* the natural number a bit list denotes when read as unsigned, as decimal digit sequence
DecOfBits(bits0) == Let1(bits0, LAMBDA bits : FoldN(LAMBDA d, i : Dbl(d, bits[i]), <<0>>, Len(bits)))
DecPow2(n) == DecOfBits(Strict([i \in 1..(n+1) |-> IF i = 1 THEN 1 ELSE 0]))
DecPow10(k) == Strict([i \in 1..(k+1) |-> IF i = k + 1 THEN 1 ELSE 0])

\* a - b for a >= b: borrow chain from the least significant digit
DecSub(a0, b0) == Let1(<<a0, b0>>, LAMBDA ab :
                     LET a == ab[1]
                         B(i) == IF i <= Len(ab[2]) THEN ab[2][i] ELSE 0
                         \* s = <<digits 1..i of the difference, borrow out of digit i>>
                         Step(s, i) == Let1(a[i] - B(i) - s[2], LAMBDA x :
                                          <<s[1] \o <<(x + 10) % 10>>, IF x < 0 THEN 1 ELSE 0>>)
                     IN StripZeros(FoldN(Step, <<<<>>, 0>>, Len(a))[1]))

\* d div 2: digit i contributes d[i] div 2, an odd digit i+1 contributes 5; only a top digit 1 vanishes
DecHalf(d0) == Let1(d0, LAMBDA d :
                  Strict([i \in 1..(IF Len(d) > 1 /\ d[Len(d)] = 1 THEN Len(d) - 1 ELSE Len(d)) |->
                             (d[i] \div 2) + (IF i < Len(d) /\ d[i+1] % 2 = 1 THEN 5 ELSE 0)]))
\* the w low bits of the number d (most significant first): repeated halving.  h = <<d div 2^j, bits found so far>>
BitsOfDec(d0, w) == FoldN(LAMBDA h, j : <<DecHalf(h[1]), <<h[1][1] % 2>> \o h[2]>>, <<d0, <<>>>>, w)[2]

(*********************************************************************************************)
(* Declarative meaning                                                                        *)
(*********************************************************************************************)
Pow2Dec == Strict([w \in Widths |-> DecPow2(w)])               \* 2^w as decimal digits (computed once)
IsNegative(bits, sg) == sg /\ bits[1] = 1
\* |value| as decimal digits: two's complement: value = U(bits) - 2^w when the sign bit of a signed type is set
Magnitude(bits, sg) == IF IsNegative(bits, sg) THEN DecSub(Pow2Dec[Len(bits)], DecOfBits(bits))
                       ELSE DecOfBits(bits)
\* most significant digit first, as byte codes
DigitText(d0) == Let1(d0, LAMBDA d : Strict([i \in 1..Len(d) |-> ZeroCh + d[Len(d) + 1 - i]]))
SignText(bits, sg) == IF IsNegative(bits, sg) THEN <<MinusCh>> ELSE <<>>

Digits(bits, sg) == SignText(bits, sg) \o DigitText(Magnitude(bits, sg))

\* t = digit text (no sign): g in front of every digit that is followed by a multiple of three digits
\* (itself included) except the first digit
GroupDigits(t0, g) == Let1(t0, LAMBDA t :
                         FoldN(LAMBDA acc, i : acc \o (IF i > 1 /\ (Len(t) - i + 1) % 3 = 0 THEN <<g>> ELSE <<>>) \o <<t[i]>>,
                               <<>>, Len(t)))
\* the same for a numeral with optional sign: the sign stays in front, outside the grouping
GroupText(p0, g) == Let1(p0, LAMBDA p : IF p[1] = MinusCh THEN <<MinusCh>> \o GroupDigits(SubSeq(p, 2, Len(p)), g)
                                        ELSE GroupDigits(p, g))
Grouped(bits, sg, g) == GroupText(Digits(bits, sg), g)

IsGroupedFn(fn) == fn \in {"gstr", "gbuf", "gstream"}
Expected(bits, sg, fn, g) == IF IsGroupedFn(fn) THEN Grouped(bits, sg, g) ELSE Digits(bits, sg)

\* independent characterisation of the grouped text (property text: "group character between every three digits
\* counted from the right and never adjacent to the sign")
GroupShape(t0, plain0, g) ==
   Let1(<<t0, plain0>>, LAMBDA tp :
      LET t == tp[1]
          plain == tp[2]
          s == IF plain[1] = MinusCh THEN 1 ELSE 0                          \* length of the sign part
          n == Len(t)
      IN /\ SelectSeq(t, LAMBDA c : c # g) = plain                          \* nothing but group characters added
         /\ \A i \in 1..s : t[i] = MinusCh
         /\ \A i \in (s+1)..n : (t[i] = g) <=> ((n - i + 1) % 4 = 0)       \* exactly every 4th position from the right
         /\ n > s /\ t[s+1] # g /\ t[n] # g)                                \* never next to the sign, never last

\* machine words: bit lists, most significant bit first
BNot(a0) == Let1(a0, LAMBDA a : Strict([i \in 1..Len(a) |-> 1 - a[i]]))
\* a + 1 (wraps): a bit flips iff every less significant bit is 1
BInc(a0) == Let1(a0, LAMBDA a : Strict([i \in 1..Len(a) |-> IF \A j \in (i+1)..Len(a) : a[j] = 1 THEN 1 - a[i] ELSE a[i]]))
BNeg(a) == BInc(BNot(a))                   \* 0 - a in the unsigned type (wraps)
BDec(a) == BNot(BInc(BNot(a)))

\* reading a text back (std::stoi/stol/stoul + conversion to the type): the w-bit pattern of the number
DecOfText(t0) == Let1(t0, LAMBDA t : Strict([i \in 1..Len(t) |-> t[Len(t) + 1 - i] - ZeroCh]))
ParseBack(t0, w) == Let1(t0, LAMBDA t :
                       IF t[1] = MinusCh THEN BNeg(BitsOfDec(DecOfText(SubSeq(t, 2, Len(t))), w))
                       ELSE BitsOfDec(DecOfText(t), w))

(*********************************************************************************************)
(* Operational model                                                                          *)
(*********************************************************************************************)
\* a >= b: at the first difference a has the 1
BGeq(a, b) == \A i \in 1..Len(a) : (a[i] < b[i]) => \E j \in 1..(i-1) : a[j] # b[j]
BIsZero(a) == \A i \in 1..Len(a) : a[i] = 0
\* unsigned division by ten: binary long division.  s = <<remainder after bit i, quotient bits 1..i>>
BDivMod10(a0) == Let1(a0, LAMBDA a :
                    Let1(FoldN(LAMBDA s, i : Let1(2 * s[1] + a[i], LAMBDA x : <<x % 10, s[2] \o <<IF x >= 10 THEN 1 ELSE 0>>>>),
                               <<0, <<>>>>, Len(a)),
                         LAMBDA s : [q |-> s[2], r |-> s[1]]))

\* the constants 10^k of the length functions as w-bit words (k such that 10^k < 2^w), computed once
MaxDigits == Strict([w \in Widths |-> CASE w = 8 -> 3 [] w = 16 -> 5 [] w = 32 -> 10 [] w = 64 -> 20])
P10B == Strict([w \in Widths |-> Strict([k \in 0..(MaxDigits[w] - 1) |-> BitsOfDec(DecPow10(k), w)])])
GE10(v, k) == BGeq(v, P10B[Len(v)][k])

\* intNN_str_length(): the comparison trees of src/celma/format/detail/intNN_str_length.hpp
StrLen8(v)  == IF GE10(v, 1) THEN (IF GE10(v, 2) THEN 3 ELSE 2) ELSE 1
StrLen16(v) == IF GE10(v, 2) THEN (IF GE10(v, 3) THEN (IF GE10(v, 4) THEN 5 ELSE 4) ELSE 3)
               ELSE (IF GE10(v, 1) THEN 2 ELSE 1)
StrLen32(v) == IF GE10(v, 5)
               THEN (IF GE10(v, 7) THEN (IF GE10(v, 8) THEN (IF GE10(v, 9) THEN 10 ELSE 9) ELSE 8)
                     ELSE (IF GE10(v, 6) THEN 7 ELSE 6))
               ELSE IF GE10(v, 2) THEN (IF GE10(v, 3) THEN (IF GE10(v, 4) THEN 5 ELSE 4) ELSE 3)
               ELSE (IF GE10(v, 1) THEN 2 ELSE 1)
StrLen64(v) == IF GE10(v, 8)
               THEN (IF GE10(v, 16)
                     THEN (IF GE10(v, 18) THEN (IF GE10(v, 19) THEN 20 ELSE 19) ELSE (IF GE10(v, 17) THEN 18 ELSE 17))
                     ELSE IF GE10(v, 12)
                     THEN (IF GE10(v, 14) THEN (IF GE10(v, 15) THEN 16 ELSE 15) ELSE (IF GE10(v, 13) THEN 14 ELSE 13))
                     ELSE (IF GE10(v, 10) THEN (IF GE10(v, 11) THEN 12 ELSE 11) ELSE (IF GE10(v, 9) THEN 10 ELSE 9)))
               ELSE IF GE10(v, 4) THEN (IF GE10(v, 6) THEN (IF GE10(v, 7) THEN 8 ELSE 7) ELSE (IF GE10(v, 5) THEN 6 ELSE 5))
               ELSE IF GE10(v, 2) THEN (IF GE10(v, 3) THEN 4 ELSE 3)
               ELSE (IF GE10(v, 1) THEN 2 ELSE 1)
StrLen(v) == CASE Len(v) = 8 -> StrLen8(v) [] Len(v) = 16 -> StrLen16(v) [] Len(v) = 32 -> StrLen32(v) [] Len(v) = 64 -> StrLen64(v)

\* Memory: a function from 0..size-1 to byte codes.  A write outside the domain is recorded in `ok` (never performed).
\* m is any record with fields mem and ok.
Poke(m, p, c) == IF p \in DOMAIN m.mem THEN [m EXCEPT !.mem[p] = c] ELSE [m EXCEPT !.ok = FALSE]

\* "For the pre-determined number of characters: assign value % 10 to the current position, move to the previous
\* position, divide the value by 10".  The arithmetic of these n iterations is the same for all function variants:
\* s = <<digits produced so far (least significant first), remaining value>>
DivSteps(av, n) == FoldN(LAMBDA s, k : Let1(BDivMod10(s[2]), LAMBDA dm : <<s[1] \o <<dm.r>>, dm.q>>), <<<<>>, av>>, n)

\* what every variant computes first: sign test, negation into the unsigned type, digit count, the digits
OpCore(bits, sg) ==
   Let1(sg /\ bits[1] = 1, LAMBDA neg :                                                   \* value < 0
   Let1(IF neg THEN BNeg(bits) ELSE bits, LAMBDA av :                                     \* const uintNN_t abs_value = -value
   Let1(StrLen(av), LAMBDA n :                                                            \* result_len
   Let1(DivSteps(av, n), LAMBDA ds :
      [zero |-> sg /\ BIsZero(bits), neg |-> neg, n |-> n, dig |-> ds[1], rest |-> ds[2]]))))

\* the stores of the k-th iteration; grouped: a group character goes in front of every fourth digit.
\* st = [mem, ok, p (current position), nd (digits in the current group)]
EmitStep(st0, digit, grouped, g) ==
   Let1(st0, LAMBDA st :
      Let1(IF grouped /\ st.nd = 3 THEN [Poke(st, st.p, g) EXCEPT !.p = st.p - 1, !.nd = 0] ELSE st, LAMBDA s1 :
         [Poke(s1, s1.p, ZeroCh + digit) EXCEPT !.p = s1.p - 1, !.nd = s1.nd + 1]))

Area(size, fill) == Strict([i \in 0..(size - 1) |-> fill])
TextOf(mem, n) == Strict([i \in 1..n |-> mem[i - 1]])

\* One call.  Result: text (the std::string, or the buffer content in front of the NUL), ret (returned length),
\* ok (every write inside the string / inside the exactly sized buffer, value used up, write position ends where
\* the text begins, NUL directly behind the text).
OpEmit(c, fn, g) ==
   IF c.zero THEN [text |-> <<ZeroCh>>, ret |-> 1, ok |-> TRUE]                           \* if (value == 0) return "0"
   ELSE
      LET grouped == IsGroupedFn(fn)
          tobuf   == fn \in {"buf", "gbuf"}
          s       == IF c.neg THEN 1 ELSE 0
          tl      == (IF grouped THEN c.n + (c.n - 1) \div 3 ELSE c.n) + s                \* text length
      IN Let1(IF tobuf THEN Poke([mem |-> Area(tl + 1, 90), ok |-> TRUE], tl, 0)          \* caller's buffer; buffer[len] = '\0'
              ELSE [mem |-> Area(tl, IF c.neg THEN MinusCh ELSE ZeroCh), ok |-> TRUE],    \* std::string(len, '0' or '-')
              LAMBDA m1 :
         Let1(FoldN(LAMBDA x, k : EmitStep(x, c.dig[k], grouped, g),
                    [mem |-> m1.mem, ok |-> m1.ok, p |-> tl - 1, nd |-> 0], c.n), LAMBDA e :
            Let1(IF tobuf /\ c.neg THEN Poke(e, 0, MinusCh) ELSE e, LAMBDA m2 :           \* buffer[0] = '-'
               [text |-> TextOf(m2.mem, tl), ret |-> tl,
                ok |-> m2.ok /\ BIsZero(c.rest) /\ e.p = s - 1 /\ (tobuf => m2.mem[tl] = 0)])))
OpConvert(bits, sg, fn, g) == OpEmit(OpCore(bits, sg), fn, g)

(*********************************************************************************************)
(* Actions                                                                                    *)
(*********************************************************************************************)
Init == cur = NoValue /\ num = <<>>
Convert(w, sg, b) == /\ w \in Widths /\ sg \in BOOLEAN /\ IsBits(b, w)
                     /\ cur' = [w |-> w, sg |-> sg, bits |-> b]
                     /\ num' = IF cur = [w |-> w, sg |-> sg, bits |-> b] THEN num ELSE Digits(b, sg)
Reset == cur' = NoValue /\ num' = <<>>
\* what a call of variant fn with group character g must deliver for the current argument
Result(fn, g) == IF IsGroupedFn(fn) THEN GroupText(num, g) ELSE num
Next == \/ \E w \in Widths, sg \in BOOLEAN : \E b \in [1..w -> {0, 1}] : Convert(w, sg, b)
        \/ Reset
Spec == Init /\ [][Next]_vars

(*********************************************************************************************)
(* Properties (state predicates over the last argument)                                       *)
(*********************************************************************************************)
Has == cur.w # 0
TypeOK == (cur = NoValue /\ num = <<>>) \/ (cur.w \in Widths /\ cur.sg \in BOOLEAN /\ IsBits(cur.bits, cur.w) /\ Len(num) > 0)
NumOK == Has => num = Digits(cur.bits, cur.sg)

\* the documented algorithm produces exactly the decimal numeral, for every function variant and group character,
\* returns its length, and stays inside a string / buffer of exactly text length (+ 1 for the NUL).
\* (gstream goes through the gstr function, it has no algorithm of its own.)
OpFns == {"str", "buf", "gstr", "gbuf"}
OpEqDecl == Has => Let1(OpCore(cur.bits, cur.sg), LAMBDA c :
                      \A fn \in OpFns : \A g \in (IF IsGroupedFn(fn) THEN GroupChars ELSE {39}) :
                         Let1(OpEmit(c, fn, g), LAMBDA r :
                            Let1(Result(fn, g), LAMBDA t : r.text = t /\ r.ret = Len(t) /\ r.ok)))
\* well-formed numeral: optional '-', digits, no leading zero, never "-0", at most the type's number of digits
WellFormed == Has => Let1(num, LAMBDA t :
                        LET s == IF t[1] = MinusCh THEN 1 ELSE 0
                        IN /\ Len(t) > s
                           /\ \A i \in (s+1)..Len(t) : t[i] \in ZeroCh..(ZeroCh + 9)
                           /\ (t[s+1] = ZeroCh => (Len(t) = 1))
                           /\ (s = 1 <=> IsNegative(cur.bits, cur.sg))
                           /\ Len(t) - s <= MaxDigits[cur.w])
GroupedOK == Has => Let1(num, LAMBDA p :
                       \A g \in GroupChars : GroupShape(GroupText(p, g), p, g))
\* converting the text back yields the original value
RoundTrip == Has => ParseBack(num, cur.w) = cur.bits
=============================================================================
