---------------------------- MODULE MCInt2Str ----------------------------
(* Bounded instance of Int2Str: one Conv transition per value.                                                   *)
(*   ExhWidths: every bit pattern of these widths, both signednesses                                            *)
(*   FamWidths: the boundary family of these widths: 10^k + d, 2^k + d, 0 + d  for d in -2..2 (wrapping),        *)
(*              which contains 0, the unsigned maximum, the signed minimum and maximum                           *)
(* The ghost `sel` only spreads the work over TLC's workers (a worker checks the invariants of the states it      *)
(* generates): Init --Fork--> (a selection: width, signedness, upper half of the bits / a family base)           *)
(* --Conv(w, sg, bits)--> state holding that value.  Fork changes no specification variable; only Conv            *)
(* transitions are printed as edges.                                                                             *)
EXTENDS Int2Str, Json
CONSTANTS ExhWidths, FamWidths
VARIABLES act,                                 \* ghost: last action and its arguments
          sel                                  \* ghost: selection made by Fork

Shift(b, d) == CASE d = -2 -> BDec(BDec(b)) [] d = -1 -> BDec(b) [] d = 0 -> b [] d = 1 -> BInc(b) [] d = 2 -> BInc(BInc(b))
Bases(w) == {P10B[w][k] : k \in 0..(MaxDigits[w] - 1)}
            \cup {[i \in 1..w |-> IF i = w - k THEN 1 ELSE 0] : k \in 0..(w - 1)}
            \cup {[i \in 1..w |-> 0]}
NoSel == [k |-> "none", w |-> 0, sg |-> FALSE, b |-> <<>>]
NoAct == [n |-> "Init", w |-> 0, sg |-> FALSE, bits |-> <<>>]

MCInit == Init /\ act = NoAct /\ sel = NoSel
Fork == /\ sel = NoSel /\ act.n = "Init"
        /\ \/ \E w \in ExhWidths, sg \in BOOLEAN : \E hi \in [1..(w \div 2) -> {0, 1}] : sel' = [k |-> "exh", w |-> w, sg |-> sg, b |-> hi]
           \/ \E w \in FamWidths, sg \in BOOLEAN : \E b \in Bases(w) : sel' = [k |-> "fam", w |-> w, sg |-> sg, b |-> b]
        /\ UNCHANGED <<vars, act>>
Conv(b) == Convert(sel.w, sel.sg, b) /\ act' = [n |-> "Conv", w |-> sel.w, sg |-> sel.sg, bits |-> b] /\ sel' = NoSel
ConvExh == sel.k = "exh" /\ act.n = "Init" /\ \E lo \in [1..(sel.w \div 2) -> {0, 1}] : Conv(sel.b \o lo)
ConvFam == sel.k = "fam" /\ act.n = "Init" /\ \E d \in -2..2 : Conv(Shift(sel.b, d))
MCNext == Fork \/ ConvExh \/ ConvFam
MCSpec == MCInit /\ [][MCNext]_<<vars, act, sel>>

\* third formulation, only where TLC's own integers suffice (w <= 16): numeral by native div/mod
NatOf(b) == LET F[i \in 0..Len(b)] == IF i = 0 THEN 0 ELSE 2 * F[i-1] + b[i] IN F[Len(b)]
RECURSIVE NatText(_)
NatText(n) == IF n < 10 THEN <<ZeroCh + n>> ELSE NatText(n \div 10) \o <<ZeroCh + (n % 10)>>
IntText(v) == IF v < 0 THEN <<MinusCh>> \o NatText(-v) ELSE NatText(v)
NativeAgrees == (Has /\ cur.w <= 16) =>
                   Let1(NatOf(cur.bits), LAMBDA u :
                      num = IntText(IF cur.sg /\ cur.bits[1] = 1 THEN u - 2^cur.w ELSE u))
\* the family contains the limits; the constants of the length functions are the powers of ten
Fam(w) == {Shift(b, d) : b \in Bases(w), d \in -2..2}
ASSUME \A w \in FamWidths :
          /\ [i \in 1..w |-> 0] \in Fam(w) /\ [i \in 1..w |-> 1] \in Fam(w)
          /\ [i \in 1..w |-> IF i = 1 THEN 1 ELSE 0] \in Fam(w)
          /\ [i \in 1..w |-> IF i = 1 THEN 0 ELSE 1] \in Fam(w)
ASSUME \A w \in Widths : \A k \in 0..(MaxDigits[w] - 1) : DecOfBits(P10B[w][k]) = DecPow10(k)
ASSUME \A w \in Widths : IsDec(Pow2Dec[w]) /\ Len(Pow2Dec[w]) = MaxDigits[w]

St(c) == [w |-> c.w, sg |-> c.sg, bits |-> c.bits]
EdgeOut == act'.n = "Conv" =>
             PrintT("EDGE " \o ToJson([i |-> (act.n = "Init"), pre |-> St(cur),
                                       a |-> [n |-> act'.n, w |-> act'.w, sg |-> act'.sg, bits |-> act'.bits],
                                       post |-> St(cur')]))
=============================================================================
