---------------------------- MODULE MCInt2Str ----------------------------
(* Bounded instance of Int2Str: one transition per value.  Init --Conv(w, sg, bits)--> state holding that value. *)
(*   ExhWidths: every bit pattern of these widths, both signednesses                                            *)
(*   FamWidths: the boundary family of these widths: 10^k + d, 2^k + d, 0 + d  for d in -2..2 (wrapping),        *)
(*              which contains 0, the unsigned maximum, the signed minimum and maximum                           *)
EXTENDS Int2Str, TLC, Json
CONSTANTS ExhWidths, FamWidths
VARIABLE act                                   \* ghost: last action and its arguments

Shift(b, d) == CASE d = -2 -> BDec(BDec(b)) [] d = -1 -> BDec(b) [] d = 0 -> b [] d = 1 -> BInc(b) [] d = 2 -> BInc(BInc(b))
Bases(w) == {P10B[w][k] : k \in 0..(MaxDigits[w] - 1)}
            \cup {[i \in 1..w |-> IF i = w - k THEN 1 ELSE 0] : k \in 0..(w - 1)}
            \cup {[i \in 1..w |-> 0]}
Family == [w \in FamWidths |-> {Shift(b, d) : b \in Bases(w), d \in -2..2}]

MCInit == Init /\ act = [n |-> "Init", w |-> 0, sg |-> FALSE, bits |-> <<>>]
ConvExh == \E w \in ExhWidths, sg \in BOOLEAN : \E b \in [1..w -> {0, 1}] :
              Convert(w, sg, b) /\ act' = [n |-> "Conv", w |-> w, sg |-> sg, bits |-> b]
ConvFam == \E w \in FamWidths, sg \in BOOLEAN : \E b \in Family[w] :
              Convert(w, sg, b) /\ act' = [n |-> "Conv", w |-> w, sg |-> sg, bits |-> b]
MCNext == act.n = "Init" /\ (ConvExh \/ ConvFam)
MCSpec == MCInit /\ [][MCNext]_<<vars, act>>

\* third formulation, only where TLC's own integers suffice (w <= 16): numeral by native div/mod
NatOf(b) == LET F[i \in 0..Len(b)] == IF i = 0 THEN 0 ELSE 2 * F[i-1] + b[i] IN F[Len(b)]
RECURSIVE NatText(_)
NatText(n) == IF n < 10 THEN <<ZeroCh + n>> ELSE NatText(n \div 10) \o <<ZeroCh + (n % 10)>>
IntText(v) == IF v < 0 THEN <<MinusCh>> \o NatText(-v) ELSE NatText(v)
NativeAgrees == (Has /\ cur.w <= 16) =>
                   LET u == NatOf(cur.bits)
                       v == IF cur.sg /\ cur.bits[1] = 1 THEN u - 2^cur.w ELSE u
                   IN Digits(cur.bits, cur.sg) = IntText(v)
\* the family really contains the limits
FamilyHasLimits == \A w \in FamWidths :
                      /\ [i \in 1..w |-> 0] \in Family[w] /\ [i \in 1..w |-> 1] \in Family[w]
                      /\ [i \in 1..w |-> IF i = 1 THEN 1 ELSE 0] \in Family[w]
                      /\ [i \in 1..w |-> IF i = 1 THEN 0 ELSE 1] \in Family[w]
ASSUME FamilyHasLimits
ASSUME \A w \in Widths : \A k \in 0..(MaxDigits[w] - 1) : DecOfBits(P10B[w][k]) = DecPow10(k)   \* the constants are 10^k

St(c) == [w |-> c.w, sg |-> c.sg, bits |-> c.bits]
EdgeOut == PrintT("EDGE " \o ToJson([i |-> (act.n = "Init"), pre |-> St(cur),
                                     a |-> [n |-> act'.n, w |-> act'.w, sg |-> act'.sg, bits |-> act'.bits],
                                     post |-> St(cur')]))
=============================================================================
