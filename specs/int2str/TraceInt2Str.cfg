SPECIFICATION TSpec
INVARIANTS TypeOK WellFormed
POSTCONDITION Accepted
CHECK_DEADLOCK FALSE
