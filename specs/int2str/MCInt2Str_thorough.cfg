SPECIFICATION MCSpec
CONSTANTS ExhWidths = {8, 16}
          FamWidths = {32, 64}
INVARIANTS TypeOK NumOK OpEqDecl WellFormed GroupedOK RoundTrip NativeAgrees
ACTION_CONSTRAINT EdgeOut
CHECK_DEADLOCK FALSE
