---------------------------- MODULE TraceDynBitset ----------------------------
(* Validates executions recorded from celma::container::DynamicBitset (dynbitset_driver).              *)
(* One event per public call, recorded after the call returned.  Bitsets are logged as size + list of  *)
(* set positions (ascending): operand "on"/"oo", returned object "rn"/"ro", result of the binary twin   *)
(* of a compound assignment "bn"/"bo", projection of the object after a modifying call "sz"/"st"       *)
(* (size() and test(i) for every i < size()).  "src":1 = the operand is the long-lived second object.  *)
(*   {"e":"Reset"}                                                    both objects: DynamicBitset(0)  *)
(*   {"e":"Assign","s":kind,"on","oo","res","sz","st"}                =vector/bitset/DynamicBitset, constructors *)
(*   {"e":"CtorSize","p","res","sz","st"}                                                              *)
(*   {"e":"SetAll"|"FlipAll"|"ResetAll","res","sz","st"}                                               *)
(*   {"e":"Set"|"IndexWrite","p","v","res","sz","st"}   {"e":"ResetBit"|"FlipBit","p","res","sz","st"} *)
(*   {"e":"IndexRead","p","val","res","sz","st"}        {"e":"Resize","p","v","res","sz","st"}         *)
(*   {"e":"AndAssign"|"OrAssign"|"XorAssign","on","oo","src","bn","bo","res","sz","st"}                *)
(*   {"e":"ShlAssign"|"ShrAssign","p","bn","bo","res","sz","st"}                                       *)
(*   {"e":"And"|"Or"|"Xor","on","oo","src","rn","ro","res"}  {"e":"Shl"|"Shr","p","rn","ro","res"}     *)
(*   {"e":"Not","rn","ro","res"}   {"e":"Eq","on","oo","src","val","res"}                              *)
(*   {"e":"Test","p","s":"test"|"index","res":"t"|"f"|"x"}                                             *)
(*   {"e":"Observe","p":zero,"q":one,"count","any","none","all","size","str":[codes],"ulx","ul":[bit numbers],"res"} *)
(*   {"e":"Iterate","s":"fwd"|"rev","p":0|1|2,"seq":[positions],"res"}                                 *)
(*   {"e":"IterBegin","s","p","end","at","res"}  {"e":"IterNext"|"IterPrev","v":post,"did","ret","end","at","res"} *)
(*   {"e":"IterDrop"}  {"e":"Swap","res","sz","st","on","oo"}  {"e":"CopyOther","s","res","sz","st"}     *)
EXTENDS DynBitset, TLC, Json, IOUtils
VARIABLE l
Log == ndJsonDeserialize(IOEnv.TRACE)
Ev == Log[l]

Opnd   == Mk(Ev.on, Range(Ev.oo))                       \* the operand of the call
OpndOK == /\ Ev.src = 1 => Opnd = other                 \* the long-lived operand is what the model says it is
          /\ Ev.src = 2 => Opnd = bits                  \* the object itself as operand (x op= x, x op x)
Ret    == Mk(Ev.rn, Range(Ev.ro))                       \* the returned bitset
Twin   == Mk(Ev.bn, Range(Ev.bo))                       \* x op y computed just before x op= y
Proj   == Ev.res = "ok" /\ Len(bits') = Ev.sz /\ SetPos(bits') = Range(Ev.st) /\ Len(Ev.st) = Cardinality(Range(Ev.st))
Same   == Ev.res = "ok" /\ Const
ItProj == Ev.res = "ok" /\ Ev.end = (itp' = EndPos(itk', bits')) /\ Ev.at = Deref(itk', bits', itp')

TInit == l = 1 /\ Init
TNext ==
 /\ l <= Len(Log) /\ l' = l + 1
 /\ \/ Ev.e = "Reset"     /\ bits' = <<>> /\ other' = <<>> /\ NoIt
    \/ Ev.e = "Assign"    /\ Assign(Opnd) /\ Proj
    \/ Ev.e = "CtorSize"  /\ CtorSize(Ev.p) /\ Proj
    \/ Ev.e = "SetAll"    /\ SetAll /\ Proj
    \/ Ev.e = "FlipAll"   /\ FlipAll /\ Proj
    \/ Ev.e = "ResetAll"  /\ ResetAll(Ev.sz = Len(bits)) /\ Proj
    \/ Ev.e = "Set"       /\ SetBit(Ev.p, Ev.v, Ev.sz) /\ Proj
    \/ Ev.e = "ResetBit"  /\ ResetBit(Ev.p, Ev.sz) /\ Proj
    \/ Ev.e = "FlipBit"   /\ FlipBit(Ev.p, Ev.sz) /\ Proj
    \/ Ev.e = "IndexWrite" /\ IndexWrite(Ev.p, Ev.v, Ev.sz) /\ Proj
    \/ Ev.e = "IndexRead" /\ IndexRead(Ev.p, Ev.sz) /\ Ev.val = At(bits, Ev.p) /\ Proj
    \/ Ev.e = "Resize"    /\ Resize(Ev.p, Ev.v) /\ Proj
    \/ Ev.e = "AndAssign" /\ OpndOK /\ AndAssign(Opnd, Ev.sz) /\ Proj /\ Twin = bits'
    \/ Ev.e = "OrAssign"  /\ OpndOK /\ OrAssign(Opnd, Ev.sz)  /\ Proj /\ Twin = bits'
    \/ Ev.e = "XorAssign" /\ OpndOK /\ XorAssign(Opnd, Ev.sz) /\ Proj /\ Twin = bits'
    \/ Ev.e = "ShlAssign" /\ ShlAssign(Ev.p, Ev.sz) /\ Proj /\ Twin = bits'
    \/ Ev.e = "ShrAssign" /\ ShrAssign(Ev.p) /\ Proj /\ Twin = bits'
    \/ Ev.e = "And"       /\ OpndOK /\ AndIs(Opnd, Ret) /\ Same
    \/ Ev.e = "Or"        /\ OpndOK /\ OrIs(Opnd, Ret) /\ Same
    \/ Ev.e = "Xor"       /\ OpndOK /\ XorIs(Opnd, Ret) /\ Same
    \/ Ev.e = "Shl"       /\ ShlIs(Ev.p, Ret) /\ Same
    \/ Ev.e = "Shr"       /\ ShrIs(Ev.p, Ret) /\ Same
    \/ Ev.e = "Not"       /\ NotIs(Ret) /\ Same
    \/ Ev.e = "Eq"        /\ OpndOK /\ EqIs(Opnd, Ev.val) /\ Same
    \/ Ev.e = "Test"      /\ Ev.res = TestRes(bits, Ev.p) /\ Const
    \/ Ev.e = "Observe"   /\ Ev.count = CountOf(bits) /\ Ev.any = AnyOf(bits) /\ Ev.none = NoneOf(bits) /\ Ev.all = AllOf(bits)
                          /\ Ev.size = Len(bits) /\ Ev.str = ToStr(bits, Ev.p, Ev.q)
                          /\ Ev.ulx = ULongThrows(bits) /\ (~Ev.ulx => Range(Ev.ul) = SetPos(bits))
                          /\ Same
    \/ Ev.e = "Iterate"   /\ Ev.seq = (IF Ev.s = "fwd" THEN FwdSeq(bits) ELSE RevSeq(bits)) /\ Same
    \/ Ev.e = "IterBegin" /\ IterBegin(Ev.s) /\ ItProj
    \/ Ev.e = "IterNext"  /\ Ev.did  /\ IterNext /\ ItProj /\ Ev.ret = Deref(itk, bits, IF Ev.v THEN itp ELSE itp')
    \/ Ev.e = "IterNext"  /\ ~Ev.did /\ IterStay /\ ItProj /\ itp = EndPos(itk, bits)      \* client saw it == end(): no call
    \/ Ev.e = "IterPrev"  /\ Ev.did  /\ IterPrev /\ ItProj /\ Ev.ret = Deref(itk, bits, IF Ev.v THEN itp ELSE itp')
    \/ Ev.e = "IterPrev"  /\ ~Ev.did /\ IterStay /\ ItProj /\ itp = BeginPos(itk, bits)    \* client saw it == begin(): no call
    \/ Ev.e = "IterDrop"  /\ IterDrop
    \/ Ev.e = "Swap"      /\ SwapObjects /\ Proj /\ other' = Opnd
    \/ Ev.e = "CopyOther" /\ CopyOther /\ Proj
TSpec == TInit /\ [][TNext]_<<vars, l>>
Accepted == TLCGet("stats").diameter = Len(Log) + 1
=============================================================================
