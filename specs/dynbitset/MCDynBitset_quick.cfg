SPECIFICATION MCSpec
CONSTANTS MaxSize = 4
INVARIANTS TypeOK ItOK TwoFormulations OtherUntouched
VIEW View
ACTION_CONSTRAINT EdgeOut
CHECK_DEADLOCK FALSE
