---------------------------- MODULE DynBitset ----------------------------
(* celma::container::DynamicBitset (property C12).                                        *)
(*                                                                                        *)
(* Reference model: `bits` is the sequence of flags, bits[p+1] is the flag at position p. *)
(* `other` is a second, long-lived bitset object (used by the recorded random executions   *)
(* as operand of the binary operations and as partner of swap/copy); `itk`/`itp` is the    *)
(* ghost state of one live iterator on the first object.                                  *)
(*                                                                                        *)
(* Where the documentation is silent the model is nondeterministic; the value actually    *)
(* chosen is an argument (`ns`, `keep`) bound from the recorded execution:                *)
(*   - growth: addressing a position >= size makes the size any value > position,         *)
(*     the new flags are false (dynamic_bitset.hpp class comment);                        *)
(*   - reset() clears all flags, the size may be kept or dropped;                         *)
(*   - &= keeps the size or grows to the operand's size; |= and ^= grow when the operand  *)
(*     is longer; << and <<= grow by the distance (an empty bitset may stay empty);       *)
(*     >> and >>= keep the size;                                                          *)
(*   - operator== is only constrained between bitsets of equal size.                      *)
EXTENDS Integers, Sequences, FiniteSets
VARIABLES bits,          \* the bitset under test
          other,         \* the second bitset object
          itk,           \* "none" | "fwd" | "rev": kind of the live iterator
          itp            \* its position: fwd 0..Len(bits) (Len = end()), rev -1..Len-1 (-1 = rend())
vars == <<bits, other, itk, itp>>

\* ------------------------------------------------------------------ pure operators
Max2(a, b) == IF a >= b THEN a ELSE b
Min2(a, b) == IF a <= b THEN a ELSE b
At(s, p)   == p >= 0 /\ p < Len(s) /\ s[p + 1]            \* flag at position p, false outside
Zeros(n)   == [i \in 1..n |-> FALSE]
Ones(n)    == [i \in 1..n |-> TRUE]
Mk(n, S)   == [i \in 1..n |-> (i - 1) \in S]              \* bitset of size n with exactly the positions S set
SetPos(s)  == {p \in 0..(Len(s) - 1) : s[p + 1]}
Pad(s, n)  == [i \in 1..n |-> i <= Len(s) /\ s[i]]         \* resized to n, new flags false
Range(q)   == {q[i] : i \in DOMAIN q}

\* size after an operation that needs positions 0..need-1 to exist
GrowOK(s, need, ns) == IF need <= Len(s) THEN ns = Len(s) ELSE ns >= need

\* ---- observers (declarative)
CountOf(s) == Cardinality(SetPos(s))
AnyOf(s)   == SetPos(s) # {}
NoneOf(s)  == SetPos(s) = {}
AllOf(s)   == \A i \in 1..Len(s) : s[i]
ToStr(s, z, o) == [i \in 1..Len(s) |-> IF s[Len(s) - i + 1] THEN o ELSE z]   \* highest position first
ULongThrows(s) == \E p \in SetPos(s) : p >= 64                  \* to_ulong(): value = SetPos(s) as bit numbers
TestRes(s, p)  == IF p >= Len(s) THEN "x" ELSE IF s[p + 1] THEN "t" ELSE "f"   \* "x": std::out_of_range
\* ---- observers (operational: one pass over the flags)
CountOp(s) == LET F[i \in 0..Len(s)] == IF i = 0 THEN 0 ELSE F[i - 1] + (IF s[i] THEN 1 ELSE 0) IN F[Len(s)]
AnyOp(s)   == LET F[i \in 0..Len(s)] == IF i = 0 THEN FALSE ELSE F[i - 1] \/ s[i] IN F[Len(s)]
AllOp(s)   == LET F[i \in 0..Len(s)] == IF i = 0 THEN TRUE ELSE F[i - 1] /\ s[i] IN F[Len(s)]
ToStrOp(s, z, o) == LET F[i \in 0..Len(s)] == IF i = 0 THEN <<>> ELSE <<IF s[i] THEN o ELSE z>> \o F[i - 1] IN F[Len(s)]

\* ---- results of the logical and shift operations, declarative (flag by flag), for result size ns
AndV(s, o, ns) == [i \in 1..ns |-> At(s, i - 1) /\ At(o, i - 1)]
OrV(s, o, ns)  == [i \in 1..ns |-> At(s, i - 1) \/ At(o, i - 1)]
XorV(s, o, ns) == [i \in 1..ns |-> At(s, i - 1) # At(o, i - 1)]
NotV(s)        == [i \in 1..Len(s) |-> ~s[i]]
ShlV(s, k, ns) == [i \in 1..ns |-> At(s, i - 1 - k)]
ShrV(s, k)     == [i \in 1..Len(s) |-> At(s, i - 1 + k)]
AndSizeOK(s, o, ns) == ns \in {Len(s), Max2(Len(s), Len(o))}
OrSizeOK(s, o, ns)  == GrowOK(s, Len(o), ns)
ShlSizeOK(s, k, ns) == ns \in {Len(s) + k, IF Len(s) = 0 THEN 0 ELSE Len(s) + k}
\* (set membership instead of a disjunction: a trace event must have exactly one successor state)
\* ---- the same, operational (what an in-place update does): common prefix, rest, padding
Tl(s, from)    == IF from > Len(s) THEN <<>> ELSE SubSeq(s, from, Len(s))
AndOp(s, o, ns) == LET m == Min2(Len(s), Len(o)) IN [i \in 1..m |-> s[i] /\ o[i]] \o Zeros(ns - m)
OrOp(s, o, ns)  == LET m == Min2(Len(s), Len(o)) IN
                   [i \in 1..m |-> s[i] \/ o[i]] \o Tl(s, m + 1) \o Tl(o, m + 1) \o Zeros(ns - Max2(Len(s), Len(o)))
XorOp(s, o, ns) == LET m == Min2(Len(s), Len(o)) IN
                   [i \in 1..m |-> s[i] # o[i]] \o Tl(s, m + 1) \o Tl(o, m + 1) \o Zeros(ns - Max2(Len(s), Len(o)))
ShlOp(s, k)     == LET F[j \in 0..k] == IF j = 0 THEN s ELSE <<FALSE>> \o F[j - 1] IN F[k]      \* k single steps
ShrOp(s, k)     == LET F[j \in 0..k] == IF j = 0 THEN s ELSE IF F[j - 1] = <<>> THEN <<>> ELSE Tail(F[j - 1]) \o <<FALSE>>
                   IN F[k]

\* ---- iteration
FirstFrom(s, p) == IF \E q \in p..(Len(s) - 1) : s[q + 1]                         \* least set position >= p, else Len(s)
                   THEN CHOOSE q \in p..(Len(s) - 1) : s[q + 1] /\ \A r \in p..(q - 1) : ~s[r + 1]
                   ELSE Len(s)
LastUpTo(s, p)  == IF \E q \in 0..p : At(s, q)                                    \* greatest set position <= p, else -1
                   THEN CHOOSE q \in 0..p : At(s, q) /\ \A r \in (q + 1)..p : ~At(s, r)
                   ELSE -1
FwdSeq(s) == SelectSeq([i \in 1..Len(s) |-> i - 1], LAMBDA p : s[p + 1])         \* set positions ascending
RevSeq(s) == LET f == FwdSeq(s) IN [i \in 1..Len(f) |-> f[Len(f) - i + 1]]       \* set positions descending
\* operational: what a loop  for (it = begin(); it != end(); ++it)  collects
FwdWalk(s) == LET W[p \in 0..Len(s)] == IF p = Len(s) THEN <<>> ELSE <<p>> \o W[FirstFrom(s, p + 1)] IN W[FirstFrom(s, 0)]
RevWalk(s) == LET W[p \in -1..(Len(s) - 1)] == IF p = -1 THEN <<>> ELSE <<p>> \o W[LastUpTo(s, p - 1)] IN W[LastUpTo(s, Len(s) - 1)]
BeginPos(k, s) == IF k = "fwd" THEN FirstFrom(s, 0) ELSE LastUpTo(s, Len(s) - 1)
EndPos(k, s)   == IF k = "fwd" THEN Len(s) ELSE -1
Ahead(k, s, p) == IF k = "fwd" THEN FirstFrom(s, p + 1) ELSE LastUpTo(s, p - 1)    \* ++
Back(k, s, p)  == IF k = "fwd" THEN LastUpTo(s, p - 1) ELSE FirstFrom(s, p + 1)    \* --
Deref(k, s, p) == IF p = EndPos(k, s) THEN -1 ELSE p                                \* what the driver logs for *it

\* ------------------------------------------------------------------ initial state and actions
Init == bits = <<>> /\ other = <<>> /\ itk = "none" /\ itp = 0

NoIt   == itk' = "none" /\ itp' = 0                 \* every modification ends the life of the iterator
KeepIt == UNCHANGED <<itk, itp>>
Mut(nb)  == bits' = nb /\ NoIt /\ UNCHANGED other    \* modifying operation on the first object
Const    == UNCHANGED vars                           \* operation that must not change anything

\* construction / assignment from another container (all kinds: the content and size of the source)
Assign(o)        == Mut(o)
CtorSize(n)      == Mut(Zeros(n))
SetAll           == Mut(Ones(Len(bits)))
SetBit(p, v, ns) == GrowOK(bits, p + 1, ns) /\ Mut([Pad(bits, ns) EXCEPT ![p + 1] = v])
ResetAll(keep)   == Mut(IF keep THEN Zeros(Len(bits)) ELSE <<>>)
ResetBit(p, ns)  == SetBit(p, FALSE, ns)
FlipAll          == Mut(NotV(bits))
FlipBit(p, ns)   == GrowOK(bits, p + 1, ns) /\ Mut([Pad(bits, ns) EXCEPT ![p + 1] = ~At(bits, p)])
IndexWrite(p, v, ns) == SetBit(p, v, ns)             \* dbs[p] = v
IndexRead(p, ns) == GrowOK(bits, p + 1, ns) /\ Mut(Pad(bits, ns))      \* (non-const) dbs[p]: value At(bits, p)
Resize(n, v)     == Mut([i \in 1..n |-> IF i <= Len(bits) THEN bits[i] ELSE v])
AndAssign(o, ns) == AndSizeOK(bits, o, ns) /\ Mut(AndV(bits, o, ns))
OrAssign(o, ns)  == OrSizeOK(bits, o, ns) /\ Mut(OrV(bits, o, ns))
XorAssign(o, ns) == OrSizeOK(bits, o, ns) /\ Mut(XorV(bits, o, ns))
ShlAssign(k, ns) == ShlSizeOK(bits, k, ns) /\ Mut(ShlV(bits, k, ns))
ShrAssign(k)     == Mut(ShrV(bits, k))
\* results of the non-modifying counterparts (r: the returned bitset)
AndIs(o, r) == AndSizeOK(bits, o, Len(r)) /\ r = AndV(bits, o, Len(r))
OrIs(o, r)  == OrSizeOK(bits, o, Len(r))  /\ r = OrV(bits, o, Len(r))
XorIs(o, r) == OrSizeOK(bits, o, Len(r))  /\ r = XorV(bits, o, Len(r))
ShlIs(k, r) == ShlSizeOK(bits, k, Len(r)) /\ r = ShlV(bits, k, Len(r))
ShrIs(k, r) == r = ShrV(bits, k)
NotIs(r)    == r = NotV(bits)
EqIs(o, res) == Len(o) = Len(bits) => res = (o = bits)
\* the second object
SwapObjects == bits' = other /\ other' = bits /\ NoIt
CopyOther   == Mut(other)

\* iterators
IterBegin(k) == itk' = k /\ itp' = BeginPos(k, bits) /\ UNCHANGED <<bits, other>>
IterNext     == itk # "none" /\ itp # EndPos(itk, bits) /\ itp' = Ahead(itk, bits, itp) /\ UNCHANGED <<bits, other, itk>>
IterPrev     == itk # "none" /\ itp # BeginPos(itk, bits) /\ itp' = Back(itk, bits, itp) /\ UNCHANGED <<bits, other, itk>>
IterStay     == itk # "none" /\ UNCHANGED vars
IterDrop     == NoIt /\ UNCHANGED <<bits, other>>

\* ------------------------------------------------------------------ properties
IsBits(s) == s \in Seq(BOOLEAN)
TypeOK == /\ IsBits(bits) /\ IsBits(other)
          /\ itk \in {"none", "fwd", "rev"}
ItOK   == /\ itk = "none" => itp = 0
          /\ itk = "fwd"  => (itp = Len(bits) \/ At(bits, itp))       \* an iterator only rests on set positions
          /\ itk = "rev"  => (itp = -1 \/ At(bits, itp))

\* observers: declarative and operational formulation agree (C12 "agree with a reference bit vector")
ObserversAgree(s) == /\ CountOf(s) = CountOp(s)
                     /\ AnyOf(s) = AnyOp(s) /\ NoneOf(s) = ~AnyOp(s) /\ AllOf(s) = AllOp(s)
                     /\ AnyOf(s) = (CountOf(s) > 0) /\ AllOf(s) = (CountOf(s) = Len(s))
                     /\ ToStr(s, 48, 49) = ToStrOp(s, 48, 49)
                     /\ \A p \in 0..(Len(s) + 2) : TestRes(s, p) = "x" <=> p >= Len(s)
\* compound assignment == binary counterpart, for one operand / all distances 0..Len+2
LogicAgree(s, o) == \A ns \in {Len(s), Max2(Len(s), Len(o))} :
                       /\ AndV(s, o, ns) = AndOp(s, o, ns)
                       /\ ns >= Len(o) => OrV(s, o, ns) = OrOp(s, o, ns) /\ XorV(s, o, ns) = XorOp(s, o, ns)
ShiftAgree(s) == \A k \in 0..(Len(s) + 2) :
                    /\ ShlV(s, k, Len(s) + k) = ShlOp(s, k)
                    /\ ShrV(s, k) = ShrOp(s, k)
                    /\ k >= Len(s) => ShrV(s, k) = Zeros(Len(s))         \* distance >= size: all false, size kept
                    /\ SetPos(ShlV(s, k, Len(s) + k)) = {p + k : p \in SetPos(s)}
                    /\ SetPos(ShrV(s, k)) = {p - k : p \in {q \in SetPos(s) : q >= k}}
\* iteration: exactly the set positions, ascending / descending; nothing for an empty or all-zero bitset
IterAgree(s) == /\ FwdWalk(s) = FwdSeq(s) /\ RevWalk(s) = RevSeq(s)
                /\ Range(FwdSeq(s)) = SetPos(s) /\ Len(FwdSeq(s)) = CountOf(s)
                /\ \A i \in 1..(Len(FwdSeq(s)) - 1) : FwdSeq(s)[i] < FwdSeq(s)[i + 1]
                /\ \A i \in 1..(Len(RevSeq(s)) - 1) : RevSeq(s)[i] > RevSeq(s)[i + 1]
                /\ NoneOf(s) => FwdSeq(s) = <<>> /\ RevSeq(s) = <<>>
=============================================================================
