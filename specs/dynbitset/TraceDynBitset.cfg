SPECIFICATION TSpec
INVARIANTS TypeOK ItOK
POSTCONDITION Accepted
CHECK_DEADLOCK FALSE
