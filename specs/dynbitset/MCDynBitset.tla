---------------------------- MODULE MCDynBitset ----------------------------
(* Bounded instance of DynBitset: every bitset of size 0..MaxSize, every operation, every   *)
(* position / distance 0..size+2, every second operand of size 0..MaxSize.  Bitsets larger   *)
(* than MaxSize (reached by growth) are generated, printed as edge targets and checked by    *)
(* the invariants, but not expanded (every action is guarded by InB).                        *)
(* `act` is the ghost "last action" record; the configuration uses VIEW View so that the     *)
(* explored state space is bits x iterator (act and the operand it carries do not multiply   *)
(* the states); EdgeOut still sees every generated transition.  `other` stays <<>> here: the *)
(* operand of a binary operation is an argument (a fresh object in the driver); the          *)
(* long-lived second object is exercised by the recorded random executions only.             *)
EXTENDS DynBitset, TLC, Json
CONSTANTS MaxSize
VARIABLE act

AllBits   == UNION {[1..n -> BOOLEAN] : n \in 0..MaxSize}
Positions == 0..(Len(bits) + 2)
\* sizes offered after growth to position p: every value p+1 .. MaxSize+3 (the code may pick any value > p)
GrowSizes(need) == IF need <= Len(bits) THEN {Len(bits)} ELSE need..(MaxSize + 3)
Kinds == {"vec_copy", "vec_move", "bitset", "dbs_copy", "dbs_move", "ctor_vec", "ctor_vec_move", "ctor_bitset", "ctor_copy", "ctor_move"}

A0(name) == [n |-> name, p |-> 0, v |-> FALSE, on |-> 0, oo |-> {}, ns |-> 0, s |-> "", q |-> 0]
AP(name, p, v, ns) == [A0(name) EXCEPT !.p = p, !.v = v, !.ns = ns]
AO(name, o, ns, s) == [A0(name) EXCEPT !.on = Len(o), !.oo = SetPos(o), !.ns = ns, !.s = s]

MCInit == Init /\ act = A0("Init")

InB    == Len(bits) <= MaxSize            \* larger bitsets (reached by growth) are generated but not expanded
NoIter == itk = "none" /\ InB
\* ---- operations on an object without live iterator
DoAssign     == NoIter /\ \E o \in AllBits, k \in Kinds : Assign(o) /\ act' = AO("Assign", o, 0, k)
DoCtorSize   == NoIter /\ \E n \in 0..MaxSize : CtorSize(n) /\ act' = AP("CtorSize", n, FALSE, 0)
DoSetAll     == NoIter /\ SetAll /\ act' = A0("SetAll")
DoResetAll   == NoIter /\ \E keep \in BOOLEAN : ResetAll(keep) /\ act' = AP("ResetAll", 0, keep, 0)
DoFlipAll    == NoIter /\ FlipAll /\ act' = A0("FlipAll")
DoSetBit     == NoIter /\ \E p \in Positions, v \in BOOLEAN : \E ns \in GrowSizes(p + 1) : SetBit(p, v, ns) /\ act' = AP("Set", p, v, ns)
DoResetBit   == NoIter /\ \E p \in Positions : \E ns \in GrowSizes(p + 1) : ResetBit(p, ns) /\ act' = AP("ResetBit", p, FALSE, ns)
DoFlipBit    == NoIter /\ \E p \in Positions : \E ns \in GrowSizes(p + 1) : FlipBit(p, ns) /\ act' = AP("FlipBit", p, FALSE, ns)
DoIndexWrite == NoIter /\ \E p \in Positions, v \in BOOLEAN : \E ns \in GrowSizes(p + 1) : IndexWrite(p, v, ns) /\ act' = AP("IndexWrite", p, v, ns)
DoIndexRead  == NoIter /\ \E p \in Positions : \E ns \in GrowSizes(p + 1) : IndexRead(p, ns) /\ act' = AP("IndexRead", p, FALSE, ns)
DoResize     == NoIter /\ \E n \in 0..(MaxSize + 1), v \in BOOLEAN : Resize(n, v) /\ act' = AP("Resize", n, v, 0)
DoAndAssign  == NoIter /\ \E o \in AllBits : \E ns \in {Len(bits), Max2(Len(bits), Len(o))} : AndAssign(o, ns) /\ act' = AO("AndAssign", o, ns, "")
DoOrAssign   == NoIter /\ \E o \in AllBits : OrAssign(o, Max2(Len(bits), Len(o))) /\ act' = AO("OrAssign", o, Max2(Len(bits), Len(o)), "")
DoXorAssign  == NoIter /\ \E o \in AllBits : XorAssign(o, Max2(Len(bits), Len(o))) /\ act' = AO("XorAssign", o, Max2(Len(bits), Len(o)), "")
DoShlAssign  == NoIter /\ \E k \in Positions : \E ns \in {Len(bits) + k, IF Len(bits) = 0 THEN 0 ELSE Len(bits) + k} :
                             ShlAssign(k, ns) /\ act' = AP("ShlAssign", k, FALSE, ns)
DoShrAssign  == NoIter /\ \E k \in Positions : ShrAssign(k) /\ act' = AP("ShrAssign", k, FALSE, 0)
\* the object itself as operand: x &= x and x |= x leave x as it is, x ^= x leaves all-zero bits of the same size
\* (what the binary operators give for equal operands)
DoSelfAssign == /\ NoIter
                /\ \/ AndAssign(bits, Len(bits)) /\ act' = AO("AndAssign", bits, Len(bits), "self")
                   \/ OrAssign(bits, Len(bits))  /\ act' = AO("OrAssign", bits, Len(bits), "self")
                   \/ XorAssign(bits, Len(bits)) /\ act' = AO("XorAssign", bits, Len(bits), "self")
DoSelfBinary == NoIter /\ \E nm \in {"And", "Or", "Xor", "Eq"} : Const /\ act' = AO(nm, bits, 0, "self")
\* non-modifying operations (self loops; their results are checked when the recorded execution is validated)
DoBinary     == NoIter /\ \E o \in AllBits, nm \in {"And", "Or", "Xor", "Eq"} : Const /\ act' = AO(nm, o, 0, "")
DoShift      == NoIter /\ \E k \in Positions, nm \in {"Shl", "Shr"} : Const /\ act' = AP(nm, k, FALSE, 0)
DoNot        == NoIter /\ Const /\ act' = A0("Not")
DoTest       == NoIter /\ \E p \in Positions, w \in {"test", "index"} : Const /\ act' = [AP("Test", p, FALSE, 0) EXCEPT !.s = w]
DoIterate    == NoIter /\ \E k \in {"fwd", "rev"}, c \in 0..2 : Const /\ act' = [AP("Iterate", c, FALSE, 0) EXCEPT !.s = k]
DoIterBegin  == NoIter /\ \E k \in {"fwd", "rev"}, c \in 0..1 : IterBegin(k) /\ act' = [AP("IterBegin", c, FALSE, 0) EXCEPT !.s = k]
\* observers are offered with and without live iterator (they must not disturb it)
DoObserve    == InB /\ \E zq \in {<<48, 49>>, <<45, 88>>} : Const /\ act' = [AP("Observe", zq[1], FALSE, 0) EXCEPT !.q = zq[2]]
\* ---- operations on the live iterator
DoIterNext   == itk # "none" /\ \E post \in BOOLEAN : IterNext /\ act' = AP("IterNext", 0, post, 0)
DoIterPrev   == itk # "none" /\ \E post \in BOOLEAN : IterPrev /\ act' = AP("IterPrev", 0, post, 0)
DoIterDrop   == itk # "none" /\ IterDrop /\ act' = A0("IterDrop")

MCNext == \/ DoAssign \/ DoCtorSize \/ DoSetAll \/ DoResetAll \/ DoFlipAll \/ DoSetBit \/ DoResetBit \/ DoFlipBit
          \/ DoIndexWrite \/ DoIndexRead \/ DoResize \/ DoAndAssign \/ DoOrAssign \/ DoXorAssign \/ DoShlAssign \/ DoShrAssign
          \/ DoSelfAssign \/ DoSelfBinary \/ DoBinary \/ DoShift \/ DoNot \/ DoTest \/ DoIterate \/ DoIterBegin \/ DoObserve
          \/ DoIterNext \/ DoIterPrev \/ DoIterDrop
MCSpec == MCInit /\ [][MCNext]_<<vars, act>>

View  == <<bits, itk, itp>>

\* ---- invariants of the bounded model: the two formulations agree on every reachable bitset
TwoFormulations == /\ ObserversAgree(bits) /\ ShiftAgree(bits) /\ IterAgree(bits)
                   /\ \A o \in AllBits : LogicAgree(bits, o) /\ LogicAgree(o, bits)
OtherUntouched == other = <<>>

St(b, k, p) == [n |-> Len(b), on |-> SetPos(b), k |-> k, p |-> p]
EdgeOut == PrintT("EDGE " \o ToJson([i |-> (act.n = "Init"), pre |-> St(bits, itk, itp), a |-> act', post |-> St(bits', itk', itp')]))
=============================================================================
