---------------------------- MODULE TraceLogRouting ----------------------------
(* Validates executions recorded from the real celma::log::Logging (logrouting_driver).              *)
(* Events (all fields always present):                                                              *)
(*  {"e":"Reset"}                                                                                    *)
(*  {"e":"CreateLog","name":s,"id":bit|-1|-2,"res":"ok"|"exception"}       Logging::findCreateLog    *)
(*  {"e":"AddDest","log":k,"dest":s,"same":bool,"res":"ok"|...}            Log::addDestination       *)
(*  {"e":"RemoveDest","log":k,"dest":s,"res":"ok"|...}                     Log::removeDestination    *)
(*  {"e":"SetPolicy","pol":s,"res":"ok"|"exception"}                       Filters::setDuplicatePolicy *)
(*  {"e":"SetFilter","log":k,"dest":s|"","t":"max|min|lvl|cls","lvl":n,"toks":[..],"res":..}          *)
(*        Filters::maxLevel/minLevel/level/classes on the log (dest "") or on getDestination(dest)   *)
(*  {"e":"Send","by":"mask|name|macro-mask|macro-name","mask":[bits],"name":s,"msgs":[[l,c]..],       *)
(*        "got":[[log,dest,l,c,msgno]..],"res":"ok"|"exception"|"mixed"}   Logging::log / LOG()       *)
(*  {"e":"PreCheck","by":"id|name","bit":b,"name":s,"levels":[..],"disc":[bool..],"res":..}           *)
(*        detail::discard_by_level                                                                   *)
(*  {"e":"GetLog","by":"mask|name","mask":[bits],"name":s,"res":"found|null|exception"}               *)
(* The filter objects are private: TLC recomputes them from the arguments (one successor per event, *)
(* the runner locates a rejected event by the number of states generated).  A refused setting        *)
(* (exception) leaves the filters attached before the call attached (keep = TRUE).                    *)
EXTENDS LogRouting, TLC, Json, IOUtils
VARIABLE l
Log == ndJsonDeserialize(IOEnv.TRACE)
Ev == Log[l]

TInit == l = 1 /\ Init

Sel(ev) == IF ev.by \in {"mask", "macro-mask"} THEN SelByMask(RangeOf(ev.mask)) ELSE SelByName(ev.name)
\* LOG(0) / LOG("") refuse to build a message (documented exception of StreamLog)
MacroRefused(ev) == \/ ev.by = "macro-mask" /\ ev.mask = <<>>
                    \/ ev.by = "macro-name" /\ ev.name = ""
TSetFilter(ev) ==
   LET valid == IF ev.t = "cls" THEN ValidToks(ev.toks) ELSE ev.lvl \in Levels
       e     == Setting(ev.t, IF ev.t = "cls" THEN -1 ELSE ev.lvl,
                        IF ev.t = "cls" /\ valid THEN RangeOf(ev.toks) ELSE {})
   IN /\ ev.t \in FilterTypes
      /\ ev.res \in SetFilterResults(ev.log, ev.dest, e, valid)
      /\ SetFilter(ev.log, ev.dest, e, valid, TRUE)

TNext == /\ l <= Len(Log) /\ l' = l + 1
         /\ \/ Ev.e = "Reset" /\ logs' = <<>> /\ policy' = "ignore"
            \/ /\ Ev.e = "CreateLog" /\ Ev.id = CreateLogRes(Ev.name)
               /\ Ev.res = (IF CreateLogRes(Ev.name) = -1 THEN "exception" ELSE "ok")
               /\ CreateLog(Ev.name)
            \/ Ev.e = "AddDest" /\ Ev.res = "ok" /\ Ev.same /\ AddDest(Ev.log, Ev.dest)
            \/ Ev.e = "RemoveDest" /\ Ev.res = "ok" /\ RemoveDest(Ev.log, Ev.dest)
            \/ Ev.e = "SetPolicy" /\ Ev.res = SetPolicyRes(Ev.pol) /\ SetPolicy(Ev.pol)
            \/ Ev.e = "SetFilter" /\ TSetFilter(Ev)
            \/ /\ Ev.e = "Send"
               /\ IF MacroRefused(Ev) THEN Ev.res = "exception" /\ Ev.got = <<>>
                  ELSE Ev.res = "ok" /\ DeliveredOK(Ev.got, Sel(Ev), Ev.msgs) = TRUE
               /\ UNCHANGED vars
            \/ /\ Ev.e = "PreCheck" /\ Ev.res = "ok" /\ Len(Ev.disc) = Len(Ev.levels)
               /\ LET k == IF Ev.by = "id" THEN (IF Ev.bit + 1 \in DOMAIN logs THEN Ev.bit + 1 ELSE 0) ELSE LogIdx(Ev.name)
                  IN (\A i \in DOMAIN Ev.levels : PreCheckOK(k, Ev.levels[i], Ev.disc[i])) = TRUE   \* "= TRUE": evaluated as a value, never split into successors
               /\ UNCHANGED vars
            \/ /\ Ev.e = "GetLog"
               /\ Ev.res \in (IF Ev.by = "mask" THEN GetLogResults(RangeOf(Ev.mask)) ELSE GetLogByNameResults(Ev.name))
               /\ UNCHANGED vars
TSpec == TInit /\ [][TNext]_<<vars, l>>
Accepted == TLCGet("stats").diameter = Len(Log) + 1
=============================================================================
