---------------------------- MODULE MCLogRouting ----------------------------
(* Bounded instances of LogRouting.  One module, two families of configurations:                *)
(*   MCLogRouting_<tier>.cfg          routing: 2 logs x 2 destinations, few parameter values     *)
(*   MCLogRouting_filters_<tier>.cfg  filters: 1 log x 1 destination, every level, every class   *)
(*                                    subset as parameter of the last setting                    *)
(* Ghost: act (last action + arguments, excluded from the fingerprint by VIEW), nset (number of  *)
(* filter settings so far).  Observers (SendAll/PreAll/GetLog) are self loops; the driver expands *)
(* SendAll into Logging::log() calls for all 49 (level, class) messages, PreAll into the 7 levels.*)
EXTENDS LogRouting, TLC, Json, SequencesExt
CONSTANTS MaxLogs,        \* number of logs (names L1, L2, ...)
          DestNames,      \* sequence of destination names; added in this order
          MaxSet,         \* number of filter settings per behaviour
          LvlFirst,       \* level parameters of the first setting
          LvlMid,         \* level parameters of the settings between the first and the last
          ClsFirst,       \* class lists (sequences of tokens) of all but the last setting
          LvlLast,        \* level parameters of the last setting
          FullLast,       \* TRUE: the last setting takes every subset of the classes (+ malformed lists)
          ClsLast,        \* class lists of the last setting when ~FullLast
          SetWhenFull,    \* TRUE: filters are only set once all logs exist and each has a destination
          TopoAfterSet,   \* TRUE: logs/destinations may still be added/removed after the first setting
          RemoveAny,      \* TRUE: any destination may be removed, FALSE: only those after the first name
          ExtraProbeMax   \* the additional selectors (sub-masks, names, macros) are probed while nset <= this
VARIABLES act, nset

LogNames == <<"L1", "L2", "L3">>
NoAct == [n |-> "Init", name |-> "", log |-> 0, dest |-> "", t |-> "", lvl |-> -1, toks |-> <<>>,
          pol |-> "", by |-> "", mask |-> {}]

AllClassLists == {SetToSortSeq(S, LAMBDA a, b : a < b) : S \in SUBSET (1..6)}
Malformed     == {<<0>>, <<7>>, <<1, 0>>, <<7, 2>>, <<6, 1>>, <<2, 2, 6>>}
ClsAt(k) == IF k = MaxSet - 1 THEN (IF FullLast THEN AllClassLists \cup Malformed ELSE ClsLast) ELSE ClsFirst
LvlAt(k) == IF k = MaxSet - 1 THEN LvlLast ELSE IF k = 0 THEN LvlFirst ELSE LvlMid

\* values for the configuration files (sequences cannot be written there)
Dests_a    == <<"a">>
Dests_ab   == <<"a", "b">>
Cls_26     == {<<2, 6>>}
Cls_6_none == {<<6>>, <<>>}
Cls_1_6_none == {<<1>>, <<6>>, <<>>}
Cls_none   == {}
Cls_26_1   == {<<2, 6>>, <<1>>}
Cls_6_none_34 == {<<6>>, <<>>, <<3, 4>>}

MCInit == Init /\ act = NoAct /\ nset = 0

TopoOK == nset = 0 \/ TopoAfterSet
Full   == Len(logs) = MaxLogs /\ \A k \in DOMAIN logs : Len(logs[k].dests) >= 1

MCCreate == /\ TopoOK
            /\ \E nm \in ({LogNames[Len(logs) + 1]} \cap {LogNames[i] : i \in 1..MaxLogs}) \cup
                         (IF nset = 0 THEN {logs[k].name : k \in DOMAIN logs} ELSE {}) :
                  /\ CreateLog(nm)
                  /\ act' = [NoAct EXCEPT !.n = "CreateLog", !.name = nm]
            /\ UNCHANGED nset
NextDest(k) == LET M == {i \in DOMAIN DestNames : DestIdx(k, DestNames[i]) = 0} IN DestNames[SetMin(M)]
MCAddDest == /\ TopoOK
             /\ \E k \in DOMAIN logs :
                  /\ Len(logs[k].dests) < Len(DestNames)
                  /\ AddDest(k, NextDest(k))
                  /\ act' = [NoAct EXCEPT !.n = "AddDest", !.log = k, !.dest = NextDest(k)]
             /\ UNCHANGED nset
MCRemoveDest == /\ TopoOK
                /\ \E k \in DOMAIN logs : \E j \in DOMAIN logs[k].dests :
                     /\ RemoveAny \/ logs[k].dests[j].name # DestNames[1]
                     /\ RemoveDest(k, logs[k].dests[j].name)
                     /\ act' = [NoAct EXCEPT !.n = "RemoveDest", !.log = k, !.dest = logs[k].dests[j].name]
                /\ UNCHANGED nset
MCSetPolicy == /\ nset < MaxSet
               /\ \E p \in Policies \cup (IF nset = 0 THEN {"invalid"} ELSE {}) :
                    /\ p # policy
                    /\ SetPolicy(p)
                    /\ act' = [NoAct EXCEPT !.n = "SetPolicy", !.pol = p]
               /\ UNCHANGED nset
MCSetFilter == /\ nset < MaxSet
               /\ ~SetWhenFull \/ Full
               /\ \E k \in DOMAIN logs :
                  \E dn \in {""} \cup {logs[k].dests[j].name : j \in DOMAIN logs[k].dests} \cup
                            (IF nset = 0 /\ k = 1 THEN {"zz"} ELSE {}) :
                    \/ \E t \in LevelTypes : \E lv \in LvlAt(nset) :
                         /\ SetFilter(k, dn, Setting(t, lv, {}), TRUE, TRUE)
                         /\ act' = [NoAct EXCEPT !.n = "SetFilter", !.log = k, !.dest = dn, !.t = t, !.lvl = lv]
                    \/ \E toks \in ClsAt(nset) :
                         /\ SetFilter(k, dn, Setting("cls", -1, IF ValidToks(toks) THEN RangeOf(toks) ELSE {}),
                                      ValidToks(toks), TRUE)
                         /\ act' = [NoAct EXCEPT !.n = "SetFilter", !.log = k, !.dest = dn, !.t = "cls", !.toks = toks]
               /\ nset' = nset + 1

AllBits == {k - 1 : k \in DOMAIN logs}
MCSendAll == /\ Len(logs) >= 1
             /\ \/ act' = [NoAct EXCEPT !.n = "SendAll", !.by = "mask", !.mask = AllBits]
                \/ /\ nset <= ExtraProbeMax
                   /\ \/ \E m \in SUBSET {0, 1, 5, 31} : m # AllBits /\ act' = [NoAct EXCEPT !.n = "SendAll", !.by = "mask", !.mask = m]
                      \/ \E m \in {{}, AllBits, {0, 31}} : act' = [NoAct EXCEPT !.n = "SendAll", !.by = "macro-mask", !.mask = m]
                      \/ \E nm \in {logs[k].name : k \in DOMAIN logs} \cup {"zz"} :
                            act' = [NoAct EXCEPT !.n = "SendAll", !.by = "name", !.name = nm]
                      \/ \E nm \in {logs[k].name : k \in DOMAIN logs} \cup {"zz", ""} :
                            act' = [NoAct EXCEPT !.n = "SendAll", !.by = "macro-name", !.name = nm]
             /\ UNCHANGED <<vars, nset>>
MCPreAll == /\ Len(logs) >= 1
            /\ \/ \E k \in DOMAIN logs : act' = [NoAct EXCEPT !.n = "PreAll", !.by = "id", !.mask = {k - 1}]
               \/ /\ nset <= ExtraProbeMax
                  /\ \/ act' = [NoAct EXCEPT !.n = "PreAll", !.by = "id", !.mask = {5}]
                     \/ \E nm \in {logs[k].name : k \in DOMAIN logs} \cup {"zz"} :
                           act' = [NoAct EXCEPT !.n = "PreAll", !.by = "name", !.name = nm]
            /\ UNCHANGED <<vars, nset>>
MCGetLog == /\ nset = 0
            /\ \/ \E m \in SUBSET {0, 1, 5} : act' = [NoAct EXCEPT !.n = "GetLog", !.by = "mask", !.mask = m]
               \/ \E nm \in {"L1", "L2", "zz"} : act' = [NoAct EXCEPT !.n = "GetLog", !.by = "name", !.name = nm]
            /\ UNCHANGED <<vars, nset>>

MCNext == MCCreate \/ MCAddDest \/ MCRemoveDest \/ MCSetPolicy \/ MCSetFilter \/ MCSendAll \/ MCPreAll \/ MCGetLog
MCSpec == MCInit /\ [][MCNext]_<<vars, act, nset>>
MCView == <<logs, policy, nset>>

\* ---- design-level check on the bounded instance: a message never reaches a destination of a log that was
\* not selected, and what a sub-mask delivers is part of what the full mask delivers
AllMsgs == [i \in 1..49 |-> <<(i - 1) \div 7, (i - 1) % 7>>]
ProbeMsgs == <<<<3, 2>>, <<4, 6>>, <<0, 0>>, <<6, 1>>>>
OnlySelected == LET full == Expected(SelByMask(AllBits), ProbeMsgs)
                IN \A m \in SUBSET AllBits : Expected(SelByMask(m), ProbeMsgs) = {d \in full : (d[1] - 1) \in m}

\* ---- edge printer
FJ(f) == <<[i \in DOMAIN f.fl |-> <<f.fl[i].t, f.fl[i].lvl, f.fl[i].cls>>], f.cache>>
LJ(lg) == [k \in DOMAIN lg |-> <<lg[k].name, FJ(lg[k].f), [j \in DOMAIN lg[k].dests |-> <<lg[k].dests[j].name, FJ(lg[k].dests[j].f)>>]>>]
St  == <<LJ(logs), policy, nset>>
StP == <<LJ(logs'), policy', nset'>>
EdgeOut == PrintT("EDGE " \o ToJson([i |-> (logs = <<>> /\ policy = "ignore" /\ nset = 0), pre |-> St, a |-> act', post |-> StP]))
=============================================================================
