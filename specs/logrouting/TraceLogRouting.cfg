SPECIFICATION TSpec
INVARIANTS TypeOK OpDeclAgree FilterListOK PreCheckSound UndefinedClass
POSTCONDITION Accepted
CHECK_DEADLOCK FALSE
