---------------------------- MODULE LogRouting ----------------------------
(* celma::log::Logging / detail::Log / filter::Filters / ILogDest  (property C14).             *)
(*                                                                                             *)
(* A message sent to a set of logs is handed to a destination exactly once for every selected  *)
(* log that owns the destination, and only if it passes every filter of that log and of that   *)
(* destination.  Filter types: maximum level, minimum level, exact level, class list.  A       *)
(* process-wide duplicate policy decides what happens when a filter type is set a second time  *)
(* on the same filter object.  The level pre-check of the macros (discard_by_level) must never *)
(* discard a message the full filters would pass.                                              *)
(*                                                                                             *)
(* Levels  0 undefined 1 fatal 2 error 3 warning 4 info 5 debug 6 fullDebug                    *)
(* Classes 0 undefined 1 sysCall 2 data 3 communication 4 application 5 accounting             *)
(*         6 operatorAction.  Class tokens of a class list: 0..6 = the display names of these  *)
(*         classes ("undefined" is a name that is not accepted), 7 = a name that is no class.  *)
(*                                                                                             *)
(* Two formulations of "which messages a filter object passes":                                *)
(*   operational  fl    : the list of filter objects as Filters::checkSetFilter maintains it,   *)
(*                cache : the type of the level filter the cached pointer designates,          *)
(*                        OpPass = conjunction over the list (Filters::pass)                   *)
(*   declarative  hist  : the history of accepted settings; the setting in effect for a type   *)
(*                        is the latest one that was the first of its type or was made under   *)
(*                        policy "replace"; Passes = truth table over those settings.          *)
(* OpDeclAgree states that both agree for every level and class.                               *)
EXTENDS Integers, Sequences, FiniteSets

VARIABLES logs,     \* sequence of [name, f, dests]; log k has id bit k-1; dests: sequence of [name, f]
          policy    \* "ignore" | "replace" | "exception"   (one setting for the whole process)
vars == <<logs, policy>>

Levels      == 0..6
Classes     == 0..6
MaxLogCount == 31                      \* id bits 0..30 (documented limit)
LevelTypes  == {"max", "min", "lvl"}
FilterTypes == LevelTypes \cup {"cls"}
Policies    == {"ignore", "replace", "exception"}

SetMax(S) == CHOOSE x \in S : \A y \in S : y <= x
SetMin(S) == CHOOSE x \in S : \A y \in S : x <= y
RangeOf(s) == {s[i] : i \in DOMAIN s}

\* ---------------------------------------------------------------- one filter object (Filters)
EmptyF == [fl |-> <<>>, cache |-> "none", hist |-> <<>>]

\* a setting: type, level parameter (-1 for a class list), class set ({} for level types)
Setting(t, lvl, cls) == [t |-> t, lvl |-> lvl, cls |-> cls]
\* a class list is acceptable iff it names at least one class and only classes 1..6
ValidToks(toks) == Len(toks) > 0 /\ \A i \in DOMAIN toks : toks[i] \in 1..6

\* ---- operational
Idx(fl, t) == IF \E i \in DOMAIN fl : fl[i].t = t THEN CHOOSE i \in DOMAIN fl : fl[i].t = t ELSE 0
EntryPass(e, l, c) == CASE e.t = "max" -> l <= e.lvl
                        [] e.t = "min" -> l >= e.lvl
                        [] e.t = "lvl" -> l = e.lvl
                        [] e.t = "cls" -> c \in e.cls
OpPass(f, l, c) == \A i \in DOMAIN f.fl : EntryPass(f.fl[i], l, c)
\* Filters::processLevel as built: only the level filter the cached pointer designates is asked
AsBuiltProc(f, l) == \/ f.cache = "none"
                     \/ LET i == Idx(f.fl, f.cache) IN i # 0 /\ EntryPass(f.fl[i], l, 0)

\* ---- declarative
HEntry(e, pol) == [t |-> e.t, lvl |-> e.lvl, cls |-> e.cls, rep |-> (pol = "replace"), gone |-> FALSE]
HGone(t)       == [t |-> t, lvl |-> -1, cls |-> {}, rep |-> TRUE, gone |-> TRUE]
\* indices of the history that still count for type t (after the last removal of that type)
HLive(h, t) == LET G == {i \in DOMAIN h : h[i].t = t /\ h[i].gone}
                   g == IF G = {} THEN 0 ELSE SetMax(G)
               IN {i \in DOMAIN h : h[i].t = t /\ i > g}
HHas(h, t) == HLive(h, t) # {}
HEff(h, t) == LET I == HLive(h, t)
                  J == {i \in I : i = SetMin(I) \/ h[i].rep}
              IN h[SetMax(J)]
\* truth table: the levels / classes a setting names
Accepts(e) == CASE e.t = "max" -> {<<l, c>> \in Levels \X Classes : l <= e.lvl}
                [] e.t = "min" -> {<<l, c>> \in Levels \X Classes : l >= e.lvl}
                [] e.t = "lvl" -> {<<l, c>> \in Levels \X Classes : l = e.lvl}
                [] e.t = "cls" -> {<<l, c>> \in Levels \X Classes : c \in e.cls}
\* the settings in effect, per type (NoneE: no filter of that type)
NoneE == [t |-> "none", lvl |-> -1, cls |-> {}, rep |-> FALSE, gone |-> FALSE]
EffMap(h) == [t \in FilterTypes |-> IF HHas(h, t) THEN HEff(h, t) ELSE NoneE]
PassesE(em, l, c) == \A t \in FilterTypes : em[t].t = "none" \/ <<l, c>> \in Accepts(em[t])
Passes(f, l, c) == PassesE(EffMap(f.hist), l, c)
\* level part only (what a pre-check may rely on)
LevelPassesE(em, l) == \A t \in LevelTypes : em[t].t = "none" \/ <<l, 0>> \in Accepts(em[t])
HasLevelFilterE(em) == \E t \in LevelTypes : em[t].t # "none"
SomeLevelFilterPassesE(em, l) == \E t \in LevelTypes : em[t].t # "none" /\ <<l, 0>> \in Accepts(em[t])

\* ---- setting a filter on one filter object (Filters::maxLevel/minLevel/level/classes)
\* e: the setting, valid: the parameter is acceptable, pol: policy in force,
\* keep: a rejected replacement leaves the existing filter in place (the documentation is silent on
\*       whether the old filter survives; both are allowed, memory safety is not negotiable).
\* Result: the new filter object.
ApplySet(f, e, valid, pol, keep) ==
   LET i     == Idx(f.fl, e.t)
       touch == IF e.t \in LevelTypes THEN e.t ELSE f.cache
   IN IF i = 0
        THEN IF valid THEN [fl |-> Append(f.fl, e), cache |-> touch, hist |-> Append(f.hist, HEntry(e, pol))]
                      ELSE f
      ELSE IF pol = "exception" THEN f
      ELSE IF pol = "ignore"
        THEN [f EXCEPT !.cache = touch, !.hist = IF valid THEN Append(@, HEntry(e, pol)) ELSE @]
      ELSE IF valid
        THEN [fl |-> [f.fl EXCEPT ![i] = e], cache |-> touch, hist |-> Append(f.hist, HEntry(e, pol))]
      ELSE IF keep THEN f
      ELSE [fl    |-> [j \in 1..(Len(f.fl) - 1) |-> IF j < i THEN f.fl[j] ELSE f.fl[j + 1]],
            cache |-> IF f.cache = e.t THEN "none" ELSE f.cache,
            hist  |-> Append(f.hist, HGone(e.t))]
\* the results ("ok" | "exception") a caller may observe for that call
SetResults(f, e, valid, pol) ==
   IF Idx(f.fl, e.t) = 0 THEN (IF valid THEN {"ok"} ELSE {"exception"})
   ELSE IF pol = "exception" THEN {"exception"}
   ELSE IF pol = "ignore" THEN (IF valid THEN {"ok"} ELSE {"ok", "exception"})   \* parameter may or may not be looked at
   ELSE (IF valid THEN {"ok"} ELSE {"exception"})

\* ---------------------------------------------------------------- the logging framework
Init == logs = <<>> /\ policy = "ignore"

LogIdx(name) == IF \E k \in DOMAIN logs : logs[k].name = name
                  THEN CHOOSE k \in DOMAIN logs : logs[k].name = name ELSE 0
DestIdx(k, dn) == IF \E j \in DOMAIN logs[k].dests : logs[k].dests[j].name = dn
                    THEN CHOOSE j \in DOMAIN logs[k].dests : logs[k].dests[j].name = dn ELSE 0

\* Logging::findCreateLog(name): result = id bit (0-based) or -1 for the documented exception
CreateLogRes(name) == IF LogIdx(name) # 0 THEN LogIdx(name) - 1
                      ELSE IF Len(logs) >= MaxLogCount THEN -1 ELSE Len(logs)
CreateLog(name) ==
   /\ logs' = IF LogIdx(name) # 0 \/ Len(logs) >= MaxLogCount THEN logs
              ELSE Append(logs, [name |-> name, f |-> EmptyF, dests |-> <<>>])
   /\ UNCHANGED policy          \* creating a log does not touch the configured duplicate policy

\* Log::addDestination(name, object); names are kept unique per log by the callers
AddDest(k, dn) ==
   /\ k \in DOMAIN logs /\ DestIdx(k, dn) = 0
   /\ logs' = [logs EXCEPT ![k].dests = Append(@, [name |-> dn, f |-> EmptyF])]
   /\ UNCHANGED policy          \* neither does creating a destination

\* Log::removeDestination(name) of an existing destination
RemoveDest(k, dn) ==
   /\ k \in DOMAIN logs /\ DestIdx(k, dn) # 0
   /\ LET j == DestIdx(k, dn) d == logs[k].dests
      IN logs' = [logs EXCEPT ![k].dests = [x \in 1..(Len(d) - 1) |-> IF x < j THEN d[x] ELSE d[x + 1]]]
   /\ UNCHANGED policy

\* Filters::setDuplicatePolicy(p); a value outside the enumeration is refused
SetPolicyRes(p) == IF p \in Policies THEN "ok" ELSE "exception"
SetPolicy(p) == policy' = (IF p \in Policies THEN p ELSE policy) /\ UNCHANGED logs

\* setting a filter on log k (dn = "") or on its destination dn
TargetKnown(k, dn) == k \in DOMAIN logs /\ (dn = "" \/ DestIdx(k, dn) # 0)
TargetF(k, dn) == IF dn = "" THEN logs[k].f ELSE logs[k].dests[DestIdx(k, dn)].f
SetFilterResults(k, dn, e, valid) ==
   IF ~TargetKnown(k, dn) THEN {"exception"}            \* Log::getDestination throws
   ELSE SetResults(TargetF(k, dn), e, valid, policy)
SetFilter(k, dn, e, valid, keep) ==
   /\ k \in DOMAIN logs
   /\ IF ~TargetKnown(k, dn) THEN UNCHANGED logs
      ELSE LET nf == ApplySet(TargetF(k, dn), e, valid, policy, keep)
           IN logs' = IF dn = "" THEN [logs EXCEPT ![k].f = nf]
                      ELSE [logs EXCEPT ![k].dests[DestIdx(k, dn)].f = nf]
   /\ UNCHANGED policy

\* ---- observers (no state change)
\* logs selected by an id mask (set of bit numbers 0..31) resp. by a name
SelByMask(mask) == {k \in DOMAIN logs : (k - 1) \in mask}
SelByName(name) == {k \in DOMAIN logs : logs[k].name = name}
\* Logging::log(sel, msg) for the messages msgs[1..n] = <<level, class>>:
\* the deliveries <<log, destination, level, class, message number>>, each exactly once
Deliveries(sel, msgs) ==
   UNION {{<<k, logs[k].dests[j].name, msgs[i][1], msgs[i][2], i>> :
                j \in DOMAIN logs[k].dests, i \in DOMAIN msgs} : k \in sel}
Expected(sel, msgs) ==
   UNION {UNION {LET eml == EffMap(logs[k].f.hist)
                     emd == EffMap(logs[k].dests[j].f.hist)
                 IN {<<k, logs[k].dests[j].name, msgs[i][1], msgs[i][2], i>> :
                        i \in {x \in DOMAIN msgs : PassesE(eml, msgs[x][1], msgs[x][2]) /\ PassesE(emd, msgs[x][1], msgs[x][2])}}
                 : j \in DOMAIN logs[k].dests} : k \in sel}
\* a recorded delivery list is right iff it is duplicate free and its elements are exactly the expected ones
DeliveredOK(got, sel, msgs) ==
   LET G == {<<got[i][1], got[i][2], got[i][3], got[i][4], got[i][5]>> : i \in DOMAIN got}
   IN Cardinality(G) = Len(got) /\ G = Expected(sel, msgs)

\* discard_by_level(single id | name, level) = disc.  Sound: never discards a level some message of which
\* would pass the log's filters.  Not useless: a level is only kept if no level filter exists or at least
\* one of the level filters accepts it; an unknown log has nothing to deliver to: anything goes.
\* (The property demands soundness only; "not useless" is a fact about the as-built rule that the model checks in
\* PreCheckSound, recorded executions are NOT required to satisfy it: a more conservative pre-check is legitimate.)
PreCheckOKE(em, l, disc) == disc => ~LevelPassesE(em, l)
PreCheckUsefulE(em, l, disc) == ~disc => (~HasLevelFilterE(em) \/ SomeLevelFilterPassesE(em, l))
PreCheckOK(k, l, disc) == IF k = 0 THEN TRUE ELSE PreCheckOKE(EffMap(logs[k].f.hist), l, disc)

\* Logging::getLog(mask): "found" | "null" | "exception"
GetLogResults(mask) ==
   IF Cardinality(mask) <= 1 THEN (IF SelByMask(mask) # {} THEN {"found"} ELSE {"null"})
   ELSE IF SelByMask(mask) # {} THEN {"exception"}
   ELSE {"null", "exception"}         \* documented to throw, nothing to find: both readings allowed
GetLogByNameResults(name) == IF SelByName(name) # {} THEN {"found"} ELSE {"null"}

\* ---------------------------------------------------------------- the properties
AllF == {logs[k].f : k \in DOMAIN logs} \cup
        UNION {{logs[k].dests[j].f : j \in DOMAIN logs[k].dests} : k \in DOMAIN logs}
TypeOK == /\ policy \in Policies
          /\ Len(logs) <= MaxLogCount
          /\ \A k1, k2 \in DOMAIN logs : k1 # k2 => logs[k1].name # logs[k2].name
\* operational and declarative formulation accept the same messages, for every level and class
OpDeclAgree == \A f \in AllF : LET em == EffMap(f.hist)
                                IN \A l \in Levels, c \in Classes : OpPass(f, l, c) = PassesE(em, l, c)
\* at most one filter object per type; the cached pointer designates an existing level filter
FilterListOK == \A f \in AllF :
                  /\ \A i, j \in DOMAIN f.fl : i # j => f.fl[i].t # f.fl[j].t
                  /\ f.cache # "none" => (f.cache \in LevelTypes /\ Idx(f.fl, f.cache) # 0)
                  /\ \A t \in FilterTypes : (Idx(f.fl, t) # 0) = HHas(f.hist, t)
                  /\ \A i \in DOMAIN f.fl : f.fl[i].t = "cls" => (f.fl[i].cls # {} /\ f.fl[i].cls \subseteq 1..6)
\* the pre-check as built (cached pointer) is sound and not useless in the sense of PreCheckOK
PreCheckSound == \A k \in DOMAIN logs : LET em == EffMap(logs[k].f.hist)
                                         IN \A l \in Levels : /\ PreCheckOKE(em, l, ~AsBuiltProc(logs[k].f, l))
                                                               /\ PreCheckUsefulE(em, l, ~AsBuiltProc(logs[k].f, l))
\* class `undefined` never passes a class filter (it cannot be named)
UndefinedClass == \A f \in AllF : HHas(f.hist, "cls") => LET em == EffMap(f.hist) IN \A l \in Levels : ~PassesE(em, l, 0)
=============================================================================
