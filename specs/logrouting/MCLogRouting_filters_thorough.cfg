SPECIFICATION MCSpec
CONSTANTS
   MaxLogs = 1
   DestNames <- Dests_a
   MaxSet = 3
   LvlFirst = {2, 5}
   LvlMid = {3}
   ClsFirst <- Cls_1_6_none
   LvlLast = {0, 1, 2, 3, 4, 5, 6}
   FullLast = TRUE
   ClsLast <- Cls_none
   SetWhenFull = TRUE
   TopoAfterSet = FALSE
   RemoveAny = TRUE
   ExtraProbeMax = 1
INVARIANTS TypeOK OpDeclAgree FilterListOK PreCheckSound UndefinedClass OnlySelected
VIEW MCView
ACTION_CONSTRAINT EdgeOut
CHECK_DEADLOCK FALSE
