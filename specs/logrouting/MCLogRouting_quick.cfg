SPECIFICATION MCSpec
CONSTANTS
   MaxLogs = 2
   DestNames <- Dests_ab
   MaxSet = 2
   LvlFirst = {3}
   LvlMid = {3}
   ClsFirst <- Cls_26
   LvlLast = {4}
   FullLast = FALSE
   ClsLast <- Cls_6_none
   SetWhenFull = TRUE
   TopoAfterSet = FALSE
   RemoveAny = FALSE
   ExtraProbeMax = 0
INVARIANTS TypeOK OpDeclAgree FilterListOK PreCheckSound UndefinedClass OnlySelected
VIEW MCView
ACTION_CONSTRAINT EdgeOut
CHECK_DEADLOCK FALSE
