SPECIFICATION MCSpec
CONSTANTS
   MaxLogs = 2
   DestNames <- Dests_ab
   MaxSet = 2
   LvlFirst = {2, 5}
   LvlMid = {3}
   ClsFirst <- Cls_26_1
   LvlLast = {4}
   FullLast = FALSE
   ClsLast <- Cls_6_none_34
   SetWhenFull = TRUE
   TopoAfterSet = FALSE
   RemoveAny = TRUE
   ExtraProbeMax = 0
INVARIANTS TypeOK OpDeclAgree FilterListOK PreCheckSound UndefinedClass OnlySelected
VIEW MCView
ACTION_CONSTRAINT EdgeOut
CHECK_DEADLOCK FALSE
