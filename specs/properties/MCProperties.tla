---------------------------- MODULE MCProperties ----------------------------
(* Bounded instance of Properties: every tree with at most MaxEntries entries over the names       *)
(* Names (paths of up to MaxDepth names as arguments), the values Vals, every public operation     *)
(* with every argument.  `act` is the ghost "last action" record; the configuration uses           *)
(* VIEW View so that act does not multiply the states; EdgeOut still sees every generated          *)
(* transition, StepOK (an action property) is evaluated on every generated transition.             *)
(* Where Properties.tla leaves a state-changing outcome open (value given for the name of a link,  *)
(* destination of a link named over a link) the bounded model follows what the code does, so that  *)
(* the replayed sequences stay inside the documented domain (types asked for, no cyclic links);    *)
(* the trace specification accepts every documented outcome.                                       *)
EXTENDS Properties, Json
CONSTANTS Names,        \* names used in the path arguments (byte sequences; may contain the empty name)
          MaxDepth,     \* longest path argument (number of names)
          MaxEntries,   \* trees with more entries are generated and checked, not expanded
          Vals          \* the values offered to addProperty: [t |-> "int"|"str"|"cstr", v |-> <<..>>]
VARIABLE act

NamesAB  == {<<97>>, <<98>>}
NamesABE == {<<97>>, <<98>>, <<>>}
NamesDot == {<<97>>, <<97, 46, 98>>}          \* "a", "a.b": one name under the separator "/", a path of two names under "."
ValsSmall == {[t |-> "int", v |-> <<1>>], [t |-> "cstr", v |-> <<120>>]}
ValsMore  == {[t |-> "int", v |-> <<1>>], [t |-> "int", v |-> <<0 - 12>>], [t |-> "str", v |-> <<120, 32, 121>>], [t |-> "cstr", v |-> <<>>]}

SeqsUpTo(S, n) == UNION {[1..k -> S] : k \in 1..n}
PathArgs == {JoinPath(ns, sep) : ns \in SeqsUpTo(Names, MaxDepth)}
Stored(t) == IF t = "cstr" THEN "str" ELSE t      \* "The value is then stored as an std::string."
TypesOf(items) == [i \in 1..Len(items) |-> items[i].t]

A0(name) == [n |-> name, p |-> <<>>, q |-> <<>>, t |-> "", v |-> <<>>, ok |-> FALSE, ts |-> <<>>, sep |-> sep]
MCInit == Init /\ act = [n |-> "Init", p |-> <<>>, q |-> <<>>, t |-> "", v |-> <<>>, ok |-> FALSE, ts |-> <<>>, sep |-> 0]

\* as built: a value given for the name of a link is refused
AddAsBuilt(p, ok) == LET w == Walk(ent, SplitPath(p, sep)) IN (w.s = "found" /\ ent[w.r].k = "link") => ~ok
\* as built: the destination path is searched without following links on the way; a link as last name is followed
LinkAsBuilt(l, f, ok) == ok = (/\ WalkStrict(ent, SplitPath(f, sep)).s = "found"
                               /\ Walk(ent, SplitPath(l, sep)).s \in {"absent", "absentmid"})
\* the cases of each operation are separate named actions, so that the coverage report (vacuity guard) shows each of them taken
AddCase(p) == LET w == Walk(ent, SplitPath(p, sep)) IN
                 IF w.s = "blocked" THEN "blocked" ELSE IF w.s \in {"absent", "absentmid"} THEN "new" ELSE ent[w.r].k
AddStep(p, val, ok) ==
            /\ Add(p, Stored(val.t), val.v, ok) /\ AddAsBuilt(p, ok)
            /\ act' = [A0("Add") EXCEPT !.p = p, !.t = val.t, !.v = val.v, !.ok = ok, !.ts = TypesOf(IterationFlat(ent'))]
DoAddNew       == \E p \in PathArgs, val \in Vals, ok \in BOOLEAN : AddCase(p) = "new" /\ AddStep(p, val, ok)          \* stored, sub-maps created on demand
DoAddOverwrite == \E p \in PathArgs, val \in Vals, ok \in BOOLEAN : AddCase(p) = "val" /\ AddStep(p, val, ok)          \* "If the property already exists, the value is overwritten."
DoAddBlocked   == \E p \in PathArgs, val \in Vals, ok \in BOOLEAN : AddCase(p) = "blocked" /\ AddStep(p, val, ok)      \* the path leads through a value
DoAddOnMap     == \E p \in PathArgs, val \in Vals, ok \in BOOLEAN : AddCase(p) = "map" /\ AddStep(p, val, ok)          \* the name is a map
DoAddOnLink    == \E p \in PathArgs, val \in Vals, ok \in BOOLEAN : AddCase(p) = "link" /\ AddStep(p, val, ok)         \* the name is a link
LinkCase(l, f) == LET fn == SplitPath(f, sep)
                      ws == WalkStrict(ent, fn)
                      wl == Walk(ent, SplitPath(l, sep))
                  IN IF ~Designates(ent, fn) THEN "nodest"
                     ELSE IF wl.s \in {"blocked", "found"} THEN "conflict"
                     ELSE IF ws.s # "found" THEN "throughlink"          \* the destination is only reached over a link
                     ELSE IF ent[ws.r].k = "link" THEN "tolink"          \* the destination path names a link
                     ELSE "plain"
LinkStep(l, f, ok) ==
            /\ AddLink(l, f, ok) /\ LinkAsBuilt(l, f, ok)
            /\ act' = [A0("Link") EXCEPT !.p = l, !.q = f, !.ok = ok, !.ts = TypesOf(IterationFlat(ent'))]
DoLinkPlain    == \E l \in PathArgs, f \in PathArgs, ok \in BOOLEAN : LinkCase(l, f) = "plain" /\ LinkStep(l, f, ok)
DoLinkToLink   == \E l \in PathArgs, f \in PathArgs, ok \in BOOLEAN : LinkCase(l, f) = "tolink" /\ LinkStep(l, f, ok)
DoLinkThrough  == \E l \in PathArgs, f \in PathArgs, ok \in BOOLEAN : LinkCase(l, f) = "throughlink" /\ LinkStep(l, f, ok)
DoLinkNoDest   == \E l \in PathArgs, f \in PathArgs, ok \in BOOLEAN : LinkCase(l, f) = "nodest" /\ LinkStep(l, f, ok)
DoLinkConflict == \E l \in PathArgs, f \in PathArgs, ok \in BOOLEAN : LinkCase(l, f) = "conflict" /\ LinkStep(l, f, ok)
LookCase(p) == LET ns == SplitPath(p, sep) IN
                  IF IsValueAt(ent, ns) THEN (IF WalkStrict(ent, ns).s = "found" /\ ent[WalkStrict(ent, ns).r].k = "val" THEN "value" ELSE "linkedvalue")
                  ELSE IF IsMapAt(ent, ns) THEN "map" ELSE "none"
HasStep(p, ok) == Has(p, ok) /\ act' = [A0("Has") EXCEPT !.p = p, !.ok = ok]
DoHasValue  == \E p \in PathArgs, ok \in BOOLEAN : LookCase(p) = "value" /\ HasStep(p, ok)
DoHasLinked == \E p \in PathArgs, ok \in BOOLEAN : LookCase(p) = "linkedvalue" /\ HasStep(p, ok)     \* a value reached over a link
DoHasMap    == \E p \in PathArgs, ok \in BOOLEAN : LookCase(p) = "map" /\ HasStep(p, ok)
DoHasNone   == \E p \in PathArgs, ok \in BOOLEAN : LookCase(p) = "none" /\ HasStep(p, ok)
GetStep(p, t) ==
            LET ns == SplitPath(p, sep)
                ok == IsValueAt(ent, ns)
                val == IF ok THEN ValueAt(ent, ns) ELSE [t |-> t, v |-> <<>>]
            IN Get(p, t, ok, val) /\ act' = [A0("Get") EXCEPT !.p = p, !.t = t, !.ok = ok, !.v = val.v]
DoGetValue  == \E p \in PathArgs, t \in {"int", "str"} : LookCase(p) = "value" /\ GetStep(p, t)
DoGetLinked == \E p \in PathArgs, t \in {"int", "str"} : LookCase(p) = "linkedvalue" /\ GetStep(p, t)
DoGetMap    == \E p \in PathArgs, t \in {"int", "str"} : LookCase(p) = "map" /\ GetStep(p, t)
DoGetNone   == \E p \in PathArgs, t \in {"int", "str"} : LookCase(p) = "none" /\ GetStep(p, t)
DoIter == UNCHANGED vars /\ act' = [A0("Iter") EXCEPT !.ts = TypesOf(IterationFlat(ent))]
DoPrint == UNCHANGED vars /\ act' = A0("Print")
MCNext == \/ DoAddNew \/ DoAddOverwrite \/ DoAddBlocked \/ DoAddOnMap \/ DoAddOnLink
          \/ DoLinkPlain \/ DoLinkToLink \/ DoLinkThrough \/ DoLinkNoDest \/ DoLinkConflict
          \/ DoHasValue \/ DoHasLinked \/ DoHasMap \/ DoHasNone
          \/ DoGetValue \/ DoGetLinked \/ DoGetMap \/ DoGetNone
          \/ DoIter \/ DoPrint
MCSpec == MCInit /\ [][MCNext]_<<vars, act>>
View == vars
Bound == Cardinality(DOMAIN ent) <= MaxEntries

\* ---- state invariants of the bounded model: the formulations agree on every reachable tree
MaxLen == Cardinality(DOMAIN ent)    \* an access path visits distinct entries (the tree is acyclic)
UsedNames == Names \cup {LastOf(p) : p \in DOMAIN ent}
Cands == SeqsUpTo(UsedNames, MaxLen)                 \* candidate access paths
TwoFormulations ==
   /\ \E its \in {IterationFlat(ent)} :
         /\ Iteration(ent) = its                                             \* nested (operational) vs flat
         /\ \E C \in {Cands} : IterationIs(ent, its, C)                      \* operational vs declarative
   /\ \A s \in PathArgs : SplitOK(s, sep) /\ LookupAgree(ent, s, sep)       \* text-based nested lookup vs split + flat walk
\* "the values can be accessed using the original path and name, or the one created with the link", "entries [added]
\* using the link path ... will be available through both paths": behind a link and behind its destination the same entries
LinksAlias ==
   \A p \in DOMAIN ent : ent[p].k = "link" =>
      \A s \in {<<>>} \cup SeqsUpTo(UsedNames, 2) :
         LET a == p \o s
             b == ent[p].to \o s
         IN /\ Designates(ent, a) = Designates(ent, b)
            /\ Designates(ent, a) => Target(ent, a) = Target(ent, b)
\* every value stored under a real path is found again under that path (the real path is an access path)
StoredFound == \A p \in DOMAIN ent : ent[p].k = "val" => (IsValueAt(ent, p) /\ ValueAt(ent, p) = [t |-> ent[p].t, v |-> ent[p].v])

\* ---- action property: what a step promises, stated on access paths
Arg(s) == SplitPath(s, sep)
StepOK ==
   /\ \A p \in DOMAIN ent : p \in DOMAIN ent' /\ ent'[p].k = ent[p].k                   \* entries stay, kinds are permanent
   /\ (act'.n \in {"Add", "Link"} /\ ~act'.ok) => ent' = ent                            \* a refused call changes nothing
   /\ (act'.n = "Add" /\ act'.ok) =>
         /\ IsValueAt(ent', Arg(act'.p)) /\ ValueAt(ent', Arg(act'.p)) = [t |-> Stored(act'.t), v |-> act'.v]
         /\ \A c \in Cands : IsValueAt(ent, c) =>                                        \* all other values are untouched
               /\ IsValueAt(ent', c)
               /\ Target(ent', c) # Target(ent', Arg(act'.p)) => ValueAt(ent', c) = ValueAt(ent, c)
   /\ (act'.n = "Link" /\ act'.ok) =>
         /\ \A s \in {<<>>} \cup SeqsUpTo(UsedNames, 2) :
               /\ Designates(ent', Arg(act'.p) \o s) = Designates(ent', Arg(act'.q) \o s)
               /\ Designates(ent', Arg(act'.p) \o s) => Target(ent', Arg(act'.p) \o s) = Target(ent', Arg(act'.q) \o s)
         /\ \A c \in Cands : IsValueAt(ent, c) => (IsValueAt(ent', c) /\ ValueAt(ent', c) = ValueAt(ent, c))
   /\ act'.n \in {"Has", "Get", "Iter", "Print"} => ent' = ent
StepProp == [][StepOK]_<<vars, act>>

St(E, c) == [sep |-> c, ents |-> Listing(E)]
EdgeOut == PrintT("EDGE " \o ToJson([i |-> (act.n = "Init"), pre |-> St(ent, sep), a |-> act', post |-> St(ent', sep')]))
=============================================================================
