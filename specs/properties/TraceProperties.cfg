SPECIFICATION TSpec
CONSTANTS Seps = {}
INVARIANTS TreeWF ValuesFound
POSTCONDITION Accepted
CHECK_DEADLOCK FALSE
