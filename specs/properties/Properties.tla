----------------------------- MODULE Properties -----------------------------
(* celma::container::Properties (extension component X04): a tree of named entries addressed by    *)
(* paths (names joined by a separator character), typed values, sub-maps created on demand, links. *)
(*                                                                                                 *)
(* Abstract state (what the public API exposes):                                                   *)
(*   sep   the separator character of the instance (constructor argument, default '.')             *)
(*   ent   the entries, as a FLAT map from the REAL path of an entry (sequence of names, a name is  *)
(*         a sequence of byte codes) to the entry: a value [t, v], a map, or a link [to, fr] where *)
(*         `to` is the real path of the entry the link points to (never a link itself) and `fr`    *)
(*         the text given as destination when the link was created (what the listing shows).       *)
(*         The root map is the path <<>> and has no entry of its own.                              *)
(* The nested view of the same state (a map of names to values / maps / links, recursively) is     *)
(* derived by Nest(); iteration and listing are formulated on it and, declaratively, on the flat   *)
(* map; the bounded model checks the formulations against each other.                              *)
(*                                                                                                 *)
(* One action per public operation; the result of the call is a parameter of the action, so an     *)
(* action is enabled exactly for the (arguments, result) combinations the documentation allows.    *)
(* Where the documentation is silent the action allows every reading (see docs/notes_properties.md)*)
EXTENDS Integers, Sequences, FiniteSets, TLC

CONSTANTS Seps          \* separator characters explored by the bounded model
VARIABLES sep, ent
vars == <<sep, ent>>

\* ---------------------------------------------------------------- entries
ValE(t, v)   == [k |-> "val",  t |-> t,  v |-> v,    to |-> <<>>, fr |-> <<>>]
MapE         == [k |-> "map",  t |-> "", v |-> <<>>, to |-> <<>>, fr |-> <<>>]
LinkE(to, f) == [k |-> "link", t |-> "", v |-> <<>>, to |-> to,   fr |-> f]
\* value of type int n is ValE("int", <<n>>), a string is ValE("str", <<byte codes>>)
Empty == <<>>                                        \* the function with the empty domain

\* ---------------------------------------------------------------- paths
\* "the path to a value is the list of names concatenated by the specified separator" (Properties):
\* operational reading = NamePathRemain ("split a property path into the first name and the remaining path")
HasSep(s, c) == \E i \in 1..Len(s) : s[i] = c
FirstSep(s, c) == CHOOSE i \in 1..Len(s) : s[i] = c /\ \A j \in 1..(i-1) : s[j] # c
RECURSIVE SplitPath(_, _)
SplitPath(s, c) == IF HasSep(s, c)
                     THEN <<SubSeq(s, 1, FirstSep(s, c) - 1)>> \o SplitPath(SubSeq(s, FirstSep(s, c) + 1, Len(s)), c)
                     ELSE <<s>>
RECURSIVE JoinPath(_, _)
JoinPath(ns, c) == IF ns = <<>> THEN <<>>
                   ELSE IF Len(ns) = 1 THEN ns[1]
                   ELSE ns[1] \o <<c>> \o JoinPath(Tail(ns), c)
\* declarative reading: the names are the maximal separator-free pieces; joining them gives the path back
SplitOK(s, c) == LET ns == SplitPath(s, c) IN
                    /\ JoinPath(ns, c) = s
                    /\ \A i \in 1..Len(ns) : ~HasSep(ns[i], c)
                    /\ Len(ns) = Cardinality({i \in 1..Len(s) : s[i] = c}) + 1

IsPrefixOf(p, q) == Len(p) <= Len(q) /\ SubSeq(q, 1, Len(p)) = p
ParentOf(p) == SubSeq(p, 1, Len(p) - 1)
LastOf(p) == p[Len(p)]

\* ---------------------------------------------------------------- resolution of an access path
\* Walks the names from the real map `cur`.  A link met on the way that points to a map is followed
\* ("the values can be accessed using the original path and name, or the one created with the link").
\* Result: s = "found"  (r = real path of the entry named by the last name, a link is NOT followed there)
\*             "absent" (all but the last name exist; r = real path the entry would get)
\*             "absentmid" (r = real path of the first missing map, rest = names below it)
\*             "blocked" (a name on the way is a value, or a link to a value)
RECURSIVE WalkIn(_, _, _, _)
WalkIn(E, cur, ns, follow) ==
   LET c == cur \o <<Head(ns)>> IN
   IF Len(ns) = 1
     THEN [s |-> IF c \in DOMAIN E THEN "found" ELSE "absent", r |-> c, rest |-> <<>>]
     ELSE IF c \notin DOMAIN E THEN [s |-> "absentmid", r |-> c, rest |-> Tail(ns)]
          ELSE IF E[c].k = "map" THEN WalkIn(E, c, Tail(ns), follow)
          ELSE IF follow /\ E[c].k = "link" /\ E[E[c].to].k = "map" THEN WalkIn(E, E[c].to, Tail(ns), follow)
          ELSE [s |-> "blocked", r |-> c, rest |-> Tail(ns)]
Walk(E, names) == WalkIn(E, <<>>, names, TRUE)
WalkStrict(E, names) == WalkIn(E, <<>>, names, FALSE)      \* no link is followed on the way
Deref(E, r) == IF E[r].k = "link" THEN E[r].to ELSE r
\* the real path of the entry an access path designates (links followed everywhere); <<>> if there is none
Target(E, names) == LET w == Walk(E, names) IN IF w.s = "found" THEN Deref(E, w.r) ELSE <<>>
Designates(E, names) == Walk(E, names).s = "found"
IsValueAt(E, names) == Designates(E, names) /\ E[Target(E, names)].k = "val"
IsMapAt(E, names) == Designates(E, names) /\ E[Target(E, names)].k = "map"
ValueAt(E, names) == LET e == E[Target(E, names)] IN [t |-> e.t, v |-> e.v]

\* ---------------------------------------------------------------- well-formedness of the tree
WellFormed(E) ==
   /\ \A p \in DOMAIN E : /\ Len(p) >= 1
                          /\ Len(p) > 1 => (ParentOf(p) \in DOMAIN E /\ E[ParentOf(p)].k = "map")   \* parents are maps
                          /\ E[p].k \in {"val", "map", "link"}
                          /\ E[p].k = "val" => E[p].t \in {"int", "str"}
                          /\ E[p].k = "link" => (E[p].to \in DOMAIN E /\ E[E[p].to].k # "link")    \* a link resolves in one step
\* the real maps reachable from real path r through containment and links (for the cycle guard)
LinksUnder(E, S) == {p \in DOMAIN E : E[p].k = "link" /\ \E y \in S : IsPrefixOf(y, p)}
RECURSIVE ReachFrom(_, _)
ReachFrom(E, S) == LET T == S \cup {E[p].to : p \in LinksUnder(E, S)} IN IF T = S THEN S ELSE ReachFrom(E, T)
\* a new entry below the existing real map `par` that points to `tgt` closes a cycle iff `par` lies in a sub-tree reachable from tgt
ClosesCycle(E, par, tgt) == \E y \in ReachFrom(E, {tgt}) : IsPrefixOf(y, par)
Acyclic(E) == \A p \in DOMAIN E : E[p].k = "link" => ~ClosesCycle(E, ParentOf(p), E[p].to)

\* ---------------------------------------------------------------- creating entries
\* maps "created on demand" for the missing real path r and the names `rest` below it, then the entry e at the end
RECURSIVE Chain(_, _, _)
Chain(r, rest, e) == IF rest = <<>> THEN (r :> e) ELSE (r :> MapE) @@ Chain(r \o <<Head(rest)>>, Tail(rest), e)
\* state after putting entry e where the walk w ended (w.s in {"absent", "absentmid"})
Put(E, w, e) == Chain(w.r, w.rest, e) @@ E
Overwrite(E, r, e) == [p \in DOMAIN E |-> IF p = r THEN e ELSE E[p]]

\* ---------------------------------------------------------------- the actions
Init == sep \in Seps /\ ent = Empty

\* addProperty( name, value): "true if the property (value) could be added/stored, false if the given path conflicts
\* with an existing property value";  PropertyCont::addProperty: "If the property already exists, the value is overwritten."
\* ok is the returned value.
Add(p, t, v, ok) ==
   LET ns == SplitPath(p, sep)
       w  == Walk(ent, ns)
   IN /\ t \in {"int", "str"}
      /\ CASE w.s = "blocked" -> ~ok /\ UNCHANGED ent                        \* the path leads through a value
           [] w.s \in {"absent", "absentmid"} -> ok /\ ent' = Put(ent, w, ValE(t, v))
           [] OTHER ->                                                        \* the name exists
                CASE ent[w.r].k = "val" -> ok /\ ent' = Overwrite(ent, w.r, ValE(t, v))      \* overwritten, type may change
                  [] ent[w.r].k = "map" -> ~ok /\ UNCHANGED ent              \* conflicts with the values below it
                  [] OTHER ->                                                 \* a link: not documented whether the linked value
                       \/ ~ok /\ UNCHANGED ent                                \* is overwritten or the call refused
                       \/ ok /\ ent[ent[w.r].to].k = "val" /\ ent' = Overwrite(ent, ent[w.r].to, ValE(t, v))
      /\ UNCHANGED sep

\* addLink( link, from): "Creates an entry under link that points to the from entry, which may be a property map or a
\* value"; "true if the link could be created, i.e. the destination entry was found".
\* Not documented: whether `from` may itself lead over links (then the call may also refuse).  A name that exists is
\* not replaced ("Names are unique on each level", overwriting is documented for values only).
LinkDomain(l, f) ==        \* outside: a link that would make the tree cyclic (the documentation does not say what happens)
   LET wl == Walk(ent, SplitPath(l, sep))
       fn == SplitPath(f, sep)
   IN (Designates(ent, fn) /\ wl.s \in {"absent", "absentmid"}) => ~ClosesCycle(ent, ParentOf(wl.r), Target(ent, fn))
AddLink(l, f, ok) ==
   LET ln == SplitPath(l, sep)
       fn == SplitPath(f, sep)
       wl == Walk(ent, ln)
       ws == WalkStrict(ent, fn)
       plain == ws.s = "found" /\ ent[ws.r].k # "link"      \* `from` names a value or a map without the help of a link
   IN /\ LinkDomain(l, f)
      /\ IF ~Designates(ent, fn) \/ wl.s \in {"blocked", "found"}
           THEN ~ok /\ UNCHANGED ent                         \* destination not found / the link name conflicts
           ELSE \/ ok /\ ent' = Put(ent, wl, LinkE(Target(ent, fn), f))
                \/ ~ok /\ ~plain /\ UNCHANGED ent
      /\ UNCHANGED sep

\* hasProperty( name): "Returns if a property with the specified name exists."  A property is "a value with a name":
\* for a name that designates a map the documentation does not decide.
Has(p, ok) ==
   LET ns == SplitPath(p, sep) IN
   /\ IF IsValueAt(ent, ns) THEN ok
      ELSE IF IsMapAt(ent, ns) THEN ok \in BOOLEAN
      ELSE ~ok
   /\ UNCHANGED vars

\* getProperty< T>( value, name): "true if the property with the specified name was found", "Returns the value of the
\* property, if found".  Asking with another type than the stored one is outside the documented use
\* (test_properties_c.cpp: "asking for a property with the wrong type crashes"): not enabled.
GetDomain(p, t) == LET ns == SplitPath(p, sep) IN IsValueAt(ent, ns) => ValueAt(ent, ns).t = t
Get(p, t, ok, val) ==
   LET ns == SplitPath(p, sep) IN
   /\ GetDomain(p, t)
   /\ ok = IsValueAt(ent, ns)
   /\ ok => val = ValueAt(ent, ns)
   /\ UNCHANGED vars

\* ---------------------------------------------------------------- order of names on one level
\* property_map_t: "The type used for the property tree internally" = std::map< std::string, ...>: ascending byte-wise
ByteLess(a, b) == \E k \in 0..Len(a) :
                     /\ k <= Len(b) /\ \A j \in 1..k : a[j] = b[j]
                     /\ \/ k = Len(a) /\ k < Len(b)
                        \/ k < Len(a) /\ k < Len(b) /\ a[k+1] < b[k+1]
RECURSIVE SortNames(_)
SortNames(S) == IF S = {} THEN <<>>
                ELSE LET m == CHOOSE x \in S : \A y \in S : y = x \/ ByteLess(x, y) IN <<m>> \o SortNames(S \ {m})
ChildNames(E, r) == {p[Len(r) + 1] : p \in {q \in DOMAIN E : Len(q) = Len(r) + 1 /\ IsPrefixOf(r, q)}}
\* order of access paths: by names, left to right (NOT the order of the joined strings)
RECURSIVE PathLess(_, _)
PathLess(a, b) == IF a = <<>> THEN b # <<>>
                  ELSE IF b = <<>> THEN FALSE
                  ELSE IF Head(a) = Head(b) THEN PathLess(Tail(a), Tail(b))
                  ELSE ByteLess(Head(a), Head(b))

\* ---------------------------------------------------------------- the nested view
\* Nest(E, r): the map at real path r as a function name -> [k, t, v, to, fr, sub] where sub is the nested map of a map
RECURSIVE Nest(_, _)
Nest(E, r) == [n \in ChildNames(E, r) |->
                 LET e == E[r \o <<n>>] IN
                 [k |-> e.k, t |-> e.t, v |-> e.v, to |-> e.to, fr |-> e.fr,
                  sub |-> IF e.k = "map" THEN Nest(E, r \o <<n>>) ELSE Empty]]
\* the nested map a real path designates, starting from the nested root
RECURSIVE SubOf(_, _)
SubOf(N, r) == IF r = <<>> THEN N ELSE SubOf(N[Head(r)].sub, Tail(r))
NodeOf(N, r) == SubOf(N, ParentOf(r))[LastOf(r)]

\* Operational formulation of the lookup on the nested view, on the path TEXT: NamePathRemain splits off "the first
\* name and the remaining path", the sub-map (or the map a link points to) is searched with the remaining path.
NoNode == [k |-> "none", t |-> "", v |-> <<>>, to |-> <<>>, fr |-> <<>>, sub |-> Empty]
RECURSIVE FindNested(_, _, _, _)
FindNested(root, M, s, c) ==
   IF HasSep(s, c)
     THEN LET i == FirstSep(s, c)
              first == SubSeq(s, 1, i - 1)
              remain == SubSeq(s, i + 1, Len(s))
          IN IF first \notin DOMAIN M THEN NoNode
             ELSE LET e == M[first]
                      d == IF e.k = "link" THEN NodeOf(root, e.to) ELSE e
                  IN IF d.k = "map" THEN FindNested(root, d.sub, remain, c) ELSE NoNode
     ELSE IF s \notin DOMAIN M THEN NoNode
          ELSE IF M[s].k = "link" THEN NodeOf(root, M[s].to) ELSE M[s]
\* ... agrees with the resolution of the split path on the flat map
LookupAgree(E, s, c) ==
   LET N == Nest(E, <<>>)
       d == FindNested(N, N, s, c)
       ns == SplitPath(s, c)
   IN /\ (d.k = "none") = ~Designates(E, ns)
      /\ d.k # "none" => LET e == E[Target(E, ns)] IN d.k = e.k /\ d.t = e.t /\ d.v = e.v

\* ---------------------------------------------------------------- iteration
\* PropertyIterator: "when a sub-map is encountered, the current iterator must be stored, then an iterator is created
\* for the sub-map, and when we finished processing the sub-map we return and continue with the previous iterator";
\* begin(): "the first property value"; path(): "the path of the current entry (without the name of the entry itself)",
\* name(): "the name of the current entry (without the path to the entry)"; a link is visited under its own name/path.
\* Operational formulation on the nested view: items [p (access path of the map), n (name), t, v]
RECURSIVE IterNested(_, _, _, _)
IterNested(root, M, a, ns) ==
   IF ns = <<>> THEN <<>>
   ELSE LET n == Head(ns)
            e == M[n]
            d == IF e.k = "link" THEN NodeOf(root, e.to) ELSE e
        IN (IF d.k = "val" THEN <<[p |-> a, n |-> n, t |-> d.t, v |-> d.v]>>
            ELSE IterNested(root, d.sub, a \o <<n>>, SortNames(DOMAIN d.sub)))
           \o IterNested(root, M, a, Tail(ns))
Iteration(E) == LET N == Nest(E, <<>>) IN IterNested(N, N, <<>>, SortNames(DOMAIN N))
\* the same on the flat map (used by the trace specification: no nested copy of the state is built)
RECURSIVE IterFlat(_, _, _, _)
IterFlat(E, r, a, ns) ==
   IF ns = <<>> THEN <<>>
   ELSE LET n == Head(ns)
            d == Deref(E, r \o <<n>>)
        IN (IF E[d].k = "val" THEN <<[p |-> a, n |-> n, t |-> E[d].t, v |-> E[d].v]>>
            ELSE IterFlat(E, d, a \o <<n>>, SortNames(ChildNames(E, d))))
           \o IterFlat(E, r, a, Tail(ns))
IterationFlat(E) == IterFlat(E, <<>>, <<>>, SortNames(ChildNames(E, <<>>)))
\* Declarative formulation: the access paths (over the candidate set C) that designate a value, each exactly once,
\* in ascending order of their names, each with the value it designates.
IterationIs(E, items, C) ==
   /\ {it.p \o <<it.n>> : it \in {items[i] : i \in 1..Len(items)}} = {c \in C : IsValueAt(E, c)}
   /\ \A i \in 1..Len(items) : /\ IsValueAt(E, items[i].p \o <<items[i].n>>)
                               /\ [t |-> items[i].t, v |-> items[i].v] = ValueAt(E, items[i].p \o <<items[i].n>>)
   /\ \A i \in 1..(Len(items) - 1) : PathLess(items[i].p \o <<items[i].n>>, items[i+1].p \o <<items[i+1].n>>)
\* the three clauses separately for a recorded iteration (no candidate set: completeness by counting)
IterSound(E, items) == \A i \in 1..Len(items) : LET c == items[i].p \o <<items[i].n>> IN
                          /\ IsValueAt(E, c) /\ [t |-> items[i].t, v |-> items[i].v] = ValueAt(E, c)
IterOnce(items) == \A i, j \in 1..Len(items) : i # j => items[i].p \o <<items[i].n>> # items[j].p \o <<items[j].n>>
IterSorted(items) == \A i \in 1..(Len(items) - 1) : PathLess(items[i].p \o <<items[i].n>>, items[i+1].p \o <<items[i+1].n>>)

\* ---------------------------------------------------------------- listing (operator <<)
\* "Prints all property values, one per line as "name = value", displaying sub-trees by indented blocks.  Links are
\* shown by their name and the entry they link to.  Since the position of the link destination is not known at this
\* time, "[?]" is printed before the name of the destination entry."
\* Expected items in listing order: [d (depth), k, n (name), e (entry)]; links are not expanded.
RECURSIVE ListFlat(_, _, _, _)
ListFlat(E, r, depth, ns) ==
   IF ns = <<>> THEN <<>>
   ELSE LET n == Head(ns)
            c == r \o <<n>>
        IN <<[d |-> depth, k |-> E[c].k, n |-> n, e |-> E[c]]>>
           \o (IF E[c].k = "map" THEN ListFlat(E, c, depth + 1, SortNames(ChildNames(E, c))) ELSE <<>>)
           \o ListFlat(E, r, depth, Tail(ns))
Listing(E) == ListFlat(E, <<>>, 0, SortNames(ChildNames(E, <<>>)))
RECURSIVE Digits(_)
Digits(n) == IF n < 10 THEN <<48 + n>> ELSE Digits(n \div 10) \o <<48 + (n % 10)>>
Decimal(n) == IF n < 0 THEN <<45>> \o Digits(0 - n) ELSE Digits(n)
Render(e) == IF e.t = "int" THEN Decimal(e.v[1]) ELSE e.v
IsSuffixOf(s, t) == Len(s) <= Len(t) /\ SubSeq(t, Len(t) - Len(s) + 1, Len(t)) = s
Marker == <<91, 63, 93>>                                   \* "[?]"
\* a line [ind, txt] (txt without the leading blanks) shows the item; withMarker: the "[?]" clause
LineShows(line, it, c, withMarker) ==
   CASE it.k = "val"  -> line.txt = it.n \o <<32, 61, 32>> \o Render(it.e)                 \* "name = value"
     [] it.k = "map"  -> IsPrefixOf(it.n, line.txt)                                         \* the block is headed by the name
     [] OTHER         -> /\ IsPrefixOf(it.n, line.txt)                                      \* "their name and the entry they link to"
                         /\ \E dst \in {it.e.fr, JoinPath(it.e.to, c)} :
                               /\ IsSuffixOf(dst, line.txt) /\ Len(line.txt) >= Len(it.n) + Len(dst)
                               /\ withMarker => LET before == SubSeq(line.txt, 1, Len(line.txt) - Len(dst)) IN IsSuffixOf(Marker, before)
\* the listing is outside the documented use when a map has an empty name or a text contains a line break
ListDomain(E) == \A p \in DOMAIN E : /\ (E[p].k = "map" => LastOf(p) # <<>>)
                                     /\ \A i \in 1..Len(LastOf(p)) : LastOf(p)[i] # 10
                                     /\ (E[p].k = "val" /\ E[p].t = "str") => \A i \in 1..Len(E[p].v) : E[p].v[i] # 10
\* lines are the raw lines of the output (without the line break); the width of one indentation step is not documented
Blanks(line, k) == Len(line) >= k /\ \A i \in 1..k : line[i] = 32
ListingIs(E, lines, c, withMarker) ==
   \E its \in {Listing(E)} :              \* (binds its to the value: evaluated once)
   /\ Len(lines) = Len(its)
   /\ \E step \in 1..16 : \A i \in 1..Len(its) :                                          \* "indented blocks"
         LET ind == step * its[i].d IN
         /\ Blanks(lines[i], ind)
         /\ LineShows([txt |-> SubSeq(lines[i], ind + 1, Len(lines[i]))], its[i], c, withMarker)

\* ---------------------------------------------------------------- state properties
TreeOK == WellFormed(ent) /\ Acyclic(ent)
=============================================================================
