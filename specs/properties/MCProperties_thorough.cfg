SPECIFICATION MCSpec
CONSTANTS Seps = {46}
          Names <- NamesABE
          MaxDepth = 2
          MaxEntries = 3
          Vals <- ValsMore
INVARIANTS TreeOK TwoFormulations LinksAlias StoredFound
PROPERTY StepProp
VIEW View
CONSTRAINT Bound
ACTION_CONSTRAINT EdgeOut
CHECK_DEADLOCK FALSE
