SPECIFICATION MCSpec
CONSTANTS Seps = {46, 47}
          Names <- NamesDot
          MaxDepth = 2
          MaxEntries = 4
          Vals <- ValsSmall
INVARIANTS TreeOK TwoFormulations LinksAlias StoredFound
PROPERTY StepProp
VIEW View
CONSTRAINT Bound
ACTION_CONSTRAINT EdgeOut
CHECK_DEADLOCK FALSE
