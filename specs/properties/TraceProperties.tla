---------------------------- MODULE TraceProperties ----------------------------
(* Validates executions recorded from celma::container::Properties (harness/properties_driver.cpp). *)
(* Events (all fields always present; texts are arrays of byte codes):                               *)
(*  {"e":"Reset","sep":c}                         fresh Properties( c)                               *)
(*  {"e":"Add","p":[..],"t":"int"|"str"|"cstr","v":[..],"res":b}     addProperty( p, value)          *)
(*       v = [n] for an int, the bytes of the text otherwise; "cstr" = the const char* overload      *)
(*  {"e":"Link","p":[..],"q":[..],"res":b}                           addLink( p, q)                  *)
(*  {"e":"Has","p":[..],"res":b}                                     hasProperty( p)                 *)
(*  {"e":"Get","p":[..],"t":"int"|"str","res":b,"v":[..]}            getProperty< T>( value, p)      *)
(*  {"e":"Iter","items":[{"p","n","pn","t","v","o","eq","eqp"}..],"endeq":b,"trunc":b}               *)
(*       one item per position from begin() to end(): path(), name(), pathAndName(), the type asked  *)
(*       for and value< T>(), o = pathAndName() of the copy taken before the increment (prefix ++)   *)
(*       or returned by it (postfix ++), eq = a second iterator advanced in step compares equal,     *)
(*       eqp = the position compares equal to the previous position; endeq = the iterator equals     *)
(*       end() after the loop; trunc = the driver stopped the loop (runaway iteration)               *)
(*  {"e":"Print","lines":[[..]..],"tail":[..]}    operator <<: the lines, and what follows the last   *)
(*       line break                                                                                  *)
(*  {"e":"Final","lines":[[..]..],"tail":[..]}    the same output, checked for the documented "[?]"  *)
(*       before the destination of a link (only recorded with --marker 1)                            *)
EXTENDS Properties, Json, IOUtils
VARIABLE l
Log == ndJsonDeserialize(IOEnv.TRACE)
Ev == Log[l]
Stored(t) == IF t = "cstr" THEN "str" ELSE t        \* "The value is then stored as an std::string."

\* the path texts of the iterator are only determined when no map (or link to a map) has an empty name
\* (the documentation does not say how an empty name is shown in a path)
PathsDetermined(E) == \A p \in DOMAIN E : (E[Deref(E, p)].k = "map") => LastOf(p) # <<>>
PathNames(txt) == IF txt = <<>> THEN <<>> ELSE SplitPath(txt, sep)
\* (\E x \in {e} : .. binds x to the VALUE of e: TLC evaluates e once)
IterOK(items) ==
   \E exp \in {IterationFlat(ent)} :
   \E conv \in {[i \in 1..Len(items) |-> [p |-> PathNames(items[i].p), n |-> items[i].n, t |-> items[i].t, v |-> items[i].v]]} :
      /\ ~Ev.trunc /\ Ev.endeq
      /\ Len(items) = Len(exp)
      /\ \A i \in 1..Len(exp) : /\ items[i].n = exp[i].n /\ items[i].t = exp[i].t /\ items[i].v = exp[i].v
                                /\ items[i].eq /\ ~items[i].eqp
      /\ PathsDetermined(ent) =>
            /\ \A i \in 1..Len(exp) : /\ items[i].p = JoinPath(exp[i].p, sep)
                                      /\ items[i].pn = JoinPath(exp[i].p \o <<exp[i].n>>, sep)
                                      /\ items[i].o = items[i].pn
            \* the declarative clauses on what was recorded
            /\ IterSound(ent, conv) /\ IterOnce(conv) /\ IterSorted(conv)
PrintOK(withMarker) == /\ Ev.tail = <<>>
                       /\ ListDomain(ent) => ListingIs(ent, Ev.lines, sep, withMarker)

TInit == l = 1 /\ sep = 0 /\ ent = Empty
TNext == /\ l <= Len(Log) /\ l' = l + 1
         /\ \/ Ev.e = "Add"   /\ Add(Ev.p, Stored(Ev.t), Ev.v, Ev.res)
            \/ Ev.e = "Link"  /\ AddLink(Ev.p, Ev.q, Ev.res)
            \/ Ev.e = "Has"   /\ Has(Ev.p, Ev.res)
            \/ Ev.e = "Get"   /\ Get(Ev.p, Ev.t, Ev.res, [t |-> Ev.t, v |-> Ev.v])
            \* (P = TRUE: evaluated as a value, so that a bounded quantifier in P does not multiply the successor states)
            \/ Ev.e = "Iter"  /\ (IterOK(Ev.items) = TRUE) /\ UNCHANGED vars
            \/ Ev.e = "Print" /\ (PrintOK(FALSE) = TRUE) /\ UNCHANGED vars
            \/ Ev.e = "Final" /\ (PrintOK(TRUE) = TRUE) /\ UNCHANGED vars
            \/ Ev.e = "Reset" /\ sep' = Ev.sep /\ ent' = Empty
TSpec == TInit /\ [][TNext]_<<vars, l>>
TreeWF == WellFormed(ent)
ValuesFound == \A p \in DOMAIN ent : ent[p].k = "val" => (IsValueAt(ent, p) /\ ValueAt(ent, p) = [t |-> ent[p].t, v |-> ent[p].v])
Accepted == TLCGet("stats").diameter = Len(Log) + 1
=============================================================================
