SPECIFICATION MCSpec
CONSTANTS FlagFirst = FALSE
          MaxObs = 1
INVARIANTS TypeOK ObserveOK
CHECK_DEADLOCK FALSE
