------------------------------ MODULE Singleton ------------------------------
(* celma::common::Singleton<T>  (property C20, first half).                                    *)
(*                                                                                             *)
(* n threads call  T::instance(t)  once per epoch (the argument is the caller's number; the    *)
(* documentation says the arguments are ignored when the object exists already).  reset() is   *)
(* documented as "deletes an existing singleton object; upon a subsequent call to instance()   *)
(* a new singleton object will be created"; it is modelled between epochs only (ResetAll:      *)
(* nobody is inside instance() and nobody uses a reference any more - a reset() concurrent     *)
(* with users of the reference is outside anything the documentation promises).                *)
(*                                                                                             *)
(* Steps of one call (double-checked creation as documented for instance()); the value of pc   *)
(* is the name of the verification point the thread is parked at, the step is what it does     *)
(* until it reaches its next point:                                                            *)
(*   fast_read -FastRead-> lock | return        unlocked test of the pointer                   *)
(*   lock      -Lock->     slow_read            acquire the mutex (enabled iff it is free)     *)
(*   slow_read -SlowRead-> ctor_begin | unlock  second test, under the mutex                   *)
(*   ctor_begin-Construct->ctor_end             constructor of T runs (counted)                *)
(*   ctor_end  -Publish->  published            pointer stored                                 *)
(*   published -Published->unlock               (nothing shared; keeps the 1:1 map to points)  *)
(*   unlock    -Unlock->   return               release the mutex                              *)
(*   return    -Return->   done                 hand out the reference; the caller uses it     *)
(*                                                                                             *)
(* Every shared access is tagged atomic/plain and run through the happens-before ghost of      *)
(* HBGhost.tla.  The memory orders are CONSTANTS so that the same module describes the design  *)
(* that is specified (FastMode = "acquire", PublishMode = "release", no re-read at Return) and *)
(* the negative instances (MCSingleton_asbuilt.cfg: plain accesses and a second unlocked read  *)
(* at Return, as in the pinned source; MCSingleton_relaxed.cfg: atomic but unordered).         *)
EXTENDS Naturals, Sequences, FiniteSets, HBGhost

CONSTANTS MaxN,          \* largest number of threads (domain of the vector clocks)
          FastMode,      \* "plain" | "relaxed" | "acquire"   the unlocked read
          SlowMode,      \* "plain" | "relaxed"               the read under the mutex
          PublishMode,   \* "plain" | "relaxed" | "release"   the store of the new pointer
          ReturnRereads  \* TRUE: Return reads the shared pointer again, plain (as built)

VARIABLES n,             \* number of threads of this execution (configuration, fixed by Init/Reset)
          epoch,         \* number of ResetAll so far + 1
          pc,            \* pc[t]: point thread t is parked at
          ptr,           \* the shared instance pointer: 0 = null, k = object number k
          mutex,         \* 0 = free, t = held by t
          loc,           \* loc[t]: pointer value held in a local of t (last read / created)
          nextId,        \* number the next constructed object gets (counts all constructions)
          constructions, \* ghost: constructor runs in this epoch
          destructions,  \* ghost: destructor runs so far
          objArg,        \* argument the live object was constructed with (0 = none)
          returned,      \* ghost: returned[t] = object number handed to t in this epoch, 0 = not yet
          retArg,        \* ghost: retArg[t] = argument found in the object by t
          hist,          \* ghost: hist[t] = points visited by t in this epoch, in order
          vc, mclk, pclk,\* ghost: vector clocks of the threads, of the mutex, of the pointer
          mem            \* ghost: access history (HBGhost)
vars == <<n, epoch, pc, ptr, mutex, loc, nextId, constructions, destructions, objArg, returned, retArg, hist,
          vc, mclk, pclk, mem>>

Threads == 1..n
Clk == 1..MaxN
Locs == {"ptr", "obj"}
Points == {"fast_read", "lock", "slow_read", "ctor_begin", "ctor_end", "published", "unlock", "return", "done"}
InCritical == {"slow_read", "ctor_begin", "ctor_end", "published", "unlock"}

FastPath   == <<"fast_read", "return", "done">>
SlowPath   == <<"fast_read", "lock", "slow_read", "unlock", "return", "done">>
CreatePath == <<"fast_read", "lock", "slow_read", "ctor_begin", "ctor_end", "published", "unlock", "return", "done">>
LegalPaths == {FastPath, SlowPath, CreatePath}

EpochStart(k) ==
   /\ pc = [t \in 1..k |-> "fast_read"] /\ loc = [t \in 1..k |-> 0]
   /\ returned = [t \in 1..k |-> 0] /\ retArg = [t \in 1..k |-> 0]
   /\ hist = [t \in 1..k |-> <<"fast_read">>]
   /\ vc = [t \in 1..k |-> StartClk(Clk, t)] /\ mclk = ZeroClk(Clk) /\ pclk = ZeroClk(Clk)
   /\ mem = InitMem(Locs) /\ constructions = 0 /\ mutex = 0

InitFor(k) == /\ n = k /\ epoch = 1 /\ ptr = 0 /\ nextId = 1 /\ destructions = 0 /\ objArg = 0
              /\ EpochStart(k)

Goto(t, p) == /\ pc' = [pc EXCEPT ![t] = p]
              /\ hist' = [hist EXCEPT ![t] = @ \o <<p>>]

FastRead(t) ==
   /\ pc[t] = "fast_read"
   /\ mem' = MemRead(mem, t, vc[t], "ptr", FastMode # "plain")
   /\ vc' = IF FastMode = "acquire" THEN [vc EXCEPT ![t] = ClkJoin(@, pclk)] ELSE vc
   /\ loc' = [loc EXCEPT ![t] = ptr]
   /\ Goto(t, IF ptr = 0 THEN "lock" ELSE "return")
   /\ UNCHANGED <<n, epoch, ptr, mutex, nextId, constructions, destructions, objArg, returned, retArg, mclk, pclk>>

Lock(t) ==
   /\ pc[t] = "lock" /\ mutex = 0
   /\ mutex' = t
   /\ vc' = [vc EXCEPT ![t] = ClkJoin(@, mclk)]
   /\ Goto(t, "slow_read")
   /\ UNCHANGED <<n, epoch, ptr, loc, nextId, constructions, destructions, objArg, returned, retArg, mclk, pclk, mem>>

SlowRead(t) ==
   /\ pc[t] = "slow_read"
   /\ mem' = MemRead(mem, t, vc[t], "ptr", SlowMode # "plain")
   /\ loc' = [loc EXCEPT ![t] = ptr]
   /\ Goto(t, IF ptr = 0 THEN "ctor_begin" ELSE "unlock")
   /\ UNCHANGED <<n, epoch, ptr, mutex, nextId, constructions, destructions, objArg, returned, retArg, vc, mclk, pclk>>

Construct(t) ==
   /\ pc[t] = "ctor_begin"
   /\ constructions' = constructions + 1
   /\ loc' = [loc EXCEPT ![t] = nextId]
   /\ nextId' = nextId + 1
   /\ objArg' = t
   /\ mem' = MemWrite(mem, t, vc[t], "obj", FALSE)          \* the constructor writes the object, plain
   /\ Goto(t, "ctor_end")
   /\ UNCHANGED <<n, epoch, ptr, mutex, destructions, returned, retArg, vc, mclk, pclk>>

Publish(t) ==
   /\ pc[t] = "ctor_end"
   /\ ptr' = loc[t]
   /\ mem' = MemWrite(mem, t, vc[t], "ptr", PublishMode # "plain")
   /\ pclk' = IF PublishMode = "release" THEN vc[t] ELSE ZeroClk(Clk)
   /\ vc' = IF PublishMode = "release" THEN [vc EXCEPT ![t] = ClkTick(@, t)] ELSE vc
   /\ Goto(t, "published")
   /\ UNCHANGED <<n, epoch, mutex, loc, nextId, constructions, destructions, objArg, returned, retArg, mclk>>

Published(t) ==
   /\ pc[t] = "published"
   /\ Goto(t, "unlock")
   /\ UNCHANGED <<n, epoch, ptr, mutex, loc, nextId, constructions, destructions, objArg, returned, retArg, vc, mclk, pclk, mem>>

Unlock(t) ==
   /\ pc[t] = "unlock" /\ mutex = t
   /\ mutex' = 0
   /\ mclk' = vc[t]
   /\ vc' = [vc EXCEPT ![t] = ClkTick(@, t)]
   /\ Goto(t, "return")
   /\ UNCHANGED <<n, epoch, ptr, loc, nextId, constructions, destructions, objArg, returned, retArg, pclk, mem>>

\* The reference handed out and its first use by the caller (a plain read of the object).
Return(t) ==
   /\ pc[t] = "return"
   /\ LET m1  == IF ReturnRereads THEN MemRead(mem, t, vc[t], "ptr", FALSE) ELSE mem
          res == IF ReturnRereads THEN ptr ELSE loc[t]
      IN /\ mem' = IF res # 0 THEN MemRead(m1, t, vc[t], "obj", FALSE) ELSE m1
         /\ returned' = [returned EXCEPT ![t] = res]
         /\ retArg' = [retArg EXCEPT ![t] = IF res # 0 THEN objArg ELSE 0]
   /\ Goto(t, "done")
   /\ UNCHANGED <<n, epoch, ptr, mutex, loc, nextId, constructions, destructions, objArg, vc, mclk, pclk>>

Step(t) == FastRead(t) \/ Lock(t) \/ SlowRead(t) \/ Construct(t) \/ Publish(t) \/ Published(t) \/ Unlock(t) \/ Return(t)

AllDone == \A t \in Threads : pc[t] = "done"

\* reset() called when every thread has left instance() and was joined (so everything of the
\* epoch happens-before it), followed by the start of a new group of n threads.
EpochStartNext(k) ==
   /\ pc' = [t \in 1..k |-> "fast_read"] /\ loc' = [t \in 1..k |-> 0]
   /\ returned' = [t \in 1..k |-> 0] /\ retArg' = [t \in 1..k |-> 0]
   /\ hist' = [t \in 1..k |-> <<"fast_read">>]
   /\ vc' = [t \in 1..k |-> StartClk(Clk, t)] /\ mclk' = ZeroClk(Clk) /\ pclk' = ZeroClk(Clk)
   /\ mem' = InitMem(Locs) /\ constructions' = 0 /\ mutex' = 0

ResetAll ==
   /\ AllDone /\ mutex = 0
   /\ epoch' = epoch + 1
   /\ ptr' = 0 /\ objArg' = 0
   /\ destructions' = destructions + (IF ptr # 0 THEN 1 ELSE 0)
   /\ EpochStartNext(n)
   /\ UNCHANGED <<n, nextId>>

\* a new execution with k threads (trace specifications: the Reset event)
ResetTo(k) == /\ n' = k /\ epoch' = 1 /\ ptr' = 0 /\ nextId' = 1 /\ destructions' = 0 /\ objArg' = 0
              /\ EpochStartNext(k)

Next == (\E t \in Threads : Step(t)) \/ ResetAll

\* ---------------------------------------------------------------- properties (C20)
TypeOK == /\ n \in 1..MaxN /\ pc \in [Threads -> Points] /\ ptr \in 0..(nextId - 1) /\ mutex \in 0..n
          /\ loc \in [Threads -> 0..(nextId - 1)] /\ returned \in [Threads -> 0..(nextId - 1)]

OnceOnly     == constructions <= 1                                   \* constructed exactly once ...
CreatedIfUsed == (\E t \in Threads : pc[t] = "done") => constructions = 1
SameObject   == \A s, t \in Threads : (pc[s] = "done" /\ pc[t] = "done") => returned[s] = returned[t]
NonNull      == \A t \in Threads : pc[t] = "done" => returned[t] # 0
FreshObject  == \A t \in Threads : pc[t] = "done" => returned[t] = nextId - 1   \* the object of this epoch
OneAlive     == (nextId - 1) - destructions = (IF ptr # 0 THEN 1 ELSE 0) + (IF \E t \in Threads : pc[t] = "ctor_end" THEN 1 ELSE 0)
ArgOfCreator == \A t \in Threads : pc[t] = "done" => (retArg[t] = objArg /\ objArg \in Threads
                                                       /\ Len(hist[objArg]) >= 4 /\ hist[objArg][4] = "ctor_begin")
NoDataRace   == ~mem.race
MutexOK      == \A t \in Threads : (pc[t] \in InCritical) <=> (mutex = t)
\* declarative view of one call: only three control paths exist, and exactly one thread creates
PathsLegal   == \A t \in Threads : pc[t] = "done" => hist[t] \in LegalPaths
OneCreator   == AllDone => Cardinality({t \in Threads : hist[t] = CreatePath}) = 1
\* nobody waits for ever: if all unfinished threads wait for the mutex, it is free
NoStuck      == (\E t \in Threads : pc[t] # "done") =>
                   (\E t \in Threads : pc[t] \notin {"done", "lock"}) \/ mutex = 0

\* ---------------------------------------------------------------- summary of a free-running epoch
\* What a driver can record of an epoch in which it does not control the schedule: per thread the
\* points it passed, the object number and argument it found, and the number of constructor runs.
\* The properties above are then evaluated by TLC on the resulting state.
RoundDone(cons, rets, args, paths) ==
   /\ \A t \in Threads : pc[t] = "fast_read"
   /\ DOMAIN rets = Threads /\ DOMAIN args = Threads /\ DOMAIN paths = Threads
   /\ \A t \in Threads : Len(paths[t]) > 0
   /\ pc' = [t \in Threads |-> paths[t][Len(paths[t])]]
   /\ hist' = paths /\ returned' = rets /\ retArg' = args
   /\ constructions' = cons /\ nextId' = nextId + cons
   /\ ptr' = rets[1] /\ loc' = rets
   /\ objArg' = IF \E t \in Threads : Len(paths[t]) >= 4 /\ paths[t][4] = "ctor_begin"
                   THEN CHOOSE t \in Threads : Len(paths[t]) >= 4 /\ paths[t][4] = "ctor_begin" ELSE 0
   /\ UNCHANGED <<n, epoch, mutex, destructions, vc, mclk, pclk, mem>>
=============================================================================
