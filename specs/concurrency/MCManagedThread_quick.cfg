SPECIFICATION MCSpec
CONSTANTS FlagFirst = TRUE
          MaxObs = 2
INVARIANTS TypeOK ObserveOK NoDataRace FlagMeaning InitBeforeStart JoinedMeansExited
ACTION_CONSTRAINT EdgeOut
CHECK_DEADLOCK FALSE
