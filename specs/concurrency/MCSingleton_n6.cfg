SPECIFICATION MCSpec
CONSTANTS MaxN = 6
          Ns = {6}
          MaxEpoch = 2
          FastMode = "acquire"
          SlowMode = "relaxed"
          PublishMode = "release"
          ReturnRereads = FALSE
INVARIANTS TypeOK OnceOnly CreatedIfUsed SameObject NonNull FreshObject OneAlive ArgOfCreator NoDataRace MutexOK
           PathsLegal OneCreator NoStuck
CHECK_DEADLOCK FALSE
