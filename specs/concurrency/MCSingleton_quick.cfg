SPECIFICATION MCSpec
CONSTANTS MaxN = 3
          Ns = {1, 2, 3}
          MaxEpoch = 2
          FastMode = "acquire"
          SlowMode = "relaxed"
          PublishMode = "release"
          ReturnRereads = FALSE
INVARIANTS TypeOK OnceOnly CreatedIfUsed SameObject NonNull FreshObject OneAlive ArgOfCreator NoDataRace MutexOK
           PathsLegal OneCreator NoStuck
ACTION_CONSTRAINT EdgeOut
CHECK_DEADLOCK FALSE
