SPECIFICATION MCSpec
CONSTANTS MaxN = 2
          Ns = {2}
          MaxEpoch = 1
          FastMode = "plain"
          SlowMode = "plain"
          PublishMode = "plain"
          ReturnRereads = TRUE
INVARIANTS TypeOK OnceOnly SameObject NoDataRace
CHECK_DEADLOCK FALSE
