SPECIFICATION MCSpec
CONSTANTS FlagFirst = FALSE
          MaxObs = 1
INVARIANTS TypeOK NoDataRace
CHECK_DEADLOCK FALSE
