------------------------------ MODULE HBGhost ------------------------------
(* Happens-before ghost shared by Singleton.tla and ManagedThread.tla (property C20).           *)
(* Pure operators only.  A thread identifier is a positive natural number; 0 means "nobody"     *)
(* (the initial value of a location happens-before every access).                                *)
(*                                                                                             *)
(*   clock      : function  thread -> Nat     (vector clock)                                   *)
(*   access     : [t, c, at]   thread, the thread's own clock component at the access, atomic? *)
(*   memory m   : [w : location -> access (last write), r : location -> set of accesses        *)
(*                 (reads since the last write), race : BOOLEAN (sticky)]                      *)
(* Two accesses to the same location CONFLICT if at least one is a write; they form a DATA     *)
(* RACE if they conflict, come from different threads, at least one of them is plain           *)
(* (not atomic), and neither happens-before the other.  Because the model executes accesses in *)
(* an interleaving order it suffices to test "earlier access happens-before the current one",  *)
(* which for vector clocks is  earlier.c <= clock_of_current_thread[earlier.t].                *)
EXTENDS Naturals, FiniteSets

ZeroClk(D) == [i \in D |-> 0]
StartClk(D, t) == [i \in D |-> IF i = t THEN 1 ELSE 0]
ClkJoin(a, b) == [i \in DOMAIN a |-> IF a[i] >= b[i] THEN a[i] ELSE b[i]]
ClkTick(a, t) == [a EXCEPT ![t] = @ + 1]

NoAccess == [t |-> 0, c |-> 0, at |-> TRUE]
InitMem(Locs) == [w |-> [x \in Locs |-> NoAccess], r |-> [x \in Locs |-> {}], race |-> FALSE]

\* earlier access e is ordered before the current access of thread t whose clock is clk
Ordered(e, t, clk) == e.t = 0 \/ e.t = t \/ e.c <= clk[e.t]
RacesWith(e, t, clk, at) == ~Ordered(e, t, clk) /\ (~at \/ ~e.at)

\* thread t (clock clk) reads / writes location x; at = the access is atomic
MemRead(m, t, clk, x, at) ==
   [m EXCEPT !.race = @ \/ RacesWith(m.w[x], t, clk, at),
             !.r[x] = {e \in @ : e.t # t} \cup {[t |-> t, c |-> clk[t], at |-> at]}]
MemWrite(m, t, clk, x, at) ==
   [m EXCEPT !.race = @ \/ RacesWith(m.w[x], t, clk, at) \/ (\E e \in m.r[x] : RacesWith(e, t, clk, at)),
             !.w[x] = [t |-> t, c |-> clk[t], at |-> at],
             !.r[x] = {}]
=============================================================================
