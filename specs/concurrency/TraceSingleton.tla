------------------------------ MODULE TraceSingleton ------------------------------
(* Validates executions recorded by concurrency_driver --comp sgl against Singleton.tla.        *)
(* Forced schedules (one event per released step, in the order the scheduler forced):           *)
(*   {"e":"Reset","n":k}                                                                         *)
(*   {"e":"Step","t":t,"seq":i,"from":point,"to":point,"ctors":c,"ret":id,"arg":a}               *)
(*        t was released at `from` and reached `to`; c = constructor runs so far; id/a = number  *)
(*        and constructor argument of the object t found (0 unless to = "done"); i = per-thread  *)
(*        sequence number                                                                        *)
(*   {"e":"ResetAll","dtors":d}     all threads joined, reset() called, n new threads started    *)
(* Free-running epochs (schedule not controlled; summary written after all threads were joined): *)
(*   {"e":"Round","ctors":c,"rets":[id..],"args":[a..],"paths":[[point..]..]}                    *)
(* {"e":"Race",..} (ThreadSanitizer report) and {"e":"Stuck",..} (a released thread did not reach *)
(* a point) have no action: such an execution is rejected.                                      *)
EXTENDS Singleton, TLC, Json, IOUtils
VARIABLES l, seq
Log == ndJsonDeserialize(IOEnv.TRACE)
Ev == Log[l]
TInit == l = 1 /\ InitFor(1) /\ seq = [t \in 1..1 |-> 0]
T_Reset == Ev.e = "Reset" /\ Ev.n \in 1..MaxN /\ ResetTo(Ev.n) /\ seq' = [t \in 1..Ev.n |-> 0]
T_Step == /\ Ev.e = "Step" /\ Ev.t \in Threads /\ pc[Ev.t] = Ev.from
          /\ Step(Ev.t)
          /\ pc'[Ev.t] = Ev.to /\ nextId' - 1 = Ev.ctors
          /\ returned'[Ev.t] = Ev.ret /\ retArg'[Ev.t] = Ev.arg
          /\ seq' = [seq EXCEPT ![Ev.t] = @ + 1] /\ seq'[Ev.t] = Ev.seq
T_ResetAll == Ev.e = "ResetAll" /\ ResetAll /\ destructions' = Ev.dtors /\ seq' = [t \in Threads |-> 0]
T_Round == /\ Ev.e = "Round" /\ Ev.ctors >= nextId - 1
           /\ RoundDone(Ev.ctors - (nextId - 1), Ev.rets, Ev.args, Ev.paths)
           /\ UNCHANGED seq
TNext == l <= Len(Log) /\ l' = l + 1 /\ (T_Reset \/ T_Step \/ T_ResetAll \/ T_Round)
TSpec == TInit /\ [][TNext]_<<vars, l, seq>>
Accepted == TLCGet("stats").diameter = Len(Log) + 1
=============================================================================
