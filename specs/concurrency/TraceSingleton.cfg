SPECIFICATION TSpec
CONSTANTS MaxN = 16
          FastMode = "acquire"
          SlowMode = "relaxed"
          PublishMode = "release"
          ReturnRereads = FALSE
INVARIANTS TypeOK OnceOnly CreatedIfUsed SameObject NonNull FreshObject OneAlive ArgOfCreator NoDataRace MutexOK
           PathsLegal OneCreator NoStuck
POSTCONDITION Accepted
CHECK_DEADLOCK FALSE
