SPECIFICATION TSpec
CONSTANTS FlagFirst = TRUE
INVARIANTS TypeOK ObserveOK NoDataRace FlagMeaning InitBeforeStart JoinedMeansExited
POSTCONDITION Accepted
CHECK_DEADLOCK FALSE
