------------------------------ MODULE TraceManagedThread ------------------------------
(* Validates executions recorded by concurrency_driver --comp mt against ManagedThread.tla.     *)
(*   {"e":"Reset"}                                                                              *)
(*   {"e":"MtStep","who":"c"|"t","seq":i,"from":point,"to":point}   creator / managed thread was *)
(*        released at `from` and reached `to`.  The creator's step begin -> after_spawn is the   *)
(*        composition InitFlag ; Spawn (no point lies between them in the design).               *)
(*   {"e":"Observe","seq":i,"b":bool}     isActive() called by the owner                         *)
(*   {"e":"ObserveAny","seq":i,"b":bool}  free-running mode only: isActive() at a moment whose   *)
(*        position relative to the thread's steps is not known - nothing is promised, b is free  *)
(*   {"e":"Join","seq":i}  {"e":"Destroy","seq":i}                                               *)
(* In forced mode the order of the events is the forced order.  In free-running mode it is the   *)
(* order established by the handshake of the thread function with the owner (started -> the      *)
(* Observe events -> permission to end) and by join.                                             *)
(* {"e":"Race",..} and {"e":"Stuck",..} have no action.                                          *)
EXTENDS ManagedThread, TLC, Json, IOUtils
VARIABLES l, seq
Log == ndJsonDeserialize(IOEnv.TRACE)
Ev == Log[l]
Zero == [c |-> 0, t |-> 0, o |-> 0]
TInit == l = 1 /\ Init /\ seq = Zero
Bump(w) == seq' = [seq EXCEPT ![w] = @ + 1] /\ seq'[w] = Ev.seq
T_Reset == Ev.e = "Reset" /\ s' = InitState /\ seq' = Zero
T_CStep == /\ Ev.e = "MtStep" /\ Ev.who = "c" /\ s.cpc = Ev.from
           /\ \/ /\ Ev.from = "begin" /\ EnInitFlag(s)
                 /\ LET y == DoInitFlag(s) IN EnSpawn(y) /\ s' = DoSpawn(y)
              \/ Ev.from # "begin" /\ CtorReturn
           /\ s'.cpc = Ev.to /\ Bump("c")
T_TStep == /\ Ev.e = "MtStep" /\ Ev.who = "t" /\ s.tpc = Ev.from
           /\ (SetActive \/ FuncStart \/ FuncEnd \/ ClearActive \/ ThreadExit)
           /\ s'.tpc = Ev.to /\ Bump("t")
\* declarative (C20): TRUE is demanded while the function runs, FALSE once the thread was joined; in every other phase
\* (before the function has started, between its return and join) the statement promises nothing, so the logged answer
\* is taken as it is and judged by ObserveOK
T_Observe == /\ Ev.e = "Observe" /\ EnObserve(s) /\ Ev.b \in BOOLEAN
             /\ (s.tpc = "in_func" => Ev.b) /\ (s.cpc = "joined" => ~Ev.b)
             /\ s' = [DoObserve(s) EXCEPT !.lastObs.b = Ev.b]
             /\ Bump("o")
T_ObserveAny == Ev.e = "ObserveAny" /\ EnObserve(s) /\ Ev.b \in BOOLEAN /\ UNCHANGED s /\ Bump("o")
T_Join == Ev.e = "Join" /\ Join /\ Bump("o")
T_Destroy == Ev.e = "Destroy" /\ Destroy /\ Bump("o")
TNext == l <= Len(Log) /\ l' = l + 1 /\ (T_Reset \/ T_CStep \/ T_TStep \/ T_Observe \/ T_ObserveAny \/ T_Join \/ T_Destroy)
TSpec == TInit /\ [][TNext]_<<vars, l, seq>>
Accepted == TLCGet("stats").diameter = Len(Log) + 1
=============================================================================
