SPECIFICATION MCSpec
CONSTANTS MaxN = 5
          Ns = {5}
          MaxEpoch = 2
          FastMode = "acquire"
          SlowMode = "relaxed"
          PublishMode = "release"
          ReturnRereads = FALSE
INVARIANTS TypeOK OnceOnly CreatedIfUsed SameObject NonNull FreshObject OneAlive ArgOfCreator NoDataRace MutexOK
           PathsLegal OneCreator NoStuck
CHECK_DEADLOCK FALSE
