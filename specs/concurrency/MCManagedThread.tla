------------------------------ MODULE MCManagedThread ------------------------------
(* Bounded instance of ManagedThread.tla: all interleavings of creator, managed thread and owner *)
(* with at most MaxObs calls of isActive().  EDGE lines as in MCSingleton.tla (node key = control *)
(* projection; the clocks and the access history are ghosts that do not influence any step).     *)
EXTENDS ManagedThread, TLC, Json
CONSTANTS MaxObs
VARIABLE act
MCInit == Init /\ act = [n |-> "Init", b |-> FALSE]
A(name) == act' = [n |-> name, b |-> FALSE]
MCNext == \/ InitFlag /\ A("InitFlag")
          \/ Spawn /\ A("Spawn")
          \/ CtorReturn /\ A("CtorReturn")
          \/ SetActive /\ A("SetActive")
          \/ FuncStart /\ A("FuncStart")
          \/ FuncEnd /\ A("FuncEnd")
          \/ ClearActive /\ A("ClearActive")
          \/ ThreadExit /\ A("ThreadExit")
          \/ \E b \in BOOLEAN : s.nobs < MaxObs /\ Observe(b) /\ act' = [n |-> "Observe", b |-> b]
          \/ Join /\ A("Join")
          \/ Destroy /\ A("Destroy")
MCSpec == MCInit /\ [][MCNext]_<<vars, act>>
St(x) == [cpc |-> x.cpc, tpc |-> x.tpc, flag |-> x.flag, nobs |-> x.nobs]
EdgeOut == PrintT("EDGE " \o ToJson([i |-> (act.n = "Init"), pre |-> St(s), a |-> act', post |-> St(s')]))
=============================================================================
