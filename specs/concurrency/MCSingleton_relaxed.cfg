SPECIFICATION MCSpec
CONSTANTS MaxN = 2
          Ns = {2}
          MaxEpoch = 1
          FastMode = "relaxed"
          SlowMode = "relaxed"
          PublishMode = "relaxed"
          ReturnRereads = FALSE
INVARIANTS TypeOK OnceOnly SameObject NoDataRace
CHECK_DEADLOCK FALSE
