SPECIFICATION MCSpec
CONSTANTS FlagFirst = TRUE
          MaxObs = 4
INVARIANTS TypeOK ObserveOK NoDataRace FlagMeaning InitBeforeStart JoinedMeansExited
ACTION_CONSTRAINT EdgeOut
CHECK_DEADLOCK FALSE
