SPECIFICATION MCSpec
CONSTANTS FlagFirst = TRUE
          MaxObs = 3
INVARIANTS TypeOK ObserveOK NoDataRace FlagMeaning InitBeforeStart JoinedMeansExited
ACTION_CONSTRAINT EdgeOut
CHECK_DEADLOCK FALSE
