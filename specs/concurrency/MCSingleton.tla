------------------------------ MODULE MCSingleton ------------------------------
(* Bounded instance of Singleton.tla: all interleavings of n threads (n \in Ns), MaxEpoch epochs. *)
(* Prints one EDGE line per transition; checks/c20.py enumerates the maximal behaviours (paths   *)
(* from Init to a state without successor) of the printed graph and has the driver force each  *)
(* of them onto the real code.  The node key St is the control projection: enabledness and      *)
(* control effect of every step depend on it alone (the clocks and access histories are ghosts),*)
(* so the paths of the projected graph are exactly the behaviours of the model.                 *)
EXTENDS Singleton, TLC, Json
CONSTANTS Ns, MaxEpoch
VARIABLE act
MCInit == (\E k \in Ns : InitFor(k)) /\ act = [n |-> "Init", t |-> 0]
MCNext == \/ \E t \in Threads :
               \/ FastRead(t)  /\ act' = [n |-> "FastRead",  t |-> t]
               \/ Lock(t)      /\ act' = [n |-> "Lock",      t |-> t]
               \/ SlowRead(t)  /\ act' = [n |-> "SlowRead",  t |-> t]
               \/ Construct(t) /\ act' = [n |-> "Construct", t |-> t]
               \/ Publish(t)   /\ act' = [n |-> "Publish",   t |-> t]
               \/ Published(t) /\ act' = [n |-> "Published", t |-> t]
               \/ Unlock(t)    /\ act' = [n |-> "Unlock",    t |-> t]
               \/ Return(t)    /\ act' = [n |-> "Return",    t |-> t]
          \/ epoch < MaxEpoch /\ ResetAll /\ act' = [n |-> "ResetAll", t |-> 0]
MCSpec == MCInit /\ [][MCNext]_<<vars, act>>
St(k, e, p, q, m, l, r) == [n |-> k, epoch |-> e, pc |-> p, ptr |-> q, mutex |-> m, loc |-> l, ret |-> r]
EdgeOut == PrintT("EDGE " \o ToJson([i |-> (act.n = "Init"),
                                     pre |-> St(n, epoch, pc, ptr, mutex, loc, returned),
                                     a |-> [n |-> act'.n, t |-> act'.t, N |-> n],
                                     post |-> St(n', epoch', pc', ptr', mutex', loc', returned')]))
=============================================================================
