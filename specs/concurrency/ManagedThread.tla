------------------------------ MODULE ManagedThread ------------------------------
(* celma::common::ManagedThread  (property C20, second half).                                  *)
(*                                                                                             *)
(* Three parties: the creator C (runs the constructor), the managed thread T (started by the  *)
(* constructor; sets the activity flag, runs the user function, clears the flag) and the owner *)
(* O that receives the object when the constructor has returned, calls isActive() (Observe),   *)
(* join() and finally destroys the object (the destructor joins when necessary).               *)
(*                                                                                             *)
(*   creator :  begin -InitFlag-> pre_spawn -Spawn-> after_spawn -CtorReturn-> live             *)
(*   thread  :  none -(Spawn)-> before_set -SetActive-> after_set -FuncStart-> in_func          *)
(*              -FuncEnd-> after_func -ClearActive-> after_clear -ThreadExit-> exited            *)
(*   owner   :  Observe (any time after CtorReturn), Join (blocks until exited), Destroy        *)
(*                                                                                             *)
(* The design specified initialises the flag BEFORE the thread is started (FlagFirst = TRUE).  *)
(* FlagFirst = FALSE is the order of the pinned source (member initialised after the           *)
(* std::thread base class has started the thread:  begin -Spawn-> after_spawn -InitFlag->       *)
(* post_init -CtorReturn-> live); it is kept as a negative instance on which TLC must find     *)
(* both the data race and an isActive() = FALSE while the function runs.                        *)
(*                                                                                             *)
(* The state is ONE record s and every step is a pair (enabling predicate, state function), so *)
(* that a trace specification can compose steps the driver cannot separate (InitFlag and Spawn *)
(* lie between the same two verification points).                                              *)
EXTENDS Integers, Sequences, FiniteSets, HBGhost

CONSTANTS FlagFirst       \* TRUE: design (flag initialised before the thread starts)

VARIABLE s
vars == <<s>>

C == 1   T == 2   O == 3
Who == {C, T, O}
Locs == {"flag"}
CPoints == {"begin", "pre_spawn", "after_spawn", "post_init", "live", "joined", "destroyed"}
TPoints == {"none", "before_set", "after_set", "in_func", "after_func", "after_clear", "exited"}
NoObs == [valid |-> FALSE, b |-> FALSE, tpc |-> "none", cpc |-> "begin"]

InitState == [cpc |-> "begin", tpc |-> "none",
              flag |-> -1,                      \* -1: storage not initialised yet
              nobs |-> 0, lastObs |-> NoObs,
              vc |-> [w \in Who |-> StartClk(Who, w)],
              fclk |-> ZeroClk(Who),               \* clock released by the last release-store of the flag
              mem |-> InitMem(Locs)]
Init == s = InitState

\* ---------------------------------------------------------------- creator
EnInitFlag(x) == x.cpc = (IF FlagFirst THEN "begin" ELSE "after_spawn")
DoInitFlag(x) == [x EXCEPT !.flag = 0,
                           !.mem = MemWrite(x.mem, C, x.vc[C], "flag", FALSE),   \* plain initialisation
                           !.cpc = IF FlagFirst THEN "pre_spawn" ELSE "post_init"]

EnSpawn(x) == x.cpc = (IF FlagFirst THEN "pre_spawn" ELSE "begin")
DoSpawn(x) == [x EXCEPT !.tpc = "before_set",
                        !.vc = [x.vc EXCEPT ![T] = ClkJoin(StartClk(Who, T), x.vc[C]),   \* thread start synchronises
                                            ![C] = ClkTick(x.vc[C], C)],
                        !.cpc = "after_spawn"]

EnCtorReturn(x) == x.cpc = (IF FlagFirst THEN "after_spawn" ELSE "post_init")
DoCtorReturn(x) == [x EXCEPT !.cpc = "live",
                             !.vc = [x.vc EXCEPT ![O] = ClkJoin(x.vc[O], x.vc[C]),       \* the owner gets the object
                                                 ![C] = ClkTick(x.vc[C], C)]]

\* ---------------------------------------------------------------- managed thread
StoreFlag(x, v, to) == [x EXCEPT !.flag = v,
                                 !.mem = MemWrite(x.mem, T, x.vc[T], "flag", TRUE),      \* atomic, release
                                 !.fclk = x.vc[T],
                                 !.vc = [x.vc EXCEPT ![T] = ClkTick(x.vc[T], T)],
                                 !.tpc = to]
EnSetActive(x)   == x.tpc = "before_set"
DoSetActive(x)   == StoreFlag(x, 1, "after_set")
EnFuncStart(x)   == x.tpc = "after_set"
DoFuncStart(x)   == [x EXCEPT !.tpc = "in_func"]
EnFuncEnd(x)     == x.tpc = "in_func"
DoFuncEnd(x)     == [x EXCEPT !.tpc = "after_func"]
EnClearActive(x) == x.tpc = "after_func"
DoClearActive(x) == StoreFlag(x, 0, "after_clear")
EnThreadExit(x)  == x.tpc = "after_clear"
DoThreadExit(x)  == [x EXCEPT !.tpc = "exited"]

\* ---------------------------------------------------------------- owner
EnObserve(x) == x.cpc \in {"live", "joined"}
ObsResult(x) == x.flag = 1                          \* what isActive() returns
DoObserve(x) == [x EXCEPT !.mem = MemRead(x.mem, O, x.vc[O], "flag", TRUE),             \* atomic, acquire
                          !.vc = [x.vc EXCEPT ![O] = ClkJoin(x.vc[O], x.fclk)],
                          !.nobs = x.nobs + 1,
                          !.lastObs = [valid |-> TRUE, b |-> ObsResult(x), tpc |-> x.tpc, cpc |-> x.cpc]]

EnJoin(x) == x.cpc = "live" /\ x.tpc = "exited"
DoJoin(x) == [x EXCEPT !.cpc = "joined",
                       !.vc = [x.vc EXCEPT ![O] = ClkJoin(x.vc[O], x.vc[T])]]

\* the destructor joins if that has not been done, then the members die (plain write of the flag)
EnDestroy(x) == x.cpc = "joined" \/ EnJoin(x)
DoDestroy(x) == LET y == IF x.cpc = "live" THEN DoJoin(x) ELSE x
                IN [y EXCEPT !.cpc = "destroyed",
                             !.mem = MemWrite(y.mem, O, y.vc[O], "flag", FALSE)]

\* ---------------------------------------------------------------- named actions
InitFlag    == EnInitFlag(s)    /\ s' = DoInitFlag(s)
Spawn       == EnSpawn(s)       /\ s' = DoSpawn(s)
CtorReturn  == EnCtorReturn(s)  /\ s' = DoCtorReturn(s)
SetActive   == EnSetActive(s)   /\ s' = DoSetActive(s)
FuncStart   == EnFuncStart(s)   /\ s' = DoFuncStart(s)
FuncEnd     == EnFuncEnd(s)     /\ s' = DoFuncEnd(s)
ClearActive == EnClearActive(s) /\ s' = DoClearActive(s)
ThreadExit  == EnThreadExit(s)  /\ s' = DoThreadExit(s)
Observe(b)  == EnObserve(s)     /\ b = ObsResult(s) /\ s' = DoObserve(s)
Join        == EnJoin(s)        /\ s' = DoJoin(s)
Destroy     == EnDestroy(s)     /\ s' = DoDestroy(s)

Next == InitFlag \/ Spawn \/ CtorReturn \/ SetActive \/ FuncStart \/ FuncEnd \/ ClearActive \/ ThreadExit
        \/ (\E b \in BOOLEAN : Observe(b)) \/ Join \/ Destroy

\* ---------------------------------------------------------------- properties (C20)
TypeOK == s.cpc \in CPoints /\ s.tpc \in TPoints /\ s.flag \in {-1, 0, 1}

\* the statement: active whenever the function has (observably) started and not yet finished,
\* inactive once the function has returned and the thread was joined
ObserveOK == s.lastObs.valid => /\ (s.lastObs.tpc = "in_func" => s.lastObs.b)
                                /\ (s.lastObs.cpc = "joined" => ~s.lastObs.b)
NoDataRace == ~s.mem.race
\* declarative meaning of the flag for everybody who may look at it
FlagMeaning == s.cpc \in {"live", "joined"} => ((s.flag = 1) <=> (s.tpc \in {"after_set", "in_func", "after_func"}))
InitBeforeStart == s.tpc # "none" => s.flag # -1
JoinedMeansExited == s.cpc \in {"joined", "destroyed"} => s.tpc = "exited"
=============================================================================
