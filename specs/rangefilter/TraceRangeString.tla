---------------------------- MODULE TraceRangeString ----------------------------
(* Validates executions recorded from celma::common::RangeString<int> / detail::RangeExpression                      *)
(* (rangefilter_driver --comp rs).  Events (texts are arrays of byte codes, val = -1 when the iterator is at the end):*)
(*   {"e":"Reset","s":[..]}                                   RangeString<> rs( s)                                   *)
(*   {"e":"ParseExpr","res":"ok"|"exception","matched":k,"start":k,"hasEnd":b,"end":k,"hasInc":b,"inc":k,           *)
(*    "hasExcl":b,"excl":[..]}                                RangeExpression::parseString( s) and its observers     *)
(*   {"e":"Begin","res":..,"atEnd":b,"val":k}                 it = rs.begin()                                         *)
(*   {"e":"Incr","res":..,"atEnd":b,"val":k}                  ++it                                                    *)
(*   {"e":"PostIncr","res":..,"prevAtEnd":b,"prevVal":k,"atEnd":b,"val":k}     prev = it++                            *)
(*   {"e":"CopyIt","atEnd":b,"val":k,"eq":b}                  copy( it); it2 = copy; eq = (it2 == it); it = it2       *)
(*   {"e":"IterAll","res":"ok"|"exception"|"runaway","vals":[..]}   for (i = rs.cbegin(); i != rs.cend(); ++i)        *)
EXTENDS RangeString, TLC, Json, IOUtils
VARIABLE l
Log == ndJsonDeserialize(IOEnv.TRACE)
Ev == Log[l]
TInit == l = 1 /\ s = <<>> /\ cls = "syntax" /\ allowed = {<<>>} /\ phase = "new" /\ got = <<>>
TNext == /\ l <= Len(Log) /\ l' = l + 1
         /\ \/ Ev.e = "Reset" /\ Setup(Ev.s)
            \/ Ev.e = "ParseExpr" /\ ParseExpr(Ev)
            \/ Ev.e = "Begin" /\ Begin(Ev.res, Ev.atEnd, Ev.val)
            \/ Ev.e = "Incr" /\ Incr(Ev.res, Ev.atEnd, Ev.val)
            \/ Ev.e = "PostIncr" /\ PostIncr(Ev.res, Ev.prevAtEnd, Ev.prevVal, Ev.atEnd, Ev.val)
            \/ Ev.e = "CopyIt" /\ CopyIt(Ev.atEnd, Ev.val, Ev.eq)
            \/ Ev.e = "IterAll" /\ IterAll(Ev.res, Ev.vals)
TSpec == TInit /\ [][TNext]_<<vars, l>>
Accepted == TLCGet("stats").diameter = Len(Log) + 1
=============================================================================
