------------------------------- MODULE RFText -------------------------------
(* Texts are sequences of byte codes.  Pure helpers shared by RangeString.tla, RangeGen.tla and ValueFilter.tla  *)
(* (extension component X05: range strings and value filters).                                               *)
EXTENDS Integers, Sequences, FiniteSets

COMMA == 44   \* ,
DASH  == 45   \* -
PLUS  == 43   \* +
BANG  == 33   \* !
LBR   == 91   \* [
RBR   == 93   \* ]
LCB   == 123  \* {
RCB   == 125  \* }

IsDigit(c) == c >= 48 /\ c <= 57
Sub(t, a, b) == SubSeq(t, a, b)                    \* positions a..b, empty when b < a
AllDigits(t) == \A i \in 1..Len(t) : IsDigit(t[i])
\* length of the maximal run of digits that starts at position i (declaratively: the unique n with ...)
DigitRun(t, i) == CHOOSE n \in 0..(Len(t) - i + 1) :
                     /\ \A j \in i..(i + n - 1) : IsDigit(t[j])
                     /\ (i + n > Len(t) \/ ~IsDigit(t[i + n]))
\* value of a decimal numeral (at most 9 digits are ever evaluated: everything stays below 2^31)
NumVal(d) == LET F[i \in 0..Len(d)] == IF i = 0 THEN 0 ELSE F[i-1] * 10 + (d[i] - 48) IN F[Len(d)]
MaxDigits == 9
\* decimal numeral of a natural number
RECURSIVE DecOf(_)
DecOf(n) == IF n < 10 THEN <<48 + n>> ELSE DecOf(n \div 10) \o <<48 + (n % 10)>>

IsPrefixOf(p, t) == Len(p) <= Len(t) /\ SubSeq(t, 1, Len(p)) = p
SeqRange(q) == {q[i] : i \in 1..Len(q)}
LastOf(q) == q[Len(q)]
\* k-th smallest element of a finite set of integers, the set as ascending sequence
KthOf(P, k) == CHOOSE x \in P : Cardinality({y \in P : y < x}) = k - 1
\* (\o <<>> makes TLC build the sequence once instead of re-evaluating the function body at every application)
SortedSeq(P) == [k \in 1..Cardinality(P) |-> KthOf(P, k)] \o <<>>
FlatSeq(qs) == LET F[i \in 0..Len(qs)] == IF i = 0 THEN <<>> ELSE F[i-1] \o qs[i] IN F[Len(qs)]
\* split a text at the positions P (the separators themselves are dropped); always Cardinality(P) + 1 pieces
SplitAt(t, P) == LET ps == SortedSeq(P)
                     n  == Cardinality(P)
                 IN [k \in 1..(n + 1) |-> Sub(t, (IF k = 1 THEN 1 ELSE ps[k-1] + 1), (IF k = n + 1 THEN Len(t) ELSE ps[k] - 1))] \o <<>>
\* number of { minus number of } in t[1..i-1]
DepthAt(t, i) == Cardinality({j \in 1..(i-1) : t[j] = LCB}) - Cardinality({j \in 1..(i-1) : t[j] = RCB})
\* every } closes a { before it and nothing stays open (one pass)
RECURSIVE BalFrom(_, _, _)
BalFrom(t, i, depth) == IF i > Len(t) THEN depth = 0
                        ELSE IF t[i] = LCB THEN BalFrom(t, i + 1, depth + 1)
                        ELSE IF t[i] = RCB THEN (depth > 0 /\ BalFrom(t, i + 1, depth - 1))
                        ELSE BalFrom(t, i + 1, depth)
Balanced(t) == BalFrom(t, 1, 0)
=============================================================================
