SPECIFICATION TSpec
INVARIANTS TypeOK
POSTCONDITION Accepted
CHECK_DEADLOCK FALSE
