SPECIFICATION MCSpec
CONSTANTS Vals = {0, 1, 2, 3, 5, 8, 9}
          Incs = {0, 1, 2, 3, 4}
          MaxEx = 3
INVARIANTS TypeOK CurOK StepAgree
ACTION_CONSTRAINT EdgeOut
CHECK_DEADLOCK FALSE
