SPECIFICATION MCSpec
CONSTANTS Vals = {2, 5}
          MaxTotal = 2
          FAlpha = {50, 53, 45, 44, 43, 33, 91, 93}
          FMaxLen = 4
          WinLo = 0
          WinLen = 8
INVARIANTS TypeOK MatchAgree RoundTrip ParseAgree WindowAgree
ACTION_CONSTRAINT EdgeOut
CHECK_DEADLOCK FALSE
