---------------------------- MODULE TraceRangeGen ----------------------------
(* Validates executions recorded from celma::common::detail::RangeGenerator<int>  (rangefilter_driver --comp gen).   *)
(*   {"e":"Reset","kind":"single"|"range","a":k,"b":k,"inc":k,"res":"ok"|"exception","cur":k}    constructor          *)
(*   {"e":"Exclude","v":k,"res":..,"cur":k}           excludeValue( v)                                                *)
(*   {"e":"ExcludeMany","vs":[..],"res":..,"cur":k}   excludeValues( begin, end)                                      *)
(*   {"e":"Incr"|"PostIncr","res":..,"prev":k,"cur":k,"end":k}     ++g / g++, the value before, the value after, end() *)
EXTENDS RangeGen, TLC, Json, IOUtils
VARIABLE l
Log == ndJsonDeserialize(IOEnv.TRACE)
Ev == Log[l]
TInit == l = 1 /\ kind = "none" /\ a = 0 /\ b = 0 /\ inc = 1 /\ ex = {} /\ cur = GenEnd /\ phase = "open"
TNext == /\ l <= Len(Log) /\ l' = l + 1
         /\ \/ Ev.e = "Reset" /\ Ev.kind = "single" /\ NewSingle(Ev.a, Ev.res, Ev.cur)
            \/ Ev.e = "Reset" /\ Ev.kind = "range" /\ NewRange(Ev.a, Ev.b, Ev.inc, Ev.res, Ev.cur)
            \/ Ev.e = "Exclude" /\ Exclude(Ev.v, Ev.res, Ev.cur)
            \/ Ev.e = "ExcludeMany" /\ ExcludeMany(Ev.vs, Ev.res, Ev.cur)
            \/ Ev.e = "Incr" /\ Incr(Ev.res, Ev.prev, Ev.cur, Ev.end)
            \/ Ev.e = "PostIncr" /\ PostIncr(Ev.res, Ev.prev, Ev.cur, Ev.end)
TSpec == TInit /\ [][TNext]_<<vars, l>>
Accepted == TLCGet("stats").diameter = Len(Log) + 1
=============================================================================
