SPECIFICATION TSpec
INVARIANTS TypeOK CurOK
POSTCONDITION Accepted
CHECK_DEADLOCK FALSE
