SPECIFICATION MCSpec
CONSTANTS Vals = {0, 2, 3, 7, 8}
          Incs = {0, 1, 2, 3}
          MaxEx = 2
INVARIANTS TypeOK CurOK StepAgree
ACTION_CONSTRAINT EdgeOut
CHECK_DEADLOCK FALSE
