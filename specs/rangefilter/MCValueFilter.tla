---------------------------- MODULE MCValueFilter ----------------------------
(* Bounded instance of ValueFilter.tla: every sequence of add.../append.../clear() calls with values of Vals up to  *)
(* MaxTotal filters, every observer in every state, and parseFilterString() for EVERY text over FAlpha up to        *)
(* FMaxLen characters plus the text of every reachable filter list.                                                 *)
EXTENDS ValueFilter, TLC, Json
CONSTANTS Vals, MaxTotal, FAlpha, FMaxLen, WinLo, WinLen
VARIABLES act, agree, chg     \* chg: the last action changed the filter list

A(n, v, hi, inv, t) == [n |-> n, v |-> v, hi |-> hi, inv |-> inv, t |-> t]
Total(gs) == LET F[i \in 0..Len(gs)] == IF i = 0 THEN 0 ELSE F[i-1] + Len(gs[i]) IN F[Len(gs)]
FTexts == UNION {[1..n -> FAlpha] : n \in 0..FMaxLen}
Outcomes == {"ok", "exception"} \X (0..(MaxTotal + 1))

MCInit == Init /\ act = A("Init", 0, 0, FALSE, <<>>) /\ agree = TRUE /\ chg = TRUE
Mut ==
   \/ \E v \in Vals, inv \in BOOLEAN, o \in Outcomes :
         \/ AddSingle(v, inv, o[1], o[2]) /\ act' = A("AddSingle", v, 0, inv, <<>>)
         \/ AppendSingle(v, inv, o[1], o[2]) /\ act' = A("AppendSingle", v, 0, inv, <<>>)
   \/ \E lo \in Vals, hi \in Vals, inv \in BOOLEAN, o \in Outcomes :
         \/ AddRange(lo, hi, inv, o[1], o[2]) /\ act' = A("AddRange", lo, hi, inv, <<>>)
         \/ AppendRange(lo, hi, inv, o[1], o[2]) /\ act' = A("AppendRange", lo, hi, inv, <<>>)
   \/ \E v \in Vals, o \in Outcomes :
         \/ AddMin(v, o[1], o[2]) /\ act' = A("AddMin", v, 0, FALSE, <<>>)
         \/ AppendMin(v, o[1], o[2]) /\ act' = A("AppendMin", v, 0, FALSE, <<>>)
         \/ AddMax(v, o[1], o[2]) /\ act' = A("AddMax", v, 0, FALSE, <<>>)
         \/ AppendMax(v, o[1], o[2]) /\ act' = A("AppendMax", v, 0, FALSE, <<>>)
   \/ Clear(0) /\ act' = A("Clear", 0, 0, FALSE, <<>>)
Obs ==
   \/ Empty(groups = <<>>) /\ act' = A("Empty", 0, 0, FALSE, <<>>)
   \/ Size(Len(groups)) /\ act' = A("Size", 0, 0, FALSE, <<>>)
   \/ /\ Matches(WinLo, IF groups = <<>> THEN "exception" ELSE "ok",
                 IF groups = <<>> THEN <<>> ELSE [i \in 1..WinLen |-> OpMatch(groups, 1, WinLo + i - 1)])
      /\ act' = A("Matches", WinLo, WinLen, FALSE, <<>>)
   \/ Str(GText(groups)) /\ act' = A("Str", 0, 0, FALSE, <<>>)
\* parseFilterString: every bounded text into the empty object, the own text of every filter list into that list
DoParse(t) == /\ \E o \in Outcomes : ParseFilter(t, o[1], o[2])
              /\ act' = A("ParseFilter", 0, 0, FALSE, t)
              /\ agree' = (ParseD(t) = OpParseF(t)) /\ chg' = FALSE
MCNext == /\ Total(groups) <= MaxTotal /\ chg
          /\ \/ (Mut \/ Obs) /\ agree' = TRUE /\ chg' = (groups' # groups)
             \/ groups = <<>> /\ \E t \in FTexts : DoParse(t)
             \/ groups # <<>> /\ DoParse(GText(groups))
MCSpec == MCInit /\ [][MCNext]_<<vars, act, agree, chg>>

\* (enabling condition of MCNext) every filter list up to MaxTotal filters is expanded once per action that produced it; what an
\* observer or a refused call leaves behind is the same list again: its edge is printed, its successors are those of the list
ParseAgree == agree
\* the window of the Matches action shows the declarative value for every position (no silently missing transition)
WindowAgree == \A x \in WinLo..(WinLo + WinLen - 1) : MatchD(groups, x) = OpMatch(groups, 1, x)

St == [g |-> groups, ph |-> phase]
StP == [g |-> groups', ph |-> phase']
EdgeOut == PrintT("EDGE " \o ToJson([i |-> (act.n = "Init"), pre |-> St, a |-> act', post |-> StP]))
=============================================================================
