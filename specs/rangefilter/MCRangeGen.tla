---------------------------- MODULE MCRangeGen ----------------------------
(* Bounded instance of RangeGen.tla: every generator over Vals x Vals x Incs (and every single value), every set of  *)
(* excluded values added one by one before the first step, then stepped to the end and once beyond.                  *)
EXTENDS RangeGen, TLC, Json
CONSTANTS Vals, Incs, MaxEx
VARIABLE act
A(n, v) == [n |-> n, v |-> v]
MCInit == /\ act = A("Init", 0)
          /\ \/ \E v \in Vals : kind = "single" /\ a = v /\ b = v /\ inc = 1 /\ ex = {} /\ cur = v /\ phase = "live"
             \/ \E lo \in Vals, hi \in Vals, i \in Incs :
                   /\ kind = "range" /\ a = lo /\ b = hi /\ inc = i /\ ex = {}
                   /\ IF hi < lo \/ i <= 0 THEN cur = GenEnd /\ phase = "open" ELSE cur = lo /\ phase = "live"
Untouched == cur = a /\ phase = "live"
MCNext == \/ /\ Untouched /\ Cardinality(ex) < MaxEx
             /\ \E v \in (a - 1)..(b + 1) : v \notin ex /\ \E r \in {"ok", "exception"} : Exclude(v, r, cur) /\ act' = A("Exclude", v)
          \/ /\ phase = "live" /\ act.n # "IncrEnd"
             /\ \E r \in {"ok", "exception"} : Incr(r, cur, NextOp, GenEnd)
             /\ act' = A(IF cur = GenEnd THEN "IncrEnd" ELSE "Incr", 0)
          \/ /\ phase = "live" /\ cur # GenEnd
             /\ PostIncr("ok", cur, NextOp, GenEnd) /\ act' = A("PostIncr", 0)
          \/ phase = "open" /\ act.n = "Init" /\ Incr("ok", 0, 0, 0) /\ act' = A("Incr", 0)
MCSpec == MCInit /\ [][MCNext]_<<vars, act>>
\* the operational step is always the one the declarative action takes (no silently missing transition)
StepAgree == (phase = "live" /\ cur # GenEnd) => NextD = NextOp
St == [kind |-> kind, a |-> a, b |-> b, inc |-> inc, ex |-> ex, cur |-> cur, ph |-> phase, done |-> (act.n = "IncrEnd")]
StP == [kind |-> kind', a |-> a', b |-> b', inc |-> inc', ex |-> ex', cur |-> cur', ph |-> phase', done |-> (act'.n = "IncrEnd")]
EdgeOut == PrintT("EDGE " \o ToJson([i |-> (act.n = "Init"), pre |-> St,
                                     a |-> [n |-> (IF act'.n = "IncrEnd" THEN "Incr" ELSE act'.n), v |-> act'.v, kind |-> kind, a |-> a, b |-> b, inc |-> inc],
                                     post |-> StP]))
=============================================================================
