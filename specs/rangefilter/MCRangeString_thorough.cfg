SPECIFICATION MCSpec
CONSTANTS Alpha = {48, 49, 50, 45, 44, 91, 93, 123, 125}
          MaxLen = 5
          Nums = {1, 3, 5, 9, 12}
          Incs = {1, 2, 3}
          ExNums = {2, 4, 5, 10}
INVARIANTS TypeOK Conforms OpAccepted ClassAgree OpTracksGot Sanity
ACTION_CONSTRAINT EdgeOut
CHECK_DEADLOCK FALSE
