---------------------------- MODULE MCRangeString ----------------------------
(* Bounded instance of RangeString.tla.  The texts: EVERY text over the alphabet Alpha up to MaxLen characters    *)
(* (well-formed and malformed alike) plus the texts of a bounded grammar of longer well-formed expressions.       *)
(* The transitions are driven by the operational formulation (opit = the documented iterator algorithm); every    *)
(* one of them must be permitted by the declarative actions of RangeString.tla (OpAccepted), and both             *)
(* formulations must agree on the class and on the complete value sequence of every text (ClassAgree).            *)
EXTENDS RangeString, TLC, Json
CONSTANTS Alpha, MaxLen, Nums, Incs, ExNums
VARIABLES act, opit

N(n) == DecOf(n)
Rng(a, b) == N(a) \o <<DASH>> \o N(b)
Singles  == {N(a) : a \in Nums}
Ranges   == {Rng(a, b) : a \in Nums, b \in Nums}
RangesUp == {Rng(ab[1], ab[2]) : ab \in {x \in Nums \X Nums : x[1] < x[2]}}
WithInc(R) == {r \o <<LBR>> \o N(i) \o <<RBR>> : r \in R, i \in Incs}
WithEx(R, E) == {r \o <<LCB>> \o e \o <<RCB>> : r \in R, e \in E}
ExSingles == {N(a) : a \in ExNums}
ExRanges  == {Rng(ab[1], ab[2]) : ab \in {x \in ExNums \X ExNums : x[1] < x[2]}}
ExItems   == ExSingles \cup ExRanges \cup {r \o <<LBR, 50, RBR>> : r \in ExRanges}
ExLists   == ExItems \cup {x \o <<COMMA>> \o y : x \in ExSingles, y \in ExItems}
Plain     == Singles \cup Ranges \cup WithInc(Ranges)
Items1    == Plain \cup WithEx(RangesUp \cup WithInc(RangesUp), ExLists)
Nested    == WithEx(RangesUp, WithEx(ExRanges, ExSingles)) \cup WithEx(RangesUp, WithEx(ExRanges, WithEx(ExRanges, ExSingles)))
\* longer malformed texts: the last character of a well-formed one is missing ("1-3[2", "1-9{2", "1-9{2-5{3}")
CutLast(S) == {Sub(x, 1, Len(x) - 1) : x \in S}
Broken    == CutLast(WithInc(RangesUp) \cup WithEx(RangesUp, ExSingles) \cup WithEx(RangesUp, WithEx(ExRanges, ExSingles)))
Short     == Singles \cup RangesUp
Lists     == {x \o <<COMMA>> \o y : x \in Short, y \in Short \cup WithInc(RangesUp)}
             \cup {x \o <<COMMA>> \o y \o <<COMMA>> \o z : x \in Singles, y \in WithEx(RangesUp, ExSingles), z \in Singles}
AlphaTexts == UNION {[1..n -> Alpha] : n \in 0..MaxLen}
Texts == AlphaTexts \cup Items1 \cup Nested \cup Lists \cup Broken

\* where the operational formulation meets something undocumented (st = "open") before the end of a malformed text, the
\* documented outcome of the whole text is still the exception
ResOf(it) == IF it.st = "exc" \/ (it.st = "open" /\ cls = "syntax") THEN "exception" ELSE "ok"
CurOf(it) == IF it.st = "iter" THEN it.cur ELSE -1
NoAct(n) == [n |-> n]

MCInit == /\ \E str \in Texts : LET d == Classify(str) IN
                /\ s = str /\ cls = d.c /\ allowed = d.allowed
          /\ phase = "new" /\ got = <<>> /\ opit = ItDead("none") /\ act = NoAct("Init")

DoBegin == /\ phase \in {"new", "end"}
           /\ LET b == ItBegin(s) IN opit' = b /\ Begin(ResOf(b), b.st = "end", CurOf(b))
           /\ act' = NoAct("Begin")
DoIncr == /\ phase = "iter"
          /\ LET n == ItStep(opit) IN opit' = n /\ Incr(ResOf(n), n.st = "end", CurOf(n))
          /\ act' = NoAct("Incr")
DoPostIncr == /\ phase = "iter"
              /\ LET n == ItStep(opit) IN opit' = n /\ PostIncr(ResOf(n), FALSE, opit.cur, n.st = "end", CurOf(n))
              /\ act' = NoAct("PostIncr")
DoCopy == /\ phase \in {"iter", "end"}
          /\ CopyIt(phase = "end", CurOf(opit), TRUE)
          /\ act' = NoAct("CopyIt") /\ UNCHANGED opit
DoIterAll == /\ phase = "new"
             /\ LET r == OpAll(s) IN IterAll(ResOf(r), r.vals)
             /\ act' = NoAct("IterAll") /\ UNCHANGED opit
DoParseExpr == /\ phase = "new"
               /\ ParseExpr(OpParse(s))
               /\ act' = NoAct("ParseExpr") /\ UNCHANGED opit
MCNext == DoBegin \/ DoIncr \/ DoPostIncr \/ DoCopy \/ DoIterAll \/ DoParseExpr
MCSpec == MCInit /\ [][MCNext]_<<vars, act, opit>>

\* the operational formulation never takes a step the declarative actions refuse (no silently missing transition)
OpAccepted ==
   /\ phase \in {"new", "end"} => LET b == ItBegin(s) IN YieldOK(<<>>, ResOf(b), b.st = "end", CurOf(b))
   /\ phase = "new" => /\ LET r == OpAll(s) IN IterAllOK(ResOf(r), r.vals)
                       /\ ParseExprOK(s, OpParse(s))
   /\ phase = "iter" => LET n == ItStep(opit) IN YieldOK(got, ResOf(n), n.st = "end", CurOf(n))
\* both formulations agree on what a text is and, for documented texts, on every value
ClassAgree ==
   phase = "new" => LET r == OpAll(s) IN
                    /\ cls = "ok" => (r.st = "ok" /\ {r.vals} = allowed)
                    /\ cls = "syntax" => r.st \in {"exc", "open"}
                    /\ cls = "open" => r.st \in {"open", "exc"}
                    /\ r.st = "ok" => cls = "ok"
OpTracksGot == (phase = "iter" /\ cls # "open") => (opit.st = "iter" /\ opit.cur = LastOf(got))
\* an expression without excludes/increment denotes the plain interval; a documented text never denotes nothing
Sanity == cls = "ok" => \A d \in allowed : Len(d) >= 1

St == [s |-> s, phase |-> phase, k |-> Len(got)]
StP == [s |-> s', phase |-> phase', k |-> Len(got')]
EdgeOut == PrintT("EDGE " \o ToJson([i |-> (act.n = "Init"), pre |-> St, a |-> [n |-> act'.n, s |-> s], post |-> StP]))
=============================================================================
