SPECIFICATION TSpec
INVARIANTS TypeOK Conforms
POSTCONDITION Accepted
CHECK_DEADLOCK FALSE
