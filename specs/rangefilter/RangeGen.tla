---------------------------- MODULE RangeGen ----------------------------
(* celma::common::detail::RangeGenerator<int> (iterEndValue = -1)  (extension component X05, scope A).             *)
(* "Generates all numbers in a range.  The class can also be used to handle 'ranges' with only a single value."     *)
(* Declarative: the current value is always the smallest value of the grid start, start+inc, ... <= end that is not *)
(* excluded and lies behind the previous one (NextD).  Operational: the stepping loop (GenIncr of RangeString.tla's *)
(* formulation, repeated here as NextOp).                                                                          *)
EXTENDS RFText
VARIABLES kind,    \* "none" | "single" | "range"
          a, b, inc, ex,    \* start, end ("the last value in the range"), increment, set of excluded values
          cur,     \* current value, GenEnd when the end of the range was reached
          phase    \* "live" | "open" (constructed from arguments the documentation does not cover / unknown excludes)
vars == <<kind, a, b, inc, ex, cur, phase>>
GenEnd == -1

Grid == {a + k * inc : k \in 0..((b - a) \div inc)}
NextD == LET c == {x \in Grid : x > cur /\ x \notin ex} IN
         IF kind = "single" \/ c = {} THEN GenEnd ELSE CHOOSE x \in c : \A y \in c : x <= y
RECURSIVE StepFrom(_)
StepFrom(v) == IF v > b - inc THEN GenEnd ELSE IF (v + inc) \in ex THEN StepFrom(v + inc) ELSE v + inc
NextOp == IF kind = "single" THEN GenEnd ELSE StepFrom(cur)

\* constructors (recorded as the Reset event): res = "ok" | "exception", c = current value after construction
NewSingle(v, res, c) ==
   /\ kind' = "single" /\ a' = v /\ b' = v /\ inc' = 1 /\ ex' = {}
   /\ IF v = GenEnd THEN phase' = "open" /\ cur' = GenEnd          \* "iterEndValue ... must be a value that is outside of the range"
      ELSE res = "ok" /\ c = v /\ cur' = v /\ phase' = "live"
NewRange(lo, hi, i, res, c) ==
   /\ kind' = "range" /\ a' = lo /\ b' = hi /\ inc' = i /\ ex' = {}
   /\ IF hi < lo \/ i <= 0 \/ (lo <= GenEnd /\ GenEnd <= hi) THEN phase' = "open" /\ cur' = GenEnd
      ELSE res = "ok" /\ c = lo /\ cur' = lo /\ phase' = "live"
IsOpen == phase = "open"
\* excludeValue: "The value must be within the range <startvalue> < excl < <endvalue>.  @throw Exception when called for
\* a single value or when the value is not with the range."   (only used before the first increment)
ExcludeOK(v) == kind = "range" /\ a < v /\ v < b
Exclude(v, res, c) ==
   \/ IsOpen /\ UNCHANGED vars
   \/ ~IsOpen /\ ExcludeOK(v) /\ res = "ok" /\ c = cur /\ ex' = ex \cup {v} /\ UNCHANGED <<kind, a, b, inc, cur, phase>>
   \/ ~IsOpen /\ ~ExcludeOK(v) /\ res = "exception" /\ c = cur /\ UNCHANGED vars
\* excludeValues( begin, end): "Allows to add multiple exclude values."  When one of them is refused the documentation
\* does not say which of the others were taken
ExcludeMany(vs, res, c) ==
   \/ IsOpen /\ UNCHANGED vars
   \/ ~IsOpen /\ (\A i \in 1..Len(vs) : ExcludeOK(vs[i])) /\ res = "ok" /\ c = cur /\ ex' = ex \cup SeqRange(vs)
      /\ UNCHANGED <<kind, a, b, inc, cur, phase>>
   \/ ~IsOpen /\ (\E i \in 1..Len(vs) : ~ExcludeOK(vs[i])) /\ res = "exception" /\ c = cur /\ phase' = "open"
      /\ UNCHANGED <<kind, a, b, inc, ex, cur>>
\* ++: "@throw Exception when the end of the range was already reached"; the cast: "the current value, iterEndValue
\* if the end of the range was reached"; end(): "the end-of-iteration value"
IncrOK(res, c, e) == IF cur = GenEnd THEN res = "exception" /\ c = GenEnd /\ e = GenEnd
                     ELSE res = "ok" /\ c = NextD /\ e = GenEnd
Incr(res, prev, c, e) ==
   \/ IsOpen /\ UNCHANGED vars
   \/ ~IsOpen /\ IncrOK(res, c, e) /\ (res = "ok" => prev = cur) /\ cur' = c /\ UNCHANGED <<kind, a, b, inc, ex, phase>>
\* postfix ++: the documentation says "@return This object" for what is conventionally the previous value: both accepted
PostIncr(res, prev, c, e) ==
   \/ IsOpen /\ UNCHANGED vars
   \/ ~IsOpen /\ IncrOK(res, c, e) /\ (res = "ok" => prev \in {cur, c}) /\ cur' = c /\ UNCHANGED <<kind, a, b, inc, ex, phase>>

\* ---- properties ----
TypeOK == kind \in {"none", "single", "range"} /\ phase \in {"live", "open"}
\* the current value is a value of the range that is not excluded (or the end value); both formulations of the step agree
CurOK == (phase = "live" /\ kind # "none") => /\ cur = GenEnd \/ (cur \in Grid /\ (cur \notin ex \/ cur = a))
                                              /\ (cur # GenEnd => NextD = NextOp)
=============================================================================
