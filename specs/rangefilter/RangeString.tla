---------------------------- MODULE RangeString ----------------------------
(* celma::common::RangeString<int> with its iterator (detail::RangeStringIterator) and                          *)
(* celma::common::detail::RangeExpression  (extension component X05, scope A).                                 *)
(*                                                                                                             *)
(* Two formulations of "what a range string means":                                                            *)
(*  D...  declarative: the text is decomposed (top-level commas, then the shape of every item), an item        *)
(*        denotes the grid values of its range that are not excluded  (DEval).                                 *)
(*  Op... operational: the documented algorithm - RangeExpression scans one expression token by token          *)
(*        (OpParse, one step per token), RangeGenerator produces the values of one expression (GenIncr),       *)
(*        the iterator moves its position behind the processed sub-expression and parses the next one          *)
(*        (ItBegin / ItStep).                                                                                  *)
(* MCRangeString.tla lets TLC compare them on a bounded set of texts; the actions below (one per public        *)
(* operation) are what recorded executions are validated against (TraceRangeString.tla).                       *)
EXTENDS RFText

VARIABLES s,        \* the range string the RangeString object was constructed with (configuration, set by Init/Reset)
          cls,      \* "ok" | "syntax" | "open"  = Classify(s).c
          allowed,  \* set of value sequences an iteration over s may produce (see Classify)
          phase,    \* "new" (no iterator yet) | "iter" | "end" | "failed" (an operation threw) | "open"
          got       \* values the current iterator has produced so far
vars == <<s, cls, allowed, phase, got>>

\* ------------------------------------------------------------------------------------------------------------
\* Declarative meaning
\* ------------------------------------------------------------------------------------------------------------
NoShape == [ok |-> FALSE, n1 |-> 0, hasEnd |-> FALSE, n2 |-> 0, p |-> 0, hasInc |-> FALSE, n3 |-> 0, q |-> 0, hasEx |-> FALSE]
\* t as ONE expression  <start> | <start>-<end> | <start>-<end>[<inc>] | <start>-<end>{..} | <start>-<end>[<inc>]{..}
\* n1, n2, n3: lengths of the numerals; p: position behind <end>; q: position of the {; the } is the last character
Shape(t) ==
   LET n1 == DigitRun(t, 1) IN
   IF n1 = 0 THEN NoShape
   ELSE IF n1 = Len(t) THEN [NoShape EXCEPT !.ok = TRUE, !.n1 = n1]
   ELSE IF t[n1 + 1] # DASH THEN NoShape
   ELSE LET n2 == DigitRun(t, n1 + 2)
            p  == n1 + 2 + n2
            hasInc == p <= Len(t) /\ t[p] = LBR
            n3 == IF hasInc THEN DigitRun(t, p + 1) ELSE 0
            q  == IF hasInc THEN p + n3 + 2 ELSE p
            hasEx == q <= Len(t)
        IN IF n2 = 0 THEN NoShape
           ELSE IF hasInc /\ (n3 = 0 \/ p + n3 + 1 > Len(t) \/ t[p + n3 + 1] # RBR) THEN NoShape
           ELSE IF hasEx /\ ~(t[q] = LCB /\ Len(t) > q /\ t[Len(t)] = RCB) THEN NoShape
           ELSE [ok |-> TRUE, n1 |-> n1, hasEnd |-> TRUE, n2 |-> n2, p |-> p, hasInc |-> hasInc, n3 |-> n3, q |-> q, hasEx |-> hasEx]
ShStart(t, sh) == NumVal(Sub(t, 1, sh.n1))
ShEnd(t, sh)   == NumVal(Sub(t, sh.n1 + 2, sh.n1 + 1 + sh.n2))
ShInc(t, sh)   == NumVal(Sub(t, sh.p + 1, sh.p + sh.n3))
ShInner(t, sh) == Sub(t, sh.q + 1, Len(t) - 1)
ShBig(sh)      == sh.n1 > MaxDigits \/ sh.n2 > MaxDigits \/ sh.n3 > MaxDigits

\* the commas outside of all braces (one pass, the depth is carried along)
RECURSIVE TopFrom(_, _, _)
TopFrom(t, i, depth) == IF i > Len(t) THEN {}
                        ELSE IF t[i] = LCB THEN TopFrom(t, i + 1, depth + 1)
                        ELSE IF t[i] = RCB THEN TopFrom(t, i + 1, depth - 1)
                        ELSE IF t[i] = COMMA /\ depth = 0 THEN {i} \cup TopFrom(t, i + 1, depth)
                        ELSE TopFrom(t, i + 1, depth)
TopCommas(t) == TopFrom(t, 1, 0)
MaxCount == 4096
Items(t) == SplitAt(t, TopCommas(t))

Bad  == [c |-> "syntax", v |-> <<>>]
Open == [c |-> "open", v |-> <<>>]
\* DEval(t).c: "ok"     every part of t is covered by the documentation, DEval(t).v is the sequence of values t denotes
\*             "syntax" t is not a range string ("malformed expressions throw")
\*             "open"   well-formed, but the documentation does not say what it means: <end> below <start>, increment 0,
\*                      an excluded value that is not strictly inside the range (documented for RangeGenerator::excludeValue
\*                      only), numerals above 10^9
\* for a text that is not "ok": lead = the values of the items before the first one that is not "ok", bad = that item
RECURSIVE DEval(_)
DItem(t) ==
   LET sh == Shape(t) IN
   IF ~sh.ok THEN Bad
   ELSE IF ~sh.hasEnd THEN (IF ShBig(sh) THEN Open ELSE [c |-> "ok", v |-> <<ShStart(t, sh)>>])
   ELSE LET inner == IF sh.hasEx THEN DEval(ShInner(t, sh)) ELSE [c |-> "ok", v |-> <<>>] IN
        IF inner.c = "syntax" THEN Bad
        ELSE IF ShBig(sh) \/ inner.c = "open" THEN Open
        ELSE LET a   == ShStart(t, sh)
                 b   == ShEnd(t, sh)
                 inc == IF sh.hasInc THEN ShInc(t, sh) ELSE 1
                 ex  == SeqRange(inner.v)
             IN IF a > b \/ inc = 0 \/ (\E x \in ex : x <= a \/ x >= b) THEN Open
                ELSE IF (b - a) \div inc + 1 > MaxCount THEN Open       \* not a matter of the documentation: too long to be evaluated here
                ELSE [c |-> "ok",
                      v |-> SelectSeq([k \in 1..((b - a) \div inc + 1) |-> a + (k - 1) * inc], LAMBDA x : x \notin ex)]
\* items its[i..], acc = the values of the items before
RECURSIVE DFrom(_, _, _)
DFrom(its, i, acc) == IF i > Len(its) THEN [c |-> "ok", v |-> acc, lead |-> acc, bad |-> <<>>]
                      ELSE LET d == DItem(its[i]) IN
                           IF d.c = "ok" THEN DFrom(its, i + 1, acc \o d.v)
                           ELSE [c |-> d.c, v |-> <<>>, lead |-> acc, bad |-> its[i]]
DEval(t) == DFrom(Items(t), 1, <<>>)

\* What an iteration may have produced when it ends:
\*  ok:     exactly the denoted sequence;
\*  syntax: the documentation does not say WHEN the exception comes (the iterator evaluates lazily), so: the values of
\*          the items before the malformed one, possibly followed by the values of a beginning of the malformed item
\*          that is an expression itself ("12-15x": 12..15), or any beginning of that
\*          that is an expression itself ("12-15x": 12..15), or any beginning of that.  When such a beginning is outside the
\*          documentation ("5-3x", "1-5[0]x") the whole text is.
Classify(t) ==
   LET d == DEval(t) IN
   IF d.c = "ok" THEN [c |-> "ok", allowed |-> {d.v}]
   ELSE IF d.c = "open" THEN [c |-> "open", allowed |-> {}]
   ELSE LET pre == [j \in 1..Len(d.bad) |-> DItem(Sub(d.bad, 1, j))] \o <<>> IN
        IF \E j \in 1..Len(d.bad) : pre[j].c = "open" THEN [c |-> "open", allowed |-> {}]
        ELSE [c |-> "syntax", allowed |-> {d.lead} \cup {d.lead \o pre[j].v : j \in {k \in 1..Len(d.bad) : pre[k].c = "ok"}}]

\* ---- RangeExpression::parseString ----
\* "The string must begin with a valid range expression.  Everything after the parts that could be identified is
\*  ignored." / "@throw if the string contains an invalid character": the expression is the longest beginning of the
\* text with the shape of one expression (the exclude part is only delimited here, by its braces, not evaluated)
ExprShape(t) == LET sh == Shape(t) IN sh.ok /\ (sh.hasEx => Balanced(ShInner(t, sh)))
\* (an expression ends with a digit, ] or } and lies in front of the first comma outside of braces)
MinOf(P) == CHOOSE x \in P : \A y \in P : x <= y
ExprLimit(t) == IF TopCommas(t) = {} THEN Len(t) ELSE MinOf(TopCommas(t)) - 1
ExprPrefixes(t) == {j \in 1..ExprLimit(t) : (IsDigit(t[j]) \/ t[j] = RBR \/ t[j] = RCB) /\ ExprShape(Sub(t, 1, j))}
MaxOf(P) == CHOOSE x \in P : \A y \in P : y <= x
\* fields of the recorded result: matched (length), start, hasEnd, end, hasInc, inc, hasExcl, excl (text)
ParseExprOK(t, r) ==
   LET P == ExprPrefixes(t) IN
   \/ /\ r.res = "ok" /\ P # {}
      /\ IF P = {} THEN FALSE ELSE
         LET m == MaxOf(P)
             u == Sub(t, 1, m)
             sh == Shape(u)
         IN /\ r.matched = m
            /\ ~ShBig(sh) => /\ r.start = ShStart(u, sh)
                             /\ r.hasEnd = sh.hasEnd /\ (sh.hasEnd => r.end = ShEnd(u, sh))
                             /\ r.hasInc = sh.hasInc /\ (sh.hasInc => r.inc = ShInc(u, sh))
                             /\ r.hasExcl = sh.hasEx /\ (sh.hasEx => r.excl = ShInner(u, sh))
   \* refusing is right when the text does not begin with an expression, and it is one of the two documented readings
   \* when the expression is followed by something that is neither the end of the text nor the separator of the next one
   \/ /\ r.res = "exception"
      /\ (IF P = {} THEN TRUE ELSE (MaxOf(P) < Len(t) /\ t[MaxOf(P) + 1] # COMMA))

\* ------------------------------------------------------------------------------------------------------------
\* Operational formulation (the documented algorithm)
\* ------------------------------------------------------------------------------------------------------------
\* --- RangeExpression: one step per token; ps.pos is the position of the next character (1-based) ---
PsInit == [pc |-> "start", pos |-> 1, n1 |-> 0, n2 |-> 0, n3 |-> 0, a0 |-> 0, b0 |-> 0, i0 |-> 0,
           hasEnd |-> FALSE, hasInc |-> FALSE, hasEx |-> FALSE, exB |-> 0, exE |-> 0]
CharAt(t, i) == IF i >= 1 /\ i <= Len(t) THEN t[i] ELSE 0
\* position behind the run of digits starting at i (cursor formulation)
RECURSIVE SkipDigits(_, _)
SkipDigits(t, i) == IF IsDigit(CharAt(t, i)) THEN SkipDigits(t, i + 1) ELSE i
\* position of the } that closes the { whose content starts at i (depth counting), 0 if there is none
RECURSIVE FindClose(_, _, _)
FindClose(t, i, depth) == IF i > Len(t) THEN 0
                          ELSE IF t[i] = LCB THEN FindClose(t, i + 1, depth + 1)
                          ELSE IF t[i] = RCB THEN (IF depth > 0 THEN FindClose(t, i + 1, depth - 1) ELSE i)
                          ELSE FindClose(t, i + 1, depth)
PsStep(t, ps) ==
   LET c == CharAt(t, ps.pos) IN
   CASE ps.pc = "start" ->          \* "first there must always be a number"
           IF ~IsDigit(c) THEN [ps EXCEPT !.pc = "fail"]
           ELSE LET e == SkipDigits(t, ps.pos) IN [ps EXCEPT !.pc = "afterStart", !.pos = e, !.n1 = e - ps.pos, !.a0 = ps.pos]
     [] ps.pc = "afterStart" ->     \* end of text, separator of the next expression, or the dash of a range
           IF ps.pos > Len(t) \/ c = COMMA THEN [ps EXCEPT !.pc = "done"]
           ELSE IF c = DASH THEN [ps EXCEPT !.pc = "end", !.pos = ps.pos + 1]
           ELSE [ps EXCEPT !.pc = "fail"]
     [] ps.pc = "end" ->            \* "have a range, need at least one digit now"
           IF ~IsDigit(c) THEN [ps EXCEPT !.pc = "fail"]
           ELSE LET e == SkipDigits(t, ps.pos) IN [ps EXCEPT !.pc = "afterEnd", !.pos = e, !.n2 = e - ps.pos, !.b0 = ps.pos, !.hasEnd = TRUE]
     [] ps.pc = "afterEnd" ->       \* increment?
           IF c = LBR THEN [ps EXCEPT !.pc = "inc", !.pos = ps.pos + 1] ELSE [ps EXCEPT !.pc = "afterInc"]
     [] ps.pc = "inc" ->            \* digits and the closing bracket
           IF ~IsDigit(c) THEN [ps EXCEPT !.pc = "fail"]
           ELSE LET e == SkipDigits(t, ps.pos) IN
                IF CharAt(t, e) # RBR THEN [ps EXCEPT !.pc = "fail", !.pos = e]
                ELSE [ps EXCEPT !.pc = "afterInc", !.pos = e + 1, !.n3 = e - ps.pos, !.i0 = ps.pos, !.hasInc = TRUE]
     [] ps.pc = "afterInc" ->       \* exclude expression: up to the brace that closes it
           IF c # LCB THEN [ps EXCEPT !.pc = "done"]
           ELSE LET e == FindClose(t, ps.pos + 1, 0) IN
                IF e = 0 THEN [ps EXCEPT !.pc = "fail", !.pos = Len(t) + 1]
                ELSE [ps EXCEPT !.pc = "done", !.pos = e + 1, !.hasEx = TRUE, !.exB = ps.pos + 1, !.exE = e - 1]
     [] OTHER -> ps
RECURSIVE PsRun(_, _)
PsRun(t, ps) == IF ps.pc \in {"done", "fail"} THEN ps ELSE PsRun(t, PsStep(t, ps))
\* result in the format of the recorded ParseExpr event
OpParse(t) ==
   LET ps == PsRun(t, PsInit)
       big == ps.n1 > MaxDigits \/ ps.n2 > MaxDigits \/ ps.n3 > MaxDigits
   IN IF ps.pc = "fail"
        THEN [res |-> "exception", matched |-> 0, big |-> FALSE, start |-> -1, hasEnd |-> FALSE, end |-> -1, hasInc |-> FALSE, inc |-> -1, hasExcl |-> FALSE, excl |-> <<>>]
        ELSE [res |-> "ok", matched |-> ps.pos - 1, big |-> big,
              start |-> IF big THEN -1 ELSE NumVal(Sub(t, ps.a0, ps.a0 + ps.n1 - 1)),
              hasEnd |-> ps.hasEnd, end |-> IF ps.hasEnd /\ ~big THEN NumVal(Sub(t, ps.b0, ps.b0 + ps.n2 - 1)) ELSE -1,
              hasInc |-> ps.hasInc, inc |-> IF ps.hasInc /\ ~big THEN NumVal(Sub(t, ps.i0, ps.i0 + ps.n3 - 1)) ELSE -1,
              hasExcl |-> ps.hasEx, excl |-> IF ps.hasEx THEN Sub(t, ps.exB, ps.exE) ELSE <<>>]

\* --- RangeGenerator<int, -1>: "Generates all numbers in a range", -1 is the end-of-iteration value ---
GenEnd == -1
GenSingle(v) == [single |-> TRUE, cur |-> v, endv |-> 0, inc |-> 0, ex |-> {}]
GenRange(a, b, inc, ex) == [single |-> FALSE, cur |-> a, endv |-> b, inc |-> inc, ex |-> ex]
RECURSIVE GenIncr(_)
GenIncr(g) == IF g.single THEN [g EXCEPT !.cur = GenEnd]
              ELSE IF g.cur > g.endv - g.inc THEN [g EXCEPT !.cur = GenEnd]
              ELSE LET n == [g EXCEPT !.cur = g.cur + g.inc] IN
                   IF n.cur \in g.ex THEN GenIncr(n) ELSE n

\* --- the iterator: it.st  "iter" (it.cur is the current value) | "end" | "exc" | "open" ---
ItDead(st) == [st |-> st, src |-> <<>>, pos |-> 0, mlen |-> 0, gen |-> GenSingle(0), cur |-> 0]
RECURSIVE OpAll(_), OpCreate(_, _), OpDrain(_, _), ItEnter(_, _), ItStep(_)
\* createRanger: the generator for one parsed expression; "an exclude expression can be a full-fledged expression
\* string itself", it is evaluated by an iterator of its own
OpCreate(re, unused) ==
   IF re.big THEN [st |-> "open", gen |-> GenSingle(0)]
   ELSE IF ~re.hasEnd THEN [st |-> "iter", gen |-> GenSingle(re.start)]
   ELSE LET inner == IF re.hasExcl THEN OpAll(re.excl) ELSE [st |-> "ok", vals |-> <<>>]
            inc == IF re.hasInc THEN re.inc ELSE 1
        IN IF inner.st = "exc" THEN [st |-> "exc", gen |-> GenSingle(0)]
           ELSE IF inner.st = "open" \/ re.start > re.end \/ inc = 0 THEN [st |-> "open", gen |-> GenSingle(0)]
           ELSE IF (re.end - re.start) \div inc + 1 > MaxCount THEN [st |-> "open", gen |-> GenSingle(0)]
           ELSE IF \E x \in SeqRange(inner.vals) : x <= re.start \/ x >= re.end THEN [st |-> "open", gen |-> GenSingle(0)]
           ELSE [st |-> "iter", gen |-> GenRange(re.start, re.end, inc, SeqRange(inner.vals))]
\* parse the expression that starts behind offset pos (0-based) of src and set up its generator
ItEnter(src, pos) ==
   LET re == OpParse(Sub(src, pos + 1, Len(src))) IN
   IF re.res = "exception" \/ re.matched = 0 THEN ItDead("exc")
   ELSE LET cr == OpCreate(re, 0) IN
        IF cr.st # "iter" THEN ItDead(cr.st)
        ELSE [st |-> "iter", src |-> src, pos |-> pos, mlen |-> re.matched, gen |-> cr.gen, cur |-> cr.gen.cur]
ItBegin(src) == ItEnter(src, 0)
\* operator++: next value of the current generator; when it is exhausted "the position is updated" behind the
\* processed sub-expression: end of the text = end of the range, else the separator and the next expression
ItStep(it) ==
   LET g == GenIncr(it.gen) IN
   IF g.cur # GenEnd THEN [it EXCEPT !.gen = g, !.cur = g.cur]
   ELSE LET np == it.pos + it.mlen IN
        IF np >= Len(it.src) THEN ItDead("end")
        ELSE IF it.src[np + 1] # COMMA THEN ItDead("exc")
        ELSE ItEnter(it.src, np + 1)
OpDrain(it, acc) == IF it.st = "iter" THEN OpDrain(ItStep(it), acc \o <<it.cur>>)
                    ELSE [st |-> (IF it.st = "end" THEN "ok" ELSE it.st), vals |-> acc]
OpAll(src) == OpDrain(ItBegin(src), <<>>)

\* ------------------------------------------------------------------------------------------------------------
\* Actions: one per public operation.  Arguments = what the implementation reported.
\* ------------------------------------------------------------------------------------------------------------
Setup(str) == LET d == Classify(str) IN
              /\ s' = str /\ cls' = d.c /\ allowed' = d.allowed /\ phase' = "new" /\ got' = <<>>

\* an iterator that has produced `sofar` now reports: res ("ok" | "exception"), atEnd (== end()), v (current value)
YieldOK(sofar, res, atEnd, v) ==
   \/ cls = "open"
   \/ cls # "open" /\ res = "ok" /\ ~atEnd /\ \E d \in allowed : IsPrefixOf(sofar \o <<v>>, d)
   \/ cls = "ok" /\ res = "ok" /\ atEnd /\ sofar \in allowed
   \/ cls = "syntax" /\ res = "exception"
YieldTo(sofar, res, atEnd, v) ==
   /\ YieldOK(sofar, res, atEnd, v)
   /\ IF cls = "open" THEN phase' = "open" /\ got' = <<>>
      ELSE IF res = "exception" THEN phase' = "failed" /\ got' = sofar
      ELSE IF atEnd THEN phase' = "end" /\ got' = sofar
      ELSE phase' = "iter" /\ got' = sofar \o <<v>>
   /\ UNCHANGED <<s, cls, allowed>>

\* RangeString::begin() / cbegin(): a new iterator "with the first value from the range"
Begin(res, atEnd, v) == YieldTo(<<>>, res, atEnd, v)
\* prefix increment of the iterator
Incr(res, atEnd, v) == (phase = "iter" \/ cls = "open") /\ YieldTo(got, res, atEnd, v)
\* postfix increment: "@return An iterator object with the previous value."
PostIncr(res, prevAtEnd, prevV, atEnd, v) ==
   /\ (phase = "iter" \/ cls = "open") /\ YieldTo(got, res, atEnd, v)
   /\ (cls # "open" /\ res = "ok") => (~prevAtEnd /\ prevV = LastOf(got))
\* copy construction + assignment: the copy shows the same position and value and compares equal to the original
CopyIt(atEnd, v, eq) ==
   /\ (phase \in {"iter", "end"} \/ cls = "open")
   /\ cls # "open" => /\ atEnd = (phase = "end") /\ eq = TRUE
                      /\ (phase = "iter" => v = LastOf(got))
   /\ UNCHANGED vars
\* a complete loop  for (it = rs.begin(); it != rs.end(); ++it)  over a fresh iterator: vals, res ("ok" | "exception")
IterAllOK(res, vals) ==
   \/ cls = "open" /\ res \in {"ok", "exception", "long"}        \* whatever it means, the loop ends ("long": more than 20000
                                                                   \* different values, the driver gave up)
   \/ cls = "ok" /\ res = "ok" /\ vals \in allowed
   \/ cls = "syntax" /\ res = "exception" /\ \E d \in allowed : IsPrefixOf(vals, d)
IterAll(res, vals) == IterAllOK(res, vals) /\ UNCHANGED vars
\* RangeExpression::parseString( s) + the observers
ParseExpr(r) == ParseExprOK(s, r) /\ UNCHANGED vars

\* ---- properties ----
TypeOK == /\ cls \in {"ok", "syntax", "open"}
          /\ phase \in {"new", "iter", "end", "failed", "open"}
\* what the iterator has produced is always the beginning of a permitted sequence, the end is only reported when the
\* sequence is complete, and only malformed texts are refused
Conforms == cls # "open" => /\ \E d \in allowed : IsPrefixOf(got, d)
                            /\ (phase = "end" => cls = "ok" /\ got \in allowed)
                            /\ (phase = "failed" => cls = "syntax")
=============================================================================
