---------------------------- MODULE ValueFilter ----------------------------
(* celma::common::ValueFilter<int> and celma::common::parseFilterString<int>()  (extension component X05, scope B). *)
(*                                                                                                                 *)
(* Abstract state: the list of top-level filters, each a list of filters ("or" of "and"s).                          *)
(* Two formulations of matches(): MatchD (there is a top-level filter all of whose filters match) and OpMatch (the   *)
(* scan with early exit).  Two formulations of the filter string: ParseD (the text is split at the commas, the      *)
(* pieces at the plus signs, every piece has one of the documented forms) and OpParseF (a cursor runs over the      *)
(* characters, one step per filter; "the first filter must be added, all other filters must be appended" - it uses  *)
(* the add.../append... operations of this module).  MCValueFilter.tla compares them on a bounded instance.         *)
EXTENDS RFText

VARIABLES groups,   \* Seq of Seq of filters; a filter is [k |-> "single"|"range"|"min"|"max", a, b, inv]
          phase     \* "live" | "open" (a text outside the documentation was accepted: nothing is known any more)
vars == <<groups, phase>>

FSingle(v, inv)    == [k |-> "single", a |-> v, b |-> v, inv |-> inv]
FRange(lo, hi, inv) == [k |-> "range", a |-> lo, b |-> hi, inv |-> inv]
FMin(v)            == [k |-> "min", a |-> v, b |-> v, inv |-> FALSE]
FMax(v)            == [k |-> "max", a |-> v, b |-> v, inv |-> FALSE]

\* "Single numbers must match exactly" / "must be different from this value" / "must be in this range, bounds
\* inclusive" / "must be outside of the range" / "greater than or equal to this limit" / "less than this limit"
FMatch(f, x) == CASE f.k = "single" -> IF f.inv THEN x # f.a ELSE x = f.a
                  [] f.k = "range"  -> IF f.inv THEN ~(f.a <= x /\ x <= f.b) ELSE (f.a <= x /\ x <= f.b)
                  [] f.k = "min"    -> x >= f.a
                  [] f.k = "max"    -> x < f.a
\* "From the top-level filters, at least one must match (or condition).  If a top-level filter contains multiple
\*  filters, each of them must match (and condition)."
MatchD(gs, x) == \E i \in 1..Len(gs) : \A j \in 1..Len(gs[i]) : FMatch(gs[i][j], x)
\* the same as a scan: the first filter of a group that does not match ends the group, the first group that matches ends
\* the scan
RECURSIVE OpGroup(_, _, _), OpMatch(_, _, _)
OpGroup(g, j, x) == IF j > Len(g) THEN TRUE ELSE IF ~FMatch(g[j], x) THEN FALSE ELSE OpGroup(g, j + 1, x)
OpMatch(gs, i, x) == IF i > Len(gs) THEN FALSE ELSE IF OpGroup(gs[i], 1, x) THEN TRUE ELSE OpMatch(gs, i + 1, x)

AddTo(gs, f) == gs \o <<(<<f>>)>>
AppendTo(gs, f) == IF gs = <<>> THEN gs ELSE [gs EXCEPT ![Len(gs)] = @ \o <<f>>]

\* ------------------------------------------------------------------------------------------------------------
\* The filter string, declaratively.  Result [c, g]:  c = "ok" (g = the filters), "invalid" ("@throw
\* std::invalid_argument if the contents of the filter string are invalid"), "open" (not covered by the documentation)
\* ------------------------------------------------------------------------------------------------------------
NumLike(x) == x # <<>> /\ (AllDigits(x) \/ (x[1] = DASH /\ Len(x) > 1 /\ AllDigits(Tail(x))))
Plain(x) == x # <<>> /\ AllDigits(x)
TooBig(x) == Len(x) > MaxDigits
TInvalid == [c |-> "invalid", f |-> FMin(0)]
TOpen == [c |-> "open", f |-> FMin(0)]
TOk(f) == [c |-> "ok", f |-> f]
\* one filter definition u (no comma, no plus inside)
DFilter(u) ==
   LET inv == u # <<>> /\ u[1] = BANG
       w   == IF inv THEN Tail(u) ELSE u
   IN IF w = <<>> THEN TInvalid
      ELSE IF w[1] \in {LBR, RBR} THEN           \* lower limit [<nbr>, upper limit ]<nbr>
           LET r == Tail(w) IN
           IF ~NumLike(r) THEN TInvalid
           ELSE IF inv \/ ~Plain(r) \/ TooBig(r) THEN TOpen        \* inverted limit, negative number, above 10^9
           ELSE TOk(IF w[1] = LBR THEN FMin(NumVal(r)) ELSE FMax(NumVal(r)))
      ELSE IF Plain(w) THEN (IF TooBig(w) THEN TOpen ELSE TOk(FSingle(NumVal(w), inv)))
      ELSE IF NumLike(w) THEN TOpen                                \* negative number
      ELSE LET ds == {d \in 2..(Len(w) - 1) : w[d] = DASH /\ NumLike(Sub(w, 1, d - 1)) /\ NumLike(Sub(w, d + 1, Len(w)))} IN
           IF ds = {} THEN TInvalid
           ELSE LET d == KthOf(ds, 1)
                    m == Sub(w, 1, d - 1)
                    n == Sub(w, d + 1, Len(w))
                IN IF ~Plain(m) \/ ~Plain(n) \/ TooBig(m) \/ TooBig(n) THEN TOpen
                   ELSE IF NumVal(m) < NumVal(n) THEN TOk(FRange(NumVal(m), NumVal(n), inv))
                   ELSE IF NumVal(m) = NumVal(n) THEN TOpen          \* "invalid range bounds"? the documentation is silent
                   ELSE TInvalid                                     \* "@throw std::range_error if the parameters for the range are invalid"
SepPos(t, c) == {i \in 1..Len(t) : t[i] = c}
ParseD(t) ==
   LET combs == SplitAt(t, SepPos(t, COMMA))
       defs  == [i \in 1..Len(combs) |-> SplitAt(combs[i], SepPos(combs[i], PLUS))] \o <<>>
       all   == UNION {{<<i, j>> : j \in 1..Len(defs[i])} : i \in 1..Len(combs)}
       nonempty == {ij \in all : defs[ij[1]][ij[2]] # <<>>}
       ev(ij) == DFilter(defs[ij[1]][ij[2]])
   IN IF nonempty = {} \/ \E ij \in nonempty : ev(ij).c = "invalid" THEN [c |-> "invalid", g |-> <<>>]
      ELSE IF nonempty # all \/ \E ij \in nonempty : ev(ij).c = "open" THEN [c |-> "open", g |-> <<>>]
      ELSE [c |-> "ok", g |-> [i \in 1..Len(combs) |-> [j \in 1..Len(defs[i]) |-> ev(<<i, j>>).f]]]

\* ------------------------------------------------------------------------------------------------------------
\* The filter string, operationally: a cursor; fs = [pos, first, gs, n, open, st]
\* ------------------------------------------------------------------------------------------------------------
CharAt(t, i) == IF i >= 1 /\ i <= Len(t) THEN t[i] ELSE 0
RECURSIVE SkipDigits(_, _)
SkipDigits(t, i) == IF IsDigit(CharAt(t, i)) THEN SkipDigits(t, i + 1) ELSE i
IsSep(c) == c = COMMA \/ c = PLUS
AtTokEnd(t, i) == i > Len(t) \/ IsSep(t[i])
\* add (first filter of a combination) or append (all others)
Put(fs, f) == IF fs.first THEN AddTo(fs.gs, f) ELSE AppendTo(fs.gs, f)
\* behind a complete filter definition that ends before position e: consume the separator
Behind(t, fs, e, gs2, isOpen) ==
   [fs EXCEPT !.pos = e + 1, !.gs = gs2, !.n = fs.n + 1, !.open = fs.open \/ isOpen,
              !.first = IF CharAt(t, e) = COMMA THEN TRUE ELSE FALSE]
FStep(t, fs) ==
   LET c == CharAt(t, fs.pos) IN
   IF fs.pos > Len(t) THEN      \* end of the text: a separator as last character leaves an empty definition behind
        [fs EXCEPT !.st = IF fs.n = 0 THEN "exc" ELSE IF fs.open \/ IsSep(t[Len(t)]) THEN "open" ELSE "ok"]
   ELSE IF IsSep(c) THEN        \* empty definition
        [fs EXCEPT !.pos = fs.pos + 1, !.open = TRUE, !.first = IF c = COMMA THEN TRUE ELSE fs.first]
   ELSE LET inv == c = BANG
            p1  == IF inv THEN fs.pos + 1 ELSE fs.pos
            c1  == CharAt(t, p1)
        IN IF AtTokEnd(t, p1) THEN [fs EXCEPT !.st = "exc"]
           ELSE IF c1 = LBR \/ c1 = RBR THEN
                LET neg == CharAt(t, p1 + 1) = DASH
                    d   == IF neg THEN p1 + 2 ELSE p1 + 1
                    e   == SkipDigits(t, d)
                IN IF e = d \/ ~AtTokEnd(t, e) THEN [fs EXCEPT !.st = "exc"]
                   ELSE IF inv \/ neg \/ e - d > MaxDigits THEN Behind(t, fs, e, fs.gs, TRUE)
                   ELSE LET v == NumVal(Sub(t, d, e - 1)) IN
                        Behind(t, fs, e, Put(fs, IF c1 = LBR THEN FMin(v) ELSE FMax(v)), FALSE)
           ELSE LET neg1 == c1 = DASH
                    d1   == IF neg1 THEN p1 + 1 ELSE p1
                    e1   == SkipDigits(t, d1)
                IN IF e1 = d1 THEN [fs EXCEPT !.st = "exc"]
                   ELSE IF AtTokEnd(t, e1) THEN        \* single value
                        IF neg1 \/ e1 - d1 > MaxDigits THEN Behind(t, fs, e1, fs.gs, TRUE)
                        ELSE Behind(t, fs, e1, Put(fs, FSingle(NumVal(Sub(t, d1, e1 - 1)), inv)), FALSE)
                   ELSE IF t[e1] # DASH THEN [fs EXCEPT !.st = "exc"]
                   ELSE LET neg2 == CharAt(t, e1 + 1) = DASH
                            d2   == IF neg2 THEN e1 + 2 ELSE e1 + 1
                            e2   == SkipDigits(t, d2)
                        IN IF e2 = d2 \/ ~AtTokEnd(t, e2) THEN [fs EXCEPT !.st = "exc"]
                           ELSE IF neg1 \/ neg2 \/ e1 - d1 > MaxDigits \/ e2 - d2 > MaxDigits THEN Behind(t, fs, e2, fs.gs, TRUE)
                           ELSE LET m == NumVal(Sub(t, d1, e1 - 1))
                                    n == NumVal(Sub(t, d2, e2 - 1))
                                IN IF m > n THEN [fs EXCEPT !.st = "exc"]
                                   ELSE IF m = n THEN Behind(t, fs, e2, fs.gs, TRUE)
                                   ELSE Behind(t, fs, e2, Put(fs, FRange(m, n, inv)), FALSE)
RECURSIVE FRun(_, _)
FRun(t, fs) == IF fs.st # "run" THEN fs ELSE FRun(t, FStep(t, fs))
\* an "exc" later in the text wins over an undocumented definition before it, like in ParseD
OpParseF(t) == LET fs == FRun(t, [pos |-> 1, first |-> TRUE, gs |-> <<>>, n |-> 0, open |-> FALSE, st |-> "run"]) IN
               IF fs.st = "exc" THEN [c |-> "invalid", g |-> <<>>]
               ELSE IF fs.st = "open" THEN [c |-> "open", g |-> <<>>]
               ELSE [c |-> "ok", g |-> fs.gs]

\* the text a filter list is written as by str(): "a representation of the filter that corresponds to the format that
\* the filter string parser supports" - used by the bounded model only (the recorded text is judged by StrOK)
FText(f) == CASE f.k = "single" -> (IF f.inv THEN <<BANG>> ELSE <<>>) \o DecOf(f.a)
              [] f.k = "range"  -> (IF f.inv THEN <<BANG>> ELSE <<>>) \o DecOf(f.a) \o <<DASH>> \o DecOf(f.b)
              [] f.k = "min"    -> <<LBR>> \o DecOf(f.a)
              [] f.k = "max"    -> <<RBR>> \o DecOf(f.a)
JoinWith(qs, c) == LET F[i \in 0..Len(qs)] == IF i = 0 THEN <<>> ELSE IF i = 1 THEN qs[1] ELSE F[i-1] \o <<c>> \o qs[i] IN F[Len(qs)]
GText(gs) == JoinWith([i \in 1..Len(gs) |-> JoinWith([j \in 1..Len(gs[i]) |-> FText(gs[i][j])], PLUS)], COMMA)

\* ------------------------------------------------------------------------------------------------------------
\* Actions: one per public operation; res = "ok" | "exception", size = size() after the call
\* ------------------------------------------------------------------------------------------------------------
Init == groups = <<>> /\ phase = "live"
Reset == groups' = <<>> /\ phase' = "live"
IsOpen == phase = "open"
Stay == UNCHANGED vars

AddF(f, res, size) == \/ IsOpen /\ Stay
                      \/ ~IsOpen /\ res = "ok" /\ groups' = AddTo(groups, f) /\ size = Len(groups') /\ UNCHANGED phase
\* "@throw std::runtime_error if no top-level filter was added before."
AppendF(f, res, size) == \/ IsOpen /\ Stay
                         \/ ~IsOpen /\ groups = <<>> /\ res = "exception" /\ size = 0 /\ Stay
                         \/ ~IsOpen /\ groups # <<>> /\ res = "ok" /\ groups' = AppendTo(groups, f) /\ size = Len(groups') /\ UNCHANGED phase
Refused(res, size) == ~IsOpen /\ res = "exception" /\ size = Len(groups) /\ Stay

AddSingle(v, inv, res, size)    == AddF(FSingle(v, inv), res, size)
AppendSingle(v, inv, res, size) == AppendF(FSingle(v, inv), res, size)
AddMin(v, res, size)            == AddF(FMin(v), res, size)
AppendMin(v, res, size)         == AppendF(FMin(v), res, size)
AddMax(v, res, size)            == AddF(FMax(v), res, size)
AppendMax(v, res, size)         == AppendF(FMax(v), res, size)
\* "lower bound" / "upper bound" / "@throw std::range_error if the parameters for the range are invalid": a lower bound
\* above the upper bound is refused, equal bounds may be refused or taken
AddRange(lo, hi, inv, res, size) ==
   \/ IsOpen /\ Stay
   \/ ~IsOpen /\ lo <= hi /\ AddF(FRange(lo, hi, inv), res, size)
   \/ ~IsOpen /\ lo >= hi /\ Refused(res, size)
AppendRange(lo, hi, inv, res, size) ==
   \/ IsOpen /\ Stay
   \/ ~IsOpen /\ lo <= hi /\ AppendF(FRange(lo, hi, inv), res, size)
   \/ ~IsOpen /\ lo >= hi /\ Refused(res, size)
\* "Clears all internally stored filters."
Clear(size) == \/ IsOpen /\ Stay
               \/ ~IsOpen /\ groups' = <<>> /\ size = 0 /\ UNCHANGED phase
\* "@return true if the filter container is empty" / "Number of top-level filters stored internally"
Empty(r) == (IsOpen \/ r = (groups = <<>>)) /\ Stay
Size(n)  == (IsOpen \/ n = Len(groups)) /\ Stay
\* matches( lo), matches( lo + 1), ...: r = the results; "@throw std::runtime_error if [no] filters are defined"
MatchesOK(lo, res, r) == IF groups = <<>> THEN res = "exception"
                         ELSE res = "ok" /\ r = [i \in 1..Len(r) |-> MatchD(groups, lo + i - 1)]
Matches(lo, res, r) == (IsOpen \/ MatchesOK(lo, res, r)) /\ Stay
\* str(): parsing the text gives the same filters again
StrOK(t) == groups = <<>> \/ LET p == ParseD(t) IN p.c = "open" \/ (p.c = "ok" /\ p.g = groups)
Str(t) == (IsOpen \/ StrOK(t)) /\ Stay
\* vf = parseFilterString< int>( t): "@return The object that contains all the filters"
ParseFilter(t, res, size) ==
   LET p == ParseD(t) IN
   \/ IsOpen /\ Stay
   \/ ~IsOpen /\ p.c = "ok" /\ res = "ok" /\ groups' = p.g /\ size = Len(p.g) /\ UNCHANGED phase
   \/ ~IsOpen /\ p.c = "invalid" /\ Refused(res, size)
   \/ ~IsOpen /\ p.c = "open" /\ ((res = "exception" /\ size = Len(groups) /\ Stay) \/ (res = "ok" /\ phase' = "open" /\ groups' = <<>>))

\* ---- properties ----
TypeOK == phase \in {"live", "open"} /\ \A i \in 1..Len(groups) : Len(groups[i]) >= 1
\* the two formulations of matches() agree on a window around every bound that occurs
FIdx == {ij \in (1..Len(groups)) \X (1..8) : ij[2] <= Len(groups[ij[1]])}
Bounds == {groups[ij[1]][ij[2]].a : ij \in FIdx} \cup {groups[ij[1]][ij[2]].b : ij \in FIdx}
MatchAgree == \A c \in Bounds : \A x \in (c - 1)..(c + 1) : MatchD(groups, x) = OpMatch(groups, 1, x)
\* writing the filters as text and parsing the text gives the filters again, in both formulations
\* (a range with equal bounds, should an implementation take it, is outside the documented format)
Degenerate == \E ij \in FIdx : groups[ij[1]][ij[2]].k = "range" /\ groups[ij[1]][ij[2]].a = groups[ij[1]][ij[2]].b
RoundTrip == groups # <<>> => LET want == IF Degenerate THEN [c |-> "open", g |-> <<>>] ELSE [c |-> "ok", g |-> groups] IN
                              ParseD(GText(groups)) = want /\ OpParseF(GText(groups)) = want
=============================================================================
