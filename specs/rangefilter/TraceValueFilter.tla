---------------------------- MODULE TraceValueFilter ----------------------------
(* Validates executions recorded from celma::common::ValueFilter<int> / parseFilterString<int>                        *)
(* (rangefilter_driver --comp vf).  Events (res = "ok"|"exception", size = size() after the call):                    *)
(*   {"e":"Reset"}                                            a new ValueFilter<int>                                  *)
(*   {"e":"AddSingle"|"AppendSingle","v":k,"inv":b,"res":..,"size":k}                                                 *)
(*   {"e":"AddRange"|"AppendRange","lo":k,"hi":k,"inv":b,"res":..,"size":k}                                           *)
(*   {"e":"AddMin"|"AppendMin"|"AddMax"|"AppendMax","v":k,"res":..,"size":k}                                          *)
(*   {"e":"Clear","size":k}   {"e":"Empty","r":b}   {"e":"Size","r":k}   {"e":"Str","t":[..]}                         *)
(*   {"e":"Matches","lo":k,"res":..,"r":[b,..]}               matches( lo), matches( lo + 1), ...                     *)
(*   {"e":"ParseFilter","t":[..],"res":..,"size":k}           vf = parseFilterString< int>( t)                        *)
EXTENDS ValueFilter, TLC, Json, IOUtils
VARIABLE l
Log == ndJsonDeserialize(IOEnv.TRACE)
Ev == Log[l]
TInit == l = 1 /\ Init
TNext == /\ l <= Len(Log) /\ l' = l + 1
         /\ \/ Ev.e = "Reset" /\ Reset
            \/ Ev.e = "AddSingle" /\ AddSingle(Ev.v, Ev.inv, Ev.res, Ev.size)
            \/ Ev.e = "AppendSingle" /\ AppendSingle(Ev.v, Ev.inv, Ev.res, Ev.size)
            \/ Ev.e = "AddRange" /\ AddRange(Ev.lo, Ev.hi, Ev.inv, Ev.res, Ev.size)
            \/ Ev.e = "AppendRange" /\ AppendRange(Ev.lo, Ev.hi, Ev.inv, Ev.res, Ev.size)
            \/ Ev.e = "AddMin" /\ AddMin(Ev.v, Ev.res, Ev.size)
            \/ Ev.e = "AppendMin" /\ AppendMin(Ev.v, Ev.res, Ev.size)
            \/ Ev.e = "AddMax" /\ AddMax(Ev.v, Ev.res, Ev.size)
            \/ Ev.e = "AppendMax" /\ AppendMax(Ev.v, Ev.res, Ev.size)
            \/ Ev.e = "Clear" /\ Clear(Ev.size)
            \/ Ev.e = "Empty" /\ Empty(Ev.r)
            \/ Ev.e = "Size" /\ Size(Ev.r)
            \/ Ev.e = "Str" /\ Str(Ev.t)
            \/ Ev.e = "Matches" /\ Matches(Ev.lo, Ev.res, Ev.r)
            \/ Ev.e = "ParseFilter" /\ ParseFilter(Ev.t, Ev.res, Ev.size)
TSpec == TInit /\ [][TNext]_<<vars, l>>
Accepted == TLCGet("stats").diameter = Len(Log) + 1
=============================================================================
