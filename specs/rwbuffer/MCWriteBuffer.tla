---------------------------- MODULE MCWriteBuffer ----------------------------
EXTENDS WriteBuffer, TLC, Json
CONSTANTS MaxAppended
VARIABLE act                                   \* ghost: last action and its arguments
ByteAt(j) == (j * 37 + 11) % 256               \* every appended byte is distinguishable by position
DataOf(k) == [i \in 1..k |-> ByteAt(Len(appended) + i)]
MCInit == Init /\ act = [n |-> "Init", len |-> 0]
MCNext == \/ \E k \in 1..(n+1) : AppendData(DataOf(k)) /\ act' = [n |-> "Append", len |-> k]
          \/ AppendEmpty /\ act' = [n |-> "Append", len |-> 0]
          \/ FlushBuf /\ act' = [n |-> "Flush", len |-> 0]
MCSpec == MCInit /\ [][MCNext]_<<vars, act>>
AfterFlush == act.n = "Flush" => (buf = <<>> /\ sink = appended)    \* "no later than the next flush"
Bound == Len(appended) <= MaxAppended
St(b, s, c) == [n |-> c, buf |-> b, sunk |-> Len(s)]
EdgeOut == PrintT("EDGE " \o ToJson([i |-> (act.n = "Init"), pre |-> St(buf, sink, n), a |-> [n |-> act'.n, len |-> act'.len, N |-> n], post |-> St(buf', sink', n')]))
=============================================================================
