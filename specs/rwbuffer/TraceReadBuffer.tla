---------------------------- MODULE TraceReadBuffer ----------------------------
(* Validates executions recorded from celma::common::ReadBuffer<N> (rwbuffer_driver).    *)
(* Events:  {"e":"Reset","N":k}                                                          *)
(*          {"e":"GetBegin","len":k}          before get() is called                     *)
(*          {"e":"ReadData","req":k,"got":k}  inside the driver's readData()              *)
(*          {"e":"GetEnd","res":"ok"|"refused","data":[bytes]}   after get() returned/threw *)
(* start/end are private: TLC infers them (the compaction choice is the only branching). *)
EXTENDS ReadBuffer, TLC, Json, IOUtils
CONSTANT Stats     \* TRUE: the counters of the statistics policy (ReadCountPolicy) are judged as well (extension check X06)
VARIABLE l, st     \* st: <<numSourceReads, bytesReadFromSource, numBufferReads, bytesReadFromBuffer>> as documented in read_buffer.hpp
Log == ndJsonDeserialize(IOEnv.TRACE)
Ev == Log[l]
TInit == /\ l = 1 /\ n = 0 /\ mem = <<>> /\ start = 0 /\ end = 0 /\ spos = 0 /\ consumed = 0
         /\ pc = "idle" /\ want = 0 /\ reads = 0 /\ ret = <<>> /\ st = <<0, 0, 0, 0>>
TNext == /\ l <= Len(Log) /\ l' = l + 1
         /\ \/ Ev.e = "GetBegin" /\ (\E sh \in {0, start} : GetBegin(Ev.len, sh)) /\ UNCHANGED st
            \* "how many times data was read from the source" / "how much data was read from the source so far"
            \/ Ev.e = "ReadData" /\ ReadData(Ev.req, Ev.got) /\ st' = <<st[1] + 1, st[2] + Ev.got, st[3], st[4]>>
            \* "how many times data was copied from the internal buffer into the outgoing buffer" / "how much data was copied"
            \/ /\ Ev.e = "GetEnd" /\ GetEnd
               /\ Ev.res = (IF pc = "refused" THEN "refused" ELSE "ok")
               /\ ret' = Ev.data
               /\ st' = IF pc # "refused" /\ Len(Ev.data) > 0 THEN <<st[1], st[2], st[3] + 1, st[4] + Len(Ev.data)>> ELSE st
               /\ Stats => Ev.st = st'
            \/ /\ Ev.e = "Reset" /\ n' = Ev.N /\ mem' = [i \in 0..Ev.N-1 |-> -1]
               /\ start' = 0 /\ end' = 0 /\ spos' = 0 /\ consumed' = 0
               /\ pc' = "idle" /\ want' = 0 /\ reads' = 0 /\ ret' = <<>> /\ st' = <<0, 0, 0, 0>>
TSpec == TInit /\ [][TNext]_<<vars, l, st>>
Accepted == TLCGet("stats").diameter = Len(Log) + 1
=============================================================================
