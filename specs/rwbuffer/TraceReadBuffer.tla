---------------------------- MODULE TraceReadBuffer ----------------------------
(* Validates executions recorded from celma::common::ReadBuffer<N> (rwbuffer_driver).    *)
(* Events:  {"e":"Reset","N":k}                                                          *)
(*          {"e":"GetBegin","len":k}          before get() is called                     *)
(*          {"e":"ReadData","req":k,"got":k}  inside the driver's readData()              *)
(*          {"e":"GetEnd","res":"ok"|"refused","data":[bytes]}   after get() returned/threw *)
(* start/end are private: TLC infers them (the compaction choice is the only branching). *)
EXTENDS ReadBuffer, TLC, Json, IOUtils
VARIABLE l
Log == ndJsonDeserialize(IOEnv.TRACE)
Ev == Log[l]
TInit == /\ l = 1 /\ n = 0 /\ mem = <<>> /\ start = 0 /\ end = 0 /\ spos = 0 /\ consumed = 0
         /\ pc = "idle" /\ want = 0 /\ reads = 0 /\ ret = <<>>
TNext == /\ l <= Len(Log) /\ l' = l + 1
         /\ \/ Ev.e = "GetBegin" /\ \E sh \in {0, start} : GetBegin(Ev.len, sh)
            \/ Ev.e = "ReadData" /\ ReadData(Ev.req, Ev.got)
            \/ /\ Ev.e = "GetEnd" /\ GetEnd
               /\ Ev.res = (IF pc = "refused" THEN "refused" ELSE "ok")
               /\ ret' = Ev.data
            \/ /\ Ev.e = "Reset" /\ n' = Ev.N /\ mem' = [i \in 0..Ev.N-1 |-> -1]
               /\ start' = 0 /\ end' = 0 /\ spos' = 0 /\ consumed' = 0
               /\ pc' = "idle" /\ want' = 0 /\ reads' = 0 /\ ret' = <<>>
TSpec == TInit /\ [][TNext]_<<vars, l>>
Accepted == TLCGet("stats").diameter = Len(Log) + 1
=============================================================================
