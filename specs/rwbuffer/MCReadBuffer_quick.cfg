SPECIFICATION MCSpec
CONSTANTS Sizes = {1, 2, 3, 4}
          MaxConsumed = 8
          MaxGets = 4
INVARIANTS WindowOK WindowData Refines Terminates NoStuck
CONSTRAINT Bound
ACTION_CONSTRAINT EdgeOut
CHECK_DEADLOCK FALSE
