---------------------------- MODULE WriteBuffer ----------------------------
(* celma::common::WriteBuffer<N> (property C19, write half).                *)
(* One action per documented case of append() plus flush().  The buffer     *)
(* capacity n is a variable fixed by Init so that one TLC run covers all    *)
(* capacities of Sizes and one trace file may hold executions with          *)
(* different capacities.                                                    *)
EXTENDS Naturals, Sequences
CONSTANTS Sizes          \* set of capacities explored by the bounded model
VARIABLES n,             \* capacity (template parameter N)
          buf,           \* bytes currently buffered = mpBuffer[0 .. mWritePos-1]
          sink,          \* ghost: concatenation of all writeData() calls so far
          appended,      \* ghost: everything ever passed to append(), in order
          lastw          \* chunks handed to writeData() by the last action, in call order
vars == <<n, buf, sink, appended, lastw>>

Flat(chunks) == LET F[i \in 0..Len(chunks)] == IF i = 0 THEN <<>> ELSE F[i-1] \o chunks[i] IN F[Len(chunks)]
NonEmpty(chunks) == SelectSeq(chunks, LAMBDA c : Len(c) > 0)

Init == n \in Sizes /\ buf = <<>> /\ sink = <<>> /\ appended = <<>> /\ lastw = <<>>

\* every write into the internal buffer stays inside it: positions Len(buf)+1 .. Len(buf)+Len(d) <= n
MemWriteOK(at, len) == at + len <= n

\* len >= N: what is buffered is flushed first, then the block is passed through unbuffered
PassThrough(d) == /\ Len(d) >= n
                  /\ lastw' = NonEmpty(<<buf, d>>)
                  /\ buf' = <<>>
\* block fits the buffer but not the free space: flush, then copy to the start of the buffer
FlushThenCopy(d) == /\ Len(d) < n /\ n - Len(buf) < Len(d)
                    /\ MemWriteOK(0, Len(d))
                    /\ lastw' = NonEmpty(<<buf>>)
                    /\ buf' = d
\* enough free space: copy behind what is buffered
CopyIn(d) == /\ Len(d) < n /\ n - Len(buf) >= Len(d)
             /\ MemWriteOK(Len(buf), Len(d))
             /\ lastw' = <<>>
             /\ buf' = buf \o d
AppendData(d) == /\ Len(d) > 0
                 /\ (PassThrough(d) \/ FlushThenCopy(d) \/ CopyIn(d))
                 /\ appended' = appended \o d
                 /\ sink' = sink \o Flat(lastw')
                 /\ UNCHANGED n
AppendEmpty == lastw' = <<>> /\ UNCHANGED <<n, buf, sink, appended>>     \* len = 0: nothing happens
FlushBuf == /\ lastw' = NonEmpty(<<buf>>)
            /\ sink' = sink \o buf
            /\ buf' = <<>>
            /\ UNCHANGED <<n, appended>>

\* ---- the property (C19, write half) ----
BoundOK      == Len(buf) <= n                        \* the write position never leaves the buffer
NothingLost  == sink \o buf = appended               \* each byte exactly once, in order
NoEmptyWrite == \A i \in 1..Len(lastw) : Len(lastw[i]) > 0
=============================================================================
