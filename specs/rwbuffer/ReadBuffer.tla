---------------------------- MODULE ReadBuffer ----------------------------
(* celma::common::ReadBuffer<N> (property C19, read half).                  *)
(* get(len) is several steps: GetBegin (argument checks, compaction),       *)
(* ReadData (one readData() call of the refill loop; how much the source    *)
(* delivers is the source's choice), GetEnd (copy out, result).             *)
(* The source is the fixed stream SrcByte(0), SrcByte(1), ...               *)
EXTENDS Integers, Sequences
CONSTANTS Sizes
VARIABLES n,          \* capacity
          mem,        \* internal buffer: function 0..n-1 -> byte (or -1 = never written)
          start, end, \* window of valid data [start, end)
          spos,       \* number of bytes delivered by the source so far
          consumed,   \* ghost: number of bytes handed to the caller so far
          pc,         \* "idle" | "filling" | "ready" | "refused" | "noop"
          want,       \* length of the get() in progress
          reads,      \* ghost: readData() calls of the get() in progress
          ret         \* bytes returned by the last completed get()
vars == <<n, mem, start, end, spos, consumed, pc, want, reads, ret>>

SrcByte(i) == (i * 37 + 11) % 256
Src(from, len) == [i \in 1..len |-> SrcByte(from + i - 1)]

Init == /\ n \in Sizes /\ mem = [i \in 0..n-1 |-> -1]
        /\ start = 0 /\ end = 0 /\ spos = 0 /\ consumed = 0
        /\ pc = "idle" /\ want = 0 /\ reads = 0 /\ ret = <<>>

\* what the implementation does (fillBuffer): reset when empty, move when the tail is too short
AsBuiltShift(len) == IF start = end THEN start
                     ELSE IF n - start < len THEN start ELSE 0
\* GetBegin: shift = number of positions the valid window is moved towards the buffer start.
\* Legal shifts: 0 or start (the property does not prescribe when to compact, only that the request
\* must afterwards be satisfiable inside the buffer).
GetBegin(len, shift) ==
   /\ pc = "idle"
   /\ want' = len /\ reads' = 0
   /\ IF len = 0 THEN pc' = "noop" /\ UNCHANGED <<mem, start, end>>
      ELSE IF len > n THEN pc' = "refused" /\ UNCHANGED <<mem, start, end>>
      ELSE IF len <= end - start THEN pc' = "ready" /\ UNCHANGED <<mem, start, end>>
      ELSE /\ pc' = "filling"
           /\ shift \in {0, start}
           /\ n - (start - shift) >= len
           /\ start' = start - shift /\ end' = end - shift
           /\ mem' = [i \in 0..n-1 |-> IF i >= start - shift /\ i < end - shift THEN mem[i + shift] ELSE mem[i]]
   /\ UNCHANGED <<n, spos, consumed, ret>>

\* one readData(&buf[end], req) call that delivered got bytes
ReadData(req, got) ==
   /\ pc = "filling"
   /\ req >= 1 /\ end + req <= n              \* MemWrite range inside the buffer
   /\ got >= 1 /\ got <= req
   /\ mem' = [i \in 0..n-1 |-> IF i >= end /\ i < end + got THEN SrcByte(spos + i - end) ELSE mem[i]]
   /\ end' = end + got /\ spos' = spos + got
   /\ reads' = reads + 1
   /\ pc' = IF end' - start >= want THEN "ready" ELSE "filling"
   /\ UNCHANGED <<n, start, consumed, want, ret>>

GetEnd ==
   /\ pc \in {"ready", "refused", "noop"}
   /\ IF pc = "ready"
        THEN /\ start + want <= end          \* MemRead range inside the valid window
             /\ ret' = [i \in 1..want |-> mem[start + i - 1]]
             /\ start' = start + want /\ consumed' = consumed + want
        ELSE ret' = <<>> /\ UNCHANGED <<start, consumed>>
   /\ pc' = "idle"
   /\ UNCHANGED <<n, mem, end, spos, want, reads>>

\* ---- the property (C19, read half) ----
WindowOK   == 0 <= start /\ start <= end /\ end <= n
\* the window holds exactly the not yet consumed part of what the source delivered
WindowData == /\ spos = consumed + (end - start)
              /\ \A i \in start..end-1 : mem[i] = SrcByte(consumed + i - start)
\* refinement: a completed get() returned exactly the next bytes of the source stream
Refines    == pc = "idle" /\ Len(ret) > 0 => ret = Src(consumed - Len(ret), Len(ret))
\* the refill loop terminates: every readData() delivers >= 1 byte, so at most `want` calls
Terminates == reads <= want
=============================================================================
