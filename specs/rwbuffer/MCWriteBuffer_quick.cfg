SPECIFICATION MCSpec
CONSTANTS Sizes = {1, 2, 3, 4}
          MaxAppended = 8
INVARIANTS BoundOK NothingLost NoEmptyWrite AfterFlush
CONSTRAINT Bound
ACTION_CONSTRAINT EdgeOut
CHECK_DEADLOCK FALSE
