SPECIFICATION MCSpec
CONSTANTS Sizes = {1, 2, 3, 4, 5, 6, 7, 8}
          MaxAppended = 20
INVARIANTS BoundOK NothingLost NoEmptyWrite AfterFlush
CONSTRAINT Bound
ACTION_CONSTRAINT EdgeOut
CHECK_DEADLOCK FALSE
