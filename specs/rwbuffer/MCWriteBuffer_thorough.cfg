SPECIFICATION MCSpec
CONSTANTS Sizes = {1, 2, 3, 4, 5, 6}
          MaxAppended = 14
INVARIANTS BoundOK NothingLost NoEmptyWrite AfterFlush
CONSTRAINT Bound
ACTION_CONSTRAINT EdgeOut
CHECK_DEADLOCK FALSE
