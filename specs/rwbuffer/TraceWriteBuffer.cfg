SPECIFICATION TSpec
CONSTANTS Sizes = {}
INVARIANTS BoundOK NothingLost NoEmptyWrite
POSTCONDITION Accepted
CHECK_DEADLOCK FALSE
