SPECIFICATION TSpec
CONSTANTS Sizes = {}
          Stats = TRUE
INVARIANTS WindowOK WindowData Refines Terminates
POSTCONDITION Accepted
CHECK_DEADLOCK FALSE
