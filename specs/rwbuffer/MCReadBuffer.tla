---------------------------- MODULE MCReadBuffer ----------------------------
EXTENDS ReadBuffer, TLC, Json
CONSTANTS MaxConsumed, MaxGets
VARIABLES act, gets
\* as built: compaction decided by AsBuiltShift, readData() always asked for the whole free tail
MCInit == Init /\ act = [n |-> "Init", len |-> 0, req |-> 0, got |-> 0] /\ gets = 0
MCNext == \/ \E len \in 0..(n+1) : /\ GetBegin(len, AsBuiltShift(len))
                                   /\ act' = [n |-> "GetBegin", len |-> len, req |-> 0, got |-> 0]
                                   /\ gets' = gets + 1
          \/ \E got \in 1..(n - end) : /\ ReadData(n - end, got)
                                       /\ act' = [n |-> "ReadData", len |-> want, req |-> n - end, got |-> got]
                                       /\ UNCHANGED gets
          \/ GetEnd /\ act' = [n |-> "GetEnd", len |-> want, req |-> 0, got |-> 0] /\ UNCHANGED gets
MCSpec == MCInit /\ [][MCNext]_<<vars, act, gets>>
\* a get() that is neither refused nor a no-op can always make progress (no stuck refill loop)
NoStuck == pc = "filling" => n - end >= 1
Bound == consumed <= MaxConsumed /\ gets <= MaxGets /\ spos <= MaxConsumed + n
St == [n |-> n, start |-> start, end |-> end, spos |-> spos, consumed |-> consumed, pc |-> pc, want |-> want]
StP == [n |-> n', start |-> start', end |-> end', spos |-> spos', consumed |-> consumed', pc |-> pc', want |-> want']
EdgeOut == PrintT("EDGE " \o ToJson([i |-> (act.n = "Init"), pre |-> St, a |-> [n |-> act'.n, len |-> act'.len, req |-> act'.req, got |-> act'.got, N |-> n], post |-> StP]))
=============================================================================
