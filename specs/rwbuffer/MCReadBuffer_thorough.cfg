SPECIFICATION MCSpec
CONSTANTS Sizes = {1, 2, 3, 4, 5, 6}
          MaxConsumed = 14
          MaxGets = 6
INVARIANTS WindowOK WindowData Refines Terminates NoStuck
CONSTRAINT Bound
ACTION_CONSTRAINT EdgeOut
CHECK_DEADLOCK FALSE
