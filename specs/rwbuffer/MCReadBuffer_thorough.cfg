SPECIFICATION MCSpec
CONSTANTS Sizes = {1, 2, 3, 4, 5}
          MaxConsumed = 12
          MaxGets = 5
INVARIANTS WindowOK WindowData Refines Terminates NoStuck
CONSTRAINT Bound
ACTION_CONSTRAINT EdgeOut
CHECK_DEADLOCK FALSE
