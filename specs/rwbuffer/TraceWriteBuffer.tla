---------------------------- MODULE TraceWriteBuffer ----------------------------
(* Validates executions recorded from celma::common::WriteBuffer<N> (rwbuffer_driver).   *)
(* Events:  {"e":"Reset","N":k}                                                          *)
(*          {"e":"Append","d":[bytes],"w":[[bytes],..],"buffered":k,"res":"ok"}          *)
(*          {"e":"Flush", "d":[],     "w":[[bytes],..],"buffered":k,"res":"ok"}          *)
EXTENDS WriteBuffer, TLC, Json, IOUtils
CONSTANT Stats     \* TRUE: the counters of the statistics policy (WriteCountPolicy) are judged as well (extension check X06)
VARIABLE l, st     \* st: <<numAppendCalled, bytesAppended, numFlushCalled, bytesFlushed>> as documented in write_buffer.hpp
Log == ndJsonDeserialize(IOEnv.TRACE)
Ev == Log[l]
\* Acceptance is declarative (the property does not fix WHEN buffered bytes are written, only that every byte
\* reaches the sink exactly once, in order, no later than the next flush, that the buffer never holds more than N
\* bytes and that an oversized block is not kept in the buffer): the recorded writeData() calls w extend the sink,
\* the sink stays a prefix of everything appended, what is not yet in the sink is what buffered() reports.
IsPrefixSeq(p, t) == Len(p) <= Len(t) /\ SubSeq(t, 1, Len(p)) = p
Step(d, isFlush) ==
   /\ appended' = appended \o d
   /\ lastw' = Ev.w
   /\ sink' = sink \o Flat(Ev.w)
   /\ IsPrefixSeq(sink', appended')
   /\ buf' = SubSeq(appended', Len(sink') + 1, Len(appended'))
   /\ Len(buf') = Ev.buffered /\ Len(buf') <= n
   /\ (isFlush => buf' = <<>>)
   /\ (Len(d) >= n => buf' = <<>>)                 \* oversized: passed through after flushing what was buffered
   /\ Ev.res = "ok"
   /\ UNCHANGED n
   \* statistics: "how many times append() was called" / "how many bytes were appended" (a call without data may or may not
   \* count: the policy hook is documented as "called when data is appended"), "called when data is written to the
   \* destination ... counts the number of calls and the amount of bytes written"
   /\ st' = <<Ev.st[1], st[2] + Len(d), st[3] + Len(Ev.w), st[4] + Len(Flat(Ev.w))>>
   /\ Stats => /\ Ev.st = st'
               /\ Ev.st[1] \in (IF isFlush THEN {st[1]} ELSE IF Len(d) > 0 THEN {st[1] + 1} ELSE {st[1], st[1] + 1})
TInit == /\ l = 1 /\ n = 0 /\ buf = <<>> /\ sink = <<>> /\ appended = <<>> /\ lastw = <<>> /\ st = <<0, 0, 0, 0>>
TNext == /\ l <= Len(Log) /\ l' = l + 1
         /\ \/ Ev.e = "Append" /\ Step(Ev.d, FALSE)
            \/ Ev.e = "Flush"  /\ Step(<<>>, TRUE)
            \/ Ev.e = "Reset"  /\ n' = Ev.N /\ buf' = <<>> /\ sink' = <<>> /\ appended' = <<>> /\ lastw' = <<>> /\ st' = <<0, 0, 0, 0>>
TSpec == TInit /\ [][TNext]_<<vars, l, st>>
Accepted == TLCGet("stats").diameter = Len(Log) + 1
=============================================================================
