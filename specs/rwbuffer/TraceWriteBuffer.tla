---------------------------- MODULE TraceWriteBuffer ----------------------------
(* Validates executions recorded from celma::common::WriteBuffer<N> (rwbuffer_driver).   *)
(* Events:  {"e":"Reset","N":k}                                                          *)
(*          {"e":"Append","d":[bytes],"w":[[bytes],..],"buffered":k,"res":"ok"}          *)
(*          {"e":"Flush", "d":[],     "w":[[bytes],..],"buffered":k,"res":"ok"}          *)
EXTENDS WriteBuffer, TLC, Json, IOUtils
VARIABLE l
Log == ndJsonDeserialize(IOEnv.TRACE)
Ev == Log[l]
Matches == /\ Len(buf') = Ev.buffered          \* buffered() after the call
           /\ lastw' = Ev.w                    \* exactly these writeData() calls, in this order
           /\ Ev.res = "ok"
TInit == /\ l = 1 /\ n = 0 /\ buf = <<>> /\ sink = <<>> /\ appended = <<>> /\ lastw = <<>>
TNext == /\ l <= Len(Log) /\ l' = l + 1
         /\ \/ Ev.e = "Append" /\ Len(Ev.d) > 0 /\ AppendData(Ev.d) /\ Matches
            \/ Ev.e = "Append" /\ Len(Ev.d) = 0 /\ AppendEmpty /\ Matches
            \/ Ev.e = "Flush"  /\ FlushBuf /\ Matches
            \/ Ev.e = "Reset"  /\ n' = Ev.N /\ buf' = <<>> /\ sink' = <<>> /\ appended' = <<>> /\ lastw' = <<>>
TSpec == TInit /\ [][TNext]_<<vars, l>>
Accepted == TLCGet("stats").diameter = Len(Log) + 1
=============================================================================
