SPECIFICATION TSpec
CONSTANTS Sizes = {}
INVARIANTS WindowOK WindowData Refines Terminates
POSTCONDITION Accepted
CHECK_DEADLOCK FALSE
