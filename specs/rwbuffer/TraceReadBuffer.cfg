SPECIFICATION TSpec
CONSTANTS Sizes = {}
          Stats = FALSE
INVARIANTS WindowOK WindowData Refines Terminates
POSTCONDITION Accepted
CHECK_DEADLOCK FALSE
