SPECIFICATION TSpec
CONSTANTS Sizes = {}
          Stats = TRUE
INVARIANTS BoundOK NothingLost NoEmptyWrite
POSTCONDITION Accepted
CHECK_DEADLOCK FALSE
