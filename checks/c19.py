#!/usr/bin/env python3
"""C19: buffered reading and writing preserve the byte stream for every chunking."""
import os, sys
sys.path.insert(0, os.path.join(os.path.dirname(os.path.abspath(__file__)), "..", "tools"))
from vlib import *


def run(tier):
    c = Check("C19", tier)
    spec = os.path.join(ROOT, "specs", "rwbuffer")
    exe = build_driver("rwbuffer", os.path.join(ROOT, "harness", "rwbuffer_driver.cpp"), "asan")
    cases, ops = (40, 100) if tier == "quick" else (1500, 200)
    for comp, mod, must in (("write", "WriteBuffer", ["PassThrough", "FlushThenCopy", "CopyIn", "FlushBuf", "AppendEmpty"]),
                            ("read", "ReadBuffer", ["GetBegin", "ReadData", "GetEnd"])):
        r, edges = c.model(spec, "MC" + mod, "MC%s_%s.cfg" % (mod, tier), must_take=must)
        seqs, nedges, nstates, unreach = cover(edges)
        script = os.path.join(c.wd, "script_%s.ndjson" % comp)
        write_script(seqs, script)
        c.notes.append("%s: %d distinct edges over %d states covered by %d replay sequences" % (mod, nedges, nstates, len(seqs)))
        tr = os.path.join(c.wd, "replay_%s.ndjson" % comp)
        c.drive(exe, ["--comp", comp, "--script", script], tr, "R-" + comp)
        c.validate(spec, "Trace" + mod, "Trace%s.cfg" % mod, tr, "R-" + comp)
        tr2 = os.path.join(c.wd, "random_%s.ndjson" % comp)
        c.drive(exe, ["--comp", comp, "--random", "--seed", SEED, "--cases", cases, "--ops", ops], tr2, "T-" + comp)
        c.validate(spec, "Trace" + mod, "Trace%s.cfg" % mod, tr2, "T-" + comp)
    c.exhaustive = True
    c.assumptions = ["the source delivers at least one byte per readData() call (contract of ReadBuffer)",
                     "ASan/UBSan observe every access outside the heap blocks used for the internal buffer and the caller's data"]
    return c.finish()


if __name__ == "__main__":
    tier = sys.argv[sys.argv.index("--tier") + 1] if "--tier" in sys.argv else os.environ.get("VERIF_TIER", "quick")
    main_wrapper(lambda: run(tier))
