#!/usr/bin/env python3
"""X01 (extension): the argument summary (Handler::printSummary / Groups::printSummary) lists exactly the arguments that were
used - by command line, argument file or environment variable -, each once, with the value its destination holds after the
evaluation, plus the optional type / key parts; title and "no arguments" line."""
import os, sys, collections
sys.path.insert(0, os.path.dirname(os.path.abspath(__file__)))
from argcommon import *
import finding_helpers
from c08 import partitions, with_groups

OPTS = [{"type": t, "key": k, "ovl": "set"} for t in (False, True) for k in (False, True)] + \
       [{"type": False, "key": False, "ovl": "os"}, {"type": True, "key": True, "ovl": "cout"}]


def summary_action(words, mode="handler", evaluate=True, calls=None, precalls=None, tag=None, **kw):
    d = {"n": "Summary", "mode": mode, "evaluate": evaluate, "presrc": "none", "filetext": [], "envstr": [], "argv": to_words(words),
         "precalls": precalls or [], "calls": OPTS if calls is None else calls, "tag": tag or {"k": "none"}}
    d.update(kw)
    return d


def env_safe(words):
    return all(w != "" and not any(ch in w for ch in " '\"\\") for w in words)


# ------------------------------------------------------------------------------------ M + R
def model(c, tier):
    r, edges = c.model(SPEC, "MCArgSummary", "MCArgSummary_%s.cfg" % tier, timeout=3000, xmx="16g", coverage=False)
    cfgs = None
    with open(r.stdout_path, "r", errors="replace") as f:
        for line in f:
            if line.startswith('"CFGS '):
                cfgs = json.loads(json.loads(line)[5:])
                break
    if r.violation:
        return None, edges
    if not cfgs or not edges:
        raise MachineryError("MCArgSummary printed no configurations / edges")
    # vacuity guard (TLC's coverage instrumentation does not get through the instantiated MCArgEval, see docs/notes_argsummary.md)
    st = collections.Counter()
    for e in edges:
        a = json.loads(e[1])
        st[a["n"]] += 1
        if a["n"] == "Print":
            st["print_entries" if a["ne"] > 0 else "print_none"] += 1
            st["print_decl"] += 1 if a["decl"] else 0
            st["print_env"] += 1 if a["p"] else 0
            st["print_" + a["m"]] += 1
    need = ["Eval", "Print", "print_entries", "print_none", "print_decl", "print_env", "print_handler", "print_groups"]
    if any(st[k] == 0 for k in need):
        raise MachineryError("vacuous MCArgSummary run: %s" % dict(st))
    c.notes.append("MCArgSummary: transitions by kind: %s" % dict(st))
    return cfgs, edges


def replay_script(cfgs, edges, path):
    """every cover sequence of the model (one handler: printSummary calls, evalArguments, printSummary calls) is one driver action"""
    seqs, nedges, nstates, _ = cover(edges, maxlen=24)
    by = collections.defaultdict(list)
    for s in seqs:
        acts = [json.loads(a) for a in s]
        a0 = acts[0]
        k = next((i for i, a in enumerate(acts) if a["n"] == "Eval"), None)
        pre = [a["o"] for a in (acts if k is None else acts[:k])]
        post = [] if k is None else [a["o"] for a in acts[k + 1:]]
        envw = [S(w) for w in a0["p"][0]] if a0["p"] else []
        if not env_safe(envw):
            raise MachineryError("model produced an environment word list that cannot be written as it is: %r" % envw)
        d = summary_action([S(w) for w in a0["words"]], mode=a0["m"], evaluate=k is not None, calls=post, precalls=pre,
                           tag={"k": "model"}, presrc="env" if a0["p"] else "none", envstr=T(" ".join(envw)))
        by[(a0["ci"], a0["m"])].append(d)
    blocks = []
    skipped = 0
    for ci, m in sorted(by):
        cfg = cfgs[ci - 1]
        acts = by[(ci, m)]
        if m == "groups":
            # the arguments spread over as many member handlers as the constraints allow (C08: partitions); typed abbreviations that
            # two members could claim are a recorded finding of C08 and kept out
            # (one member only when the handler defines --endvalues: two members cannot both define it)
            cfg = with_groups(cfg, partitions(cfg)[0 if cfg["endvalues"] else -1])
            keep = [a for a in acts if not finding_helpers.xabbr(cfg, a)]
            skipped += len(acts) - len(keep)
            acts = keep
        for i in range(0, len(acts), 600):              # several executions per configuration: the validation is sharded by executions
            blocks.append((cfg, acts[i:i + 600]))
    if skipped:
        log("[R] %d Groups behaviours with an abbreviation that two member handlers could claim left out (finding F-groups-abbrev-across-members)" % skipped)
    n = write_cases(path, blocks)
    return n, nedges, nstates, len(seqs)


# ------------------------------------------------------------------------------------ T
def random_blocks(tier):
    g = Gen(SEED * 7 + 101)
    r = g.r
    ncfg, nlines = (110, 5) if tier == "quick" else (2200, 8)
    blocks = []
    stats = collections.Counter()
    for n in range(ncfg):
        groups = r.randint(2, 3) if n % 4 == 3 else 1
        kind = n % 10
        while True:
            cfg = g.cfg(constraints=True, groups=groups, subgroups=(1 if kind in (1, 6) else 2 if kind == 2 else 0),
                        cmd=("key" if kind == 4 else "pos" if kind == 8 else None), endvalues=0.25 if groups == 1 else 0.0,
                        exclude=arggen.GROWBITS if kind in (4, 8) else ())
            if not (groups > 1 and arggen.growbits_cross_prefix(cfg)):
                break
        # (two member handlers cannot both define --endvalues)
        mode = "groups" if groups > 1 or (r.random() < 0.1 and not cfg["endvalues"]) else "handler"
        simple = not any(a["kind"] == "sub" or a["vm"] == "cmd" for a in cfg["args"])
        acts = []

        def add(words, **kw):
            calls = r.sample(OPTS, r.randint(1, 4))
            pre = [r.choice(OPTS)] if r.random() < 0.15 else []
            a = summary_action(words, mode=mode, calls=calls, precalls=pre, **kw)
            # Groups: long-key abbreviations that two member handlers could claim are a recorded finding of C08 (kept out)
            if mode == "groups" and finding_helpers.xabbr(cfg, a):
                stats["skipped_xabbr"] += 1
                return
            acts.append(a)
            stats[a["presrc"] + ("" if a["evaluate"] else "/noeval")] += 1

        add([], evaluate=False, tag={"k": "new"})
        for _ in range(nlines):
            line = g.with_markers(cfg, gen_valid(g, cfg))
            if line is None:
                continue
            tag = {"k": "line", "line": line_json(line)}
            words = g.spell_line(cfg, line)
            if words is None:
                continue
            add(words, tag=tag)
            # the first uses through the environment variable / the argument file, the others on the command line
            if simple and mode == "handler" and line and not any(u[0] == 0 for u in line):
                k = r.randint(1, len(line))
                head, tail = g.spell_line(cfg, line[:k]), g.spell_line(cfg, line[k:])
                if head is not None and tail is not None and env_safe(head) and r.random() < 0.7:
                    add(tail, presrc="env", envstr=T(" ".join(head)), tag={"k": "env"})
                per_use = [g.spell_line(cfg, [u]) for u in line[:k]]
                if tail is not None and all(w is not None and env_safe(w) for w in per_use) and r.random() < 0.5:
                    text = "# arguments\n" + "\n\n".join(" ".join(w) for w in per_use) + ("\n" if r.random() < 0.7 else "")
                    add(tail, presrc="file", filetext=T(text), tag={"k": "file"})
            # rule-breaking edits: the evaluation throws (nothing is promised about the summary then) or the outcome is open
            if r.random() < 0.5:
                plain = [u for u in line if u[0] != 0]
                muts = arggen.mutations(g, cfg, plain) if simple else arggen.sub_mutations(g, cfg, plain)
                for mk, w in r.sample(muts, min(2, len(muts))):
                    add(w, tag={"k": "mut", "m": mk})
        blocks.append((cfg, acts))
    return blocks, stats


def run(tier):
    c = Check("X01", tier)
    exe = driver("asan")
    cfgs, edges = model(c, tier)
    if cfgs is not None:
        script = os.path.join(c.wd, "replay.ndjson")
        n, nedges, nstates, nseq = replay_script(cfgs, edges, script)
        c.notes.append("R: %d distinct edges over %d states covered by %d replay sequences = driver actions (one handler each)" % (nedges, nstates, nseq))
        run_script(c, exe, script, "R", trace_module="TraceArgSummary")
    blocks, stats = random_blocks(tier)
    script2 = os.path.join(c.wd, "random.ndjson")
    n2 = write_cases(script2, blocks)
    c.notes.append("T: %d Summary actions on %d random configurations: %s" % (n2, len(blocks), dict(stats)))
    run_script(c, exe, script2, "T", trace_module="TraceArgSummary")
    c.exhaustive = True
    c.rule = ("one evaluation = one recorded Summary event (fresh handler: printSummary calls, evalArguments, printSummary calls; every printed summary "
              "parsed into its lines) checked by TLC against ArgSummary; distinct = distinct event lines")
    return finish_args(c, ["the driver recognises an entry by the frame 'Value <..> set on variable '..'[ by argument '..'].' and a title as a line "
                           "that is not indented; the texts of the title and of the 'no arguments' line are not compared",
                           "value texts are fixed for bool, int, LevelCounter, value arguments, optional<int>, std::string and the sequence / ordered "
                           "containers; stack, queue, priority_queue: elements in any order; bit sets: binary digits; double, arrays, tuple, map: open"])


if __name__ == "__main__":
    tier = sys.argv[sys.argv.index("--tier") + 1] if "--tier" in sys.argv else os.environ.get("VERIF_TIER", "quick")
    main_wrapper(lambda: run(tier))
