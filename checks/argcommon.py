#!/usr/bin/env python3
"""Shared machinery of the argument-handler checks (C01-C09, C18): ArgEval/ArgDecl specifications,
arg_driver, seeded generators (tools/arggen.py)."""
import random, os, sys, json, collections
sys.path.insert(0, os.path.join(os.path.dirname(os.path.abspath(__file__)), "..", "tools"))
from vlib import *
import arggen
from arggen import T, S, Gen, eval_action, to_words

SPEC = os.path.join(ROOT, "specs", "prog_args")
LIBS = ("prog_args", "common", "format", "appl", "container")
LINK = ("-lboost_system", "-lboost_filesystem")


def driver(flavour="asan"):
    return build_driver("arg", os.path.join(ROOT, "harness", "arg_driver.cpp"), flavour, lib_subdirs=LIBS, libs=LINK)


def scratch(c):
    return mkdir(os.path.join(c.wd, "scratch"))


# ------------------------------------------------------------------------------------ M + R for ArgEval
def model_behaviours(c, tier, cfgsel=None, maxuses=None):
    """Runs MCArgEval on a selection of its configuration family; returns (cfgs, behaviours) where a
    behaviour is the `a` record of an EDGE line (one finished evaluation of one spelling)."""
    maxuses = maxuses or (2 if tier == "quick" else 3)
    sel = "{" + ", ".join(str(x) for x in sorted(cfgsel or [])) + "}"
    cfgpath = os.path.join(c.wd, "MCArgEval_run.cfg")
    with open(cfgpath, "w") as f:
        f.write("SPECIFICATION MCSpec\nCONSTANTS MaxUses = %d\n          CfgSel = %s\n"
                "INVARIANTS CursorInv AgreesInv ClosureInv\nACTION_CONSTRAINT EdgeOut\nCHECK_DEADLOCK FALSE\n" % (maxuses, sel))
    so = os.path.join(mkdir(os.path.join(OUT, "tlcout")), "MCArgEval_%s_%s.out" % (c.prop, tier))
    r = run_tlc(SPEC, "MCArgEval", cfgpath, workers=NCPU, timeout=3000, xmx="20g", stdout_path=so)
    if r.error:
        raise MachineryError("MCArgEval: " + r.error)
    cfgs, beh = None, []
    with open(so, "r", errors="replace") as f:
        for line in f:
            if line.startswith('"CFGS '):
                cfgs = json.loads(json.loads(line)[5:])
            elif line.startswith('"EDGE '):
                beh.append(json.loads(json.loads(line)[5:])["a"])
    c.add_model("MCArgEval/cfgs=%s/maxuses=%d" % (sel, maxuses), r, edges=beh)
    if not r.violation:
        if not cfgs or not beh:
            raise MachineryError("MCArgEval printed no behaviours")
        st = collections.Counter((b["valid"], b["out"]) for b in beh)
        c.notes.append("MCArgEval cfgs=%s maxuses=%d: %d behaviours (configuration x abstract line x spelling): %s" % (
            sel, maxuses, len(beh), ", ".join("valid=%s/out=%s: %d" % (k[0], k[1], v) for k, v in sorted(st.items(), key=str))))
        # vacuity guard: the declarative property must have been exercised on both sides
        if st.get((True, "ok"), 0) == 0 or st.get((False, "err"), 0) == 0:
            raise MachineryError("vacuous MCArgEval run: %s" % dict(st))
    log("[M] MCArgEval cfgs=%s maxuses=%d: %d distinct, %d behaviours, %.1fs%s" % (sel, maxuses, r.distinct, len(beh), r.wall,
                                                                 " VIOLATION " + r.violation if r.violation else ""))
    return cfgs, beh


REPLAY_CAP = 600000


def behaviours_script(cfgs, beh, path, select=None, mode="handler", cap=None):
    """Script replaying model behaviours: one Reset per configuration.  More than `cap` behaviours (default REPLAY_CAP): a
    seeded sample, the same share of every configuration (the model itself is always checked exhaustively by TLC)."""
    by = collections.defaultdict(list)
    for b in beh:
        if select is None or select(b):
            by[b["ci"]].append(b)
    cap = cap or REPLAY_CAP
    total = sum(len(v) for v in by.values())
    if total > cap:
        rnd = random.Random(SEED * 31 + 7)
        for ci in sorted(by):
            by[ci] = rnd.sample(by[ci], max(1, len(by[ci]) * cap // total))
        log("[R] %d of %d model behaviours selected for the replay (seeded sample)" % (sum(len(v) for v in by.values()), total))
    n = 0
    with open(path, "w") as f:
        for ci in sorted(by):
            f.write(json.dumps({"n": "Reset", "cfg": cfgs[ci - 1]}) + "\n")
            seen = set()
            for b in by[ci]:
                key = json.dumps(b["words"])
                if key in seen:
                    continue
                seen.add(key)
                f.write(json.dumps({"n": "Eval", "mode": mode, "presrc": "none", "filetext": [], "envstr": [], "argv": b["words"], "cmd": [],
                                    "tag": {"k": "model", "valid": b["valid"]}}) + "\n")
                n += 1
                if len(seen) % 4000 == 0:
                    # a new execution of the same configuration: the validation of the recorded trace is sharded by executions
                    f.write(json.dumps({"n": "Reset", "cfg": cfgs[ci - 1]}) + "\n")
    return n


def _chunks(script, maxlines):
    """splits a script into pieces of at most maxlines actions; every piece starts with the Reset of its block."""
    pieces, cur, reset = [], [], None
    with open(script) as f:
        for ln in f:
            if ln.startswith('{"n": "Reset"') or ln.startswith('{"n":"Reset"'):
                reset = ln
                if len(cur) >= maxlines:
                    pieces.append(cur); cur = []
                cur.append(ln)
                continue
            if len(cur) >= maxlines:
                pieces.append(cur); cur = [reset] if reset else []
            cur.append(ln)
    if cur:
        pieces.append(cur)
    return pieces


def run_script(c, exe, script, tag, trace_module="TraceArgEval", timeout=600, env=None, shards=NCPU, maxlines=120000):
    """Runs a script through the driver (in pieces, so that no recorded trace exceeds the output limit) and
    validates every recorded trace with TLC.  Returns (rejections, path of the last trace)."""
    if tag.startswith("R") and os.environ.get("VERIF_SKIP_R"):
        # sensitivity experiments only (how much do the random traces find without the replay of the model behaviours?)
        c.notes.append("%s skipped (VERIF_SKIP_R)" % tag)
        return [], None
    pieces = _chunks(script, maxlines)
    allrej, tr = [], None
    stats = collections.Counter()
    for k, piece in enumerate(pieces):
        ptag = tag if len(pieces) == 1 else "%s.%d" % (tag, k)
        ps = script if len(pieces) == 1 else "%s.part%d" % (script, k)
        if len(pieces) > 1:
            with open(ps, "w") as f:
                f.writelines(piece)
        tr = os.path.join(c.wd, "trace_%s.ndjson" % ptag)
        c.drive(exe, ["--script", ps, "--scratch", scratch(c)], tr, ptag, timeout=timeout, env=env)
        # a configuration the handler refuses to set up is a generator problem, never a property violation
        bad, first = 0, ""
        with open(tr) as f:
            for ln in f:
                if '"out":"setup"' in ln:
                    bad += 1
                    if bad == 1:
                        first = ln[:600]
                elif ln.startswith('{"e":"Eval"'):
                    stats["ok" if '"out":"ok"' in ln else "err" if '"out":"err"' in ln else "other"] += 1
        if bad:
            raise MachineryError("%s: %d generated configurations were refused at set-up (generator out of domain): %s" % (ptag, bad, first))
        allrej += c.validate(SPEC, trace_module, trace_module + ".cfg", tr, ptag, shards=shards, stateless=True)
        if len(pieces) > 1:
            os.remove(ps)
            if k < len(pieces) - 1 and not allrej:
                os.remove(tr)
    c.notes.append("%s: outcomes recorded from the implementation: %s" % (tag, dict(stats)))
    return allrej, tr


def line_json(line):
    """abstract line for the trace (TraceArgDecl.LineOf): [argument, [value texts]] and, for a sub-group use, its own line"""
    return [[u[0], [T(v) for v in u[1]]] + ([line_json(u[2])] if len(u) > 2 else []) for u in line]


def gen_valid(g, cfg, tries=30):
    """a valid abstract line; positional uses are placed anywhere a free value is not taken by the argument before it
    (a multi-value argument, or an optional-mode argument used without value)."""
    for _ in range(tries):
        line = g.valid_line(cfg)
        if line is not None:
            args = cfg["args"]
            keyed = [u for u in line if not args[u[0] - 1]["pos"]]
            for u in [u for u in line if args[u[0] - 1]["pos"]]:
                ok = [k for k in range(len(keyed) + 1)
                      if k == 0 or not (args[keyed[k - 1][0] - 1]["multi"] or (args[keyed[k - 1][0] - 1]["vm"] == "opt" and not keyed[k - 1][1])
                                        or args[keyed[k - 1][0] - 1]["pos"])]
                # nothing follows a command-mode use; a positional command-mode use is the last one itself
                ok = [k for k in ok if not any(args[x[0] - 1]["vm"] == "cmd" for x in keyed[:k])]
                if args[u[0] - 1]["vm"] == "cmd":
                    ok = [k for k in ok if k == len(keyed)]
                if not ok:
                    keyed = None
                    break
                # requiring arguments must stay in front of the arguments they require: positional ones have no constraints
                k = g.r.choice(ok)
                keyed.insert(k, u)
            if keyed is None:
                continue
            return keyed
    return None


def decl_consistency(c, tr, tag):
    """(B) operational vs declarative layer on the generated inputs; failures are machinery errors."""
    n_exec, n_ev, rej = validate_trace(SPEC, "TraceArgDecl", "TraceArgDecl.cfg", tr, c.wd, tag=tag + "-decl", max_rejections=1)
    if rej:
        raise MachineryError("specification layers disagree on a generated input (spec or generator defect, not a finding): %s" % rej[0].event[:1500])
    c.notes.append("%s: operational Eval agrees with declarative Valid/Intended on all %d generated events that carry their abstract line" % (tag, n_ev))


def write_cases(path, blocks):
    """blocks: list of (cfg, [action dict])."""
    n = 0
    with open(path, "w") as f:
        for cfg, acts in blocks:
            if not acts:
                continue
            f.write(json.dumps({"n": "Reset", "cfg": cfg}) + "\n")
            for a in acts:
                f.write(json.dumps(a) + "\n")
                n += 1
    return n


def finish_args(c, extra_assumptions=()):
    c.assumptions = ["boost::lexical_cast and the C++ standard library behave as documented",
                     "generated inputs stay inside the modelled language (no control characters '(' ')' '!', no dash inside a "
                     "group of short keys); outside it the specification leaves the outcome open.  Sub-groups: the end-of-line rules of a "
                     "sub-group's handler (mandatory, lower cardinality bounds, requirements, handler constraints) are left open; value mode "
                     "'command': nothing behind the key, '--key=...' and argument files / environment variable are left open",
                     "destination kinds: bool, int, double, std::string, std::optional<int>, LevelCounter, the containers listed in DESIGN 3, value "
                     "arguments (DEST_VAR_VALUE on int) and pair arguments (DEST_PAIR with an int as second variable)"] + list(extra_assumptions)
    return c.finish()


def constraint_web_blocks(g, n, nlines=14):
    """Configurations of 6-9 flag / int arguments (all with both keys) tied by 3-6 requires / excludes constraints, each written
    with a random form of the partner's key, plus sometimes a handler constraint; lines = random subsets of the arguments in
    random order.  Whether a line obeys the rules is decided by the specification, not here (C02 and C03 both use the family)."""
    r = g.r
    blocks = []
    for _ in range(n):
        cfg = g.cfg(nargs=r.randint(6, 9), kinds=["flag", "flag", "int"], constraints=False, allow_pos=False)
        used_s = {a["s"] for a in cfg["args"]}
        used_l = {tuple(a["l"]) for a in cfg["args"]}
        for x in cfg["args"]:
            x["mand"] = False; x["card"] = {"t": "none", "a": 0, "b": 0}
            if not x["s"]:
                x["s"] = next(ord(ch) for ch in "ABCDEFGHJKLMN" if ord(ch) not in used_s); used_s.add(x["s"])
            if not x["l"]:
                x["l"] = next(T(w) for w in ("first", "second", "third", "fourth", "fifth", "sixth", "seventh", "eighth", "ninth") if tuple(T(w)) not in used_l)
                used_l.add(tuple(x["l"]))
        if r.random() < 0.4:
            # long keys only, from families in which one key is the beginning of another (an argument is what its complete key says)
            fam = r.sample(["log", "logfile", "log-level", "in", "input", "input-file", "out", "output", "val", "value", "num", "number", "max", "maxsize"], len(cfg["args"]))
            for x, w in zip(cfg["args"], fam):
                x["s"] = 0; x["l"] = T(w)
        idx = list(range(1, len(cfg["args"]) + 1))
        owners = r.sample(idx, r.randint(3, min(6, len(idx))))
        for o in owners:
            others = [j for j in idx if j != o]
            cfg["args"][o - 1][r.choice(["req", "req", "exc"])] = r.sample(others, r.choice([1, 1, 2]))
            cfg["args"][o - 1]["cspell"] = r.choice([0, 1, 2, 3])
        if r.random() < 0.5:
            cfg["hcons"].append({"k": r.choice(["allOf", "anyOf", "oneOf", "oneOf"]), "args": sorted(r.sample(idx, 2)), "cspell": r.choice([0, 1, 2, 3, 3]), "grp": 0})
        use = lambda i: [i, []] if cfg["args"][i - 1]["kind"] == "flag" else [i, [str(r.randint(0, 9))]]
        acts = []
        for _ in range(nlines):
            order = r.sample(idx, r.randint(1, min(6, len(idx))))
            line = [use(i) for i in order]
            w = g.spell_line(cfg, line)
            if w is not None:
                acts.append(eval_action(w, tag={"k": "line", "line": line_json(line)}))
        blocks.append((cfg, acts))
    return blocks


WIDE_KINDS = ["u64", "i64", "u32", "u16", "i16"]


def wide_blocks(g, n, nlines=5, nspell=4, mutants=False):
    """Handlers whose destinations are integral types other than int (std::uint64_t, std::int64_t, unsigned int, unsigned short,
    short): values at and around the limits of each type and of the narrower ones, in several spellings; with mutants=True
    also the rule-breaking edits of every line (values just outside the range of the type among them)."""
    blocks = []
    for _ in range(n):
        cfg = g.cfg(nargs=g.r.randint(2, 6), kinds=WIDE_KINDS + ["flag", "int", "u64"], constraints=True, allow_pos=False)
        acts = []
        for _ in range(nlines):
            line = gen_valid(g, cfg)
            if line is None:
                continue
            for _ in range(nspell):
                acts.append(eval_action(g.spell_line(cfg, line), tag={"k": "line", "line": line_json(line)}))
            if mutants:
                for kind, words in arggen.mutations(g, cfg, line):
                    acts.append(eval_action(words, tag={"k": "mut", "m": kind}))
        blocks.append((cfg, acts))
    return blocks


USAGE_WORDS = "the quick brown fox jumps over a lazy dog while printing usage texts of arbitrary length for testing".split()


def usage_decorate(cfg, r_):
    """display properties for the usage families (C17 layout, C18 listing): long keys around the same-line threshold, hidden /
    deprecated / replaced arguments, descriptions of 0..40 words starting with the token D<i>, default-value printing"""
    cfg["hcons"] = []
    for k, a in enumerate(cfg["args"]):
        if a["l"] and r_.random() < 0.25:
            a["l"] = T(S(a["l"]) + "-" + "x" * r_.choice([5, 20, 30, 31, 32, 33, 34, 35, 36, 40, 60]))
        a["hidden"] = r_.random() < 0.3
        a["repl"] = []
        if not a["mand"] and r_.random() < 0.25:
            a["depr"] = True
            if r_.random() < 0.5:
                a["repl"] = T("--new-arg")
        a["printdef"] = "dflt"
        a["desc"] = T("D%d %s" % (k + 1, " ".join(r_.choice(USAGE_WORDS + ["averyveryverylongwordthatdoesnotfitanywhere" * r_.choice([1, 2])] if r_.random() < 0.03 else USAGE_WORDS)
                                                       for _ in range(r_.choice([0, 1, 3, 10, 40])))))
        a["nodesc"] = False
        if a["s"] == ord("h"):
            a["s"] = ord("H")
    return cfg
