#!/usr/bin/env python3
"""C06: multi-value destinations end up as the fold of all values given."""
import os, sys
sys.path.insert(0, os.path.dirname(os.path.abspath(__file__)))
from argcommon import *


def cuts(g, cfg, line):
    """the same value sequences cut differently into repeated uses (C06: 'split arbitrarily over repeated uses')."""
    r = g.r
    args = cfg["args"]
    out = []
    for u in line:
        a = args[u[0] - 1]
        in_one = any(u[0] in h["args"] for h in cfg["hcons"] if h["k"] in ("anyOf", "oneOf"))
        if arggen.is_cont(a["kind"]) and len(u[1]) >= 2 and not a["pos"] and not in_one and r.random() < 0.6:
            k = r.randint(1, len(u[1]) - 1)
            out.append([u[0], u[1][:k]])
            out.append([u[0], u[1][k:]])
        else:
            out.append(u)
    return out


def run(tier):
    c = Check("C06", tier)
    exe = driver("asan")
    # 27: string vectors with a case format and unique data (the formatted element is the one that is compared)
    # 17/18: growing bit sets (vector<bool>, DynamicBitset; 18 with unsetFlag), 19: key-value container (std::map)
    if tier == "quick":
        cfgs, beh = model_behaviours(c, tier, cfgsel=[4, 6, 9, 10, 11, 12, 17, 18, 19, 27])
    else:
        # the configurations added later keep two uses per line in the thorough tier (budget), like configuration 16 in C03
        # (4 with three uses: 12.5 million states, 2.4 million behaviours; 10 with three uses would be 24 million states)
        cfgs, beh = model_behaviours(c, tier, cfgsel=[4], maxuses=3)
        cfgs2, beh2 = model_behaviours(c, tier, cfgsel=[6, 9, 10, 11, 12, 17, 18, 19, 27], maxuses=2)
        beh += beh2
    script = os.path.join(c.wd, "replay.ndjson")
    n = behaviours_script(cfgs, beh, script)
    c.notes.append("R: %d distinct (configuration, argv) behaviours with container destinations replayed" % n)
    run_script(c, exe, script, "R")
    g = Gen(SEED * 7 + 6)
    ncfg, nlines = (100, 6) if tier == "quick" else (3000, 10)
    blocks = []
    for _ in range(ncfg):
        cfg = g.cfg(nargs=g.r.randint(1, 4), kinds=arggen.CONT + ["flag"], constraints=True)
        acts = []
        for _ in range(nlines):
            line = gen_valid(g, cfg)
            if line is None:
                continue
            for variant in (line, cuts(g, cfg, line), cuts(g, cfg, line)):
                acts.append(eval_action(g.spell_line(cfg, variant), tag={"k": "line", "line": line_json(variant)}))
            for kind, words in arggen.mutations(g, cfg, line):
                if kind in ("too_many_values", "too_few_values", "array_overflow", "bad_value", "disjoint_intersect", "dup_key"):
                    acts.append(eval_action(words, tag={"k": "mut", "m": kind}))
        blocks.append((cfg, acts))
    # formatted elements and long value lists (per-position format tables are sized in steps: 8..12 and 25 values)
    for _ in range(30 if tier == "quick" else 800):
        cfg = g.cfg(nargs=g.r.randint(1, 3), kinds=["vecstr", "vecstr", "flag"], constraints=False, allow_pos=False)
        conts = [i + 1 for i, a in enumerate(cfg["args"]) if a["kind"] == "vecstr"]
        if not conts:
            continue
        for i in conts:
            a = cfg["args"][i - 1]
            a["formats"] = [g.r.choice(["upper", "lower"])]; a["checks"] = []; a["card"] = {"t": "dflt", "a": 0, "b": 0}; a["mand"] = False
            a["multi"] = g.r.random() < 0.5; a["uniq"] = "no"
        acts = []
        for n in (8, 9, 10, 11, 12, 25):
            i = g.r.choice(conts)
            vals = [g.good_value(cfg["args"][i - 1]) for _ in range(n)]
            if any(v is None for v in vals):
                continue
            line = [[i, vals]]
            for variant in (line, cuts(g, cfg, line)):
                acts.append(eval_action(g.spell_line(cfg, variant), tag={"k": "line", "line": line_json(variant)}))
        blocks.append((cfg, acts))
    # formats and unique data together: values that differ only in case are duplicates once they are formatted (dropped or
    # refused); given in one list, over repeated uses and as free values, with and without sorting
    pool = ["abc", "ABC", "Abc", "x", "X", "q7", "Q7", "zz"]
    for _ in range(60 if tier == "quick" else 1500):
        cfg = g.cfg(nargs=g.r.randint(1, 3), kinds=["vecstr", "vecstr", "flag"], constraints=False, allow_pos=False)
        conts = [i + 1 for i, a in enumerate(cfg["args"]) if a["kind"] == "vecstr"]
        if not conts:
            continue
        for i in conts:
            a = cfg["args"][i - 1]
            a["formats"] = [g.r.choice(["upper", "lower"])]; a["checks"] = []; a["card"] = {"t": "dflt", "a": 0, "b": 0}; a["mand"] = False
            a["multi"] = g.r.random() < 0.5; a["uniq"] = g.r.choice(["ignore", "ignore", "error"]); a["sort"] = g.r.random() < 0.3
            a["clear"] = g.r.random() < 0.2
            a["init"] = [T(g.r.choice(["ABC", "x"]) if a["formats"] == ["upper"] else g.r.choice(["abc", "X"]))] if g.r.random() < 0.3 else []
        acts = []
        for _ in range(nlines):
            line = [[i, [g.r.choice(pool) for _ in range(g.r.randint(1, 5))]] for i in g.r.sample(conts, g.r.randint(1, len(conts)))]
            for variant in (line, cuts(g, cfg, line), cuts(g, cfg, line)):
                acts.append(eval_action(g.spell_line(cfg, variant), tag={"k": "line", "line": line_json(variant)}))
        blocks.append((cfg, acts))
    # tuples with formats attached to single positions (addFormatPos): the format of a position applies to the element stored
    # at that position however the values are spread over lists, free values and repeated uses
    for _ in range(30 if tier == "quick" else 800):
        cfg = g.cfg(nargs=g.r.randint(1, 3), kinds=["tup", "tup", "flag"], constraints=False, allow_pos=False)
        tups = [i + 1 for i, a in enumerate(cfg["args"]) if a["kind"] == "tup"]
        if not tups:
            continue
        for i in tups:
            a = cfg["args"][i - 1]
            a["mand"] = False; a["multi"] = g.r.random() < 0.6; a["checks"] = []
            a["fmtpos"] = [{"p": p_, "f": g.r.choice(["upper", "lower"])} for p_ in g.r.sample([0, 1, 1, 2], g.r.randint(1, 3))]
        acts = []
        for _ in range(nlines):
            line = []
            for i in g.r.sample(tups, g.r.randint(1, len(tups))):
                vals = [str(g.r.randint(-99, 999)), "".join(g.r.choice("abcXYZq9_") for _ in range(g.r.randint(1, 6))), str(g.r.randint(-99, 999))]
                line.append([i, vals])
            for variant in (line, cuts(g, cfg, line), cuts(g, cfg, line), cuts(g, cfg, cuts(g, cfg, line))):
                words = g.spell_line(cfg, variant)
                if words is not None:
                    acts.append(eval_action(words, tag={"k": "line", "line": line_json(variant)}))
        blocks.append((cfg, acts))
    # destinations that already hold (unsorted) content, with sorting, clear-before-assign and unique data in every combination:
    # as many values as were there before, one fewer, one more; all of them duplicates of what is there, some, none; one use,
    # repeated uses, free values.  "Sorting yields ascending order" whatever the number of elements that were finally stored.
    for _ in range(60 if tier == "quick" else 1500):
        kind = g.r.choice(["vecint", "vecint", "dequeint", "listint", "vecstr"])
        cfg = g.cfg(nargs=g.r.randint(1, 3), kinds=[kind, kind, "flag"], constraints=False, allow_pos=False)
        conts = [i + 1 for i, a in enumerate(cfg["args"]) if a["kind"] == kind]
        if not conts:
            continue
        ints = kind != "vecstr"
        for i in conts:
            a = cfg["args"][i - 1]
            a["formats"] = []; a["checks"] = []; a["card"] = {"t": "dflt", "a": 0, "b": 0}; a["mand"] = False
            a["multi"] = g.r.random() < 0.4; a["sort"] = g.r.random() < 0.8; a["clear"] = g.r.random() < 0.5
            a["uniq"] = g.r.choice(["no", "ignore", "ignore", "error"])
            n0 = g.r.randint(2, 4)
            init = g.r.sample([30, 10, 20, 5, 4, 3, 77, -2], n0) if ints else g.r.sample(["pear", "apple", "fig", "kiwi", "Zed"], n0)
            a["init"] = init if ints else [T(x) for x in init]
        acts = []
        for _ in range(nlines):
            line = []
            for i in g.r.sample(conts, g.r.randint(1, len(conts))):
                a = cfg["args"][i - 1]
                init = a["init"] if ints else [S(x) for x in a["init"]]
                fresh = [9, 2, 7, 1, 50, 15, -8] if ints else ["lime", "date", "Yam", "b", "plum"]
                n = max(1, len(init) + g.r.choice([-1, 0, 0, 0, 1]))
                mode = g.r.choice(["dups", "fresh", "mixed"])
                src = init if mode == "dups" else fresh if mode == "fresh" else init + fresh
                vals = [str(x) for x in (g.r.sample(src, min(n, len(src))) if a["uniq"] == "error" and mode != "dups" else [g.r.choice(src) for _ in range(n)])]
                line.append([i, vals])
            for variant in (line, cuts(g, cfg, line)):
                words = g.spell_line(cfg, variant)
                if words is not None:
                    acts.append(eval_action(words, tag={"k": "line", "line": line_json(variant)}))
        blocks.append((cfg, acts))
    # fixed-size destinations (int[3], std::array<int,3>) and the sortable containers with sort and unique data together: value lists
    # from a small pool, so that a value comes again behind a smaller one inside one list, in the next list, in a free value
    for _ in range(60 if tier == "quick" else 1500):
        kind = g.r.choice(["arr3", "sarr3", "arr3", "sarr3", "vecint", "listint", "fwdint"])
        cfg = g.cfg(nargs=g.r.randint(1, 3), kinds=[kind, kind, "flag"], constraints=False, allow_pos=False)
        conts = [i + 1 for i, a in enumerate(cfg["args"]) if a["kind"] == kind]
        if not conts:
            continue
        for i in conts:
            a = cfg["args"][i - 1]
            a["formats"] = []; a["checks"] = []; a["card"] = {"t": "dflt", "a": 0, "b": 0}; a["mand"] = False; a["clear"] = False
            a["multi"] = g.r.random() < 0.5; a["sort"] = g.r.random() < 0.8; a["uniq"] = g.r.choice(["ignore", "ignore", "error", "no"])
        acts = []
        for _ in range(nlines + 2):
            line = []
            for i in g.r.sample(conts, g.r.randint(1, len(conts))):
                pool = g.r.sample([5, 3, 8, 2, 9, 1], g.r.randint(2, 3))
                vals = [str(g.r.choice(pool)) for _ in range(g.r.randint(2, 5))]
                line.append([i, vals])
            for variant in (line, cuts(g, cfg, line)):
                words = g.spell_line(cfg, variant)
                if words is not None:
                    acts.append(eval_action(words, tag={"k": "line", "line": line_json(variant)}))
        blocks.append((cfg, acts))
    script2 = os.path.join(c.wd, "random.ndjson")
    write_cases(script2, blocks)
    rej, tr = run_script(c, exe, script2, "T")
    decl_consistency(c, tr, "T")
    return finish_args(c, ["container kinds: vector/list/deque/forward_list/set/multiset/stack/queue/priority_queue<int>, vector<string>, "
                           "int[3], std::array<int,3>, std::tuple<int,string,int>, std::bitset<8>, std::vector<bool>, container::DynamicBitset (projection: "
                           "positions that are set; negative and beyond-int positions left open), std::map<std::string,int> (default pair format, no "
                           "checks/formats); other key-value containers and pair formats are not modelled"])


if __name__ == "__main__":
    tier = sys.argv[sys.argv.index("--tier") + 1] if "--tier" in sys.argv else os.environ.get("VERIF_TIER", "quick")
    main_wrapper(lambda: run(tier))
