#!/usr/bin/env python3
"""C02: no command line that breaks a declared rule is silently accepted."""
import os, sys, collections
sys.path.insert(0, os.path.dirname(os.path.abspath(__file__)))
from argcommon import *


def run(tier):
    c = Check("C02", tier)
    exe = driver("asan")
    # M: every spelling of every INVALID line of the bounded family is rejected (AgreesInv)
    # 20: value arguments: a second modification of a variable protected by the original-value check
    # 24: command-mode argument with a length check on the whole text
    # 26: differ over three arguments (equal values on the first and the third, the second unused)
    if tier == "quick":
        cfgs, beh = model_behaviours(c, tier, cfgsel=[2, 3, 5, 6, 8, 20, 24, 26])
    else:
        cfgs, beh = model_behaviours(c, tier, cfgsel=[2, 3, 5, 6, 8, 20, 24, 26], maxuses=3)
        cfgs2, beh2 = [], []
        beh += beh2
    script = os.path.join(c.wd, "replay.ndjson")
    n = behaviours_script(cfgs, beh, script, select=lambda b: not b["valid"])
    c.notes.append("R: %d distinct (configuration, argv) spellings of rule-breaking lines replayed" % n)
    run_script(c, exe, script, "R")
    # T: rule-breaking mutations of valid lines in random configurations
    g = Gen(SEED * 7 + 2)
    ncfg, nlines = (120, 4) if tier == "quick" else (3000, 8)
    blocks = []
    kinds = collections.Counter()
    for _ in range(ncfg):
        cfg = g.cfg(constraints=True)
        acts = []
        for _ in range(nlines):
            line = gen_valid(g, cfg)
            if line is None:
                continue
            for kind, words in arggen.mutations(g, cfg, line):
                kinds[kind] += 1
                acts.append(eval_action(words, tag={"k": "mut", "m": kind}))
        blocks.append((cfg, acts))
    # T1b: differ over three arguments of one type: every pair equal in turn, also with the third argument not used
    for _ in range(40 if tier == "quick" else 1000):
        kind = g.r.choice(["int", "int", "str"])
        cfg = g.cfg(nargs=g.r.randint(3, 5), kinds=[kind], constraints=False, allow_pos=False)
        for a in cfg["args"]:
            a["mand"] = False; a["checks"] = []; a["formats"] = []
        sel = sorted(g.r.sample(range(1, len(cfg["args"]) + 1), 3))
        cfg["hcons"].append({"k": "differ", "args": sel, "cspell": g.r.choice([0, 0, 1, 2]), "grp": 0})
        vals = ["1", "2", "3"] if kind == "int" else ["x", "y", "zz"]
        acts = []
        for x, y in ((0, 1), (0, 2), (1, 2)):
            for third in (True, False):
                z = 3 - x - y
                order = [x, y] + ([z] if third else [])
                g.r.shuffle(order)
                line = [[sel[k], [vals[0] if k in (x, y) else vals[1]]] for k in order]
                kinds["differ3_equal" if third else "differ3_equal_gap"] += 1
                acts.append(eval_action(g.spell_line(cfg, line), tag={"k": "mut", "m": "differ3"}))
        line = [[sel[k], [vals[k]]] for k in g.r.sample(range(3), 3)]
        acts.append(eval_action(g.spell_line(cfg, line), tag={"k": "line", "line": line_json(line)}))
        blocks.append((cfg, acts))
    # T1c: several constraints that name the same argument: c required by a (or by two arguments) and excluded by b, used in
    # every order; the bookkeeping holds more than one entry for c when it is finally used
    #      (and, in half of the set-ups, a constraint between two unrelated arguments d and e that is activated in between: the
    #      bookkeeping then holds entries of both kinds for other arguments while c's entries are looked up)
    for _ in range(40 if tier == "quick" else 1000):
        cfg = g.cfg(nargs=g.r.randint(6, 8), kinds=["flag", "flag", "int"], constraints=False, allow_pos=False)
        for x in cfg["args"]:
            x["mand"] = False; x["card"] = {"t": "none", "a": 0, "b": 0}
        a, a2, b, cc, d, e = g.r.sample(range(1, len(cfg["args"]) + 1), 6)
        cfg["args"][a - 1]["req"] = [cc]; cfg["args"][a2 - 1]["req"] = [cc]; cfg["args"][b - 1]["exc"] = [cc]
        other = g.r.choice(["none", "exc", "req"])
        if other != "none":
            cfg["args"][d - 1][other] = [e]
        for x in (a, a2, b, d):
            cfg["args"][x - 1]["cspell"] = g.r.choice([0, 0, 1, 2, 3])
        use = lambda i: [i, []] if cfg["args"][i - 1]["kind"] == "flag" else [i, [str(g.r.randint(0, 9))]]
        acts = []
        orders = [[a, b, cc], [b, a, cc], [a, cc, b], [a, a2, b, cc], [a, b, a2, cc], [a, a2, cc], [a, cc, a2, cc], [a, a2], [b, cc], [cc, b], [a, cc], [cc, a]]
        if other != "none":
            orders += [[a, d, b, cc], [a, d, b, cc, e], [b, d, a, e], [b, d, a, cc, e], [d, a, b, cc], [d, b, a], [a, b, d, cc], [b, a, d, e], [d, e, a, b, cc], [d, a, cc, e]]
        for order in orders:
            line = [use(i) for i in order]
            kinds["constraints_on_one_argument"] += 1
            acts.append(eval_action(g.spell_line(cfg, line), tag={"k": "line", "line": line_json(line)}))
        blocks.append((cfg, acts))
    # T1e: webs of requires / excludes constraints (3-6 per handler, partner keys in every form), random subsets in random order
    webs = constraint_web_blocks(g, 25 if tier == "quick" else 800)
    blocks += webs
    c.notes.append("T1e: %d lines in %d configurations with webs of argument constraints" % (sum(len(b[1]) for b in webs), len(webs)))
    # T1f: destinations of other integral types (64-bit signed / unsigned, unsigned int, short, unsigned short): values at the limits
    #      of every type are accepted, values just outside are rejected
    wb = wide_blocks(g, 20 if tier == "quick" else 600, mutants=True)
    blocks += wb
    c.notes.append("T1f: %d command lines for 64 / 32 / 16 bit integral destinations" % sum(len(b[1]) for b in wb))
    # T2: rules broken inside a sub-group (bad value, argument used again on the second visit, excluded argument, missing value,
    # unknown key, a sub-group key used outside) and the refusals of command-mode arguments
    for k in range(60 if tier == "quick" else 1500):
        if k % 2:
            cfg = g.cfg(nargs=g.r.randint(1, 5), constraints=True, subgroups=g.r.choice([1, 1, 2]), cmd=g.r.choice([None, "key"]), exclude=arggen.GROWBITS)
            lines = [gen_valid(g, cfg) for _ in range(nlines)]
        else:
            cfg, lines = arggen.subgroup_scenario(g)
        acts = []
        for line in lines:
            if line is None or g.spell_line(cfg, line) is None:
                continue
            for kind, words in arggen.sub_mutations(g, cfg, line):
                kinds[kind] += 1
                acts.append(eval_action(words, tag={"k": "mut", "m": kind}))
        blocks.append((cfg, acts))
    script2 = os.path.join(c.wd, "random.ndjson")
    write_cases(script2, blocks)
    c.notes.append("T: mutation kinds generated: %s" % dict(kinds))
    rej, tr = run_script(c, exe, script2, "T")
    decl_consistency(c, tr, "T")
    return finish_args(c)


if __name__ == "__main__":
    tier = sys.argv[sys.argv.index("--tier") + 1] if "--tier" in sys.argv else os.environ.get("VERIF_TIER", "quick")
    main_wrapper(lambda: run(tier))
