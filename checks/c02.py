#!/usr/bin/env python3
"""C02: no command line that breaks a declared rule is silently accepted."""
import os, sys, collections
sys.path.insert(0, os.path.dirname(os.path.abspath(__file__)))
from argcommon import *


def run(tier):
    c = Check("C02", tier)
    exe = driver("asan")
    # M: every spelling of every INVALID line of the bounded family is rejected (AgreesInv)
    # 20: value arguments: a second modification of a variable protected by the original-value check
    # 24: command-mode argument with a length check on the whole text
    if tier == "quick":
        cfgs, beh = model_behaviours(c, tier, cfgsel=[2, 3, 5, 6, 8, 20, 24])
    else:
        cfgs, beh = model_behaviours(c, tier, cfgsel=[3, 5, 8], maxuses=3)
        cfgs2, beh2 = model_behaviours(c, tier, cfgsel=[2, 6, 20, 24], maxuses=2)
        beh += beh2
    script = os.path.join(c.wd, "replay.ndjson")
    n = behaviours_script(cfgs, beh, script, select=lambda b: not b["valid"])
    c.notes.append("R: %d distinct (configuration, argv) spellings of rule-breaking lines replayed" % n)
    run_script(c, exe, script, "R")
    # T: rule-breaking mutations of valid lines in random configurations
    g = Gen(SEED * 7 + 2)
    ncfg, nlines = (120, 4) if tier == "quick" else (3000, 8)
    blocks = []
    kinds = collections.Counter()
    for _ in range(ncfg):
        cfg = g.cfg(constraints=True)
        acts = []
        for _ in range(nlines):
            line = gen_valid(g, cfg)
            if line is None:
                continue
            for kind, words in arggen.mutations(g, cfg, line):
                kinds[kind] += 1
                acts.append(eval_action(words, tag={"k": "mut", "m": kind}))
        blocks.append((cfg, acts))
    # T2: rules broken inside a sub-group (bad value, argument used again on the second visit, excluded argument, missing value,
    # unknown key, a sub-group key used outside) and the refusals of command-mode arguments
    for k in range(60 if tier == "quick" else 1500):
        if k % 2:
            cfg = g.cfg(nargs=g.r.randint(1, 5), constraints=True, subgroups=g.r.choice([1, 1, 2]), cmd=g.r.choice([None, "key"]), exclude=arggen.GROWBITS)
            lines = [gen_valid(g, cfg) for _ in range(nlines)]
        else:
            cfg, lines = arggen.subgroup_scenario(g)
        acts = []
        for line in lines:
            if line is None or g.spell_line(cfg, line) is None:
                continue
            for kind, words in arggen.sub_mutations(g, cfg, line):
                kinds[kind] += 1
                acts.append(eval_action(words, tag={"k": "mut", "m": kind}))
        blocks.append((cfg, acts))
    script2 = os.path.join(c.wd, "random.ndjson")
    write_cases(script2, blocks)
    c.notes.append("T: mutation kinds generated: %s" % dict(kinds))
    run_script(c, exe, script2, "T")
    return finish_args(c)


if __name__ == "__main__":
    tier = sys.argv[sys.argv.index("--tier") + 1] if "--tier" in sys.argv else os.environ.get("VERIF_TIER", "quick")
    main_wrapper(lambda: run(tier))
