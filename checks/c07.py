#!/usr/bin/env python3
"""C07: arguments from a string, a file or the environment equal the same words on argv."""
import os, sys, random
sys.path.insert(0, os.path.dirname(os.path.abspath(__file__)))
from argcommon import *

SPECIAL = " '\"\\"


# program names: the argument file is $HOME/.progargs/<file name of argv[0]>.pa, the environment variable the file name in upper case;
# names with dots, dashes, digits, upper-case letters, in the current directory, with relative and absolute paths
PROGS = ["prog", "./bin/tool", "/usr/local/bin/x", "my.tool", "./convert-1.2", "/opt/bin/a.out", "Tool_7", "../x.y.z", "bin/.hidden", "/a/b.c/prog"]


def esc(w, scheme):
    if scheme == "bs":
        return "".join(("\\" + ch) if ch in SPECIAL else ch for ch in w)
    q = "'" if scheme == "sq" else '"'
    return q + "".join(("\\" + ch) if ch in (q, "\\") else ch for ch in w) + q


def join_words(r, words):
    return "".join((" " * r.choice([1, 1, 2])) + esc(w, r.choice(["bs", "sq", "dq"])) for w in words).lstrip(" ") if r.random() < 0.7 else \
        " ".join(esc(w, r.choice(["bs", "sq", "dq"])) for w in words) + " "


def use_words(g, cfg, uses):
    return g.spell_line(cfg, uses)


def run(tier):
    c = Check("C07", tier)
    exe = driver("asan")
    # ---- M: quoting is inverted by splitting (all word lists / schemes of the bounded model)
    r, edges = c.model(SPEC, "MCArgSplit", "MCArgSplit_%s.cfg" % tier, want_edges=True, timeout=3000, xmx="20g")
    cmds = sorted(set(json.dumps(json.loads(e[1])["cmd"]) for e in edges))
    rnd = random.Random(SEED)
    script = os.path.join(c.wd, "replay.ndjson")
    with open(script, "w") as f:
        f.write(json.dumps({"n": "Reset", "cfg": {"abbr": True, "endvalues": False, "args": [], "hcons": []}}) + "\n")
        for k, cj in enumerate(cmds):
            act = {"n": "Split", "cmd": json.loads(cj)}
            if k % 3 == 0:
                act["prog"] = T("p" * (k % 7))
            f.write(json.dumps(act) + "\n")
    c.notes.append("R: %d distinct command strings of the model split by make_arg_array" % len(cmds))
    run_script(c, exe, script, "R")
    # ---- T1: random printable words, random quoting
    g = Gen(SEED * 7 + 7)
    g.empty_str = False        # an empty word cannot be written with the backslash scheme, and C07's splitting clause speaks of non-empty words
    r_ = g.r
    blocks = []
    acts = []
    alphabet = "abcXYZ019 '\"\\-=_.,;/()!$#"
    for _ in range(3000 if tier == "quick" else 200000):
        words = ["".join(r_.choice(alphabet) for _ in range(r_.randint(1, 30 if r_.random() < 0.1 else 6))) for _ in range(r_.randint(0, 6))]
        act = {"n": "Split", "cmd": T(join_words(r_, words))}
        if r_.random() < 0.5:
            act["prog"] = T("".join(r_.choice("abc/.") for _ in range(r_.randint(0, 20))))
        acts.append(act)
    # unbalanced / raw strings as well (memory safety + scanner conformance, no inversion claim)
    for _ in range(1000 if tier == "quick" else 50000):
        acts.append({"n": "Split", "raw": True, "cmd": T("".join(r_.choice(alphabet) for _ in range(r_.randint(0, 40))))})
    blocks.append(({"abbr": True, "endvalues": False, "args": [], "hcons": []}, acts))
    # ---- T2: valid lines delivered through evalArgumentString, an argument file and/or the environment variable
    ncfg, nlines = (80, 5) if tier == "quick" else (2500, 8)
    for _ in range(ncfg):
        cfg = g.cfg(constraints=True, allow_pos=False)
        # an explicit cardinality on a container counts file values too (undocumented interaction): keep such
        # arguments out of the pre-sources by using default cardinalities only
        for a in cfg["args"]:
            if arggen.is_cont(a["kind"]) and a["kind"] != "tup":
                a["card"] = {"t": "dflt", "a": 0, "b": 0}
        acts = []
        for _ in range(nlines):
            line = gen_valid(g, cfg)
            if not line:
                continue
            words = g.spell_line(cfg, line)
            # (a) whole line as one command string
            acts.append(eval_action([], mode="string", cmd=T(join_words(r_, words)), tag={"k": "line", "line": line_json(line)}))
            # (b) a prefix of the uses through file lines, the next part through the environment, the rest on argv
            n = len(line)
            i = r_.randint(0, n)
            j = r_.randint(i, n)
            how = r_.choice(["file", "env", "both"])
            fpart, epart, apart = (line[:i], [], line[i:]) if how == "file" else ([], line[:i], line[i:]) if how == "env" else (line[:i], line[i:j], line[j:])
            # tuples must get their three values from one source; any-of/one-of bookkeeping is per evaluation: fine
            ftext = ""
            k = 0
            while k < len(fpart):
                m = r_.randint(1, len(fpart) - k)
                if r_.random() < 0.3:
                    ftext += r_.choice(["# comment -x --zzz\n", "\n", "#\n"])
                ftext += join_words(r_, g.spell_line(cfg, fpart[k:k + m])) + "\n"
                k += m
            if ftext and r_.random() < 0.4:
                ftext = ftext[:-1]                      # last line without a newline
            envstr = join_words(r_, g.spell_line(cfg, epart)) if epart else ""
            same = True
            acts.append(eval_action(g.spell_line(cfg, apart), presrc=how, filetext=T(ftext), envstr=T(envstr), prog=T(r_.choice(PROGS)),
                                    tag={"k": "src", "line": line_json(line), "same": same}))
            # (c) override: a scalar value from the file is replaced by a later command line value
            sc = [u for u in line if cfg["args"][u[0] - 1]["kind"] in ("int", "str") and u[1] and cfg["args"][u[0] - 1]["card"]["t"] == "dflt"]
            if sc:
                u = r_.choice(sc)
                v2 = g.good_value(cfg["args"][u[0] - 1])
                if v2 is not None:
                    acts.append(eval_action(g.spell_line(cfg, [x for x in line if x[0] != u[0]] + [[u[0], [v2]]]), presrc="file",
                                            filetext=T(join_words(r_, g.spell_line(cfg, [u])) + "\n"), envstr=[], prog=T("prog"),
                                            tag={"k": "override"}))
        blocks.append((cfg, acts))
    # ---- T2b: the separate values of a multi-value argument continue on the next file line / in the environment
    #           variable / on the command line ("same words on argv": the argument used last keeps taking free values)
    for _ in range(60 if tier == "quick" else 2000):
        cfg = g.cfg(nargs=r_.randint(2, 4), constraints=False, allow_pos=False, kinds=["flag", "int", "vecint", "vecstr", "listint", "dequeint"])
        conts = [i + 1 for i, a in enumerate(cfg["args"]) if arggen.is_cont(a["kind"])]
        if not conts:
            continue
        for a in cfg["args"]:
            a["mand"] = False
            if arggen.is_cont(a["kind"]):
                a["card"] = {"t": "dflt", "a": 0, "b": 0}; a["multi"] = True; a["uniq"] = "no" if a["uniq"] == "error" else a["uniq"]
        acts = []
        for _ in range(nlines):
            i = r_.choice(conts)
            a = cfg["args"][i - 1]
            vals = [g.good_value(a) for _ in range(r_.randint(2, 6))]
            if any(v is None or v.startswith("-") for v in vals):
                continue
            key = ("-" + chr(a["s"])) if a["s"] else "--" + S(a["l"])
            words = [key] + vals                                   # every value a separate word
            others = [u for u in (gen_valid(g, cfg) or []) if u[0] != i and not arggen.is_cont(cfg["args"][u[0] - 1]["kind"])]
            tailw = g.spell_line(cfg, others)
            # cut the word list into file lines | environment | argv
            c1 = r_.randint(1, len(words)); c2 = r_.randint(c1, len(words))
            how = r_.choice(["file", "env", "both"])
            if how == "file":
                fw, ew, aw = words[:c1], [], words[c1:]
            elif how == "env":
                fw, ew, aw = [], words[:c1], words[c1:]
            else:
                fw, ew, aw = words[:c1], words[c1:c2], words[c2:]
            ftext = ""
            k = 0
            while k < len(fw):
                m = r_.randint(1, len(fw) - k)
                ftext += join_words(r_, fw[k:k + m]) + "\n"
                if r_.random() < 0.3:
                    ftext += r_.choice(["# comment\n", "\n"])
                k += m
            acts.append(eval_action(aw + tailw, presrc=how, filetext=T(ftext), envstr=T(join_words(r_, ew)) if ew else [], prog=T("prog"),
                                    tag={"k": "src-multi"}))
        blocks.append((cfg, acts))
    # ---- T2c: the last word of a file line / of the environment string ends with an escaped blank or tab (or is a quoted word that ends
    #           with blanks): what is behind the last backslash belongs to the word, whatever follows the word on the line
    for _ in range(30 if tier == "quick" else 600):
        cfg = g.cfg(nargs=r_.randint(2, 4), kinds=["str", "str", "int", "flag"], constraints=False, allow_pos=False)
        strs = [i + 1 for i, a in enumerate(cfg["args"]) if a["kind"] == "str" and not a["checks"] and not a["formats"]]
        if not strs:
            continue
        for a in cfg["args"]:
            a["mand"] = False
        acts = []
        for _k in range(6):
            i = r_.choice(strs)
            a = cfg["args"][i - 1]
            v = r_.choice(["padded", "two", "col1\tcol2", "x", "a b"]) + r_.choice([" ", "  ", "\t", " \t", "\t "])
            key = ("--" + S(a["l"])) if a["l"] else ("-" + chr(a["s"]))
            sch = r_.choice(["bs", "bs", "sq", "dq"])
            line = key + " " + esc(v, sch) + r_.choice(["", "", " ", "  "])
            other = [u for u in (gen_valid(g, cfg) or []) if u[0] != i][:1]
            how = r_.choice(["file", "file", "env"])
            acts.append(eval_action(g.spell_line(cfg, other), presrc=how, filetext=T(line + r_.choice(["\n", ""])) if how == "file" else [],
                                    envstr=T(line) if how == "env" else [], prog=T(r_.choice(PROGS)), tag={"k": "src-trailing-blank"}))
        blocks.append((cfg, acts))
    # ---- T3: argument-file argument (addArgumentFile): files that include files, values before and after the include,
    #          overridden by a later command line value; missing files
    for _ in range(60 if tier == "quick" else 2000):
        cfg = g.cfg(constraints=False, allow_pos=False, kinds=["flag", "int", "str", "dbl", "vecint", "vecstr", "listint"])
        for a in cfg["args"]:
            a["mand"] = False
            if arggen.is_cont(a["kind"]):
                a["card"] = {"t": "dflt", "a": 0, "b": 0}
                a["multi"] = False
        fa = arggen.new_arg("flag"); fa["kind"] = "argfile"; fa["vm"] = "req"; fa["init"] = False
        fa["s"] = next(ord(ch) for ch in "FPAY" if ord(ch) not in {a["s"] for a in cfg["args"]}); fa["l"] = T("argfile")
        cfg["args"].append(fa)
        fkey = r_.choice(["-" + chr(fa["s"]), "--argfile"])
        acts = []
        for _ in range(nlines):
            line = gen_valid(g, cfg)
            if not line:
                continue
            # cut the uses into: argv before | outer file before include | inner file | outer file after include | argv after
            cuts = sorted(r_.randint(0, len(line)) for _ in range(4))
            parts = [line[:cuts[0]], line[cuts[0]:cuts[1]], line[cuts[1]:cuts[2]], line[cuts[2]:cuts[3]], line[cuts[3]:]]

            def text_of(uses):
                t, k = "", 0
                while k < len(uses):
                    m = r_.randint(1, len(uses) - k)
                    t += join_words(r_, g.spell_line(cfg, uses[k:k + m])) + "\n"
                    k += m
                return t
            nested = r_.random() < 0.7
            inner = text_of(parts[2])
            outer = text_of(parts[1]) + ((fkey + " inner.pa\n") if nested else inner) + text_of(parts[3])
            if r_.random() < 0.3 and outer.endswith("\n"):
                outer = outer[:-1]
            files = [{"name": T("outer.pa"), "text": T(outer)}, {"name": T("inner.pa"), "text": T(inner)}]
            # override: a scalar given in a file is given again (other value) at the end of the command line
            extra = []
            sc = [u for part in parts[1:4] for u in part if cfg["args"][u[0] - 1]["kind"] in ("int", "str", "dbl") and u[1]
                  and cfg["args"][u[0] - 1]["card"]["t"] == "dflt"]
            if sc and r_.random() < 0.7:
                u = r_.choice(sc)
                v2 = g.good_value(cfg["args"][u[0] - 1])
                if v2 is not None:
                    extra = [[u[0], [v2]]]
            argv = g.spell_line(cfg, parts[0]) + [fkey, "outer.pa"] + g.spell_line(cfg, parts[4] + extra)
            acts.append(eval_action(argv, files=files, tag={"k": "argfile", "nested": nested, "override": bool(extra)}))
            if r_.random() < 0.1:
                acts.append(eval_action([fkey, "missing.pa"], files=files, tag={"k": "argfile-missing"}))
        blocks.append((cfg, acts))
    # ---- T3b: "reading arguments from a file or an environment variable should not influence the cardinality checks" (handler.hpp):
    #           a multi-value argument with an upper cardinality bound gets separate values from the program's argument file, from the
    #           environment variable, or from an argument file NAMED IN the environment variable (both read modes at once), and then
    #           more values on the command line - as many as its bound allows
    nsrc = 0
    for _ in range(40 if tier == "quick" else 1500):
        cfg = g.cfg(nargs=r_.randint(1, 3), constraints=False, allow_pos=False, kinds=["flag", "int", "vecint", "vecstr", "listint", "dequeint"])
        conts = [i + 1 for i, a in enumerate(cfg["args"]) if arggen.is_cont(a["kind"])]
        if not conts:
            continue
        for a in cfg["args"]:
            a["mand"] = False
            if arggen.is_cont(a["kind"]):
                a["card"] = {"t": "max", "a": r_.randint(1, 4), "b": 0}; a["multi"] = True; a["uniq"] = "no"; a["clear"] = False; a["checks"] = []
        fa = arggen.new_arg("flag"); fa["kind"] = "argfile"; fa["vm"] = "req"; fa["init"] = False
        fa["s"] = next(ord(ch) for ch in "FPAY" if ord(ch) not in {a["s"] for a in cfg["args"]}); fa["l"] = T("argfile")
        cfg["args"].append(fa)
        fkey = r_.choice(["-" + chr(fa["s"]), "--argfile"])
        acts = []
        for _ in range(nlines):
            i = r_.choice(conts)
            a = cfg["args"][i - 1]
            key = ("-" + chr(a["s"])) if a["s"] else "--" + S(a["l"])
            pre = [g.good_value(a) for _ in range(r_.randint(1, 5))]
            cmdv = [g.good_value(a) for _ in range(r_.randint(0, a["card"]["a"]))]
            if any(v is None or v == "" or v.startswith("-") for v in pre + cmdv):
                continue
            pre_words = [key] + pre                                    # every value a separate word
            ftext, k = "", 0
            while k < len(pre_words):
                m = r_.randint(1, len(pre_words) - k)
                ftext += join_words(r_, pre_words[k:k + m]) + "\n"
                k += m
            argv = ([key] + cmdv) if cmdv else []
            how = r_.choice(["file", "env", "envfile", "envfile"])
            if how == "file":
                acts.append(eval_action(argv, presrc="file", filetext=T(ftext), envstr=[], prog=T(r_.choice(PROGS)), tag={"k": "src-card", "how": how}))
            elif how == "env":
                acts.append(eval_action(argv, presrc="env", filetext=[], envstr=T(join_words(r_, pre_words)), prog=T(r_.choice(PROGS)), tag={"k": "src-card", "how": how}))
            else:
                acts.append(eval_action(argv, presrc="env", filetext=[], envstr=T(fkey + " inner.pa"), prog=T("prog"),
                                        files=[{"name": T("inner.pa"), "text": T(ftext)}], tag={"k": "src-card", "how": how}))
            nsrc += 1
        blocks.append((cfg, acts))
    c.notes.append("T3b: %d evaluations of bounded multi-value arguments filled from file / environment / file named in the environment and then from argv" % nsrc)
    script2 = os.path.join(c.wd, "random.ndjson")
    write_cases(script2, blocks)
    rej, tr = run_script(c, exe, script2, "T")
    return finish_args(c, ["argument files are read through hfReadProgArg from a scratch $HOME/.progargs/<prog>.pa, the environment variable through hfEnvVarArgs",
                           "containers with an explicit cardinality are kept out of file/environment sources (values of later list elements are counted there, undocumented)"])


if __name__ == "__main__":
    tier = sys.argv[sys.argv.index("--tier") + 1] if "--tier" in sys.argv else os.environ.get("VERIF_TIER", "quick")
    main_wrapper(lambda: run(tier))
