#!/usr/bin/env python3
"""C05: a key designates exactly one argument, independent of definition order."""
import os, sys, random
sys.path.insert(0, os.path.dirname(os.path.abspath(__file__)))
from argcommon import *


def key_cfg(keys, abbr, dashes=None):
    args = []
    for n, (s, l) in enumerate(keys):
        a = arggen.new_arg("int")
        a["s"], a["l"], a["init"] = s, l, -(n + 1)
        a["card"] = {"t": "none", "a": 0, "b": 0}
        if dashes:
            a["dashes"] = dashes[n]
        args.append(a)
    return {"abbr": abbr, "endvalues": False, "hcons": [], "args": args, "lenient": True}


def lookups(keys, subs=()):
    """one-word command lines for every exact key and every prefix (length >= 2) of every long key.  `subs`: positions of
    the arguments that are sub-groups (their key takes no value; the value-less and the valued form are both tried when a
    word could mean a sub-group and an ordinary argument)."""
    acts, seen = [], set()
    subkeys = [keys[i] for i in subs]
    for s, l in keys:
        if s and s not in seen:
            seen.add(s)
            if any(ks == s for ks, _ in subkeys):
                acts.append(eval_action(["-" + chr(s)], tag={"k": "lookup"}))
            if any(ks == s for i, (ks, _) in enumerate(keys) if i not in subs):
                acts.append(eval_action(["-" + chr(s), "1"], tag={"k": "lookup"}))
        for n in range(2, len(l) + 1):
            w = S(l[:n])
            if w not in seen:
                seen.add(w)
                if any(S(kl).startswith(w) for _, kl in subkeys):
                    acts.append(eval_action(["--" + w], tag={"k": "lookup"}))
                if any(S(kl).startswith(w) for i, (_, kl) in enumerate(keys) if i not in subs):
                    acts.append(eval_action(["--" + w + "=1"], tag={"k": "lookup"}))
    return acts


def pair_lookups(keys, rnd, limit=14):
    """two-argument command lines: an argument given by its complete key (short or long), then a word that is a beginning of that
    argument's long key - which may be the exact key of another argument, ambiguous, or an abbreviation of the first argument
    itself; and the same pair in the other order.  What a key designates does not depend on what was used before it."""
    acts = []
    for s, l in keys:
        if len(l) < 3:
            continue
        first = ["--" + S(l), "1"] if not s or rnd.random() < 0.5 else ["-" + chr(s), "1"]
        for n in sorted({2, len(l) // 2, len(l) - 1}):
            if 2 <= n < len(l):
                w = "--" + S(l[:n]) + "=2"
                acts.append(eval_action(first + [w], tag={"k": "lookup"}))
                acts.append(eval_action([w] + first, tag={"k": "lookup"}))
    rnd.shuffle(acts)
    return acts[:limit]


def sub_key_cfg(keys, abbr, subs):
    """key table in which the arguments at the positions `subs` are sub-groups (each with one flag 'Z' of its own)."""
    cfg = key_cfg(keys, abbr)
    for i in subs:
        inner = arggen.new_arg("flag"); inner["s"] = ord("Z"); inner["card"] = {"t": "none", "a": 0, "b": 0}
        a = cfg["args"][i]
        a["kind"] = "sub"; a["init"] = False; a["subctor"] = 0
        a["sub"] = {"abbr": abbr, "endvalues": False, "hcons": [], "args": [inner]}
    return cfg


def run(tier):
    c = Check("C05", tier)
    exe = driver("asan")
    r, edges = c.model(SPEC, "MCArgKey", "MCArgKey_%s.cfg" % tier, want_edges=True, timeout=3000, xmx="16g")
    beh = [json.loads(e[1]) for e in edges]
    rnd = random.Random(SEED)
    if tier == "quick" and len(beh) > 2500:
        beh = rnd.sample(beh, 2500)
    elif len(beh) > 30000:
        c.notes.append("R: %d of %d model behaviours replayed (seeded sample)" % (30000, len(beh)))
        beh = rnd.sample(beh, 30000)
    blocks = []
    for b in beh:
        keys = [(k["s"], k["l"]) for k in b["keys"]]
        blocks.append((key_cfg(keys, b["abbr"]), [{"n": "Define", "mode": "handler"}] + lookups(keys) + pair_lookups(keys, rnd, 6)))
    script = os.path.join(c.wd, "replay.ndjson")
    n = write_cases(script, blocks)
    c.notes.append("R: %d key tables of the model defined in the real handler, %d definitions/lookups executed" % (len(blocks), n))
    run_script(c, exe, script, "R")
    # T: random key tables, up to 12 arguments, shared prefixes, all definition orders of small tables
    g = random.Random(SEED * 7 + 5)
    stems = ["in", "inp", "input", "input-file", "input-format", "out", "output", "output-dir", "v", "ver", "verbose", "version",
             "n", "no", "num", "number", "name", "names"]
    blocks = []
    ntab = 150 if tier == "quick" else 1500
    for _ in range(ntab):
        k = g.randint(2, 12)
        keys = []
        for _ in range(k):
            l = g.choice(stems) if g.random() < 0.8 else ""
            if len(l) == 1:
                s, l = ord(l), ""
            else:
                s = ord(g.choice("abcdefgvno")) if g.random() < 0.6 or not l else 0
            keys.append((s, T(l)))
        for order in ([keys, list(reversed(keys))] + [g.sample(keys, len(keys)) for _ in range(2)]):
            dashes = [g.random() < 0.3 for _ in order]
            blocks.append((key_cfg(order, g.random() < 0.8, dashes), [{"n": "Define", "mode": "handler"}] + lookups(order) + pair_lookups(order, g)))
    # T2: the same with one or two of the arguments being sub-groups (Handler::addArgument( key, subHandler, desc)): a key
    # designates at most one argument of the handler whatever kind the arguments are
    # (every rejection is confirmed by TLC runs of its own, and the known finding below rejects most tables with related keys:
    # four of five tables give their sub-groups keys that are unrelated to the other keys, where everything is as specified)
    nsub = 0
    substems = ["group", "sub", "subgroup", "target", "tar", "extra"]
    for t in range(30 if tier == "quick" else 250):
        k = g.randint(2, 8)
        keys = []
        subs = set(g.sample(range(k), g.randint(1, 2)))
        for i in range(k):
            pool, shorts = (substems, "STUW") if (t % 5 != 0 and i in subs) else (stems, "abcdefgvno")
            l = g.choice(pool) if g.random() < 0.8 else ""
            if len(l) == 1:
                s, l = ord(l), ""
            else:
                s = ord(g.choice(shorts)) if g.random() < 0.6 or not l else 0
            keys.append((s, T(l)))
        for order_idx in ([list(range(k)), list(reversed(range(k)))] + [g.sample(range(k), k)]):
            order = [keys[i] for i in order_idx]
            osubs = {n for n, i in enumerate(order_idx) if i in subs}
            blocks.append((sub_key_cfg(order, g.random() < 0.8, osubs), [{"n": "Define", "mode": "handler"}] + lookups(order, osubs)))
            nsub += 1
    c.notes.append("T2: %d key tables with sub-group arguments among the ordinary ones" % nsub)
    # T3: sub-groups inside sub-groups, every handler with its own abbreviation setting and created through either constructor:
    #     a key is looked up by the handler that owns it, with that handler's setting (main -> group -> inner group -> flag)
    nnest = 0
    for t in range(24 if tier == "quick" else 400):
        ab = [g.random() < 0.5 for _ in range(3)]
        if t < 8:
            ab = [bool(t & 1), bool(t & 2), bool(t & 4)]
        flagz = arggen.new_arg("flag"); flagz["s"] = ord("Z"); flagz["l"] = T("zeta"); flagz["card"] = {"t": "none", "a": 0, "b": 0}
        inner = {"abbr": ab[2], "endvalues": False, "hcons": [], "args": [flagz]}
        fmt = arggen.new_arg("flag"); fmt["s"] = ord("F"); fmt["l"] = T("format"); fmt["card"] = {"t": "none", "a": 0, "b": 0}
        fmt["kind"] = "sub"; fmt["init"] = False; fmt["subctor"] = g.choice([0, 1]); fmt["sub"] = inner
        val = arggen.new_arg("int"); val["s"] = ord("y"); val["l"] = T("value"); val["init"] = -7; val["card"] = {"t": "none", "a": 0, "b": 0}
        outer = {"abbr": ab[1], "endvalues": False, "hcons": [], "args": [val, fmt] if g.random() < 0.5 else [fmt, val]}
        grp = arggen.new_arg("flag"); grp["s"] = ord("G"); grp["l"] = T("group"); grp["card"] = {"t": "none", "a": 0, "b": 0}
        grp["kind"] = "sub"; grp["init"] = False; grp["subctor"] = g.choice([0, 1]); grp["sub"] = outer
        num = arggen.new_arg("int"); num["s"] = ord("n"); num["l"] = T("number"); num["init"] = -1; num["card"] = {"t": "none", "a": 0, "b": 0}
        cfg = {"abbr": ab[0], "endvalues": False, "hcons": [], "args": [num, grp], "lenient": True}
        acts = []
        for gk in ("-G", "--group", "--gr"):
            for fk in ("-F", "--format", "--form", "--f"):
                for zk in ("-Z", "--zeta", "--ze"):
                    acts.append(eval_action([gk, fk, zk], tag={"k": "lookup"}))
                acts.append(eval_action([gk, fk], tag={"k": "lookup"}))
            for vk in ("--value=3", "--val=3", "-y3"):
                acts.append(eval_action([gk, vk], tag={"k": "lookup"}))
                acts.append(eval_action([gk, "--format", "-Z", vk], tag={"k": "lookup"}))
        for nk in ("--number=5", "--num=5"):
            acts.append(eval_action([nk, "-G", "--format"], tag={"k": "lookup"}))
        blocks.append((cfg, [{"n": "Define", "mode": "handler"}] + acts))
        nnest += len(acts)
    c.notes.append("T3: %d command lines through nested sub-groups with per-handler abbreviation settings" % nnest)
    script2 = os.path.join(c.wd, "random.ndjson")
    write_cases(script2, blocks)
    run_script(c, exe, script2, "T")
    return finish_args(c)


if __name__ == "__main__":
    tier = sys.argv[sys.argv.index("--tier") + 1] if "--tier" in sys.argv else os.environ.get("VERIF_TIER", "quick")
    main_wrapper(lambda: run(tier))
