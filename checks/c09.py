#!/usr/bin/env python3
"""C09: independent handlers can be used concurrently."""
import os, sys
sys.path.insert(0, os.path.dirname(os.path.abspath(__file__)))
from argcommon import *


def join_words(r, words):
    """one file line: the words escaped with backslashes (as the C07 families do), joined by single blanks"""
    return " ".join("".join(("\\" + ch) if ch in " \\'\"" else ch for ch in w) for w in words)


def run(tier):
    c = Check("C09", tier)
    # ---- M: all interleavings of the modelled steps; design instance must hold, shared-cell instance must fail
    r = run_tlc(SPEC, "ArgThreads", "ArgThreads_design.cfg", workers=4, timeout=600)
    if r.error:
        raise MachineryError("ArgThreads design: " + r.error)
    c.add_model("ArgThreads/design(N=3, per-thread state)", r)
    r2 = run_tlc(SPEC, "ArgThreads", "ArgThreads_shared.cfg", workers=1, timeout=600)
    if r2.error:
        raise MachineryError("ArgThreads shared: " + r2.error)
    if not r2.violation or "Isolation" not in r2.violation:
        raise MachineryError("negative instance ArgThreads_shared (one process-wide separator cell) did not violate Isolation: the model cannot see the defect class")
    c.models.append({"model": "ArgThreads/shared(N=2) negative instance", "distinct_states": r2.distinct, "states_generated": r2.generated,
                     "note": "violates Isolation as expected: " + r2.violation})
    log("[M] ArgThreads: design holds (%d states), shared-cell instance violates Isolation as expected" % r.distinct)
    # ---- T: 2..16 threads, each with its own handler and command lines, under ThreadSanitizer
    exe = driver("tsan")
    g = Gen(SEED * 7 + 9)
    rounds_list = [(2, 30), (3, 20), (4, 20), (8, 10), (16, 6)] if tier == "quick" else [(2, 400), (3, 300), (4, 300), (6, 200), (8, 200), (12, 100), (16, 100)] * 3
    for idx, (nthreads, rounds) in enumerate(rounds_list):
        blocks = []
        for t in range(nthreads):
            cfg = None
            tries = 0
            while cfg is None or not any(arggen.is_cont(a["kind"]) for a in cfg["args"]) or (t % 4 != 3 and not cfg["hcons"] and tries < 40):
                cfg = g.cfg(nargs=g.r.randint(3, 7), constraints=True, allow_pos=True)      # three of four threads: with a handler constraint
                tries += 1
            # a pattern check given as string in every configuration that has a plain string argument (pattern strings are
            # made unique per set-up by the driver: state keyed by the pattern text would be shared between the threads)
            for a in cfg["args"]:
                if a["kind"] in ("str", "vecstr") and not a["checks"] and not a["formats"] and a.get("vm", "req") == "req":
                    pid = g.r.randint(1, 4)
                    a["checks"].append({"k": "pattern", "a": pid, "b": 0, "vals": [], "pat": arggen.T(arggen.PATTERNS[pid])})
                    break
            # different list separators per thread
            for a in cfg["args"]:
                if arggen.is_cont(a["kind"]):
                    a["sep"] = ord(",;:+/|"[(t + len(a["l"])) % 6])
                    if a["kind"] == "mapsi" and a["sep"] == 44:
                        a["sep"] = 59                       # ',' is the pair separator of key-value containers: refused as list separator
            acts = []
            # every fourth thread (the second one of each batch first) reads a part of each command line from an argument file
            # of its own (addArgumentFile(): the handler is in its file-reading mode meanwhile, in which - for THIS handler
            # only - repeated uses do not count for the cardinality); the other threads keep judging cardinalities
            filethread = t % 4 == 1
            if filethread:
                cfg = None
                while cfg is None or not any(arggen.is_cont(a["kind"]) for a in cfg["args"]):
                    cfg = g.cfg(constraints=False, allow_pos=False, kinds=["flag", "int", "str", "dbl", "vecint", "vecstr", "listint"])
                for a in cfg["args"]:
                    a["mand"] = False
                    if arggen.is_cont(a["kind"]):
                        a["card"] = {"t": "dflt", "a": 0, "b": 0}
                        a["multi"] = False
                        a["sep"] = ord(",;:+/|"[(t + len(a["l"])) % 6])
                fa = arggen.new_arg("flag"); fa["kind"] = "argfile"; fa["vm"] = "req"; fa["init"] = False
                fa["s"] = next(ord(ch) for ch in "FPAY" if ord(ch) not in {a["s"] for a in cfg["args"]}); fa["l"] = T("argfile")
                cfg["args"].append(fa)
            for n_ in range(6):
                line = gen_valid(g, cfg)
                if line is None:
                    continue
                if filethread and line:
                    cut = g.r.randint(1, len(line))
                    ftext, k = "", 0
                    while k < cut:
                        m = g.r.randint(1, cut - k)
                        ftext += join_words(g.r, g.spell_line(cfg, line[k:k + m])) + "\n"
                        k += m
                    fname = "thr%d_%d_%d.pa" % (idx, t, n_)
                    acts.append(eval_action([g.r.choice(["-" + chr(fa["s"]), "--argfile"]), fname] + g.spell_line(cfg, line[cut:]),
                                            files=[{"name": T(fname), "text": T(ftext)}], tag={"k": "argfile-thread"}))
                for kind, words in arggen.mutations(g, cfg, line)[:3]:
                    acts.append(eval_action(words, tag={"k": "mut", "m": kind}))
            # every fourth thread (the third one of each batch first) also prints the usage of its handler, through the help argument and
            # through the stream operator, between its evaluations (printing the usage asks the process-wide Groups object whether the
            # handler is evaluated by argument groups)
            if t % 4 == 2 and not any(a["kind"] in ("sub", "argfile") or a["pos"] for a in cfg["args"]):
                for a in cfg["args"]:
                    a["hidden"] = g.r.random() < 0.2; a["repl"] = []; a["printdef"] = "dflt"; a["nodesc"] = False
                    if a["s"] == ord("h"):
                        a["s"] = ord("H")
                cfg.update({"usagehidden": g.r.random() < 0.4, "usagedepr": False, "usageshort": False, "usagelong": False, "help": True})
                # (this handler knows -h / --help, the evaluation specification does not: only the valid lines are kept for it, the
                # rule-breaking edits - an "unknown" key may be -h - would print the usage and end the process)
                acts = [x for x in acts if x["tag"]["k"] == "line"]
                ua = [{"n": "Usage", "via": "help", "argv": [T("-h")]}, {"n": "Usage", "via": "stream", "argv": []}, {"n": "Usage", "via": "help", "argv": [T("--help")]}]
                acts = [x for k, act in enumerate(acts) for x in ([act] + ([ua[k % 3]] if k % 3 == 0 else []))] + [ua[0]]
            blocks.append((cfg, acts))
        script = os.path.join(c.wd, "threads_%d.ndjson" % idx)
        write_cases(script, blocks)
        tr = os.path.join(c.wd, "trace_threads_%d.ndjson" % idx)
        tag = "T%dx%d" % (nthreads, rounds)
        # sequential reference run: every generated configuration must be accepted at set-up when run alone
        tr0 = os.path.join(c.wd, "trace_seq_%d.ndjson" % idx)
        rc0, err0 = run_driver(exe, ["--script", script, "--scratch", scratch(c)], stdout_path=tr0, timeout=600)
        with open(tr0) as f:
            if rc0 != 0 or any('"out":"setup"' in ln for ln in f):
                raise MachineryError("generated configuration refused at set-up in the sequential reference run (generator out of domain)")
        c.drive(exe, ["--script", script, "--threads", nthreads, "--rounds", rounds, "--seed", SEED + idx, "--scratch", scratch(c)], tr, tag, timeout=900,
                env={"TSAN_OPTIONS": "halt_on_error=1:exitcode=66:report_signal_unsafe=0:history_size=4:suppressions=" + os.path.join(ROOT, "harness", "tsan.supp")})
        with open(tr) as f:
            bad = [ln for ln in f if '"out":"setup"' in ln]
        if bad:
            # accepted when run alone (reference run above) but refused while other threads set up their handlers
            rp = os.path.join(c.wd, "setup_refused_%d.ndjson" % idx)
            with open(rp, "w") as f:
                f.writelines(bad[:5])
            c.violation("%s: a handler set-up that succeeds when run alone was refused while other threads were active: %s" % (tag, bad[0][:300]), rp)
            with open(tr) as f:
                keep = [ln for ln in f if '"out":"setup"' not in ln]
            with open(tr, "w") as f:
                f.writelines(keep)
        c.validate(SPEC, "TraceArgEval", "TraceArgEval.cfg", tr, tag, stateless=True)
    c.notes.append("schedules of the real code are sampled (free-running threads from a spin barrier with seeded start skews); ThreadSanitizer's "
                   "happens-before analysis makes a race observable even when it did not corrupt a result")
    return finish_args(c, ["ThreadSanitizer (clang 14) reports every data race on the executed paths; a report ends the driver (no End event)"])


if __name__ == "__main__":
    tier = sys.argv[sys.argv.index("--tier") + 1] if "--tier" in sys.argv else os.environ.get("VERIF_TIER", "quick")
    main_wrapper(lambda: run(tier))
