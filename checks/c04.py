#!/usr/bin/env python3
"""C04: argument evaluation is memory-safe for every argument vector and source."""
import os, sys, random
sys.path.insert(0, os.path.dirname(os.path.abspath(__file__)))
from argcommon import *


def tok_model(c, cfgname):
    so = os.path.join(mkdir(os.path.join(OUT, "tlcout")), "MCArgTok_%s.out" % cfgname)
    r = run_tlc(SPEC, "MCArgTok", cfgname, workers=NCPU, timeout=3000, xmx="20g", stdout_path=so)
    if r.error:
        raise MachineryError("MCArgTok: " + r.error)
    cfgs, beh = None, []
    with open(so, "r", errors="replace") as f:
        for line in f:
            if line.startswith('"CFGS '):
                cfgs = json.loads(json.loads(line)[5:])
            elif line.startswith('"EDGE '):
                beh.append(json.loads(json.loads(line)[5:])["a"])
    c.add_model("MCArgTok/" + cfgname, r, edges=beh)
    st = collections.Counter(b["out"] for b in beh)
    c.notes.append("MCArgTok %s: %d argv evaluated in the model, outcomes %s" % (cfgname, len(beh), dict(st)))
    log("[M] MCArgTok %s: %d distinct, %d behaviours, %.1fs%s" % (cfgname, r.distinct, len(beh), r.wall, " VIOLATION " + r.violation if r.violation else ""))
    return cfgs, beh


def mutate_words(r, words):
    ws = list(words)
    for _ in range(r.randint(1, 3)):
        op = r.randrange(8)
        if op == 0 and ws:
            ws.pop(r.randrange(len(ws)))
        elif op == 1:
            ws.insert(r.randint(0, len(ws)), r.choice(["-", "--", "---", "=", "!", "(", ")", "", "--=", "-=", "--x=", "-!", "-(", "- ", "--a-b"]))
        elif op == 2 and ws:
            k = r.randrange(len(ws)); w = ws[k]; p = r.randint(0, len(w))
            ws[k] = w[:p] + r.choice("-=!()\\ ,;") + w[p:]
        elif op == 3 and ws:
            k = r.randrange(len(ws)); w = ws[k]
            if w:
                p = r.randrange(len(w)); ws[k] = w[:p] + w[p + 1:]
        elif op == 4 and ws:
            ws.append(ws[r.randrange(len(ws))])
        elif op == 5 and ws:
            k = r.randrange(len(ws)); ws[k] = ws[k][: r.randint(0, len(ws[k]))]
        elif op == 6 and ws:
            k = r.randrange(len(ws)); ws[k] = ws[k] * r.randint(2, 4)
        elif op == 7 and len(ws) >= 2:
            i, j = r.sample(range(len(ws)), 2); ws[i], ws[j] = ws[j], ws[i]
    return ws


def run(tier):
    c = Check("C04", tier)
    exe = driver("asan")
    # ---- M + R: all argv over the structural alphabet
    blocks = []
    for cfgname in (["MCArgTok_quick.cfg"] if tier == "quick" else ["MCArgTok_thorough.cfg", "MCArgTok_thorough2.cfg"]):
        cfgs, beh = tok_model(c, cfgname)
        by = collections.defaultdict(list)
        for b in beh:
            by[b["ci"]].append(b)
        for ci in sorted(by):
            blocks.append((cfgs[ci - 1], [{"n": "Eval", "mode": "handler", "presrc": "none", "filetext": [], "envstr": [], "argv": b["words"], "cmd": [],
                                           "tag": {"k": "model"}} for b in by[ci]]))
            # the same argv with argument file / environment sources switched on (program name copies)
            sample = by[ci][:: max(1, len(by[ci]) // 300)]
            blocks.append((cfgs[ci - 1], [{"n": "Eval", "mode": "handler", "presrc": "both", "filetext": [], "envstr": [], "argv": b["words"], "cmd": [],
                                           "prog": T("x" * (k % 9)), "tag": {"k": "raw"}} for k, b in enumerate(sample)]))
    script = os.path.join(c.wd, "replay.ndjson")
    n = write_cases(script, blocks)
    c.notes.append("R: %d model argv executed by Handler::evalArguments under ASan/UBSan" % n)
    run_script(c, exe, script, "R", timeout=1200)
    # ---- T: random bytes, grammar-aware mutations, program names of every length, file/env sources, groups
    g = Gen(SEED * 7 + 4)
    r = g.r
    g2 = Gen(SEED * 7 + 44)          # command-mode additions draw from their own stream
    ncfg, nraw = (150, 60) if tier == "quick" else (2000, 100)
    blocks = []
    for ci in range(ncfg):
        # growing bit sets (vector<bool>, DynamicBitset) are kept out: random digits as a bit position make them allocate
        # gigabytes (ASan aborts on exhausted memory); positions have no documented limit, see docs/notes_prog_args_kinds.md
        cfg = g.cfg(constraints=True, groups=r.choice([1, 1, 2]), exclude=arggen.GROWBITS)
        if ci % 3 == 0:
            # a sub-group handler entered by its own key (evaluated by a nested handler until a word is not for it)
            sub = g.cfg(nargs=r.randint(1, 3), kinds=["flag", "int", "str", "vecint"], constraints=False, allow_pos=False)
            sa = arggen.new_arg("flag"); sa["kind"] = "sub"; sa["sub"] = sub; sa["init"] = False
            used_s = {a["s"] for a in cfg["args"]}; used_l = {tuple(a["l"]) for a in cfg["args"]}
            sa["s"] = next(ord(ch) for ch in "GQKZ" if ord(ch) not in used_s); sa["l"] = T("subgroup")
            sa["grp"] = 0
            cfg["args"].append(sa)
        cmda = None
        if ci % 3 == 1:
            # an argument with value mode 'command' (keyed or positional): the rest of argv is joined into its value
            cmda = g2.add_command(cfg, g2.r.choice(["key", "key", "pos"]), groups=1 + max(a["grp"] for a in cfg["args"]))
        acts = []
        valid = [w for w in (g.spell_line(cfg, l) for l in (gen_valid(g, cfg) for _ in range(4)) if l) if w is not None]
        for k in range(nraw):
            kind = r.randrange(4)
            if kind == 0 or not valid:      # random bytes
                words = [[r.randint(1, 255) for _ in range(r.randint(0, 40 if r.random() < 0.1 else 8))] for _ in range(r.randint(0, 8))]
            elif kind == 1:                # structural soup
                words = [T("".join(r.choice("-=ab!()x1, ") for _ in range(r.randint(0, 5)))) for _ in range(r.randint(0, 6))]
            else:                          # mutation of a valid line
                words = to_words(mutate_words(r, r.choice(valid)))
            if cfg["args"] and cfg["args"][-1]["kind"] == "sub" and r.random() < 0.6:
                sa = cfg["args"][-1]
                key = r.choice([T("-" + chr(sa["s"])), T("--subgroup"), T("--subg")])
                subw = to_words(g.spell_line(sa["sub"], gen_valid(g, sa["sub"]) or [])) if r.random() < 0.7 else []
                pos = r.choice([len(words), len(words), r.randint(0, len(words))])
                words = words[:pos] + [key] + subw + words[pos:]
            if cmda is not None and not cmda["pos"] and g2.r.random() < 0.6:
                # the key of the command-mode argument anywhere: alone, grouped, glued, with '=', as last word
                key = g2.r.choice((["-" + chr(cmda["s"]), "-" + chr(cmda["s"]) + "x", "-x" + chr(cmda["s"])] if cmda["s"] else [])
                                  + (["--" + S(cmda["l"]), "--" + S(cmda["l"]) + "=", "--" + S(cmda["l"]) + "=a"] if cmda["l"] else []))
                pos = g2.r.choice([len(words), g2.r.randint(0, len(words))])
                words = words[:pos] + [T(key)] + words[pos:]
            act = {"n": "Eval", "mode": r.choice(["handler", "handler", "groups"]) if any(a["grp"] for a in cfg["args"]) else "handler",
                   "presrc": "none", "filetext": [], "envstr": [], "argv": words, "cmd": [], "tag": {"k": "raw"}}
            src = r.randrange(5)
            if src >= 3 and act["mode"] == "handler":
                act["presrc"] = r.choice(["file", "env", "both"])
                act["prog"] = T("".join(r.choice("abc/.-") for _ in range((ci * nraw + k) % 65)))       # every length 0..64
                act["filetext"] = T("\n".join("".join(r.choice("-=ab '\"\\#x1,") for _ in range(r.randint(0, 12))) for _ in range(r.randint(0, 4))))
                act["envstr"] = T("".join(r.choice("-=ab '\"\\x1,") for _ in range(r.randint(0, 12))))
            acts.append(act)
        for a in cfg["args"]:
            if act["mode"] == "groups":
                break
        blocks.append((cfg, acts))
    # long value lists into container destinations with element formats / checks (internal per-position tables)
    for _ in range(30 if tier == "quick" else 600):
        cfg = g.cfg(nargs=r.randint(1, 3), kinds=["vecstr", "vecint", "arr3", "sarr3", "listint", "flag"], constraints=False, allow_pos=False)
        acts = []
        for a in cfg["args"]:
            if a["kind"] == "vecstr":
                a["formats"] = [r.choice(["upper", "lower"])]
        for a in cfg["args"]:
            if not arggen.is_cont(a["kind"]):
                continue
            key = ("-" + chr(a["s"])) if a["s"] else "--" + S(a["l"])
            for n in (9, 10, 11, 12, 13, 25, 40):
                vals = [str(r.randint(0, 99)) if arggen.is_int_kind(a["kind"]) else "v%d" % k for k in range(n)]
                acts.append({"n": "Eval", "mode": "handler", "presrc": "none", "filetext": [], "envstr": [], "files": [],
                             "argv": to_words([key, chr(a["sep"]).join(vals)]), "cmd": [], "tag": {"k": "raw"}})
                acts.append({"n": "Eval", "mode": "handler", "presrc": "env", "filetext": [], "envstr": T(key + " " + chr(a["sep"]).join(vals)), "files": [],
                             "prog": T("prog"), "argv": [], "cmd": [], "tag": {"k": "raw"}})
        blocks.append((cfg, acts))
    # program names around the usual buffer sizes (NAME_MAX, PATH_MAX, 64 KiB), with the argument-file and environment
    # sources switched on (the program name is copied / turned into a file and a variable name), plain and with a path
    g3 = Gen(SEED * 7 + 444)
    for _ in range(2 if tier == "quick" else 20):
        cfg = g3.cfg(nargs=g3.r.randint(1, 3), kinds=["flag", "int", "str"], constraints=False, allow_pos=False)
        acts = []
        for n in (254, 255, 256, 257, 1023, 1024, 1025, 4094, 4095, 4096, 4097, 5000, 8192, 65535, 65536, 70000):
            for presrc in ("file", "env", "both"):
                name = "".join(g3.r.choice("abcXYZ019_") for _ in range(n))
                if g3.r.random() < 0.4:
                    cut = g3.r.randint(0, n - 1)
                    name = name[:cut] + "/" + name[cut + 1:]
                line = gen_valid(g3, cfg)
                acts.append({"n": "Eval", "mode": "handler", "presrc": presrc, "filetext": T("-x\n"), "envstr": T("--yy 1"), "files": [], "prog": T(name),
                             "argv": to_words(g3.spell_line(cfg, line) if line else []), "cmd": [], "tag": {"k": "raw"}})
        blocks.append((cfg, acts))
    # bit positions at the edge of the unsigned range for the growing bit sets (vector<bool>, DynamicBitset): SIZE_MAX, the
    # values from which "position + half of it + 1" wraps around, 2^63.  (Positions between 2^35 and 6 * 10^18 stay out: they
    # make the address sanitizer's allocator abort instead of throwing std::bad_alloc.)
    huge = ["18446744073709551615", "18446744073709551614", "12297829382473034410", "12297829382473034411", "12297829382473034412",
            "12297829382473034500", "12297829382474000000", "9223372036854775808", "9223372036854775807", "6148914691236517206", "-1", "-2",
            "-6148914691236517205"]
    for _ in range(3 if tier == "quick" else 60):
        cfg = g3.cfg(nargs=g3.r.randint(1, 3), kinds=["vecbool", "dynbits", "vecbool", "dynbits", "flag"], constraints=False, allow_pos=False)
        acts = []
        for a in cfg["args"]:
            if a["kind"] not in arggen.GROWBITS:
                continue
            a["checks"] = []; a["card"] = {"t": "none", "a": 0, "b": 0}
            key = ("-" + chr(a["s"])) if a["s"] else "--" + S(a["l"])
            for h in huge:
                for vals in ([h], ["3", h], [h, "5"]):
                    acts.append({"n": "Eval", "mode": "handler", "presrc": "none", "filetext": [], "envstr": [], "files": [],
                                 "argv": to_words([key, chr(a["sep"]).join(vals)]), "cmd": [], "tag": {"k": "raw"}})
        blocks.append((cfg, acts))
    script2 = os.path.join(c.wd, "random.ndjson")
    write_cases(script2, blocks)
    run_script(c, exe, script2, "T", timeout=1200)
    return finish_args(c, ["argc >= 1 and argv[argc] == NULL as guaranteed for main()", "ASan/UBSan (clang 14) observe invalid accesses; argv words and the argv array live in exactly-sized heap blocks"])


if __name__ == "__main__":
    tier = sys.argv[sys.argv.index("--tier") + 1] if "--tier" in sys.argv else os.environ.get("VERIF_TIER", "quick")
    main_wrapper(lambda: run(tier))
