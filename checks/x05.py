#!/usr/bin/env python3
"""X05 (extension): range strings (RangeString / RangeExpression / RangeGenerator) and value filters (ValueFilter,
parseFilterString) mean what their documentation says."""
import collections, json, os, sys
sys.path.insert(0, os.path.join(os.path.dirname(os.path.abspath(__file__)), "..", "tools"))
from vlib import *

# component, specification module, actions every bounded model must have generated edges for (vacuity guard; TLC's
# coverage statistics are switched off: its cost model does not cope with the recursive operators of these modules)
PARTS = (
    ("rs", "RangeString", ["ParseExpr", "IterAll", "Begin", "Incr", "PostIncr", "CopyIt"]),
    ("gen", "RangeGen", ["Exclude", "Incr", "PostIncr"]),
    ("vf", "ValueFilter", ["AddSingle", "AppendSingle", "AddRange", "AppendRange", "AddMin", "AppendMin", "AddMax", "AppendMax",
                           "Clear", "Empty", "Size", "Str", "Matches", "ParseFilter"]),
)


def run(tier):
    c = Check("X05", tier)
    spec = os.path.join(ROOT, "specs", "rangefilter")
    exe = build_driver("rangefilter", os.path.join(ROOT, "harness", "rangefilter_driver.cpp"), "asan", lib_subdirs=("common",))
    cases = {"rs": 2000, "gen": 2500, "vf": 2500} if tier == "quick" else {"rs": 60000, "gen": 40000, "vf": 60000}
    for comp, mod, must in PARTS:
        r, edges = c.model(spec, "MC" + mod, "MC%s_%s.cfg" % (mod, tier), coverage=False, timeout=1200)
        if r.violation:
            continue
        per = collections.Counter(json.loads(e[1])["n"] for e in set(edges))
        missing = [a for a in must if per.get(a, 0) == 0]
        if missing:
            raise MachineryError("vacuous model MC%s: no transition of %s" % (mod, missing))
        seqs, nedges, nstates, unreach = cover(edges)
        script = os.path.join(c.wd, "script_%s.ndjson" % comp)
        write_script(seqs, script)
        c.notes.append("%s: %d distinct edges over %d states covered by %d replay sequences; edges per action %s" % (
            mod, nedges, nstates, len(seqs), dict(sorted(per.items()))))
        tr = os.path.join(c.wd, "replay_%s.ndjson" % comp)
        c.drive(exe, ["--comp", comp, "--script", script], tr, "R-" + comp, timeout=600)
        c.validate(spec, "Trace" + mod, "Trace%s.cfg" % mod, tr, "R-" + comp)
        tr2 = os.path.join(c.wd, "random_%s.ndjson" % comp)
        c.drive(exe, ["--comp", comp, "--random", "--seed", SEED, "--cases", cases[comp]], tr2, "T-" + comp, timeout=600)
        c.validate(spec, "Trace" + mod, "Trace%s.cfg" % mod, tr2, "T-" + comp)
    c.exhaustive = True
    c.assumptions = ["numerals have at most 9 digits (all values below 2^31); longer numerals are generated rarely and are outside the documentation (class open)",
                     "values are not negative (the documented formats have no sign)",
                     "RangeGenerator::excludeValue is only called before the first increment"]
    return c.finish()


if __name__ == "__main__":
    tier = sys.argv[sys.argv.index("--tier") + 1] if "--tier" in sys.argv else os.environ.get("VERIF_TIER", "quick")
    main_wrapper(lambda: run(tier))
