#!/usr/bin/env python3
"""C12: the dynamic bitset behaves like a growable reference bit vector."""
import os, sys
sys.path.insert(0, os.path.join(os.path.dirname(os.path.abspath(__file__)), "..", "tools"))
from vlib import *

MUST = ["DoAssign", "DoCtorSize", "DoSetAll", "DoResetAll", "DoFlipAll", "DoSetBit", "DoResetBit", "DoFlipBit", "DoIndexWrite",
        "DoIndexRead", "DoResize", "DoAndAssign", "DoOrAssign", "DoXorAssign", "DoSelfAssign", "DoSelfBinary", "DoShlAssign", "DoShrAssign", "DoBinary", "DoShift",
        "DoNot", "DoTest", "DoIterate", "DoIterBegin", "DoObserve", "DoIterNext", "DoIterPrev", "DoIterDrop"]


def run(tier):
    c = Check("C12", tier)
    spec = os.path.join(ROOT, "specs", "dynbitset")
    exe = build_driver("dynbitset", os.path.join(ROOT, "harness", "dynbitset_driver.cpp"), "asan")
    cases, ops = (120, 300) if tier == "quick" else (3000, 500)
    r, edges = c.model(spec, "MCDynBitset", "MCDynBitset_%s.cfg" % tier, must_take=MUST)
    seqs, nedges, nstates, unreach = cover(edges)
    script = os.path.join(c.wd, "script.ndjson")
    write_script(seqs, script)
    c.notes.append("DynBitset: %d distinct edges over %d states covered by %d replay sequences" % (nedges, nstates, len(seqs)))
    tr = os.path.join(c.wd, "replay.ndjson")
    c.drive(exe, ["--script", script], tr, "R")
    c.validate(spec, "TraceDynBitset", "TraceDynBitset.cfg", tr, "R")
    # T in chunks of at most 200 executions per driver process (own seed each): with detect_stack_use_after_return
    # every caught exception (out_of_range / overflow_error are part of the interface) leaves fake-stack frames
    # behind and a long-running process becomes very slow
    done, chunk = 0, 0
    while done < cases:
        k = min(200, cases - done)
        tr2 = os.path.join(c.wd, "random_%d.ndjson" % chunk)
        c.drive(exe, ["--random", "--seed", SEED + chunk, "--cases", k, "--ops", ops], tr2, "T%d" % chunk, timeout=600)
        c.validate(spec, "TraceDynBitset", "TraceDynBitset.cfg", tr2, "T%d" % chunk)
        done += k
        chunk += 1
    c.exhaustive = True
    c.assumptions = ["size after growth, after reset(), after &= with a longer operand and after << on an empty bitset is not "
                     "documented: any documented reading is accepted (bound from the recorded execution)",
                     "operator== is only constrained between bitsets of equal size",
                     "ASan/UBSan observe every access outside the heap block of the internal std::vector<bool>"]
    return c.finish()


if __name__ == "__main__":
    tier = sys.argv[sys.argv.index("--tier") + 1] if "--tier" in sys.argv else os.environ.get("VERIF_TIER", "quick")
    main_wrapper(lambda: run(tier))
