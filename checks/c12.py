#!/usr/bin/env python3
"""C12: the dynamic bitset behaves like a growable reference bit vector."""
import os, sys
sys.path.insert(0, os.path.join(os.path.dirname(os.path.abspath(__file__)), "..", "tools"))
from vlib import *

MUST = ["DoAssign", "DoCtorSize", "DoSetAll", "DoResetAll", "DoFlipAll", "DoSetBit", "DoResetBit", "DoFlipBit", "DoIndexWrite",
        "DoIndexRead", "DoResize", "DoAndAssign", "DoOrAssign", "DoXorAssign", "DoShlAssign", "DoShrAssign", "DoBinary", "DoShift",
        "DoNot", "DoTest", "DoIterate", "DoIterBegin", "DoObserve", "DoIterNext", "DoIterPrev", "DoIterDrop"]


def run(tier):
    c = Check("C12", tier)
    spec = os.path.join(ROOT, "specs", "dynbitset")
    exe = build_driver("dynbitset", os.path.join(ROOT, "harness", "dynbitset_driver.cpp"), "asan")
    cases, ops = (120, 300) if tier == "quick" else (1600, 500)
    r, edges = c.model(spec, "MCDynBitset", "MCDynBitset_%s.cfg" % tier, must_take=MUST)
    seqs, nedges, nstates, unreach = cover(edges)
    script = os.path.join(c.wd, "script.ndjson")
    write_script(seqs, script)
    c.notes.append("DynBitset: %d distinct edges over %d states covered by %d replay sequences" % (nedges, nstates, len(seqs)))
    tr = os.path.join(c.wd, "replay.ndjson")
    c.drive(exe, ["--script", script], tr, "R")
    c.validate(spec, "TraceDynBitset", "TraceDynBitset.cfg", tr, "R")
    tr2 = os.path.join(c.wd, "random.ndjson")
    c.drive(exe, ["--random", "--seed", SEED, "--cases", cases, "--ops", ops], tr2, "T", timeout=600)
    c.validate(spec, "TraceDynBitset", "TraceDynBitset.cfg", tr2, "T")
    c.exhaustive = True
    c.assumptions = ["size after growth, after reset(), after &= with a longer operand and after << on an empty bitset is not "
                     "documented: any documented reading is accepted (bound from the recorded execution)",
                     "operator== is only constrained between bitsets of equal size",
                     "ASan/UBSan observe every access outside the heap block of the internal std::vector<bool>"]
    return c.finish()


if __name__ == "__main__":
    tier = sys.argv[sys.argv.index("--tier") + 1] if "--tier" in sys.argv else os.environ.get("VERIF_TIER", "quick")
    main_wrapper(lambda: run(tier))
