#!/usr/bin/env python3
"""X04 (extension): the hierarchical property container behaves like the documented tree of named values, maps and links."""
import os, sys
sys.path.insert(0, os.path.join(os.path.dirname(os.path.abspath(__file__)), "..", "tools"))
from vlib import *

BASIC = ["DoAddNew", "DoAddOverwrite", "DoAddBlocked", "DoAddOnMap", "DoLinkPlain", "DoLinkNoDest", "DoLinkConflict",
         "DoHasValue", "DoHasLinked", "DoHasMap", "DoHasNone", "DoGetValue", "DoGetLinked", "DoGetMap", "DoGetNone", "DoIter", "DoPrint"]
FULL = BASIC + ["DoAddOnLink", "DoLinkToLink", "DoLinkThrough"]
# bounded models per tier: (configuration, actions that must be taken)
MODELS = {"quick": [("quick", FULL), ("quick_empty", BASIC)],
          "thorough": [("thorough", FULL), ("thorough_deep", FULL), ("thorough_seps", FULL)]}


def run(tier):
    c = Check("X04", tier)
    spec = os.path.join(ROOT, "specs", "properties")
    exe = build_driver("properties", os.path.join(ROOT, "harness", "properties_driver.cpp"), "asan",
                       lib_subdirs=("container", "common"))
    cases, ops = (300, 70) if tier == "quick" else (8000, 110)
    for cfg, must in MODELS[tier]:
        r, edges = c.model(spec, "MCProperties", "MCProperties_%s.cfg" % cfg, must_take=must)
        seqs, nedges, nstates, unreach = cover(edges)
        script = os.path.join(c.wd, "script_%s.ndjson" % cfg)
        write_script(seqs, script)
        c.notes.append("Properties/%s: %d distinct edges over %d states covered by %d replay sequences" % (cfg, nedges, nstates, len(seqs)))
        tr = os.path.join(c.wd, "replay_%s.ndjson" % cfg)
        c.drive(exe, ["--script", script], tr, "R-" + cfg, timeout=900)
        c.validate(spec, "TraceProperties", "TraceProperties.cfg", tr, "R-" + cfg, timeout=1500)
    tr2 = os.path.join(c.wd, "random.ndjson")
    c.drive(exe, ["--random", "--seed", SEED, "--cases", cases, "--ops", ops], tr2, "T", timeout=900)
    c.validate(spec, "TraceProperties", "TraceProperties.cfg", tr2, "T", timeout=1500)
    # the documented "[?]" before the destination of a link in the listing: checked on the last event of a few executions
    tr3 = os.path.join(c.wd, "marker.ndjson")
    c.drive(exe, ["--random", "--seed", SEED + 1, "--cases", 3, "--ops", 40, "--marker", 1], tr3, "T-marker")
    c.validate(spec, "TraceProperties", "TraceProperties.cfg", tr3, "T-marker")
    c.exhaustive = True
    c.assumptions = ["getProperty< T>() / value< T>() are only called with the type the value was stored with (the documentation "
                     "gives no meaning to other types)",
                     "links that would make the tree cyclic are kept out of the generators (the documentation is silent)",
                     "the order of the names of one level is the order of the documented container type property_map_t (std::map)",
                     "where the documentation leaves an outcome open (hasProperty for a map, a value given for the name of a link, "
                     "a link destination named over a link, paths shown for empty map names) every documented reading is accepted"]
    return c.finish()


if __name__ == "__main__":
    tier = sys.argv[sys.argv.index("--tier") + 1] if "--tier" in sys.argv else os.environ.get("VERIF_TIER", "quick")
    main_wrapper(lambda: run(tier))
