#!/usr/bin/env python3
"""C14: a log message reaches exactly the destinations whose filters it passes (routing by id mask / name,
maximum/minimum/exact level and class-list filters, duplicate policy, level pre-check)."""
import os, sys, json, random
sys.path.insert(0, os.path.join(os.path.dirname(os.path.abspath(__file__)), "..", "tools"))
from vlib import *

MUST = ["CreateLog", "AddDest", "RemoveDest", "SetPolicy", "SetFilter", "SendAll", "PreAll", "GetLog"]
MAX_REPLAY_EDGES = 450000      # thorough: beyond this R replays a seeded sample of the edges (DESIGN 1.2)


def vacuity_guard(edges, module):
    seen = set()
    for e in edges:
        seen.add(json.loads(e[1])["n"])
    missing = [n for n in MUST if n not in seen]
    if missing:
        raise MachineryError("vacuous model %s: actions never taken: %s" % (module, missing))


def sample_edges(edges, limit, seed):
    """Keep a seeded sample of the edges plus the BFS-tree edges needed to reach them from the initial state."""
    uniq = sorted(set((e[0], e[1], e[2]) for e in edges))
    if len(uniq) <= limit:
        return edges, len(uniq), len(uniq)
    init = sorted(set(e[0] for e in edges if e[3]))
    succ = collections.defaultdict(list)
    for pre, a, post in uniq:
        succ[pre].append((a, post))
    parent = {i: None for i in init}
    dq = collections.deque(init)
    while dq:
        u = dq.popleft()
        for a, v in succ[u]:
            if v not in parent:
                parent[v] = (u, a)
                dq.append(v)
    rnd = random.Random(seed)
    keep = set(rnd.sample(uniq, limit))
    todo = [e[0] for e in keep]
    done = set()
    while todo:
        u = todo.pop()
        while u not in done and parent.get(u) is not None:
            done.add(u)
            pu, a = parent[u]
            keep.add((pu, a, u))
            u = pu
    inits = set(init)
    return [(p, a, q, p in inits) for (p, a, q) in sorted(keep)], len(uniq), len(keep)


def run(tier):
    c = Check("C14", tier)
    spec = os.path.join(ROOT, "specs", "logrouting")
    exe = build_driver("logrouting", os.path.join(ROOT, "harness", "logrouting_driver.cpp"), "asan",
                       lib_subdirs=("log", "common", "format", "prog_args", "appl"),
                       libs=("-lboost_system", "-lboost_filesystem"))
    for tag, cfg in (("routing", "MCLogRouting_%s.cfg" % tier), ("filters", "MCLogRouting_filters_%s.cfg" % tier)):
        r, edges = c.model(spec, "MCLogRouting", cfg, coverage=False)
        if r.violation:
            continue
        vacuity_guard(edges, cfg)
        edges, n_all, n_kept = sample_edges(edges, MAX_REPLAY_EDGES, SEED)
        seqs, nedges, nstates, _ = cover(edges, maxlen=60)
        script = os.path.join(c.wd, "script_%s.ndjson" % tag)
        nlines = write_script(seqs, script)
        c.notes.append("%s: %d distinct edges in the model, %d replayed (%d graph states) by %d sequences / %d script lines"
                       % (cfg, n_all, nedges, nstates, len(seqs), nlines))
        tr = os.path.join(c.wd, "replay_%s.ndjson" % tag)
        c.drive(exe, ["--script", script], tr, "R-" + tag, timeout=900)
        c.validate(spec, "TraceLogRouting", "TraceLogRouting.cfg", tr, "R-" + tag, timeout=1500)
    cases, ops = (100, 100) if tier == "quick" else (1500, 100)
    tr2 = os.path.join(c.wd, "random.ndjson")
    c.drive(exe, ["--random", "--seed", SEED, "--cases", cases, "--ops", ops], tr2, "T", timeout=900)
    c.validate(spec, "TraceLogRouting", "TraceLogRouting.cfg", tr2, "T", timeout=1500)
    c.exhaustive = True
    c.rule = ("one evaluation = one recorded implementation event checked by TLC; a Send event records a burst of "
              "Logging::log() calls (in R: all 49 (level, class) messages) with every delivery observed by the recording "
              "destinations, a PreCheck event records discard_by_level() for a list of levels")
    c.assumptions = ["destination names are unique within a log; a destination object is owned by one log",
                     "class lists contain no empty tokens and no white space (the documentation does not define them)",
                     "the level pre-check is only required to be sound (never discards a level the log's filters pass) and not "
                     "useless (keeps a level only if some level filter accepts it or none exists); which of several level "
                     "filters it consults is not prescribed",
                     "process-name and user-defined filters are outside the specification"]
    return c.finish()


if __name__ == "__main__":
    tier = sys.argv[sys.argv.index("--tier") + 1] if "--tier" in sys.argv else os.environ.get("VERIF_TIER", "quick")
    main_wrapper(lambda: run(tier))
