#!/usr/bin/env python3
"""X03 (extension): log file names (filename::Definition / Creator / Builder) and the file policies Simple and
Timestamped (files::Simple, Timestamped, Handler, factory): the name is a pure function of the definition, the
generation number, the timestamp, the environment and the pid; properties of the Creator apply to the next part only;
every message is in exactly one file, in order; Timestamped keeps in each file exactly the messages whose rendered name
is the file's name; re-opening appends."""
import concurrent.futures, json, os, shutil, sys
sys.path.insert(0, os.path.join(os.path.dirname(os.path.abspath(__file__)), "..", "tools"))
from vlib import *


def scratch(tag):
    d = os.path.join(OUT, "tmp", "x03-%s-%d" % (tag, os.getpid()))
    shutil.rmtree(d, ignore_errors=True)
    mkdir(os.path.dirname(d))
    return d


def require_edges(edges, module, need, keyf):
    """Vacuity guard on the generated transitions: every kind of step must occur."""
    seen = set()
    for pre, a, post, init in edges:
        seen.add(keyf(json.loads(pre), json.loads(a), json.loads(post)))
    missing = [n for n in need if n not in seen]
    if missing:
        raise MachineryError("vacuous model %s: transitions never generated: %s" % (module, missing))


def count_via(path):
    n = {"policy": 0, "handler": 0, "factory": 0}
    with open(path, "rb") as f:
        for ln in f:
            if ln.startswith(b'{"e":"Reset"'):
                for k in n:
                    if (b'"via":"%s"' % k.encode()) in ln:
                        n[k] += 1
    return n


def validate_groups(c, spec, traces, name, tag, keep):
    """Validates the recorded traces in groups of at most ~400000 events (one TLC process per shard inside validate);
    the files are removed afterwards unless something was rejected (thorough: hundreds of MB)."""
    groups, cur, cur_n = [], [], 0
    for tr in traces:
        with open(tr, "rb") as f:
            n = sum(1 for _ in f)
        if cur and cur_n + n > 400000:
            groups.append(cur)
            cur, cur_n = [], 0
        cur.append(tr)
        cur_n += n
    if cur:
        groups.append(cur)
    for gi, grp in enumerate(groups):
        allp = os.path.join(c.wd, "%s_all_%d.ndjson" % (name, gi))
        with open(allp, "wb") as fo:
            for tr in grp:
                with open(tr, "rb") as f:
                    shutil.copyfileobj(f, fo)
                os.remove(tr)
        c.validate(spec, "TraceLogFiles", "TraceLogFiles.cfg", allp, tag)
        if not keep and not c.violations:
            os.remove(allp)


def run(tier):
    c = Check("X03", tier)
    spec = os.path.join(ROOT, "specs", "logfiles")
    exe = build_driver("logfiles", os.path.join(ROOT, "harness", "logfiles_driver.cpp"), "asan",
                       lib_subdirs=("log", "common", "format", "prog_args", "appl"),
                       libs=("-lboost_system", "-lboost_filesystem"))
    quick = tier == "quick"
    phase = SEED % 3

    # ------------------------------------------------------------------ first half: Creator / Definition / Builder
    must = ["MCAddText", "MCAddEnv", "MCAddDate", "MCAddNumber", "MCAddPid", "MCSetWidth", "MCSetFill", "MCSetFormat",
            "MCPathSep", "MCSetEnv"]
    r, edges = c.model(spec, "MCLogFileName", "MCLogFileName_%s.cfg" % tier, must_take=must)
    seqs, nedges, nstates, _ = cover(edges)
    c.notes.append("LogFileName: %d distinct edges over %d states covered by %d replay sequences" % (nedges, nstates, len(seqs)))
    nparts = max(1, min(2 * NCPU, len(seqs) // 3000 + 1))
    chunks = [seqs[i::nparts] for i in range(nparts)]

    def replay_name(i):
        script = os.path.join(c.wd, "script_name_%d.ndjson" % i)
        write_script(chunks[i], script)
        tr = os.path.join(c.wd, "replay_name_%d.ndjson" % i)
        d = scratch("RN%d" % i)
        c.drive(exe, ["--dir", d, "--comp", "name", "--script", script], tr, "R-name", timeout=900)
        shutil.rmtree(d, ignore_errors=True)
        os.remove(script)
        return tr
    with concurrent.futures.ThreadPoolExecutor(NCPU) as ex:
        traces = list(ex.map(replay_name, range(len(chunks))))
    validate_groups(c, spec, traces, "replay_name", "R-name", quick)
    # T: long random definitions, random texts / formats / widths / environment, every rendering path of the Builder
    tr2 = os.path.join(c.wd, "random_name.ndjson")
    d2 = scratch("TN")
    c.drive(exe, ["--dir", d2, "--comp", "name", "--random", "--seed", SEED, "--cases", 400 if quick else 6000, "--ops", 14],
            tr2, "T-name", timeout=900)
    shutil.rmtree(d2, ignore_errors=True)
    c.validate(spec, "TraceLogFiles", "TraceLogFiles.cfg", tr2, "T-name")

    # ------------------------------------------------------------------ second half: Simple / Timestamped / Handler / factory
    must = ["MCOpen", "MCWrite", "MCClose", "MCRestart"]
    r, edges = c.model(spec, "MCLogFiles", "MCLogFiles_%s.cfg" % tier, must_take=must)
    if not r.violation:
        need = [(n, k, grow) for n in ("Open", "Write", "Restart") for k in ("simple", "timestamped") for grow in (False, True)
                if not (n == "Write" and k == "simple" and grow)]
        need += [("Close", "simple", False), ("Close", "timestamped", False)]
        require_edges(edges, "MCLogFiles", need, lambda pre, a, post: (a["n"], a["kind"], post["nf"] > pre["nf"]))
    seqs, nedges, nstates, _ = cover(edges)
    c.notes.append("LogFiles: %d distinct edges over %d states covered by %d replay sequences" % (nedges, nstates, len(seqs)))
    nparts = max(1, min(2 * NCPU, len(seqs) // 1500 + 1))
    chunks = [seqs[i::nparts] for i in range(nparts)]

    def replay_files(i):
        script = os.path.join(c.wd, "script_files_%d.ndjson" % i)
        write_script(chunks[i], script)
        tr = os.path.join(c.wd, "replay_files_%d.ndjson" % i)
        d = scratch("RF%d" % i)
        c.drive(exe, ["--dir", d, "--comp", "files", "--via", "alt", "--phase", phase + i, "--script", script], tr, "R-files", timeout=1200)
        shutil.rmtree(d, ignore_errors=True)
        os.remove(script)
        return tr
    with concurrent.futures.ThreadPoolExecutor(NCPU) as ex:
        traces = list(ex.map(replay_files, range(len(chunks))))
    via = {"policy": 0, "handler": 0, "factory": 0}
    for tr in traces:
        for k, v in count_via(tr).items():
            via[k] += v
    validate_groups(c, spec, traces, "replay_files", "R-files", quick)
    # T: long histories (minute / hour / day granularity, many formats), restarts, all three paths
    tr3 = os.path.join(c.wd, "random_files.ndjson")
    d3 = scratch("TF")
    c.drive(exe, ["--dir", d3, "--comp", "files", "--via", "alt", "--phase", phase, "--random", "--seed", SEED,
                  "--cases", 60 if quick else 900, "--ops", 50], tr3, "T-files", timeout=900)
    shutil.rmtree(d3, ignore_errors=True)
    viaT = count_via(tr3)
    c.notes.append("executions via policy / Handler / factory: R %d / %d / %d, T %d / %d / %d"
                   % (via["policy"], via["handler"], via["factory"], viaT["policy"], viaT["handler"], viaT["factory"]))
    if not c.violations and min(list(via.values()) + list(viaT.values())) == 0:
        raise MachineryError("vacuous replay: one of the paths policy / handler / factory has no execution")
    c.validate(spec, "TraceLogFiles", "TraceLogFiles.cfg", tr3, "T-files")
    # the definitions the as-built Timestamped is known not to handle (known_findings.jsonl): a few short histories each
    tr4 = os.path.join(c.wd, "random_findings.ndjson")
    d4 = scratch("TK")
    c.drive(exe, ["--dir", d4, "--comp", "files", "--via", "alt", "--phase", phase, "--random", "--seed", SEED,
                  "--cases", 3 if quick else 9, "--ops", 12, "--findings", 1], tr4, "T-findings", timeout=300)
    shutil.rmtree(d4, ignore_errors=True)
    c.validate(spec, "TraceLogFiles", "TraceLogFiles.cfg", tr4, "T-findings", shards=1)
    c.exhaustive = True
    c.assumptions = ["the system time and the process id are inputs of the component: the driver defines time() and getpid() "
                     "(virtual clock / pid); TZ=UTC",
                     "messages carry the system time of the logging call as their timestamp (synchronous logging) and time "
                     "never runs backwards; messages are single lines",
                     "date formats inside the modelled strftime directives (%Y %y %m %d %e %j %H %M %S %F %T %R %%); numbers "
                     "not wider than their fixed width; path_sep only between two constant texts"]
    return c.finish()


if __name__ == "__main__":
    tier = sys.argv[sys.argv.index("--tier") + 1] if "--tier" in sys.argv else os.environ.get("VERIF_TIER", "quick")
    main_wrapper(lambda: run(tier))
