#!/usr/bin/env python3
"""C01: command-line values reach their typed destinations, whatever the spelling."""
import os, sys, collections
sys.path.insert(0, os.path.dirname(os.path.abspath(__file__)))
from argcommon import *


def run(tier):
    c = Check("C01", tier)
    exe = driver("asan")
    # M: all spellings of all lines of the bounded family agree with the declarative meaning (AgreesInv)
    # 20: value arguments (DEST_VAR_VALUE) sharing a variable, 21: pair arguments (DEST_PAIR)
    # 24, 25: value mode 'command' (keyed / positional): the rest of the command line is the value, evaluation stops there
    if tier == "quick":
        cfgs, beh = model_behaviours(c, tier, cfgsel=[1, 2, 4, 7, 13, 20, 21, 24, 25])
    else:
        # three uses per line where the family stays below about a million spellings (measured: 4 -> 2.4 million behaviours,
        # 21 -> 0.9 million in 8 minutes of TLC), two uses for the others
        cfgs, beh = model_behaviours(c, tier, cfgsel=[1, 2, 7, 13, 20, 24, 25], maxuses=3)
        cfgs2, beh2 = model_behaviours(c, tier, cfgsel=[4, 21], maxuses=2)
        beh += beh2
    # R: every spelling of every VALID line of the model through the real handler
    script = os.path.join(c.wd, "replay.ndjson")
    n = behaviours_script(cfgs, beh, script, select=lambda b: b["valid"])
    c.notes.append("R: %d distinct (configuration, argv) spellings of valid lines replayed" % n)
    run_script(c, exe, script, "R")
    # T: random configurations, each valid line in many spellings
    g = Gen(SEED * 7 + 1)
    ncfg, nlines, nspell = (60, 6, 6) if tier == "quick" else (1500, 10, 12)
    blocks = []
    for _ in range(ncfg):
        # a third of the handlers define the standard argument --endvalues: markers behind multi-value uses (several per line),
        # a positional value directly behind a marker
        cfg = g.cfg(constraints=True, endvalues=0.34)
        acts = []
        for _ in range(nlines):
            line = g.with_markers(cfg, gen_valid(g, cfg))
            if line is None:
                continue
            for _ in range(nspell):
                acts.append(eval_action(g.spell_line(cfg, line), tag={"k": "line", "line": line_json(line)}))
        blocks.append((cfg, acts))
    # T2: value mode 'command': keyed (short / long / abbreviated key) and positional, the text contains words that look like
    # keys of the handler; plus the documented refusal (key inside a group of short keys) and the cases left open (nothing
    # behind the key, "--key=...")
    kinds = collections.Counter()
    for k in range(60 if tier == "quick" else 1500):
        cfg = g.cfg(nargs=g.r.randint(1, 5), constraints=True, cmd=("key", "key", "pos")[k % 3], exclude=arggen.GROWBITS)
        acts = []
        for _ in range(nlines):
            line = gen_valid(g, cfg)
            if line is None:
                continue
            for _ in range(3):
                acts.append(eval_action(g.spell_line(cfg, line), tag={"k": "line", "line": line_json(line)}))
            for kind, words in arggen.sub_mutations(g, cfg, line):
                kinds[kind] += 1
                acts.append(eval_action(words, tag={"k": "mut", "m": kind}))
        blocks.append((cfg, acts))
    c.notes.append("T2 (command mode): refusals / open cases generated: %s" % dict(kinds))
    # T3: destinations of other integral types (64-bit signed / unsigned, unsigned int, short, unsigned short), values at the limits
    wb = wide_blocks(g, 25 if tier == "quick" else 800)
    blocks += wb
    c.notes.append("T3: %d spellings of lines for 64 / 32 / 16 bit integral destinations" % sum(len(b[1]) for b in wb))
    script2 = os.path.join(c.wd, "random.ndjson")
    write_cases(script2, blocks)
    rej, tr = run_script(c, exe, script2, "T")
    decl_consistency(c, tr, "T")
    return finish_args(c)


if __name__ == "__main__":
    tier = sys.argv[sys.argv.index("--tier") + 1] if "--tier" in sys.argv else os.environ.get("VERIF_TIER", "quick")
    main_wrapper(lambda: run(tier))
