#!/usr/bin/env python3
"""C11: FixedString equals std::string cut off at the capacity (documented domain)."""
import os, sys
sys.path.insert(0, os.path.dirname(os.path.abspath(__file__)))
from fixedstring_common import *


def main(tier):
    c = run("C11", tier, "c11")
    c.assumptions = ["the documented domain is DESIGN A.3 (Dom in FixedString.tla); calls outside it carry no functional claim",
                     "sprintf: the rendered text is taken from the C library's vsnprintf into a large buffer",
                     "returned iterators / *this of modifying calls are not compared"]
    return c.finish()


if __name__ == "__main__":
    tier = sys.argv[sys.argv.index("--tier") + 1] if "--tier" in sys.argv else os.environ.get("VERIF_TIER", "quick")
    main_wrapper(lambda: main(tier))
