#!/usr/bin/env python3
"""C20: the concurrency helpers (Singleton, ManagedThread) keep their contract under every schedule.

M  TLC checks Singleton.tla / ManagedThread.tla for all interleavings (design instance), and must FIND the
   data race / the wrong isActive() on the negative instances (as-built orders, relaxed atomics).
R  every maximal behaviour of the bounded models (a seeded uniform sample when there are too many) is forced
   onto the real code through the CELMA_VERIF points by the scheduler of concurrency_driver (TSan build);
   the recorded events are validated by TLC against the specification.
T  free-running rounds under ThreadSanitizer (2..16 threads racing for the first instance(); managed threads
   observed while their function provably runs), validated by TLC.  A ThreadSanitizer report is a Race event
   that no specification action explains.
"""
import glob, json, os, random, sys
sys.path.insert(0, os.path.join(os.path.dirname(os.path.abspath(__file__)), "..", "tools"))
from vlib import *

SPEC = os.path.join(ROOT, "specs", "concurrency")
SGL_STEPS = ["FastRead", "Lock", "SlowRead", "Construct", "Publish", "Published", "Unlock", "Return", "ResetAll"]
MT_STEPS = ["InitFlag", "Spawn", "CtorReturn", "SetActive", "FuncStart", "FuncEnd", "ClearActive", "ThreadExit",
            "Observe", "Join", "Destroy"]


def behaviours(edges, limit, rng):
    """All maximal behaviours (paths from an initial node to a node without successor) of the acyclic graph
    printed by TLC, as lists of action-json strings; a seeded uniform sample of `limit` distinct ones
    if there are more.  Returns (paths, total number of maximal behaviours)."""
    succ, inits = {}, set()
    for pre, a, post, is_init in sorted(set(edges)):
        if is_init:                     # field i: the edge leaves an initial state
            inits.add(pre)
        succ.setdefault(pre, []).append((a, post))
        succ.setdefault(post, [])
    for i in inits:
        succ.setdefault(i, [])
    count = {}

    def npaths(u):                      # iterative post-order (graphs are acyclic: every step advances a pc)
        stack = [(u, 0)]
        onpath = set()
        while stack:
            v, i = stack.pop()
            if v in count:
                continue
            if i == 0:
                if v in onpath:
                    raise MachineryError("behaviours(): cycle in the model graph")
                onpath.add(v)
            ch = succ[v]
            if i < len(ch):
                stack.append((v, i + 1))
                if ch[i][1] not in count:
                    stack.append((ch[i][1], 0))
            else:
                count[v] = sum(count[w] for _, w in ch) if ch else 1
                onpath.discard(v)
        return count[u]

    inits = sorted(inits)
    total = sum(npaths(i) for i in inits)
    paths = []
    if total <= limit:
        def walk(u, acc):
            if not succ[u]:
                paths.append(list(acc))
                return
            for a, v in succ[u]:
                acc.append(a)
                walk(v, acc)
                acc.pop()
        sys.setrecursionlimit(10000)
        for i in inits:
            walk(i, [])
    else:
        seen = set()

        def sample():
            # uniform over maximal behaviours: choose successors proportionally to the number of completions
            r = rng.randrange(total)
            u = None
            for i in inits:
                if r < count[i]:
                    u = i
                    break
                r -= count[i]
            acc = []
            while succ[u]:
                r = rng.randrange(count[u])
                for k, (a, v) in enumerate(succ[u]):
                    if r < count[v]:
                        break
                    r -= count[v]
                acc.append(a)
                u = v
            return acc
        tries = 0
        while len(paths) < limit and tries < 20 * limit:
            tries += 1
            p = sample()
            key = "|".join(p)
            if key not in seen:
                seen.add(key)
                paths.append(p)
    return paths, total


def write_behaviours(paths, path, with_n):
    with open(path, "w") as f:
        for p in paths:
            first = json.loads(p[0]) if p else {}
            f.write(json.dumps({"n": "Reset", "N": first.get("N", 1)} if with_n else {"n": "Reset"}) + "\n")
            for a in p:
                f.write(a + "\n")


def tsan_env(c, tag):
    logp = os.path.join(c.wd, "tsan_%s" % tag)
    return logp, {"TSAN_OPTIONS": "halt_on_error=0:report_signal_unsafe=0:suppress_equal_stacks=0:"
                                  "suppress_equal_addresses=0:log_path=%s" % logp}


def race_reports(c, trace, logp, tag):
    """Race/Stuck events are rejected by TLC anyway; this attaches ThreadSanitizer's report text as replay file."""
    n = 0
    with open(trace, "r", errors="replace") as f:
        for ln in f:
            if ln.startswith('{"e":"Race"'):
                n += json.loads(ln).get("reports", 1)
    files = sorted(glob.glob(logp + ".*"))
    if n or files:
        rp = os.path.join(c.wd, "tsan_report_%s.txt" % tag)
        with open(rp, "w") as out:
            out.write("ThreadSanitizer reports during %s (%d counted by __tsan_on_report); first 400 lines:\n" % (tag, n))
            k = 0
            for fp in files:
                with open(fp, "r", errors="replace") as f:
                    for ln in f:
                        if k < 400:
                            out.write(ln)
                        k += 1
        c.violation("%s: ThreadSanitizer reported %d data race(s) in the code under test (event Race has no "
                    "specification action); report text in the replay file" % (tag, max(n, 1)), rp)
    return n


def negative(c, module, cfg, expect, what):
    """A negative instance: TLC must find the named invariant violated (else the model is too weak)."""
    r = run_tlc(SPEC, module, cfg, workers=min(NCPU, 4), timeout=600)
    if r.error:
        raise MachineryError("negative instance %s/%s: %s" % (module, cfg, r.error))
    ok = r.violation is not None and expect in r.violation
    c.models.append({"model": "%s/%s (negative instance)" % (module, cfg), "distinct_states": r.distinct,
                     "states_generated": r.generated, "expected_violation": expect, "found": r.violation,
                     "wall_s": round(r.wall, 1), "note": what})
    log("[M-] %s %s: expected violation of %s -> %s" % (module, cfg, expect, r.violation))
    if not ok:
        raise MachineryError("negative instance %s/%s: TLC did not find the expected violation of %s (found: %s); "
                             "the happens-before ghost is too weak" % (module, cfg, expect, r.violation))


def run(tier):
    c = Check("C20", tier)
    quick = tier == "quick"
    rng = random.Random(SEED)
    exe = build_driver("concurrency", os.path.join(ROOT, "harness", "concurrency_driver.cpp"), "tsan")

    # ---------------- M: negative instances first (the detector must be able to see D16-type defects)
    negative(c, "MCSingleton", "MCSingleton_asbuilt.cfg", "NoDataRace", "plain fast-path read + second unlocked read at Return")
    negative(c, "MCSingleton", "MCSingleton_relaxed.cfg", "NoDataRace", "atomic but relaxed: the object itself is not published")
    negative(c, "MCManagedThread", "MCManagedThread_asbuilt_race.cfg", "NoDataRace", "flag initialised after the thread was started")
    negative(c, "MCManagedThread", "MCManagedThread_asbuilt_observe.cfg", "ObserveOK", "isActive() FALSE while the function runs")

    # ---------------- Singleton
    r, edges = c.model(SPEC, "MCSingleton", "MCSingleton_%s.cfg" % tier, must_take=SGL_STEPS)
    for extra in (["MCSingleton_n4.cfg"] if quick else ["MCSingleton_n4.cfg", "MCSingleton_n5.cfg", "MCSingleton_n6.cfg"]):
        c.model(SPEC, "MCSingleton", extra, want_edges=False, must_take=SGL_STEPS)
    by_n = {}
    for e in edges:
        by_n.setdefault(json.loads(e[0])["n"], []).append(e)
    allp = []
    for k in sorted(by_n):
        limit = (1500 if k <= 2 else 500) if quick else (20000 if k <= 2 else 15000)
        paths, total = behaviours(by_n[k], limit, rng)
        c.notes.append("Singleton n=%d: %d maximal behaviours in the model, %d forced onto the code%s" % (
            k, total, len(paths), "" if len(paths) == total else " (seeded uniform sample)"))
        log("[R] Singleton n=%d: %d maximal behaviours, %d replayed" % (k, total, len(paths)))
        allp += paths
    script = os.path.join(c.wd, "script_sgl.ndjson")
    write_behaviours(allp, script, True)
    tr = os.path.join(c.wd, "forced_sgl.ndjson")
    logp, env = tsan_env(c, "R-sgl")
    c.drive(exe, ["--comp", "sgl", "--script", script], tr, "R-sgl", env=env, timeout=900)
    race_reports(c, tr, logp, "R-sgl")
    c.validate(SPEC, "TraceSingleton", "TraceSingleton.cfg", tr, "R-sgl")
    tr2 = os.path.join(c.wd, "free_sgl.ndjson")
    logp, env = tsan_env(c, "T-sgl")
    c.drive(exe, ["--comp", "sgl", "--random", "--seed", SEED, "--cases", 1000 if quick else 20000], tr2, "T-sgl", env=env, timeout=900)
    race_reports(c, tr2, logp, "T-sgl")
    c.validate(SPEC, "TraceSingleton", "TraceSingleton.cfg", tr2, "T-sgl")

    # ---------------- ManagedThread
    r, edges = c.model(SPEC, "MCManagedThread", "MCManagedThread_%s.cfg" % tier, must_take=MT_STEPS)
    paths, total = behaviours(edges, 1500 if quick else 30000, rng)
    c.notes.append("ManagedThread: %d maximal behaviours in the model, %d forced onto the code" % (total, len(paths)))
    log("[R] ManagedThread: %d maximal behaviours, %d replayed" % (total, len(paths)))
    script = os.path.join(c.wd, "script_mt.ndjson")
    write_behaviours(paths, script, False)
    tr = os.path.join(c.wd, "forced_mt.ndjson")
    logp, env = tsan_env(c, "R-mt")
    c.drive(exe, ["--comp", "mt", "--script", script], tr, "R-mt", env=env, timeout=900)
    race_reports(c, tr, logp, "R-mt")
    c.validate(SPEC, "TraceManagedThread", "TraceManagedThread.cfg", tr, "R-mt")
    tr2 = os.path.join(c.wd, "free_mt.ndjson")
    logp, env = tsan_env(c, "T-mt")
    c.drive(exe, ["--comp", "mt", "--random", "--seed", SEED, "--cases", 2000 if quick else 30000], tr2, "T-mt", env=env, timeout=900)
    race_reports(c, tr2, logp, "T-mt")
    c.validate(SPEC, "TraceManagedThread", "TraceManagedThread.cfg", tr2, "T-mt")

    c.exhaustive = True
    c.rule = ("one evaluation = one recorded implementation event (a forced step of one thread with from/to point, "
              "constructor count, returned object; an isActive() observation; a free-running round summary) checked by "
              "TLC against the specification")
    c.assumptions = [
        "steps finer than the verification points (inside std::mutex, inside std::thread) are atomic in the model",
        "the forcing scheduler relies on x86-TSO for its relaxed-atomic protocol; ThreadSanitizer is the sensor for "
        "unordered conflicting accesses (its happens-before model also covers orders the host never exhibits)",
        "reset() is only called while no thread is inside instance() or still uses the reference",
        "free-running rounds sample schedules; the forced behaviours are exhaustive for the modelled steps (n<=2 all, "
        "n=3 sampled in quick)"]
    return c.finish()


if __name__ == "__main__":
    tier = sys.argv[sys.argv.index("--tier") + 1] if "--tier" in sys.argv else os.environ.get("VERIF_TIER", "quick")
    main_wrapper(lambda: run(tier))
