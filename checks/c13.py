#!/usr/bin/env python3
"""C13: integer-to-string conversions are exact for every integer (int2string, grouped_int2string, GroupedInt)."""
import json, os, sys
sys.path.insert(0, os.path.join(os.path.dirname(os.path.abspath(__file__)), "..", "tools"))
from vlib import *

MAXDIG = {8: 3, 16: 5, 32: 10, 64: 20}


def classes(w):
    """Every (signed, negative, number of digits) class a w-bit type has."""
    res = set()
    for d in range(1, len(str(2 ** w - 1)) + 1):
        res.add((False, False, d))
    for d in range(1, len(str(2 ** (w - 1) - 1)) + 1):
        res.add((True, False, d))
    for d in range(1, len(str(2 ** (w - 1))) + 1):
        res.add((True, True, d))
    return res


def coverage_of(trace_path):
    """(width, signed, negative, digits) classes and group characters seen in a recorded trace (vacuity guard)."""
    seen, groups, fns = set(), set(), set()
    with open(trace_path, "r", errors="replace") as f:
        for ln in f:
            if '"fn":"str"' in ln:
                ev = json.loads(ln)
                neg = bool(ev["text"]) and ev["text"][0] == 45
                seen.add((ev["w"], ev["signed"], neg, len(ev["text"]) - (1 if neg else 0)))
            elif '"fn":"gbuf"' in ln:
                i = ln.find('"g":')
                groups.add(ln[i + 4:i + 7].strip(',"'))
            if len(fns) < 5:
                i = ln.find('"fn":"')
                if i >= 0:
                    fns.add(ln[i + 6:ln.find('"', i + 6)])
    return seen, groups, fns


def require_classes(seen, widths, what):
    missing = [(w,) + k for w in widths for k in sorted(classes(w)) if (w,) + k not in seen]
    if missing:
        raise MachineryError("vacuous %s: no value of class (width, signed, negative, digits) %s" % (what, missing[:8]))


def run(tier):
    c = Check("C13", tier)
    spec = os.path.join(ROOT, "specs", "int2str")
    exe = build_driver("int2str", os.path.join(ROOT, "harness", "int2str_driver.cpp"), "asan", lib_subdirs=("format/detail",))
    quick = tier == "quick"

    # ---- M: operational algorithm = declarative numeral on the bounded instance; every transition becomes an edge
    # (coverage statistics are switched off: TLC's cost model does not cope with the LAMBDA-based folds; the vacuity
    # guard is the edge count per width below)
    r, edges = c.model(spec, "MCInt2Str", "MCInt2Str_%s.cfg" % tier, coverage=False)
    if not r.violation:
        per = {}
        for e in edges:
            a = json.loads(e[1])
            per[(a["w"], a["sg"])] = per.get((a["w"], a["sg"]), set())
            per[(a["w"], a["sg"])].add(e[1])
        exh = (8,) if quick else (8, 16)
        fam = (16, 32, 64) if quick else (32, 64)
        for w in exh:
            for sg in (False, True):
                if len(per.get((w, sg), ())) != 2 ** w:
                    raise MachineryError("model does not enumerate all %d-bit values (signed=%s): %d" % (w, sg, len(per.get((w, sg), ()))))
        for w in fam:
            for sg in (False, True):
                if len(per.get((w, sg), ())) < 5 * (w + MAXDIG[w]) // 2:
                    raise MachineryError("boundary family of width %d too small: %d" % (w, len(per.get((w, sg), ()))))
        c.notes.append("M: " + ", ".join("%d-bit %s: %d values" % (w, "signed" if sg else "unsigned", len(v))
                                         for (w, sg), v in sorted(per.items())))

    if r.violation:
        return c.finish()

    # ---- R: every value of the bounded model through all function variants of the real code
    seqs, nedges, nstates, unreach = cover(edges)
    c.notes.append("R: %d distinct edges (values) over %d states, %d replay sequences; each value goes through "
                   "str, buf, gstr, gbuf, gstream with all seven group characters (+ default-argument forms)" % (nedges, nstates, len(seqs)))
    chunk = 16000                                    # values per driver run (keeps a trace file well below the output cap)
    for k in range(0, len(seqs), chunk):
        tag = "R%d" % (k // chunk)
        script = os.path.join(c.wd, "script_%s.ndjson" % tag)
        write_script(seqs[k:k + chunk], script)
        tr = os.path.join(c.wd, "replay_%s.ndjson" % tag)
        c.drive(exe, ["--script", script], tr, tag, timeout=600)
        c.validate(spec, "TraceInt2Str", "TraceInt2Str.cfg", tr, tag)
        if k == 0 and not c.violations:
            seen, groups, fns = coverage_of(tr)
            if fns != {"str", "buf", "gstr", "gbuf", "gstream"} or len(groups) != 7:
                raise MachineryError("replay trace lacks function variants / group characters: %s %s" % (sorted(fns), sorted(groups)))
        if not quick and k > 0:
            os.remove(tr)                            # thorough: 8 chunks of ~100 MB; the evidence keeps counts and samples
            os.remove(script)

    # ---- T: boundary families of all widths + seeded random values far outside the model's bounds
    cases = 20000 if quick else int(os.environ.get("C13_CASES", "500000"))
    allseen = set()
    k, ci = 0, 0
    while k < cases:
        # first run: families + random values through all group characters; later runs: one group character per value
        n = min(12000 if ci == 0 else 40000, cases - k)
        tag = "T%d" % ci
        tr2 = os.path.join(c.wd, "random_%s.ndjson" % tag)
        args = ["--random", "--seed", SEED + ci, "--cases", n, "--groups", "rotate" if ci else "all"]
        if ci:
            args.append("--no-families")
        c.drive(exe, args, tr2, tag, timeout=600)
        c.validate(spec, "TraceInt2Str", "TraceInt2Str.cfg", tr2, tag)
        if not c.violations:
            allseen |= coverage_of(tr2)[0]
        if ci > 0:
            os.remove(tr2)
        k += n
        ci += 1
    if not c.violations:
        require_classes(allseen, (8, 16, 32, 64), "random traces")
    c.notes.append("T: boundary families (10^k+-2, 2^k+-2, 0+-2 wrapping, hence all limits) of 8/16/32/64 bits, both signednesses, "
                   "+ %d seeded random values (weights 8:16:32:64 = 1:3:8:8; uniform bits, uniform bit length, uniform digit "
                   "count, near 10^k, near 2^k; signed ones negated half of the time)" % cases)
    c.notes.append("level_note: the exhaustive sweep over all 2^32 values of the 32-bit types that the property's quantifier names is "
                   "NOT performed: 4x10^9 values x >= 2 calls are out of reach of TLC trace validation (~6x10^3 events/s per process). "
                   "Covered instead: all 2^8 (quick) / all 2^8 and 2^16 (thorough) values exhaustively in M and R; for 32/64 bits every "
                   "decade boundary 10^k+-2, every 2^k+-2 and the type limits in M (operational = declarative) and R, plus seeded random "
                   "values in T; every (width, signedness, sign, digit count) class is required to occur (vacuity guard).")
    c.exhaustive = False
    c.assumptions = ["ASan/UBSan observe undefined behaviour and every access outside the exactly sized heap block "
                     "(8 guard bytes | text length + 1 bytes | 8 guard bytes) handed to the buffer variants",
                     "the buffer handed to a buffer variant has the length of the text the corresponding string variant "
                     "returned + 1 (a wrong string variant is rejected by TLC on its own event)",
                     "32-bit types are sampled (boundaries + random), not swept"]
    return c.finish()


if __name__ == "__main__":
    tier = sys.argv[sys.argv.index("--tier") + 1] if "--tier" in sys.argv else os.environ.get("VERIF_TIER", "quick")
    main_wrapper(lambda: run(tier))
