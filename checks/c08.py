#!/usr/bin/env python3
"""C08: evaluating through an argument group equals one handler owning all arguments."""
import os, sys, copy, itertools, random
sys.path.insert(0, os.path.dirname(os.path.abspath(__file__)))
from argcommon import *


def partitions(cfg, maxgroups=3):
    """all assignments of the arguments to member handlers 0..maxgroups-1 (canonical: first use of a group id in
    increasing order) that keep argument/handler constraints inside one member."""
    n = len(cfg["args"])
    res = []
    for assign in itertools.product(range(maxgroups), repeat=n):
        seen = []
        for g in assign:
            if g not in seen:
                seen.append(g)
        if seen != list(range(len(seen))):
            continue
        ok = True
        for i, a in enumerate(cfg["args"]):
            for j in a["req"] + a["exc"]:
                if assign[j - 1] != assign[i]:
                    ok = False
        for h in cfg["hcons"]:
            if len(set(assign[j - 1] for j in h["args"])) != 1:
                ok = False
        if ok:
            res.append(assign)
    return res


def with_groups(cfg, assign):
    c2 = copy.deepcopy(cfg)
    for i, a in enumerate(c2["args"]):
        a["grp"] = assign[i]
    for h in c2["hcons"]:
        h["grp"] = assign[h["args"][0] - 1]
    return c2


def run(tier):
    c = Check("C08", tier)
    exe = driver("asan")
    # 23: two sub-groups with the same keys inside and a positional argument; 24: command-mode argument (ends the evaluation)
    cfgs, beh = model_behaviours(c, tier, cfgsel=[1, 2, 3, 5, 7, 8, 23, 24] if tier == "quick" else [1, 2, 3, 4, 5, 6, 7, 8, 23, 24], maxuses=2)
    # R: every model behaviour through Groups, for every partition of the arguments over 1..3 member handlers
    by = collections.defaultdict(list)
    for b in beh:
        by[b["ci"]].append(b)
    blocks = []
    rnd = random.Random(SEED)
    for ci in sorted(by):
        parts = partitions(cfgs[ci - 1])
        seen, acts = set(), []
        for b in by[ci]:
            k = json.dumps(b["words"])
            if k not in seen:
                seen.add(k)
                acts.append({"n": "Eval", "mode": "groups", "presrc": "none", "filetext": [], "envstr": [], "argv": b["words"], "cmd": [], "tag": {"k": "model", "valid": b["valid"]}})
        for assign in parts:
            sel = acts if tier == "thorough" or len(acts) <= 1500 else rnd.sample(acts, 1500)
            blocks.append((with_groups(cfgs[ci - 1], assign), sel))
    script = os.path.join(c.wd, "replay.ndjson")
    n = write_cases(script, blocks)
    c.notes.append("R: %d evaluations through Groups (model behaviours x partitions over 1..3 member handlers)" % n)
    run_script(c, exe, script, "R")
    # T: random configurations distributed over 2..3 members; valid lines, mutations; duplicate keys across members
    g = Gen(SEED * 7 + 8)
    ncfg, nlines = (100, 4) if tier == "quick" else (2500, 8)
    blocks = []
    for _ in range(ncfg):
        cfg = g.cfg(constraints=True, groups=g.r.randint(2, 3))
        while arggen.growbits_cross_prefix(cfg):
            cfg = g.cfg(constraints=True, groups=g.r.randint(2, 3))
        acts = []
        for _ in range(nlines):
            line = gen_valid(g, cfg)
            if line is None:
                continue
            acts.append(eval_action(g.spell_line(cfg, line), mode="groups", tag={"k": "line", "line": line_json(line)}))
            for kind, words in arggen.mutations(g, cfg, line):
                acts.append(eval_action(words, mode="groups", tag={"k": "mut", "m": kind}))
        blocks.append((cfg, acts))
    # which member gets a free value: multi-value arguments, flags, valued arguments and a positional spread over the members
    for _ in range(80 if tier == "quick" else 2500):
        ngrp = g.r.randint(2, 3)
        cfg = g.cfg(nargs=g.r.randint(3, 6), kinds=["flag", "int", "vecint", "vecstr", "listint"], constraints=False, allow_pos=False, groups=ngrp)
        for a in cfg["args"]:
            if arggen.is_cont(a["kind"]):
                a["multi"] = True
            a["mand"] = False
        if g.r.random() < 0.6:
            p = arggen.new_arg(g.r.choice(["str", "vecstr"])); p["pos"] = True; p["card"] = {"t": "none", "a": 0, "b": 0}; p["grp"] = g.r.randrange(ngrp)
            cfg["args"].append(p)
        acts = []
        for _ in range(nlines + 2):
            line = gen_valid(g, cfg)
            if line is None:
                continue
            words = g.spell_line(cfg, line)
            acts.append(eval_action(words, mode="groups", tag={"k": "line", "line": line_json(line)}))
            acts.append(eval_action(words + ["stray9"], mode="groups", tag={"k": "mut", "m": "stray_value"}))
        blocks.append((cfg, acts))
    # sub-groups inside member handlers, command-mode arguments: valid lines and rules broken inside a sub-group
    for k in range(60 if tier == "quick" else 1500):
        ngrp = g.r.randint(2, 3)
        if k % 2:
            cfg = g.cfg(nargs=g.r.randint(2, 6), constraints=True, groups=ngrp, subgroups=g.r.choice([1, 1, 2]), cmd=g.r.choice([None, None, "key", "pos"]),
                        exclude=arggen.GROWBITS)
            lines = [gen_valid(g, cfg) for _ in range(nlines + 2)]
        else:
            cfg, lines = arggen.subgroup_scenario(g, ngrp)
        acts = []
        for line in lines:
            words = g.spell_line(cfg, line) if line is not None else None
            if words is None:
                continue
            acts.append(eval_action(words, mode="groups", tag={"k": "line", "line": line_json(line)}))
            for kind, w in arggen.sub_mutations(g, cfg, line):
                acts.append(eval_action(w, mode="groups", tag={"k": "mut", "m": kind}))
        blocks.append((cfg, acts))
    # a command-mode argument ends the evaluation of the words, not the checks: the rules of every member that are judged at the
    # end of the command line (mandatory, lower cardinality bounds, requirements, handler constraints) hold as in a single handler.
    # Lines: a valid line with the command use, and the same line with one of the other uses left out (TLC says what must happen)
    ndrop = 0
    for k in range(40 if tier == "quick" else 1000):
        ngrp = g.r.randint(2, 3)
        cfg = None
        for _ in range(30):
            cfg = g.cfg(nargs=g.r.randint(2, 5), constraints=True, groups=ngrp, cmd=g.r.choice(["key", "pos"]), exclude=arggen.GROWBITS)
            if any(a["mand"] or a["req"] or a["card"]["t"] in ("exact", "range") for a in cfg["args"] if a.get("vm") != "cmd") or cfg["hcons"]:
                break
        acts = []
        for _ in range(nlines):
            line = gen_valid(g, cfg)
            if line is None:
                continue
            words = g.spell_line(cfg, line)
            if words is None:
                continue
            acts.append(eval_action(words, mode="groups", tag={"k": "line", "line": line_json(line)}))
            for d in range(len(line)):
                if cfg["args"][line[d][0] - 1].get("vm") == "cmd":
                    continue
                w = g.spell_line(cfg, line[:d] + line[d + 1:])
                if w is not None:
                    acts.append(eval_action(w, mode="groups", tag={"k": "mut", "m": "use_left_out"})); ndrop += 1
        blocks.append((cfg, acts))
    c.notes.append("T (command mode and end-of-line rules): %d lines with one use left out" % ndrop)
    # key tables with collisions spread over the members
    stems = ["in", "input", "out", "output", "v", "verbose", "num"]
    for _ in range(150 if tier == "quick" else 3000):
        keys = []
        for _ in range(g.r.randint(2, 6)):
            l = g.r.choice(stems) if g.r.random() < 0.8 else ""
            s = ord(g.r.choice("abv")) if g.r.random() < 0.6 or len(l) < 2 else 0
            if len(l) == 1:
                l = ""
            keys.append((s, T(l)))
        # clashes of every form between two members: same long with different shorts, same short with different longs,
        # both-key against long-only / short-only
        if g.r.random() < 0.7:
            l = g.r.choice([x for x in stems if len(x) > 1]); s1, s2 = g.r.sample("cdefg", 2)
            form = g.r.randrange(4)
            pair = [(ord(s1), T(l)), (ord(s2), T(l))] if form == 0 else [(ord(s1), T(l)), (ord(s1), T(l + "x"))] if form == 1 else \
                   [(ord(s1), T(l)), (0, T(l))] if form == 2 else [(ord(s1), T(l)), (ord(s1), [])]
            pos = g.r.randint(0, len(keys))
            keys[pos:pos] = pair if g.r.random() < 0.5 else pair[::-1]
        cfg = {"abbr": True, "endvalues": False, "hcons": [], "args": [], "lenient": True}
        # flags of the group object itself (passed on to every member): none in half of the tables
        cfg["grpflags"] = [] if g.r.random() < 0.5 else g.r.sample(["listgroups", "listgroups", "verbose", "usagehidden"], g.r.randint(1, 3))
        for n_, (s, l) in enumerate(keys):
            a = arggen.new_arg("int"); a["s"], a["l"], a["init"], a["grp"] = s, l, -(n_ + 1), g.r.randrange(3)
            a["card"] = {"t": "none", "a": 0, "b": 0}
            cfg["args"].append(a)
        blocks.append((cfg, [{"n": "Define", "mode": "groups"}]))
    # the same with sub-group arguments (Handler::addArgument( key, subHandler, desc)): the key of a sub-group argument of one
    # member against an ordinary or a sub-group key of ANOTHER member, in both definition orders, further definitions in both
    # members behind the clash (all other keys are unrelated to each other, every member's own keys are distinct)
    nsubclash = 0
    for _ in range(60 if tier == "quick" else 1500):
        r_ = g.r
        l = r_.choice(["in", "input", "out", "output", "verbose", "num"]); sc = r_.choice("cdefg")
        form = r_.randrange(5)
        # (first key, second key): same long / same short / both-key against long-only / both-key against short-only / no clash
        k1, k2 = [((ord(sc), T(l)), (ord(r_.choice("hij")), T(l))), ((ord(sc), T(l)), (ord(sc), T(l + "x"))), ((ord(sc), T(l)), (0, T(l))),
                  ((ord(sc), T(l)), (ord(sc), [])), ((ord(sc), T(l)), (ord(r_.choice("hij")), T(l + "x")))][form]
        if r_.random() < 0.5:
            k1, k2 = k2, k1
        kinds = r_.choice([("int", "sub"), ("sub", "int"), ("sub", "sub")])
        fill = [(ord(ch), T(w)) for ch, w in zip("pqrstu", ["alpha", "beta", "gamma", "delta", "eps", "zeta"])]
        r_.shuffle(fill)
        seq = [(fill.pop(), "int", r_.randrange(2)) for _ in range(r_.randint(0, 2))]
        seq.append((k1, kinds[0], 0))
        seq += [(fill.pop(), "int", r_.randrange(2)) for _ in range(r_.randint(0, 1))]
        seq.append((k2, kinds[1], 1))
        seq += [(fill.pop(), "int", r_.choice([0, 1, 1])) for _ in range(r_.randint(0, 2))]
        swap = r_.random() < 0.5                        # which member is created first
        cfg = {"abbr": True, "endvalues": False, "hcons": [], "args": [], "lenient": True}
        cfg["grpflags"] = [] if r_.random() < 0.5 else r_.sample(["listgroups", "listgroups", "verbose", "usagehidden"], r_.randint(1, 3))
        for n_, ((s_, l_), kind, grp) in enumerate(seq):
            a = arggen.new_arg("int"); a["s"], a["l"], a["init"], a["grp"] = s_, l_, -(n_ + 1), (1 - grp) if swap else grp
            a["card"] = {"t": "none", "a": 0, "b": 0}
            if kind == "sub":
                inner = arggen.new_arg("flag"); inner["s"] = ord("Z"); inner["card"] = {"t": "none", "a": 0, "b": 0}
                a["kind"] = "sub"; a["init"] = False; a["subctor"] = 0
                a["sub"] = {"abbr": True, "endvalues": False, "hcons": [], "args": [inner]}
            cfg["args"].append(a)
        blocks.append((cfg, [{"n": "Define", "mode": "groups"}]))
        nsubclash += 1
    c.notes.append("T (keys of sub-group arguments across members): %d key tables" % nsubclash)
    script2 = os.path.join(c.wd, "random.ndjson")
    write_cases(script2, blocks)
    run_script(c, exe, script2, "T")
    return finish_args(c, ["argument and handler constraints are defined inside one member handler (they cannot span members)"])


if __name__ == "__main__":
    tier = sys.argv[sys.argv.index("--tier") + 1] if "--tier" in sys.argv else os.environ.get("VERIF_TIER", "quick")
    main_wrapper(lambda: run(tier))
