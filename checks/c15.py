#!/usr/bin/env python3
"""C15: rolling log files keep the most recent messages, complete and in order; no generation exceeds its
limit; a new generation is started only when the next message would exceed it (incl. restarts and crashes
inside a roll-over)."""
import json, os, shutil, sys
sys.path.insert(0, os.path.join(os.path.dirname(os.path.abspath(__file__)), "..", "tools"))
from vlib import *


def scratch(tag):
    d = os.path.join(OUT, "tmp", "c15-%s-%d" % (tag, os.getpid()))
    shutil.rmtree(d, ignore_errors=True)
    mkdir(os.path.dirname(d))
    return d


def require_edges(edges, module):
    """Vacuity guard on the generated transitions: every kind of step must occur."""
    seen = set()
    for pre, a, post, init in edges:
        d = json.loads(a)
        seen.add((d["n"], d["kind"], bool(d["roll"])))
    need = [("RollStep", "counted", True), ("RollStep", "maxsize", True), ("OpenEnd", "counted", False),
            ("OpenEnd", "maxsize", True), ("WriteEnd", "counted", True), ("WriteEnd", "maxsize", True),
            ("WriteEnd", "simple", False), ("Close", "simple", False)]
    missing = [n for n in need if n not in seen]
    if missing:
        raise MachineryError("vacuous model %s: transitions never generated: %s" % (module, missing))


def run(tier):
    c = Check("C15", tier)
    spec = os.path.join(ROOT, "specs", "logrolling")
    exe = build_driver("logrolling", os.path.join(ROOT, "harness", "logrolling_driver.cpp"), "asan",
                       lib_subdirs=("log/files", "log/filename", "common"))
    # M: the as-built choices (edges are replayed) ...
    must = ["MCOpenBegin", "MCRollStep", "MCWriteBegin", "MCClose"] + (["MCCrash"] if tier == "thorough" else [])
    r, edges = c.model(spec, "MCLogRolling", "MCLogRolling_%s.cfg" % tier, must_take=must)
    if not r.violation:
        require_edges(edges, "MCLogRolling")
    # ... and every outcome the specification allows (properties only)
    c.model(spec, "MCLogRolling", "MCLogRolling_%s_any.cfg" % tier, want_edges=False, must_take=must)
    # R: every generated transition on the real policies and real files
    seqs, nedges, nstates, unreach = cover(edges)
    script = os.path.join(c.wd, "script.ndjson")
    write_script(seqs, script)
    c.notes.append("LogRolling: %d distinct edges over %d states (up to message ids) covered by %d replay sequences"
                   % (nedges, nstates, len(seqs)))
    tr = os.path.join(c.wd, "replay.ndjson")
    d1 = scratch("R")
    c.drive(exe, ["--dir", d1, "--script", script], tr, "R", timeout=900)
    shutil.rmtree(d1, ignore_errors=True)
    c.validate(spec, "TraceLogRolling", "TraceLogRolling.cfg", tr, "R")
    # T: long random histories, larger limits, restarts and rename-level crashes
    cases = 40 if tier == "quick" else 600
    tr2 = os.path.join(c.wd, "random.ndjson")
    d2 = scratch("T")
    c.drive(exe, ["--dir", d2, "--random", "--seed", SEED, "--cases", cases, "--ops", 200], tr2, "T", timeout=900)
    shutil.rmtree(d2, ignore_errors=True)
    c.validate(spec, "TraceLogRolling", "TraceLogRolling.cfg", tr2, "T")
    c.exhaustive = True
    c.assumptions = ["a process death is modelled at the points where the log file is closed (between the renames of a "
                     "roll-over) and at idle (every message is flushed by std::endl); a death inside a single write(2) is not modelled",
                     "rename() is atomic and replaces an existing destination (POSIX)",
                     "messages are single lines; the Timestamped policy (wall-clock dependent) is not covered"]
    return c.finish()


if __name__ == "__main__":
    tier = sys.argv[sys.argv.index("--tier") + 1] if "--tier" in sys.argv else os.environ.get("VERIF_TIER", "quick")
    main_wrapper(lambda: run(tier))
