#!/usr/bin/env python3
"""C15: rolling log files keep the most recent messages, complete and in order; no generation exceeds its
limit; a new generation is started only when the next message would exceed it (incl. restarts and crashes
inside a roll-over)."""
import concurrent.futures, json, os, shutil, sys
sys.path.insert(0, os.path.join(os.path.dirname(os.path.abspath(__file__)), "..", "tools"))
from vlib import *


def scratch(tag):
    d = os.path.join(OUT, "tmp", "c15-%s-%d" % (tag, os.getpid()))
    shutil.rmtree(d, ignore_errors=True)
    mkdir(os.path.dirname(d))
    return d


def require_edges(edges, module):
    """Vacuity guard on the generated transitions: every kind of step must occur."""
    seen = set()
    for pre, a, post, init in edges:
        d = json.loads(a)
        seen.add((d["n"], d["kind"], bool(d["roll"])))
    need = [("RollStep", "counted", True), ("RollStep", "maxsize", True), ("OpenEnd", "counted", False),
            ("OpenEnd", "maxsize", True), ("WriteEnd", "counted", True), ("WriteEnd", "maxsize", True),
            ("WriteEnd", "simple", False), ("Close", "simple", False)]
    missing = [n for n in need if n not in seen]
    if missing:
        raise MachineryError("vacuous model %s: transitions never generated: %s" % (module, missing))


def count_via(path):
    """Executions per path (Reset events carry via = policy | handler)."""
    n = {"policy": 0, "handler": 0}
    with open(path, "rb") as f:
        for ln in f:
            if ln.startswith(b'{"e":"Reset"'):
                n["handler" if b'"via":"handler"' in ln else "policy"] += 1
    return n


def run(tier):
    c = Check("C15", tier)
    spec = os.path.join(ROOT, "specs", "logrolling")
    exe = build_driver("logrolling", os.path.join(ROOT, "harness", "logrolling_driver.cpp"), "asan",
                       lib_subdirs=("log", "common", "format", "prog_args", "appl"),
                       libs=("-lboost_system", "-lboost_filesystem"))
    # M: the as-built choices (edges are replayed) ...
    must = ["MCOpenBegin", "MCRollStep", "MCWriteBegin", "MCClose"] + (["MCCrash"] if tier == "thorough" else [])
    r, edges = c.model(spec, "MCLogRolling", "MCLogRolling_%s.cfg" % tier, must_take=must)
    if not r.violation:
        require_edges(edges, "MCLogRolling")
    # ... and every outcome the specification allows (properties only)
    c.model(spec, "MCLogRolling", "MCLogRolling_%s_any.cfg" % tier, want_edges=False, must_take=must)
    # R: every generated transition on the real policies and real files; the replay sequences are split over
    # several driver processes (own scratch directory each), every part is validated on its own
    seqs, nedges, nstates, unreach = cover(edges)
    c.notes.append("LogRolling: %d distinct edges over %d states (up to message ids) covered by %d replay sequences"
                   % (nedges, nstates, len(seqs)))
    # quick: the sequences alternate between the policy called directly and the path Logging::log -> Log ->
    # files::Handler<Policy> -> policy (which half depends on the seed); thorough: every sequence through the
    # Handler path and additionally every 4th sequence on the policy directly
    phase = SEED & 1
    if tier == "quick":
        passes = [(seqs, "alt")]
    else:
        passes = [(seqs, "handler"), (seqs[phase::4], "policy")]
    parts = []
    for pseqs, via in passes:
        nparts = max(1, min(NCPU, len(pseqs) // 2000 + 1))
        total = sum(len(q) + 1 for q in pseqs)
        chunk, acc = [[] for _ in range(nparts)], 0
        for q in pseqs:
            chunk[min(nparts - 1, acc * nparts // max(total, 1))].append(q)
            acc += len(q) + 1
        parts += [(q, via) for q in chunk if q]

    def replay(i):
        script = os.path.join(c.wd, "script_%d.ndjson" % i)
        write_script(parts[i][0], script)
        tr = os.path.join(c.wd, "replay_%d.ndjson" % i)
        d = scratch("R%d" % i)
        c.drive(exe, ["--dir", d, "--via", parts[i][1], "--phase", phase, "--script", script], tr, "R", timeout=1200)
        shutil.rmtree(d, ignore_errors=True)
        os.remove(script)
        return tr
    with concurrent.futures.ThreadPoolExecutor(NCPU) as ex:
        traces = list(ex.map(replay, range(len(parts))))
    # validate in groups of at most ~1.2 million events (one TLC process per shard inside validate)
    groups, cur, cur_n = [], [], 0
    for tr in traces:
        with open(tr, "rb") as f:
            n = sum(1 for _ in f)
        if cur and cur_n + n > 1200000:
            groups.append(cur)
            cur, cur_n = [], 0
        cur.append(tr)
        cur_n += n
    if cur:
        groups.append(cur)
    via = {"policy": 0, "handler": 0}
    for gi, grp in enumerate(groups):
        allp = os.path.join(c.wd, "replay_all_%d.ndjson" % gi)
        with open(allp, "wb") as fo:
            for tr in grp:
                with open(tr, "rb") as f:
                    shutil.copyfileobj(f, fo)
                os.remove(tr)
        nv = count_via(allp)
        via["policy"] += nv["policy"]
        via["handler"] += nv["handler"]
        c.validate(spec, "TraceLogRolling", "TraceLogRolling.cfg", allp, "R")
        if tier == "thorough" and not c.violations:
            os.remove(allp)          # hundreds of MB; kept only when something was rejected
    # T: long random histories, larger limits, restarts and rename-level crashes; half of them via the Handler path
    cases = 40 if tier == "quick" else 600
    tr2 = os.path.join(c.wd, "random.ndjson")
    d2 = scratch("T")
    c.drive(exe, ["--dir", d2, "--via", "alt", "--phase", phase, "--random", "--seed", SEED, "--cases", cases, "--ops", 200], tr2, "T", timeout=900)
    shutil.rmtree(d2, ignore_errors=True)
    viaT = count_via(tr2)
    c.notes.append("executions via policy / via Logging->Log->Handler: R %d / %d, T %d / %d"
                   % (via["policy"], via["handler"], viaT["policy"], viaT["handler"]))
    if not c.violations and min(via["policy"], via["handler"], viaT["policy"], viaT["handler"]) == 0:
        raise MachineryError("vacuous replay: no execution through the %s path" % ("Handler" if via["handler"] * viaT["handler"] == 0 else "policy"))
    c.validate(spec, "TraceLogRolling", "TraceLogRolling.cfg", tr2, "T")
    c.exhaustive = True
    c.assumptions = ["a process death is modelled at the points where the log file is closed (between the renames of a "
                     "roll-over) and at idle (every message is flushed by std::endl); a death inside a single write(2) is not modelled",
                     "rename() is atomic and replaces an existing destination (POSIX)",
                     "messages are single lines; the Timestamped policy (wall-clock dependent) is not covered"]
    return c.finish()


if __name__ == "__main__":
    tier = sys.argv[sys.argv.index("--tier") + 1] if "--tier" in sys.argv else os.environ.get("VERIF_TIER", "quick")
    main_wrapper(lambda: run(tier))
