#!/usr/bin/env python3
"""X02 (extension): log messages created through the log macros and streams carry what was put into them - level, class,
error number, the text pieces in order, the attributes object, the source location and the function name that
extractFuncname() documents; the printf-like message, the call-point macros and the level / class text conversions."""
import os, sys, json
sys.path.insert(0, os.path.join(os.path.dirname(os.path.abspath(__file__)), "..", "tools"))
from vlib import *

MUST_LOG = ["Create", "StreamOp", "Destroy", "MacroLog", "PrintfLog", "Pass", "Conv", "GetLog"]
MUST_FN = ["Choose"]


def vacuity_guard(edges, names, module):
    seen = set(json.loads(e[1])["n"] for e in edges)
    missing = [n for n in names if n not in seen]
    if missing:
        raise MachineryError("vacuous model %s: actions never taken: %s" % (module, missing))


def run(tier):
    c = Check("X02", tier)
    spec = os.path.join(ROOT, "specs", "logmacros")
    exe = build_driver("logmacros", os.path.join(ROOT, "harness", "logmacros_driver.cpp"), "asan",
                       lib_subdirs=("log", "common", "format", "prog_args", "appl"),
                       libs=("-lboost_system", "-lboost_filesystem"))
    # M + R: the function name on the bounded grammar of prototypes; the stream log / macros state machine
    for tag, mod, must, acts in (("funcname", "MCFuncName", MUST_FN, ["Funcname"]),
                                 ("logmacros", "MCLogMacros", MUST_LOG[:3], ["Create", "Op", "Destroy", "Macro", "Printf", "Pass", "Conv", "GetLog"])):
        r, edges = c.model(spec, mod, "%s_%s.cfg" % (mod, tier), must_take=must)
        if r.violation:
            continue
        vacuity_guard(edges, acts, mod)
        seqs, nedges, nstates, _ = cover(edges, maxlen=40)
        script = os.path.join(c.wd, "script_%s.ndjson" % tag)
        nlines = write_script(seqs, script)
        c.notes.append("%s: %d distinct edges over %d graph states replayed by %d sequences / %d script lines"
                       % (mod, nedges, nstates, len(seqs), nlines))
        tr = os.path.join(c.wd, "replay_%s.ndjson" % tag)
        c.drive(exe, ["--script", script], tr, "R-" + tag, timeout=900)
        c.validate(spec, "TraceLogMacros", "TraceLogMacros.cfg", tr, "R-" + tag, timeout=1500)
    # T: real __PRETTY_FUNCTION__ strings of differently shaped functions (every one, independent events)
    tr = os.path.join(c.wd, "real.ndjson")
    c.drive(exe, ["--random", "--only", "real"], tr, "T-real")
    c.validate(spec, "TraceLogMacros", "TraceLogMacros.cfg", tr, "T-real", stateless=True)
    # T: random histories, generated prototypes, call-point macro executions
    cases, ops = (200, 30) if tier == "quick" else (4000, 40)
    tr = os.path.join(c.wd, "random.ndjson")
    c.drive(exe, ["--random", "--seed", SEED, "--cases", cases, "--ops", ops], tr, "T", timeout=900)
    c.validate(spec, "TraceLogMacros", "TraceLogMacros.cfg", tr, "T", timeout=1500)
    c.exhaustive = True
    c.rule = ("one evaluation = one recorded implementation event checked by TLC: a stream-log operation, the destruction of a stream "
              "log with every delivery the recording destinations saw, one macro statement, one printf-like message, one pass of a "
              "call point, one conversion, one extractFuncname() call")
    c.assumptions = ["prototypes are written in the spelling of the compiler that builds the driver (clang 14)",
                     "the unnamed namespace appears only as the outermost qualifier of a generated prototype",
                     "an exception is streamed into a message that has no text yet (appended or assigned: documentation unclear)",
                     "the routing of a message (id mask / name, maximum-level filter of a log) is the one property C14 checks in full",
                     "time stamps are compared with the wall clock of the run at one-second granularity (t0 <= ts <= t1)"]
    return c.finish()


if __name__ == "__main__":
    tier = sys.argv[sys.argv.index("--tier") + 1] if "--tier" in sys.argv else os.environ.get("VERIF_TIER", "quick")
    main_wrapper(lambda: run(tier))
