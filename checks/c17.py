#!/usr/bin/env python3
"""C17: text-block formatting preserves the words and respects indentation and width."""
import json, os, sys
sys.path.insert(0, os.path.join(os.path.dirname(os.path.abspath(__file__)), "..", "tools"))
sys.path.insert(0, os.path.dirname(os.path.abspath(__file__)))
from vlib import *

ACTIONS = ["BeginLine", "ForcedBreak", "Wrap", "FirstWord", "NextWord"]


def run(tier):
    c = Check("C17", tier)
    spec = os.path.join(ROOT, "specs", "textblock")
    exe = build_driver("textblock", os.path.join(ROOT, "harness", "textblock_driver.cpp"), "asan",
                       lib_subdirs=("format", "common"))
    models = ["MCTextBlock_quick.cfg"] if tier == "quick" else ["MCTextBlock_thorough.cfg", "MCTextBlock_thorough_deep.cfg"]
    for mi, cfg in enumerate(models):
        # M: the operational machine satisfies the declarative predicates on every bounded text
        r, edges = c.model(spec, "MCTextBlock", cfg, must_take=["Do" + a for a in ACTIONS])
        if not r.violation:
            taken = set(json.loads(e[1])["n"] for e in edges)
            missing = [a for a in ACTIONS if a not in taken]
            if missing:
                raise MachineryError("vacuous model MCTextBlock/%s: actions never taken: %s" % (cfg, missing))
        # R: every model behaviour (= every bounded text and every prefix of it) through the real class
        seqs, nedges, nstates, unreach = cover(edges)
        del edges
        c.notes.append("%s: %d distinct edges over %d states covered by %d replay sequences; one Format event per "
                       "distinct (configuration, text) pair" % (cfg, nedges, nstates, len(seqs)))
        # the replay is cut into parts so that no recorded trace comes near the 400 MB output cap
        parts, acc = [[]], 0
        for sq in seqs:
            if acc + len(sq) + 1 > 700000 and parts[-1]:
                parts.append([])
                acc = 0
            parts[-1].append(sq)
            acc += len(sq) + 1
        del seqs
        for pi, part in enumerate(parts):
            tag = "R%d.%d" % (mi, pi)
            script = os.path.join(c.wd, "script_%d_%d.ndjson" % (mi, pi))
            write_script(part, script)
            tr = os.path.join(c.wd, "replay_%d_%d.ndjson" % (mi, pi))
            c.drive(exe, ["--script", script], tr, tag, timeout=900)
            c.validate(spec, "TraceTextBlock", "TraceTextBlock.cfg", tr, tag, timeout=1500)
            if tier != "quick" and not c.violations:      # keep the disk footprint of the thorough tier small
                os.remove(tr)
                for fn in os.listdir(c.wd):
                    if fn.startswith(tag + "_shard"):
                        os.remove(os.path.join(c.wd, fn))
    # T: random texts far outside the model bounds
    cases, texts = (500, 4) if tier == "quick" else (6000, 5)
    tr2 = os.path.join(c.wd, "random.ndjson")
    c.drive(exe, ["--random", "--seed", SEED, "--cases", cases, "--texts", texts], tr2, "T", timeout=900)
    c.validate(spec, "TraceTextBlock", "TraceTextBlock.cfg", tr2, "T", timeout=1500)
    # U: the usage of the argument handler is written through TextBlock behind the key column (src/library/prog_args/detail/
    #    argument_desc.cpp): random argument sets with keys around the same-line threshold, hidden and deprecated arguments, line
    #    lengths 60..239, printed once or twice with the display settings changed in between (--print-hidden, --print-deprecated,
    #    --help-short / --help-long); every line of the last printout obeys the line length unless it holds a single word
    import argcommon as ac
    exe2 = ac.driver("asan")
    g = ac.Gen(SEED * 7 + 17)
    r_ = g.r
    blocks = []
    for _ in range(60 if tier == "quick" else 1500):
        cfg = ac.usage_decorate(g.cfg(nargs=r_.randint(1, 12), constraints=True, allow_pos=False), r_)
        cfg.update({"usagehidden": False, "usagedepr": False, "usageshort": r_.random() < 0.5, "usagelong": r_.random() < 0.5, "help": True,
                    "arghidden": True, "argdepr": True})
        acts = []
        # (the help argument can be used once per handler: the first printout goes through the stream operator)
        variants = [("none", []), ("none", ["-h"]), ("stream", ["--print-hidden", "-h"]), ("stream", ["--print-deprecated", "--help"]),
                    ("stream", ["--print-hidden", "--print-deprecated", "-h"]), ("none", ["--print-hidden", "--help"]), ("stream", [])]
        if cfg["usageshort"]:
            variants.append(("stream", ["--help-short", "-h"]))
        if cfg["usagelong"]:
            variants += [("stream", ["--help-long", "--help"]), ("stream", ["--print-hidden", "--help-long", "-h"])]
        for width in r_.sample([0, 0, 60, 61, 72, 100, 150, 239], 3):
            for first, words in r_.sample(variants, min(4, len(variants))):
                acts.append({"n": "UsageLayout", "width": width, "first": first, "argv": [ac.T(w) for w in words]})
        blocks.append((cfg, acts))
    script3 = os.path.join(c.wd, "usage_layout.ndjson")
    nu = ac.write_cases(script3, blocks)
    c.notes.append("U: %d usage printouts of %d handlers checked for the line length" % (nu, len(blocks)))
    ac.run_script(c, exe2, script3, "U")
    c.exhaustive = True
    c.assumptions = ["words are maximal runs of characters other than blank and newline (tabs and other white space are "
                     "ordinary word characters and are not generated)",
                     "indent + 1 <= width (a line that holds only the indentation of a list continuation fits)",
                     "a word counts as sitting on a list continuation line (two extra blanks) only behind a word with a "
                     "leading dash that opened an output line of the same input line (line start or after the nn token)"]
    return c.finish()


if __name__ == "__main__":
    tier = sys.argv[sys.argv.index("--tier") + 1] if "--tier" in sys.argv else os.environ.get("VERIF_TIER", "quick")
    main_wrapper(lambda: run(tier))
