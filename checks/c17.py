#!/usr/bin/env python3
"""C17: text-block formatting preserves the words and respects indentation and width."""
import json, os, sys
sys.path.insert(0, os.path.join(os.path.dirname(os.path.abspath(__file__)), "..", "tools"))
from vlib import *

ACTIONS = ["BeginLine", "ForcedBreak", "Wrap", "FirstWord", "NextWord"]


def run(tier):
    c = Check("C17", tier)
    spec = os.path.join(ROOT, "specs", "textblock")
    exe = build_driver("textblock", os.path.join(ROOT, "harness", "textblock_driver.cpp"), "asan",
                       lib_subdirs=("format", "common"))
    models = ["MCTextBlock_quick.cfg"] if tier == "quick" else ["MCTextBlock_thorough.cfg", "MCTextBlock_thorough_deep.cfg"]
    for mi, cfg in enumerate(models):
        # M: the operational machine satisfies the declarative predicates on every bounded text
        r, edges = c.model(spec, "MCTextBlock", cfg, must_take=["Do" + a for a in ACTIONS])
        if not r.violation:
            taken = set(json.loads(e[1])["n"] for e in edges)
            missing = [a for a in ACTIONS if a not in taken]
            if missing:
                raise MachineryError("vacuous model MCTextBlock/%s: actions never taken: %s" % (cfg, missing))
        # R: every model behaviour (= every bounded text and every prefix of it) through the real class
        seqs, nedges, nstates, unreach = cover(edges)
        del edges
        c.notes.append("%s: %d distinct edges over %d states covered by %d replay sequences; one Format event per "
                       "distinct (configuration, text) pair" % (cfg, nedges, nstates, len(seqs)))
        # the replay is cut into parts so that no recorded trace comes near the 400 MB output cap
        parts, acc = [[]], 0
        for sq in seqs:
            if acc + len(sq) + 1 > 700000 and parts[-1]:
                parts.append([])
                acc = 0
            parts[-1].append(sq)
            acc += len(sq) + 1
        del seqs
        for pi, part in enumerate(parts):
            tag = "R%d.%d" % (mi, pi)
            script = os.path.join(c.wd, "script_%d_%d.ndjson" % (mi, pi))
            write_script(part, script)
            tr = os.path.join(c.wd, "replay_%d_%d.ndjson" % (mi, pi))
            c.drive(exe, ["--script", script], tr, tag, timeout=900)
            c.validate(spec, "TraceTextBlock", "TraceTextBlock.cfg", tr, tag, timeout=1500)
            if tier != "quick" and not c.violations:      # keep the disk footprint of the thorough tier small
                os.remove(tr)
                for fn in os.listdir(c.wd):
                    if fn.startswith(tag + "_shard"):
                        os.remove(os.path.join(c.wd, fn))
    # T: random texts far outside the model bounds
    cases, texts = (500, 4) if tier == "quick" else (6000, 5)
    tr2 = os.path.join(c.wd, "random.ndjson")
    c.drive(exe, ["--random", "--seed", SEED, "--cases", cases, "--texts", texts], tr2, "T", timeout=900)
    c.validate(spec, "TraceTextBlock", "TraceTextBlock.cfg", tr2, "T", timeout=1500)
    c.exhaustive = True
    c.assumptions = ["words are maximal runs of characters other than blank and newline (tabs and other white space are "
                     "ordinary word characters and are not generated)",
                     "indent + 1 <= width (a line that holds only the indentation of a list continuation fits)",
                     "a word counts as sitting on a list continuation line (two extra blanks) only behind a word with a "
                     "leading dash that opened an output line of the same input line (line start or after the nn token)"]
    return c.finish()


if __name__ == "__main__":
    tier = sys.argv[sys.argv.index("--tier") + 1] if "--tier" in sys.argv else os.environ.get("VERIF_TIER", "quick")
    main_wrapper(lambda: run(tier))
