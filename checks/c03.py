#!/usr/bin/env python3
"""C03: every command line that obeys the declared rules is accepted."""
import os, sys, itertools
sys.path.insert(0, os.path.dirname(os.path.abspath(__file__)))
from argcommon import *


def run(tier):
    c = Check("C03", tier)
    exe = driver("asan")
    if tier == "quick":
        cfgs, beh = model_behaviours(c, tier, cfgsel=[1, 3, 5, 7, 8])
    else:
        cfgs, beh = model_behaviours(c, tier, cfgsel=[1, 3, 5, 7, 8], maxuses=3)
        cfgs1, beh1 = [], []
        beh += beh1
    # free-value routing (multi-value argument / flag / positional) needs three uses: own run with MaxUses = 3
    if tier == "thorough":
        cfgs2, beh2 = model_behaviours(c, tier, cfgsel=[15, 16], maxuses=3)
    else:
        # 15: the standard argument --endvalues: any number of markers in a line, a positional value behind a marker
        cfgs2, beh2 = model_behaviours(c, tier, cfgsel=[15, 16], maxuses=2)
    beh += beh2
    # sub-groups (configuration 22): a sub-group next to arguments of the main handler, one key in both; two uses per line
    # (a use of the sub-group carries up to two uses of its own)
    cfgs3, beh3 = model_behaviours(c, tier, cfgsel=[22], maxuses=2)
    beh += beh3
    script = os.path.join(c.wd, "replay.ndjson")
    n = behaviours_script(cfgs, beh, script, select=lambda b: b["valid"])
    c.notes.append("R: %d distinct spellings of valid lines replayed" % n)
    run_script(c, exe, script, "R")
    # T1: rich configurations (many bystander arguments, checks, formats, constraints), valid lines
    g = Gen(SEED * 7 + 3)
    ncfg, nlines = (80, 8) if tier == "quick" else (2500, 12)
    blocks = []
    for _ in range(ncfg):
        cfg = g.cfg(nargs=g.r.randint(5, 12), constraints=True, endvalues=0.34)
        acts = []
        for _ in range(nlines):
            line = g.with_markers(cfg, gen_valid(g, cfg))
            if line is None:
                continue
            acts.append(eval_action(g.spell_line(cfg, line), tag={"k": "line", "line": line_json(line)}))
        blocks.append((cfg, acts))
    # T1b: which argument gets a free value: multi-value arguments, flags, valued arguments and a positional in every order
    for _ in range(100 if tier == "quick" else 1500):
        cfg = g.cfg(nargs=g.r.randint(3, 5), kinds=["flag", "int", "vecint", "vecstr", "listint"], constraints=False, allow_pos=False, endvalues=0.5)
        for a in cfg["args"]:
            if arggen.is_cont(a["kind"]):
                a["multi"] = True
            a["mand"] = False
        p = arggen.new_arg(g.r.choice(["str", "vecstr"])); p["pos"] = True; p["card"] = {"t": "none", "a": 0, "b": 0}
        cfg["args"].append(p)
        acts = []
        for _ in range(nlines):
            line = g.with_markers(cfg, gen_valid(g, cfg))
            if line is None:
                continue
            acts.append(eval_action(g.spell_line(cfg, line), tag={"k": "line", "line": line_json(line)}))
        blocks.append((cfg, acts))
    # T1c: sub-groups: the scenario family (sub-group key as last word, words behind the sub-group, shared keys, a sub-group
    # entered twice, free values around sub-groups) and rich random configurations with one or two sub-groups
    nsp = 0
    for _ in range(40 if tier == "quick" else 1000):
        cfg, lines = arggen.subgroup_scenario(g)
        acts = []
        for line in lines:
            for _ in range(2):
                w = g.spell_line(cfg, line)
                if w is not None:
                    acts.append(eval_action(w, tag={"k": "line", "line": line_json(line)}))
        nsp += len(acts)
        blocks.append((cfg, acts))
    for _ in range(60 if tier == "quick" else 2000):
        cfg = g.cfg(nargs=g.r.randint(2, 8), constraints=True, subgroups=g.r.choice([1, 1, 2]), cmd=g.r.choice([None, None, None, "key"]),
                    exclude=arggen.GROWBITS)
        acts = []
        for _ in range(nlines):
            line = gen_valid(g, cfg)
            w = g.spell_line(cfg, line) if line is not None else None
            if w is not None:
                acts.append(eval_action(w, tag={"k": "line", "line": line_json(line)}))
        nsp += len(acts)
        blocks.append((cfg, acts))
    c.notes.append("T1c: %d spellings of valid lines with sub-groups" % nsp)
    # T1d: several arguments name ONE argument in their constraints, each with another form of its key (complete specification,
    #      short key only, long key only): the partner is one argument whatever it is called; all orders of a valid line
    nsame = 0
    for _ in range(40 if tier == "quick" else 1200):
        cfg = g.cfg(nargs=g.r.randint(5, 7), kinds=["flag", "flag", "int"], constraints=False, allow_pos=False)
        used_s = {a["s"] for a in cfg["args"]}
        used_l = {tuple(a["l"]) for a in cfg["args"]}
        for n_, x in enumerate(cfg["args"]):
            x["mand"] = False; x["card"] = {"t": "none", "a": 0, "b": 0}
            if not x["s"]:
                x["s"] = next(ord(ch) for ch in "ABCDEFGHJK" if ord(ch) not in used_s); used_s.add(x["s"])
            if not x["l"]:
                x["l"] = next(T(w) for w in ("first", "second", "third", "fourth", "fifth", "sixth", "seventh") if tuple(T(w)) not in used_l); used_l.add(tuple(x["l"]))
        a, a2, a3, cc, dd = g.r.sample(range(1, len(cfg["args"]) + 1), 5)
        forms = g.r.sample([0, 1, 2, 3], 3)
        cfg["args"][a - 1]["req"] = [cc]; cfg["args"][a - 1]["cspell"] = forms[0]
        cfg["args"][a2 - 1]["req"] = [cc]; cfg["args"][a2 - 1]["cspell"] = forms[1]
        if g.r.random() < 0.5:
            cfg["args"][a3 - 1]["req"] = [cc]; cfg["args"][a3 - 1]["cspell"] = forms[2]
        else:
            cfg["args"][a3 - 1]["exc"] = [dd]; cfg["args"][a3 - 1]["cspell"] = forms[2]      # never broken: dd is not used behind a3
        use = lambda i: [i, []] if cfg["args"][i - 1]["kind"] == "flag" else [i, [str(g.r.randint(0, 9))]]
        acts = []
        for order in ([a, a2, cc], [a2, a, cc], [cc, a, a2], [a, cc, a2], [a, a2, a3, cc], [a3, a2, cc, a], [dd, a3, a, a2, cc], [a2, cc], [cc, a], [cc], [dd, cc]):
            line = [use(i) for i in order]
            w = g.spell_line(cfg, line)
            if w is not None:
                acts.append(eval_action(w, tag={"k": "line", "line": line_json(line)}))
                nsame += 1
        blocks.append((cfg, acts))
    c.notes.append("T1d: %d lines with several constraints naming one argument by different forms of its key" % nsame)
    # T1e: webs of requires / excludes constraints (3-6 per handler, partner keys in every form), random subsets in random order
    webs = constraint_web_blocks(g, 25 if tier == "quick" else 800)
    blocks += webs
    c.notes.append("T1e: %d lines in %d configurations with webs of argument constraints" % (sum(len(b[1]) for b in webs), len(webs)))
    # T1f: destinations of other integral types (64-bit signed / unsigned, unsigned int, short, unsigned short): values at the limits
    #      of every type are accepted, values just outside are rejected
    wb = wide_blocks(g, 20 if tier == "quick" else 600, mutants=False)
    blocks += wb
    c.notes.append("T1f: %d command lines for 64 / 32 / 16 bit integral destinations" % sum(len(b[1]) for b in wb))
    # T2: long keys that are prefixes of each other, in every definition order, exact and abbreviated
    fam = [["in", "inp", "input"], ["out", "output", "output-file"], ["val", "value", "values"], ["n", "num", "number"]]
    for names in (fam if tier == "quick" else fam * 3):
        for perm in itertools.permutations(names):
            cfg = {"abbr": True, "endvalues": False, "hcons": [], "args": []}
            for k, nm in enumerate(perm):
                a = arggen.new_arg("int")
                a["l"] = T(nm) if len(nm) > 1 else []
                a["s"] = ord(nm) if len(nm) == 1 else 0
                a["init"] = -1
                cfg["args"].append(a)
            acts = []
            for k, nm in enumerate(perm):
                key = "--" + nm if len(nm) > 1 else "-" + nm
                acts.append(eval_action([key, str(k + 5)], tag={"k": "line", "line": line_json([[k + 1, [str(k + 5)]]])}))
                if len(nm) > 1:
                    acts.append(eval_action([key + "=" + str(k + 7)], tag={"k": "line", "line": line_json([[k + 1, [str(k + 7)]]])}))
            blocks.append((cfg, acts))
    script2 = os.path.join(c.wd, "random.ndjson")
    write_cases(script2, blocks)
    rej, tr = run_script(c, exe, script2, "T")
    decl_consistency(c, tr, "T")
    return finish_args(c)


if __name__ == "__main__":
    tier = sys.argv[sys.argv.index("--tier") + 1] if "--tier" in sys.argv else os.environ.get("VERIF_TIER", "quick")
    main_wrapper(lambda: run(tier))
