#!/usr/bin/env python3
"""C18: the usage lists exactly the visible arguments, each once."""
import os, sys, random
sys.path.insert(0, os.path.dirname(os.path.abspath(__file__)))
from argcommon import *

WORDS = "the quick brown fox jumps over a lazy dog while printing usage texts of arbitrary length for testing".split()


def usage_actions(cfg, via="stream", argv=()):
    acts = [{"n": "Usage", "via": via, "argv": [list(w) for w in argv]}]
    for a in cfg["args"]:
        if a["s"]:
            acts.append({"n": "HelpArg", "key": [a["s"]]})
        if a["l"]:
            acts.append({"n": "HelpArg", "key": a["l"]})
            # beginnings of the long key: designate the argument when unambiguous (the handler accepts abbreviations)
            for n in sorted({2, len(a["l"]) // 2, len(a["l"]) - 1}):
                if 2 <= n < len(a["l"]):
                    acts.append({"n": "HelpArg", "key": a["l"][:n]})
    acts.append({"n": "HelpArg", "key": T("nosuchkey")})
    acts.append({"n": "HelpArg", "key": T("Q")})
    return acts


def run(tier):
    c = Check("C18", tier)
    exe = driver("asan")
    r, edges = c.model(SPEC, "MCArgUsage", "MCArgUsage_%s.cfg" % tier, want_edges=True, timeout=3000, xmx="16g")
    cfgs = [json.loads(e[1]) for e in edges]
    rnd = random.Random(SEED)
    if len(cfgs) > (3000 if tier == "quick" else 40000):
        cfgs = rnd.sample(cfgs, 3000 if tier == "quick" else 40000)
    blocks = [(b["cfg"], usage_actions(b["cfg"], b["via"], b["argv"])) for b in cfgs]
    script = os.path.join(c.wd, "replay.ndjson")
    n = write_cases(script, blocks)
    c.notes.append("R: %d model configurations (argument sets x display settings) printed by the real handler, %d usage/help actions" % (len(blocks), n))
    run_script(c, exe, script, "R")
    # T: random sets of up to 15 arguments, key lengths around the same-line threshold (40), long descriptions,
    #    default values, checks, constraints
    g = Gen(SEED * 7 + 18)
    r_ = g.r
    blocks = []
    for _ in range(150 if tier == "quick" else 5000):
        cfg = g.cfg(nargs=r_.randint(1, 15), constraints=True, allow_pos=False)
        cfg["hcons"] = []
        for k, a in enumerate(cfg["args"]):
            if a["l"] and r_.random() < 0.2:
                a["l"] = T(S(a["l"]) + "-" + "x" * r_.choice([5, 20, 30, 31, 32, 33, 34, 35, 36, 40, 60]))
            a["hidden"] = r_.random() < 0.25
            a["repl"] = []
            if not a["mand"] and r_.random() < 0.25:
                a["depr"] = True
                if r_.random() < 0.5:
                    a["repl"] = T("--new-arg")
            a["printdef"] = "dflt"
            if a["kind"] in ("int", "str", "dbl") and r_.random() < 0.3:
                a["printdef"] = r_.choice(["yes", "no"])
            a["desc"] = T("D%d %s" % (k + 1, " ".join(r_.choice(WORDS) for _ in range(r_.choice([0, 1, 3, 10, 40])))))
            a["nodesc"] = r_.random() < 0.12          # defined with an empty description text
        # deprecated arguments cannot be required/excluded partners in a sensible set-up, keep constraints
        cfg.update({"usagehidden": r_.random() < 0.4, "usagedepr": r_.random() < 0.4, "usageshort": r_.random() < 0.5,
                    "usagelong": r_.random() < 0.5, "help": True})
        for a in cfg["args"]:
            if a["s"] == ord("h"):
                a["s"] = ord("H")
        blocks.append((cfg, usage_actions(cfg)))
        blocks.append((cfg, usage_actions(cfg, "help", [T("-h")])[:1]))
        if cfg["usageshort"]:
            blocks.append((cfg, usage_actions(cfg, "help", [T("--help-short"), T("--help")])[:1]))
        if cfg["usagelong"]:
            blocks.append((cfg, usage_actions(cfg, "help", [T("--help-long"), T("-h")])[:1]))
    # T2: definitions that are refused (key already taken, short / long pair contradicting an existing one) and caught by the
    #     application: the usage lists the arguments the handler really has, the refused ones are unknown to --help-arg
    nref = 0
    for _ in range(40 if tier == "quick" else 1200):
        stems = ["in", "input", "out", "output", "verbose", "num"]
        keys = []
        for _k in range(r_.randint(2, 6)):
            l = r_.choice(stems) if r_.random() < 0.8 else ""
            s_ = ord(r_.choice("abv")) if r_.random() < 0.6 or not l else 0
            keys.append((s_, T(l)))
        cfg = {"abbr": True, "endvalues": False, "hcons": [], "args": [], "lenient": True}
        for n_, (s_, l) in enumerate(keys):
            a = arggen.new_arg(r_.choice(["int", "flag", "str"])); a["s"], a["l"] = s_, l
            a["card"] = {"t": "none", "a": 0, "b": 0}
            a["hidden"] = r_.random() < 0.15
            a["nodesc"] = False; a["repl"] = []; a["printdef"] = "dflt"
            cfg["args"].append(a)
        cfg.update({"usagehidden": r_.random() < 0.3, "usagedepr": False, "usageshort": False, "usagelong": False, "help": False})
        blocks.append((cfg, [{"n": "Define", "mode": "handler"}] + usage_actions(cfg)))
        nref += 1
    c.notes.append("T2: %d handlers with refused definitions" % nref)
    script2 = os.path.join(c.wd, "random.ndjson")
    write_cases(script2, blocks)
    run_script(c, exe, script2, "T")
    return finish_args(c, ["every description starts with a unique token D<i>; the driver projects the usage text onto (caption, key text, tokens, markers) per entry",
                           "column layout and wrapping of descriptions are the business of C17, group usage is not modelled"])


if __name__ == "__main__":
    tier = sys.argv[sys.argv.index("--tier") + 1] if "--tier" in sys.argv else os.environ.get("VERIF_TIER", "quick")
    main_wrapper(lambda: run(tier))
