#!/usr/bin/env python3
"""C16: every delivered log message is rendered exactly as its format definition says
(field order, automatic separator, constant text, width/alignment, date/time format strings, values taken
from the message, attribute precedence message > global and newest first, scoped attributes end with
their scope)."""
import collections, os, sys
sys.path.insert(0, os.path.join(os.path.dirname(os.path.abspath(__file__)), "..", "tools"))
from vlib import *

# slice -> action names that must occur among the generated transitions (vacuity guard)
SLICES = (
    ("", ["Field", "Const", "Attribute", "Width", "Left", "FormatString", "MakeFormat", "AddGlobal", "RemoveGlobal", "Render"]),
    ("_opts", ["Field", "Const", "Width", "Left", "FormatString", "Separator", "NewCreator", "MakeFormat", "Render"]),
    ("_seps", ["Const", "Width", "Separator", "NewCreator", "MakeFormat", "Render", "Stream"]),
    ("_attrs", ["Attribute", "MakeFormat", "AddGlobal", "RemoveGlobal", "EnterScope", "LeaveScope", "AddMsg", "RemoveMsgLast",
                "RemoveMsg", "Render", "Stream"]),
)


def run(tier):
    c = Check("C16", tier)
    spec = os.path.join(ROOT, "specs", "logformat")
    exe = build_driver("logformat", os.path.join(ROOT, "harness", "logformat_driver.cpp"), "asan",
                       lib_subdirs=("log", "common", "format", "prog_args", "appl"))
    pending, batch = [], [0]

    def replay():
        # one driver run + one validation per batch of sequences (the driver's output is capped at 400 MB)
        if not pending:
            return
        batch[0] += 1
        tag = "R%d" % batch[0]
        script = os.path.join(c.wd, "script%d.ndjson" % batch[0])
        write_script(pending, script)
        tr = os.path.join(c.wd, "replay%d.ndjson" % batch[0])
        c.drive(exe, ["--script", script], tr, tag, timeout=600)
        c.validate(spec, "TraceLogFormat", "TraceLogFormat.cfg", tr, tag)
        del pending[:]

    for suffix, must in SLICES:
        cfg = "MCLogFormat_%s%s.cfg" % (tier, suffix)
        r, edges = c.model(spec, "MCLogFormat", cfg)
        if r.violation:
            continue
        taken = collections.Counter(json.loads(e[1])["n"] for e in edges)
        missing = [n for n in must if taken[n] == 0]
        if missing:
            raise MachineryError("vacuous model %s: actions never taken: %s" % (cfg, missing))
        seqs, nedges, nstates, _ = cover(edges)
        c.notes.append("%s: %d distinct edges over %d states covered by %d replay sequences; per action: %s" % (
            cfg, nedges, nstates, len(seqs), dict(sorted(taken.items()))))
        if sum(len(q) + 1 for q in pending) + sum(len(q) + 1 for q in seqs) > 400000:
            replay()
        pending.extend(seqs)
    replay()
    cases, ops = (250, 40) if tier == "quick" else (6000, 50)
    tr2 = os.path.join(c.wd, "random.ndjson")
    c.drive(exe, ["--random", "--seed", SEED, "--cases", cases, "--ops", ops], tr2, "T", timeout=900)
    c.validate(spec, "TraceLogFormat", "TraceLogFormat.cfg", tr2, "T")
    c.exhaustive = True
    c.assumptions = [
        "the driver runs with TZ=UTC; date/time texts are computed by the specification from the timestamp (0 <= ts < 2^31) "
        "for the directives %Y %m %d %H %M %S %F %T %% and literals; other strftime directives are not generated",
        "attribute values are never empty (an empty value and 'not found' are indistinguishable in the documented interface)",
        "process id and thread id are taken from the message object as logged by the driver; sub-second parts are 0 for "
        "messages whose timestamp was set with setTimestamp(time_t)",
        "messages sent through the stream interface (StreamLog) are only generated for definitions without date/time fields",
    ]
    return c.finish()


if __name__ == "__main__":
    tier = sys.argv[sys.argv.index("--tier") + 1] if "--tier" in sys.argv else os.environ.get("VERIF_TIER", "quick")
    main_wrapper(lambda: run(tier))
