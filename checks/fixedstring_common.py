"""Common part of the FixedString checks C10 (memory safety, well-formedness, all arguments) and
C11 (std::string meaning cut off at the capacity, documented domain)."""
import collections, concurrent.futures, hashlib, json, os, subprocess, sys, time
sys.path.insert(0, os.path.join(os.path.dirname(os.path.abspath(__file__)), "..", "tools"))
import vlib
from vlib import *

SPEC = os.path.join(ROOT, "specs", "fixedstring")
DRIVER = os.path.join(ROOT, "harness", "fixedstring_driver.cpp")
# every call family must occur among the transitions of the bounded model (vacuity guard)
FAMILIES = ["assign", "clear", "insert", "erase", "push_back", "pop_back", "append", "sprintf", "replace", "swap", "set",
            "substr", "copy", "find", "rfind", "find_first_of", "find_first_not_of", "find_last_of", "find_last_not_of",
            "compare", "starts_with", "ends_with", "contains", "rel", "obs", "get", "iter"]


def build():
    """The driver instantiates FixedString<L> for 13 capacities x ~215 overloads; it is compiled as four
    translation units (-DFS_PART=k) in parallel, -O0 (compile time), ASan+UBSan."""
    t0 = time.time()
    flav = "asan"
    parts = [(DRIVER, flav, ("-O0", "-DFS_PART=%d" % k)) for k in range(4)]
    with concurrent.futures.ThreadPoolExecutor(min(4, NCPU)) as ex:
        res = list(ex.map(vlib._compile_one, parts))
    bad = [r for r in res if r[1] is None]
    if bad:
        raise MachineryError("compile failed: %s\n%s" % (bad[0][0], bad[0][2]))
    objs = [r[1] for r in res]
    h = hashlib.sha256((" ".join(objs) + flav).encode()).hexdigest()[:16]
    exe = os.path.join(mkdir(os.path.join(OUT, "bin")), "fixedstring_%s_%s" % (flav, h))
    if not os.path.exists(exe):
        tmp = exe + ".%d.tmp" % os.getpid()
        r = subprocess.run(["clang++"] + vlib.FLAVOURS[flav] + objs + ["-o", tmp, "-lpthread"], capture_output=True)
        if r.returncode != 0:
            raise MachineryError("link failed: " + r.stderr.decode(errors="replace")[-3000:])
        os.replace(tmp, exe)
    log("[build] fixedstring (%s) 4 TU in %.1fs" % (flav, time.time() - t0))
    return exe


def families_present(edges, module):
    seen = collections.Counter(json.loads(e[1])["op"] for e in edges)
    missing = [f for f in FAMILIES if seen[f] == 0]
    if missing:
        raise MachineryError("vacuous model %s: call families never taken: %s" % (module, missing))
    return seen


def run(prop, tier, mode):
    """mode 'c10': all arguments incl. out-of-domain ones, trace spec checks well-formedness only;
    mode 'c11': documented domain, trace spec demands content and results."""
    c = Check(prop, tier)
    exe = build()
    tcfg = "TraceFixedString_%s.cfg" % mode
    # M: bounded model; R: every transition replayed in the real code and validated by TLC
    r, edges = c.model(SPEC, "MCFixedString", "MCFixedString_%s_%s.cfg" % (mode, tier), timeout=1500)
    if not r.violation:
        seen = families_present(edges, "MCFixedString")
        labels = set((a["op"], a["tk"], a["sk"]) for a in (json.loads(e[1]) for e in edges))
        c.notes.append("MCFixedString: %d distinct C++ overload labels (op,tk,sk) among the transitions" % len(labels))
    seqs, nedges, nstates, _ = cover(edges, maxlen=60)
    script = os.path.join(c.wd, "script.ndjson")
    write_script(seqs, script)
    c.notes.append("MCFixedString: %d distinct edges over %d states covered by %d replay sequences" % (nedges, nstates, len(seqs)))
    tr = os.path.join(c.wd, "replay.ndjson")
    c.drive(exe, ["--script", script], tr, "R", timeout=600)
    c.validate(SPEC, "TraceFixedString", tcfg, tr, "R")
    # T: random histories far outside the model bounds
    wild = "1" if mode == "c10" else "0"
    cases, ops = (150, 150) if tier == "quick" else (5000, 200)
    tr2 = os.path.join(c.wd, "random.ndjson")
    c.drive(exe, ["--random", "--seed", SEED, "--cases", cases, "--ops", ops, "--wild", wild], tr2, "T", timeout=900)
    c.validate(SPEC, "TraceFixedString", tcfg, tr2, "T")
    hcases = 2 if tier == "quick" else 16
    tr3 = os.path.join(c.wd, "random_huge.ndjson")
    c.drive(exe, ["--random", "--seed", SEED + 1, "--cases", hcases, "--ops", 20, "--wild", wild, "--huge", 1], tr3, "T-huge", timeout=900)
    # 65536-element sequences need a deeper Java stack in TLC's evaluator
    c.validate(SPEC, "TraceFixedString", tcfg, tr3, "T-huge", timeout=1500, env={"JAVA_TOOL_OPTIONS": "-Xss512m"})
    c.exhaustive = True
    return c
