#!/usr/bin/env python3
"""C10: FixedString never touches memory outside itself and stays well-formed, for all arguments."""
import os, sys
sys.path.insert(0, os.path.dirname(os.path.abspath(__file__)))
from fixedstring_common import *


def main(tier):
    c = run("C10", tier, "c10")
    c.assumptions = ["ASan/UBSan observe every access outside the heap blocks that hold the object, C-string sources, copy "
                     "destinations and the (partly poisoned) std::string buffers; guard bytes around the second object",
                     "raw pointer + count overloads are only called with count <= size of the caller's block; operator[] "
                     "only with index <= length() (documented as undefined beyond)"]
    return c.finish()


if __name__ == "__main__":
    tier = sys.argv[sys.argv.index("--tier") + 1] if "--tier" in sys.argv else os.environ.get("VERIF_TIER", "quick")
    main_wrapper(lambda: main(tier))
