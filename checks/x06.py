#!/usr/bin/env python3
"""X06 (extension): the statistics policies of the read / write buffer (ReadCountPolicy, WriteCountPolicy) count what their
documentation says: calls of readData() and bytes delivered by the source, get() calls served and bytes handed out; append()
calls and bytes appended, writeData() calls and bytes written to the destination.  Same model, driver and executions as C19;
the trace specifications are run with Stats = TRUE, which makes the recorded counters part of what TLC judges."""
import os, sys
sys.path.insert(0, os.path.join(os.path.dirname(os.path.abspath(__file__)), "..", "tools"))
from vlib import *


def run(tier):
    c = Check("X06", tier)
    spec = os.path.join(ROOT, "specs", "rwbuffer")
    exe = build_driver("rwbuffer", os.path.join(ROOT, "harness", "rwbuffer_driver.cpp"), "asan")
    cases, ops = (40, 100) if tier == "quick" else (1500, 200)
    for comp, mod, must in (("write", "WriteBuffer", ["PassThrough", "FlushThenCopy", "CopyIn", "FlushBuf", "AppendEmpty"]),
                            ("read", "ReadBuffer", ["GetBegin", "ReadData", "GetEnd"])):
        r, edges = c.model(spec, "MC" + mod, "MC%s_%s.cfg" % (mod, tier), must_take=must)
        seqs, nedges, nstates, unreach = cover(edges)
        script = os.path.join(c.wd, "script_%s.ndjson" % comp)
        write_script(seqs, script)
        tr = os.path.join(c.wd, "replay_%s.ndjson" % comp)
        c.drive(exe, ["--comp", comp, "--script", script], tr, "R-" + comp)
        c.validate(spec, "Trace" + mod, "Trace%s_stats.cfg" % mod, tr, "R-" + comp)
        tr2 = os.path.join(c.wd, "random_%s.ndjson" % comp)
        c.drive(exe, ["--comp", comp, "--random", "--seed", SEED + 6, "--cases", cases, "--ops", ops], tr2, "T-" + comp)
        c.validate(spec, "Trace" + mod, "Trace%s_stats.cfg" % mod, tr2, "T-" + comp)
    c.exhaustive = True
    c.assumptions = ["an append() call without data may or may not count as a call (the hook is documented as 'called when data is appended')"]
    return c.finish()


if __name__ == "__main__":
    tier = sys.argv[sys.argv.index("--tier") + 1] if "--tier" in sys.argv else os.environ.get("VERIF_TIER", "quick")
    main_wrapper(lambda: run(tier))
