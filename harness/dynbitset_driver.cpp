// Conformance driver for celma::container::DynamicBitset (property C12).
//   dynbitset_driver --script FILE                      replay of TLC-generated action sequences
//   dynbitset_driver --random --seed S --cases K --ops M
// Output: ndjson trace on stdout (event format: specs/dynbitset/TraceDynBitset.tla).
// The driver only records: call, arguments, result, projection (size() + test(i) for all i < size()).
// Expected values are computed by TLC from the specification, never here.
#include <bitset>
#include <memory>
#include <stdexcept>
#include <string>
#include <vector>
#include "common/vharness.hpp"
#include "celma/container/dynamic_bitset.hpp"
// the only library translation unit the class needs (found through -I<repo>/src); the rest of libcelma is not linked
#include "library/container/dynamic_bitset.cpp"

using celma::container::DynamicBitset;
using Positions = std::vector<long>;

// ---------------------------------------------------------------- operand description: size + set positions
struct Bits {
   long n = 0;
   Positions on;
   std::vector<bool> vec() const {
      std::vector<bool> v(static_cast<size_t>(n), false);
      for (long p : on) if (p >= 0 && p < n) v[static_cast<size_t>(p)] = true;
      return v;
   }
};

static Bits project(const DynamicBitset& b) {
   Bits r;
   r.n = static_cast<long>(b.size());
   for (size_t i = 0; i < b.size(); ++i) if (b.test(i)) r.on.push_back(static_cast<long>(i));
   return r;
}

// sizes for which the std::bitset<N> overloads are instantiated
static const long kBitsetSizes[] = {0, 1, 2, 3, 4, 5, 6, 7, 8, 31, 32, 33, 63, 64, 65, 100, 127, 128, 129, 200};
static bool bitsetSizeSupported(long n) { for (long s : kBitsetSizes) if (s == n) return true; return false; }

template <size_t N> static std::bitset<N> makeBitset(const Bits& o) {
   std::bitset<N> b;
   for (long p : o.on) if (p >= 0 && static_cast<size_t>(p) < N) b.set(static_cast<size_t>(p));
   return b;
}
template <size_t N> static void assignBitset(DynamicBitset& d, const Bits& o) { d = makeBitset<N>(o); }
template <size_t N> static DynamicBitset* ctorBitset(const Bits& o) { return new DynamicBitset(makeBitset<N>(o)); }
#define BITSET_SWITCH(n, CALL)                                                                       \
   switch (n) {                                                                                      \
   case 0: CALL(0); break; case 1: CALL(1); break; case 2: CALL(2); break; case 3: CALL(3); break;    \
   case 4: CALL(4); break; case 5: CALL(5); break; case 6: CALL(6); break; case 7: CALL(7); break;    \
   case 8: CALL(8); break; case 31: CALL(31); break; case 32: CALL(32); break; case 33: CALL(33); break; \
   case 63: CALL(63); break; case 64: CALL(64); break; case 65: CALL(65); break; case 100: CALL(100); break; \
   case 127: CALL(127); break; case 128: CALL(128); break; case 129: CALL(129); break; case 200: CALL(200); break; \
   default: break; }

// ---------------------------------------------------------------- one live iterator, type erased
struct IIter {
   virtual ~IIter() = default;
   virtual bool atEnd() = 0;
   virtual bool atBegin() = 0;
   virtual long deref() = 0;                 // -1 when at end
   virtual long inc(bool post) = 0;          // dereferenced return value of ++it / it++ (-1: end)
   virtual long dec(bool post) = 0;
};
template <class BS, class It, bool Rev> struct IterT : IIter {
   BS* b;
   It it;
   static It first(BS* x) { if constexpr (Rev) return x->rbegin(); else return x->begin(); }
   static It last(BS* x) { if constexpr (Rev) return x->rend(); else return x->end(); }
   explicit IterT(BS* x) : b(x), it(first(x)) {}
   long val(const It& i) { return i == last(b) ? -1 : static_cast<long>(*i); }
   bool atEnd() override { return it == last(b); }
   bool atBegin() override { return !(it != first(b)); }
   long deref() override { return val(it); }
   long inc(bool post) override { if (post) { It c = it++; return val(c); } It& r = ++it; return val(r); }
   long dec(bool post) override { if (post) { It c = it--; return val(c); } It& r = --it; return val(r); }
};

// ---------------------------------------------------------------- session: two heap objects + iterator
struct Session {
   std::unique_ptr<DynamicBitset> cur, oth;
   std::unique_ptr<IIter> iter;

   static vj::Line& addProj(vj::Line& ln, const char* kn, const char* ko, const Bits& b) { return ln.num(kn, b.n).ints(ko, b.on); }

   void dropIter() { iter.reset(); }

   void reset() {
      dropIter();
      cur.reset(new DynamicBitset(0));
      oth.reset(new DynamicBitset(0));
      vj::Line().str("e", "Reset").emit();
   }

   // runs a modifying call, appends result + projection
   template <class F> void mutate(vj::Line& ln, F&& f) {
      dropIter();
      const char* res = "ok";
      try { f(); } catch (const std::exception&) { res = "x"; }
      ln.str("res", res);
      addProj(ln, "sz", "st", project(*cur));
      ln.emit();
   }

   // ---- construction / assignment
   void assign(std::string kind, const Bits& o) {
      if ((kind == "bitset" || kind == "ctor_bitset") && !bitsetSizeSupported(o.n)) kind = (kind == "bitset") ? "vec_copy" : "ctor_vec";
      vj::Line ln;
      ln.str("e", "Assign").str("s", kind);
      addProj(ln, "on", "oo", o);
      mutate(ln, [&] {
         // the source lives in an exactly sized heap block of its own
         std::unique_ptr<std::vector<bool>> v(new std::vector<bool>(o.vec()));
         if (kind == "vec_copy") { const std::vector<bool>& cv = *v; *cur = cv; }
         else if (kind == "vec_move") *cur = std::move(*v);
         else if (kind == "bitset") {
#define CALL(N) assignBitset<N>(*cur, o)
            BITSET_SWITCH(o.n, CALL)
#undef CALL
         } else if (kind == "dbs_copy") { const DynamicBitset tmp(*v); *cur = tmp; }
         else if (kind == "dbs_move") { DynamicBitset tmp(*v); *cur = std::move(tmp); }
         else if (kind == "ctor_vec") { const std::vector<bool>& cv = *v; cur.reset(new DynamicBitset(cv)); }
         else if (kind == "ctor_vec_move") cur.reset(new DynamicBitset(std::move(*v)));
         else if (kind == "ctor_bitset") {
            DynamicBitset* nb = nullptr;
#define CALL(N) nb = ctorBitset<N>(o)
            BITSET_SWITCH(o.n, CALL)
#undef CALL
            cur.reset(nb);
         } else if (kind == "ctor_copy") { const DynamicBitset tmp(*v); cur.reset(new DynamicBitset(tmp)); }
         else /* ctor_move */ { DynamicBitset tmp(*v); cur.reset(new DynamicBitset(std::move(tmp))); }
      });
   }
   void ctorSize(long n) {
      vj::Line ln; ln.str("e", "CtorSize").num("p", n);
      mutate(ln, [&] { cur.reset(new DynamicBitset(static_cast<size_t>(n))); });
   }
   void simple(const char* name) {
      vj::Line ln; ln.str("e", name);
      const std::string n = name;
      mutate(ln, [&] {
         if (n == "SetAll") cur->set();
         else if (n == "FlipAll") cur->flip();
         else cur->reset();
      });
   }
   void setBit(long p, bool v) {
      vj::Line ln; ln.str("e", "Set").num("p", p).boolean("v", v);
      mutate(ln, [&] { if (v) { if (p % 2) cur->set(static_cast<size_t>(p)); else cur->set(static_cast<size_t>(p), true); } else cur->set(static_cast<size_t>(p), false); });
   }
   void resetBit(long p) {
      vj::Line ln; ln.str("e", "ResetBit").num("p", p);
      mutate(ln, [&] { cur->reset(static_cast<size_t>(p)); });
   }
   void flipBit(long p) {
      vj::Line ln; ln.str("e", "FlipBit").num("p", p);
      mutate(ln, [&] { cur->flip(static_cast<size_t>(p)); });
   }
   void indexWrite(long p, bool v) {
      vj::Line ln; ln.str("e", "IndexWrite").num("p", p).boolean("v", v);
      mutate(ln, [&] { (*cur)[static_cast<size_t>(p)] = v; });
   }
   void indexRead(long p) {
      bool val = false;
      dropIter();
      const char* res = "ok";
      try { val = (*cur)[static_cast<size_t>(p)]; } catch (const std::exception&) { res = "x"; }
      vj::Line ln; ln.str("e", "IndexRead").num("p", p).boolean("val", val).str("res", res);
      addProj(ln, "sz", "st", project(*cur));
      ln.emit();
   }
   void resize(long n, bool v) {
      vj::Line ln; ln.str("e", "Resize").num("p", n).boolean("v", v);
      mutate(ln, [&] { if (v) cur->resize(static_cast<size_t>(n), true); else if (n % 2) cur->resize(static_cast<size_t>(n)); else cur->resize(static_cast<size_t>(n), false); });
   }

   // ---- logical operations; operand: a fresh object built from `o`, or the long-lived second object
   struct Operand {
      std::unique_ptr<DynamicBitset> fresh;
      const DynamicBitset* p = nullptr;
      Bits desc;
      int src = 0;
   };
   // the operand of a binary / compound operation: a fresh object with the given bits (src 0), the long-lived second
   // object (src 1) or the object itself (src 2: x op= x, x op x)
   static const Bits* selfMark() { static const Bits m; return &m; }
   Operand operand(const Bits* o) {
      Operand r;
      if (o == selfMark()) { r.p = cur.get(); r.desc = project(*cur); r.src = 2; }
      else if (o != nullptr) { r.fresh.reset(new DynamicBitset(o->vec())); r.p = r.fresh.get(); r.desc = *o; }
      else { r.p = oth.get(); r.desc = project(*oth); r.src = 1; }
      return r;
   }
   void logicAssign(const std::string& name, const Bits* o) {
      Operand op = operand(o);
      vj::Line ln; ln.str("e", name);
      addProj(ln, "on", "oo", op.desc).num("src", op.src);
      Bits twin; bool twinOk = true;
      try {
         const DynamicBitset& c = *cur;
         if (name == "AndAssign") twin = project(c & *op.p);
         else if (name == "OrAssign") twin = project(c | *op.p);
         else twin = project(c ^ *op.p);
      } catch (const std::exception&) { twinOk = false; }
      addProj(ln, "bn", "bo", twin);
      mutate(ln, [&] {
         if (!twinOk) throw std::runtime_error("binary twin threw");
         if (name == "AndAssign") *cur &= *op.p;
         else if (name == "OrAssign") *cur |= *op.p;
         else *cur ^= *op.p;
      });
   }
   void shiftAssign(const std::string& name, long k) {
      vj::Line ln; ln.str("e", name).num("p", k);
      Bits twin; bool twinOk = true;
      try {
         const DynamicBitset& c = *cur;
         twin = project(name == "ShlAssign" ? (c << static_cast<size_t>(k)) : (c >> static_cast<size_t>(k)));
      } catch (const std::exception&) { twinOk = false; }
      addProj(ln, "bn", "bo", twin);
      mutate(ln, [&] {
         if (!twinOk) throw std::runtime_error("binary twin threw");
         if (name == "ShlAssign") *cur <<= static_cast<size_t>(k); else *cur >>= static_cast<size_t>(k);
      });
   }
   void logic(const std::string& name, const Bits* o) {
      Operand op = operand(o);
      vj::Line ln; ln.str("e", name);
      addProj(ln, "on", "oo", op.desc).num("src", op.src);
      const char* res = "ok";
      const DynamicBitset& c = *cur;
      if (name == "Eq") {
         bool val = false;
         try { val = (c == *op.p); } catch (const std::exception&) { res = "x"; }
         ln.boolean("val", val).str("res", res).emit();
         return;
      }
      Bits r;
      try {
         if (name == "And") r = project(c & *op.p);
         else if (name == "Or") r = project(c | *op.p);
         else r = project(c ^ *op.p);
      } catch (const std::exception&) { res = "x"; }
      addProj(ln, "rn", "ro", r).str("res", res).emit();
   }
   void shift(const std::string& name, long k) {
      vj::Line ln; ln.str("e", name).num("p", k);
      const char* res = "ok";
      const DynamicBitset& c = *cur;
      Bits r;
      try { r = project(name == "Shl" ? (c << static_cast<size_t>(k)) : (c >> static_cast<size_t>(k))); }
      catch (const std::exception&) { res = "x"; }
      addProj(ln, "rn", "ro", r).str("res", res).emit();
   }
   void negate() {
      vj::Line ln; ln.str("e", "Not");
      const char* res = "ok";
      const DynamicBitset& c = *cur;
      Bits r;
      try { r = project(~c); } catch (const std::exception&) { res = "x"; }
      addProj(ln, "rn", "ro", r).str("res", res).emit();
   }

   // ---- read-only access
   void test(long p, const std::string& which) {
      const DynamicBitset& c = *cur;
      const char* res;
      try {
         const bool v = (which == "test") ? c.test(static_cast<size_t>(p)) : c[static_cast<size_t>(p)];
         res = v ? "t" : "f";
      } catch (const std::out_of_range&) { res = "x"; }
      catch (const std::exception&) { res = "other exception"; }
      vj::Line().str("e", "Test").num("p", p).str("s", which).str("res", res).emit();
   }
   void observe(long zero, long one) {
      const DynamicBitset& c = *cur;
      vj::Line ln; ln.str("e", "Observe").num("p", zero).num("q", one);
      const char* res = "ok";
      long count = 0, size = 0; bool any = false, none = false, all = false, ulx = false;
      std::string str; Positions ul;
      try {
         count = static_cast<long>(c.count()); any = c.any(); none = c.none(); all = c.all(); size = static_cast<long>(c.size());
         str = (zero == '0' && one == '1') ? c.to_string() : c.to_string(static_cast<char>(zero), static_cast<char>(one));
         try {
            const unsigned long v = c.to_ulong();
            for (int i = 0; i < 64; ++i) if ((v >> i) & 1ul) ul.push_back(i);
         } catch (const std::overflow_error&) { ulx = true; }
      } catch (const std::exception&) { res = "x"; }
      ln.num("count", count).boolean("any", any).boolean("none", none).boolean("all", all).num("size", size)
         .bytes("str", str).boolean("ulx", ulx).ints("ul", ul).str("res", res).emit();
   }
   // complete loops; a loop that does not end after size()+2 steps is cut ("runaway")
   void iterate(const std::string& dir, long constness) {
      Positions seq;
      const char* res = "ok";
      const size_t limit = cur->size() + 2;
      try {
         const DynamicBitset& c = *cur;
         if (dir == "fwd") {
            if (constness == 0) { for (auto p : *cur) { seq.push_back(static_cast<long>(p)); if (seq.size() > limit) { res = "runaway"; break; } } }
            else if (constness == 1) { for (auto p : c) { seq.push_back(static_cast<long>(p)); if (seq.size() > limit) { res = "runaway"; break; } } }
            else { for (auto it = c.cbegin(); it != c.cend(); ++it) { seq.push_back(static_cast<long>(*it)); if (seq.size() > limit) { res = "runaway"; break; } } }
         } else {
            if (constness == 0) { for (auto it = cur->rbegin(); it != cur->rend(); ++it) { seq.push_back(static_cast<long>(*it)); if (seq.size() > limit) { res = "runaway"; break; } } }
            else if (constness == 1) { for (auto it = c.rbegin(); it != c.rend(); it++) { seq.push_back(static_cast<long>(*it)); if (seq.size() > limit) { res = "runaway"; break; } } }
            else { for (auto it = c.crbegin(); it != c.crend(); ++it) { seq.push_back(static_cast<long>(*it)); if (seq.size() > limit) { res = "runaway"; break; } } }
         }
      } catch (const std::exception&) { res = "x"; }
      vj::Line().str("e", "Iterate").str("s", dir).num("p", constness).ints("seq", seq).str("res", res).emit();
   }
   // ---- one iterator, step by step
   void iterBegin(const std::string& dir, long constness) {
      dropIter();
      const char* res = "ok";
      bool end = false; long at = -1;
      try {
         if (dir == "fwd") {
            if (constness == 0) iter.reset(new IterT<DynamicBitset, DynamicBitset::iterator, false>(cur.get()));
            else iter.reset(new IterT<const DynamicBitset, DynamicBitset::const_iterator, false>(cur.get()));
         } else {
            if (constness == 0) iter.reset(new IterT<DynamicBitset, DynamicBitset::reverse_iterator, true>(cur.get()));
            else iter.reset(new IterT<const DynamicBitset, DynamicBitset::const_reverse_iterator, true>(cur.get()));
         }
         end = iter->atEnd(); at = iter->deref();
      } catch (const std::exception&) { res = "x"; dropIter(); }
      vj::Line().str("e", "IterBegin").str("s", dir).num("p", constness).boolean("end", end).num("at", at).str("res", res).emit();
   }
   void iterStep(bool forward, bool post) {
      const char* res = "ok";
      bool did = false, end = false; long ret = -1, at = -1;
      if (!iter) res = "no iterator";
      else {
         try {
            // the client-side precondition of ++ / --: not at end() / not at begin()
            did = forward ? !iter->atEnd() : !iter->atBegin();
            if (did) ret = forward ? iter->inc(post) : iter->dec(post);
            end = iter->atEnd(); at = iter->deref();
         } catch (const std::exception&) { res = "x"; }
      }
      vj::Line().str("e", forward ? "IterNext" : "IterPrev").boolean("v", post).boolean("did", did).num("ret", ret)
         .boolean("end", end).num("at", at).str("res", res).emit();
   }
   void iterDrop() { dropIter(); vj::Line().str("e", "IterDrop").emit(); }

   // ---- the second object
   void swapEmit() {   // Swap needs the projection of the second object as well: emitted as one line
      dropIter();
      const char* res = "ok";
      try { DynamicBitset tmp(std::move(*cur)); *cur = std::move(*oth); *oth = std::move(tmp); } catch (const std::exception&) { res = "x"; }
      vj::Line ln; ln.str("e", "Swap").str("res", res);
      addProj(ln, "sz", "st", project(*cur));
      addProj(ln, "on", "oo", project(*oth));
      ln.emit();
   }
   void copyOther(const std::string& how) {
      vj::Line ln; ln.str("e", "CopyOther").str("s", how);
      mutate(ln, [&] { if (how == "assign") { const DynamicBitset& o = *oth; *cur = o; } else { const DynamicBitset& o = *oth; cur.reset(new DynamicBitset(o)); } });
   }
};

// ---------------------------------------------------------------- script mode
static Bits bitsOf(const vj::Value& a) {
   Bits b;
   b.n = static_cast<long>(a["on"].num());
   for (auto x : a["oo"].ints()) b.on.push_back(static_cast<long>(x));
   return b;
}

static void runScript(const char* path) {
   FILE* f = fopen(path, "r");
   if (!f) { fprintf(stderr, "cannot open %s\n", path); exit(3); }
   Session s;
   std::string line;
   bool started = false;
   while (vj::getline(f, line)) {
      if (line.empty()) continue;
      const vj::Value a = vj::parse(line);
      const std::string n = a["n"].str();
      if (n == "Reset") { s.reset(); started = true; continue; }
      if (!started) { s.reset(); started = true; }
      const long p = static_cast<long>(a["p"].num());
      const bool v = a["v"].boolean();
      if (n == "Assign") s.assign(a["s"].str(), bitsOf(a));
      else if (n == "CtorSize") s.ctorSize(p);
      else if (n == "SetAll" || n == "FlipAll" || n == "ResetAll") s.simple(n.c_str());
      else if (n == "Set") s.setBit(p, v);
      else if (n == "ResetBit") s.resetBit(p);
      else if (n == "FlipBit") s.flipBit(p);
      else if (n == "IndexWrite") s.indexWrite(p, v);
      else if (n == "IndexRead") s.indexRead(p);
      else if (n == "Resize") s.resize(p, v);
      else if (n == "AndAssign" || n == "OrAssign" || n == "XorAssign") { Bits o = bitsOf(a); s.logicAssign(n, a["s"].str() == "self" ? Session::selfMark() : &o); }
      else if (n == "ShlAssign" || n == "ShrAssign") s.shiftAssign(n, p);
      else if (n == "And" || n == "Or" || n == "Xor" || n == "Eq") { Bits o = bitsOf(a); s.logic(n, a["s"].str() == "self" ? Session::selfMark() : &o); }
      else if (n == "Shl" || n == "Shr") s.shift(n, p);
      else if (n == "Not") s.negate();
      else if (n == "Test") s.test(p, a["s"].str());
      else if (n == "Observe") s.observe(p, static_cast<long>(a["q"].num()));
      else if (n == "Iterate") s.iterate(a["s"].str(), p);
      else if (n == "IterBegin") s.iterBegin(a["s"].str(), p);
      else if (n == "IterNext") s.iterStep(true, v);
      else if (n == "IterPrev") s.iterStep(false, v);
      else if (n == "IterDrop") s.iterDrop();
      else { fprintf(stderr, "unknown action %s\n", n.c_str()); exit(3); }
   }
   fclose(f);
}

// ---------------------------------------------------------------- random mode
static const long kSizes[] = {0, 1, 2, 3, 5, 8, 13, 31, 32, 33, 62, 63, 64, 65, 66, 100, 126, 127, 128, 129, 130, 191, 192, 193, 200};
static const long kMaxSize = 420;   // keeps growth (x1.5) and left shifts bounded

static Bits randomBits(vh::Rng& rng, long n) {
   Bits b; b.n = n;
   const int mode = static_cast<int>(rng.below(5));   // 0 empty, 1 full, 2 sparse, 3 dense, 4 half
   for (long i = 0; i < n; ++i) {
      bool on;
      switch (mode) {
      case 0: on = false; break;
      case 1: on = true; break;
      case 2: on = rng.chance(1, 12); break;
      case 3: on = !rng.chance(1, 12); break;
      default: on = rng.chance(1, 2); break;
      }
      if (on) b.on.push_back(i);
   }
   return b;
}
static long randomSize(vh::Rng& rng) { return rng.chance(1, 6) ? rng.range(0, 200) : kSizes[rng.below(sizeof kSizes / sizeof kSizes[0])]; }

static long randomPos(vh::Rng& rng, long size, bool mayGrow) {
   if (mayGrow && size < 260) {
      switch (rng.below(8)) {
      case 0: return size;
      case 1: return size + 1;
      case 2: return size + 2;
      case 3: return size > 0 ? size - 1 : 0;
      default: break;
      }
   }
   if (size == 0) return mayGrow && size < 260 ? rng.range(0, 2) : 0;
   return rng.range(0, size - 1);
}

static void runRandom(uint64_t seed, long cases, long ops) {
   vh::Rng rng(seed);
   static const char* const kKinds[] = {"vec_copy", "vec_move", "bitset", "dbs_copy", "dbs_move", "ctor_vec", "ctor_vec_move", "ctor_bitset", "ctor_copy", "ctor_move"};
   for (long c = 0; c < cases; ++c) {
      Session s;
      s.reset();
      // start: both objects get a content
      s.assign(kKinds[rng.below(10)], randomBits(rng, randomSize(rng)));
      s.swapEmit();
      if (rng.chance(1, 2)) s.assign(kKinds[rng.below(10)], randomBits(rng, randomSize(rng)));
      else s.ctorSize(randomSize(rng));
      for (long o = 0; o < ops; ++o) {
         const long size = static_cast<long>(s.cur->size());
         const bool big = size >= kMaxSize;
         // operand: same size, +-1, unrelated, or the second object
         auto opnd = [&](Bits& store) -> const Bits* {
            switch (rng.below(6)) {
            case 0: return nullptr;
            case 5: return Session::selfMark();      // the object itself as operand
            case 1: store = randomBits(rng, size); break;
            case 2: store = randomBits(rng, size + 1); break;
            case 3: store = randomBits(rng, size > 0 ? size - 1 : 0); break;
            default: store = randomBits(rng, randomSize(rng)); break;
            }
            return &store;
         };
         Bits store;
         if (s.iter && rng.chance(3, 4)) {
            switch (rng.below(8)) {
            case 0: case 1: case 2: case 3: s.iterStep(true, rng.chance(1, 2)); break;
            case 4: case 5: s.iterStep(false, rng.chance(1, 2)); break;
            case 6: s.observe('0', '1'); break;
            default: s.iterDrop(); break;
            }
            continue;
         }
         switch (rng.below(40)) {
         case 0: s.assign(kKinds[rng.below(10)], randomBits(rng, randomSize(rng))); break;
         case 1: s.ctorSize(randomSize(rng)); break;
         case 2: s.simple("SetAll"); break;
         case 3: if (rng.chance(1, 3)) s.simple("ResetAll"); else s.simple("FlipAll"); break;
         case 4: s.simple("FlipAll"); break;
         case 5: case 6: case 7: s.setBit(randomPos(rng, size, !big), rng.chance(2, 3)); break;
         case 8: case 9: s.resetBit(randomPos(rng, size, !big)); break;
         case 10: case 11: s.flipBit(randomPos(rng, size, !big)); break;
         case 12: case 13: s.indexWrite(randomPos(rng, size, !big), rng.chance(2, 3)); break;
         case 14: case 15: s.indexRead(randomPos(rng, size, !big)); break;
         case 16: { long ns = rng.chance(1, 2) ? randomSize(rng) : size + rng.range(-2, 2); s.resize(ns < 0 ? 0 : ns, rng.chance(1, 2)); break; }
         case 17: s.logicAssign("AndAssign", opnd(store)); break;
         case 18: s.logicAssign("OrAssign", opnd(store)); break;
         case 19: s.logicAssign("XorAssign", opnd(store)); break;
         case 20: s.shiftAssign("ShlAssign", big ? 0 : (rng.chance(1, 2) ? rng.range(0, 3) : rng.range(0, size + 2 > 70 ? 70 : size + 2))); break;
         case 21: case 22: s.shiftAssign("ShrAssign", rng.chance(1, 3) ? size + rng.range(0, 2) : rng.range(0, size + 2)); break;
         case 23: s.logic("And", opnd(store)); break;
         case 24: s.logic("Or", opnd(store)); break;
         case 25: s.logic("Xor", opnd(store)); break;
         case 26: if (rng.chance(1, 2)) { store = project(*s.cur); if (rng.chance(1, 2) && !store.on.empty()) store.on.pop_back(); s.logic("Eq", &store); } else s.logic("Eq", opnd(store)); break;
         case 27: s.shift("Shl", rng.range(0, size + 2 > 70 ? 70 : size + 2)); break;
         case 28: s.shift("Shr", rng.chance(1, 3) ? size + rng.range(0, 2) : rng.range(0, size + 2)); break;
         case 29: s.negate(); break;
         case 30: case 31: s.test(randomPos(rng, size, true), rng.chance(1, 2) ? "test" : "index"); break;
         case 32: case 33: if (rng.chance(1, 4)) s.observe(rng.range(33, 126), rng.range(33, 126)); else s.observe('0', '1'); break;
         case 34: case 35: s.iterate(rng.chance(1, 2) ? "fwd" : "rev", rng.range(0, 2)); break;
         case 36: case 37: s.iterBegin(rng.chance(1, 2) ? "fwd" : "rev", rng.range(0, 1)); break;
         case 38: s.swapEmit(); break;
         default: s.copyOther(rng.chance(1, 2) ? "assign" : "ctor"); break;
         }
      }
   }
}

int main(int argc, char** argv) {
   vh::init();
   const char* script = vh::arg(argc, argv, "--script");
   if (script != nullptr) runScript(script);
   else runRandom(static_cast<uint64_t>(vh::argnum(argc, argv, "--seed", 1)), vh::argnum(argc, argv, "--cases", 10), vh::argnum(argc, argv, "--ops", 200));
   vh::end();
   return 0;
}
