// Conformance driver for celma::format::TextBlock  (property C17).
//   textblock_driver --script FILE                          replay of TLC-generated action sequences
//   textblock_driver --random --seed S --cases K --texts M   random texts
//   textblock_driver --text T --indent I --width W --first 0|1 [--show]   one call (\n in T = newline); --show also
//                                                           prints the output to stderr with '.' for blanks
// Output: ndjson trace on stdout (see specs/textblock/TraceTextBlock.tla for the event format).
// The driver only records: constructor arguments, the text passed to format() and the bytes format()
// wrote.  It neither splits the output nor computes any expected layout.
#include <memory>
#include <set>
#include <sstream>
#include <string>
#include <vector>
#include "common/vharness.hpp"
#include "celma/format/text_block.hpp"

using celma::format::TextBlock;

struct Session {
   std::unique_ptr<TextBlock> tb;
   long nformat = 0;
   void reset(long indent, long width, bool first) {
      tb = std::make_unique<TextBlock>(static_cast<int>(indent), static_cast<int>(width), first);
      vj::Line().str("e", "Reset").num("indent", indent).num("width", width).boolean("first", first).emit();
   }
   void format(const std::string& text) {
      if (!tb) return;
      // the caller's text in an exactly sized heap string (no spare capacity behind the last byte)
      std::unique_ptr<std::string> in(new std::string(text));
      in->shrink_to_fit();
      // the destination stream is the caller's: it may carry sticky formatting state from earlier output (fill
      // character, adjustment, number base); the block must come out the same (three of four calls get such a stream)
      std::ostringstream os;
      const long st = nformat++ % 4;
      if (st == 1) { os.fill('0'); os.setf(std::ios::right, std::ios::adjustfield); }
      else if (st == 2) { os.fill('.'); os.setf(std::ios::left, std::ios::adjustfield); }
      else if (st == 3) { os.fill('*'); os.setf(std::ios::internal, std::ios::adjustfield); os.setf(std::ios::hex, std::ios::basefield); os.setf(std::ios::showbase | std::ios::uppercase); }
      const char* res = "ok";
      try { tb->format(os, *in); } catch (const std::exception&) { res = "exception"; }
      if (!os.good()) res = "badstream";
      vj::Line().str("e", "Format").bytes("text", text).bytes("out", os.str()).str("res", res).num("fill", static_cast<long>(os.fill())).emit();
   }
};

// ---------------------------------------------------------------- script mode
// A model token [len, dash, nn] at (0-based) global position k is rendered as
//   nn            -> "nn"
//   dash, len n   -> '-' followed by n-1 letters
//   otherwise     -> n letters
// where the first letter is an upper-case letter that depends on k (reordering, loss and duplication
// are visible) and the remaining letters are 'x'.  No rendered word equals "nn" or contains a blank.
static std::string render(long len, bool dash, bool nn, long k) {
   if (nn) return "nn";
   std::string w;
   if (dash) w.push_back('-');
   if (static_cast<long>(w.size()) < len) w.push_back(static_cast<char>('A' + k % 26));
   while (static_cast<long>(w.size()) < len) w.push_back('x');
   return w;
}
// lines joined by '\n', tokens by one blank; a line without tokens is rendered as one blank (the
// only way a line can be non-empty and hold no word)
static std::string renderText(const std::vector<std::vector<std::string>>& lines) {
   std::string t;
   for (size_t i = 0; i < lines.size(); ++i) {
      if (i) t.push_back('\n');
      if (lines[i].empty()) t.push_back(' ');
      for (size_t j = 0; j < lines[i].size(); ++j) { if (j) t.push_back(' '); t += lines[i][j]; }
   }
   return t;
}

// ---------------------------------------------------------------- random mode
static std::string randomWord(vh::Rng& rng, long avail, long width) {
   static const char alpha[] = "abcdefghijklmnopqrstuvwxyzABCDEFGHIJKLMNOPQRSTUVWXYZ0123456789.,;:()-_/'\"!?=+*#<>[]{}|~@%&$^`\\";
   long len;
   switch (rng.below(12)) {
   case 0: len = avail + rng.range(-3, 3); break;             // around the room behind the indentation
   case 1: len = width + rng.range(0, 6); break;              // longer than a whole line
   case 2: len = rng.range(1, 2); break;
   case 3: len = rng.range(10, 25); break;
   default: len = rng.range(1, 9); break;
   }
   if (len < 1) len = 1;
   std::string w;
   switch (rng.below(16)) {
   case 0: w.assign(static_cast<size_t>(len), 'n'); if (w == "nn") w = "nnn"; break;   // look-alikes of the break token
   case 1: w = "-"; break;
   case 2: w = "--"; break;
   default:
      for (long i = 0; i < len; ++i) w.push_back(alpha[rng.below(sizeof alpha - 1)]);
      if (w == "nn") w = "nN";
   }
   return w;
}

static std::string randomText(vh::Rng& rng, long indent, long width) {
   const long avail = width - indent;
   const long nwords = rng.chance(1, 10) ? rng.range(0, 3) : rng.range(1, 200);
   const bool messy = rng.chance(1, 4);          // multiple blanks / newlines, leading and trailing ones
   const unsigned nlDen = static_cast<unsigned>(rng.range(4, 40));
   std::string t;
   bool lineStart = true;
   if (messy && rng.chance(1, 3)) t += rng.chance(1, 2) ? "\n" : " ";
   for (long i = 0; i < nwords; ++i) {
      std::string w;
      if (rng.chance(1, 20)) w = "nn";
      else {
         w = randomWord(rng, avail, width);
         if (lineStart && rng.chance(1, 3)) w = (rng.chance(1, 2) ? "-" : "-" + w);   // list entry
      }
      if (!lineStart) { t.push_back(' '); if (messy && rng.chance(1, 8)) t.append(static_cast<size_t>(rng.range(1, 3)), ' '); }
      t += w;
      lineStart = false;
      if (i + 1 < nwords && rng.chance(1, nlDen)) {
         if (messy && rng.chance(1, 6)) t.push_back(' ');                                // blank before the newline
         t.push_back('\n');
         if (messy && rng.chance(1, 5)) t.append(static_cast<size_t>(rng.range(1, 3)), '\n');   // empty lines
         if (messy && rng.chance(1, 10)) t += " \n";                                      // a line of one blank
         lineStart = true;
         if (messy && rng.chance(1, 6)) { t.push_back(' '); }                            // blank after the newline
      }
   }
   if (messy && rng.chance(1, 3)) t += rng.chance(1, 2) ? "\n" : " ";
   return t;
}

int main(int argc, char** argv) {
   vh::init();
   const char* script = vh::arg(argc, argv, "--script");
   Session s;
   if (script != nullptr) {
      FILE* f = fopen(script, "r");
      if (!f) { fprintf(stderr, "cannot open %s\n", script); return 3; }
      std::vector<vj::Value> acts;
      std::string line;
      while (vj::getline(f, line)) if (!line.empty()) acts.push_back(vj::parse(line));
      fclose(f);
      std::set<std::string> done;        // (configuration, text) pairs already formatted: sequences share prefixes
      std::vector<std::vector<std::string>> lines;
      long ntok = 0;
      std::string cfgKey;
      for (size_t i = 0; i < acts.size(); ++i) {
         const auto& a = acts[i];
         const std::string n = a["n"].str();
         if (n == "Reset") {
            // the configuration is carried by the first action after the Reset
            long indent = 0, width = 10; bool first = true;
            if (i + 1 < acts.size()) { indent = acts[i + 1]["indent"].num(); width = acts[i + 1]["width"].num(10); first = acts[i + 1]["first"].boolean(); }
            s.reset(indent, width, first);
            lines.clear();
            ntok = 0;
            cfgKey = std::to_string(indent) + "/" + std::to_string(width) + "/" + (first ? "1" : "0") + "/";
            continue;
         }
         if (n == "BeginLine") lines.emplace_back();
         else {   // ForcedBreak, Wrap, FirstWord, NextWord: one token
            if (lines.empty()) lines.emplace_back();
            lines.back().push_back(render(a["len"].num(), a["dash"].boolean(), a["nn"].boolean(), ntok));
            ++ntok;
         }
         const std::string text = renderText(lines);
         if (done.insert(cfgKey + text).second) s.format(text);
      }
   } else if (const char* t = vh::arg(argc, argv, "--text")) {
      std::string text;
      for (const char* p = t; *p; ++p) {
         if (p[0] == '\\' && p[1] == 'n') { text.push_back('\n'); ++p; } else text.push_back(*p);
      }
      s.reset(vh::argnum(argc, argv, "--indent", 0), vh::argnum(argc, argv, "--width", 80), vh::argnum(argc, argv, "--first", 1) != 0);
      s.format(text);
      if (vh::flag(argc, argv, "--show")) {
         std::ostringstream os;
         s.tb->format(os, text);
         std::string o = os.str();
         for (char& ch : o) if (ch == ' ') ch = '.';
         fprintf(stderr, "%s\n", o.c_str());
      }
   } else {
      vh::Rng rng(static_cast<uint64_t>(vh::argnum(argc, argv, "--seed", 1)));
      const long cases = vh::argnum(argc, argv, "--cases", 10);
      const long texts = vh::argnum(argc, argv, "--texts", 4);
      for (long c = 0; c < cases; ++c) {
         long width = rng.chance(1, 5) ? rng.range(6, 19) : rng.range(20, 120);
         long indent = rng.chance(1, 4) ? 0 : rng.range(0, width / 3);
         if (indent + 3 > width) indent = 0;
         s.reset(indent, width, rng.chance(1, 2));
         for (long k = 0; k < texts; ++k) s.format(randomText(rng, indent, width));
      }
   }
   vh::end();
   return 0;
}
