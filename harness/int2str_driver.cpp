// Conformance driver for celma::format::int2string() / grouped_int2string() / GroupedInt<>  (property C13).
//   int2str_driver --script FILE                      replay of TLC-generated Conv actions (one value per action)
//   int2str_driver --random --seed S --cases K        boundary families of all widths + K seeded random values
//   common: --groups all|rotate   all five group characters per value (default) or one, rotating
// Every value goes through all function variants; one "Conv" event per call (format: specs/int2str/TraceInt2Str.tla).
// The driver only records: the bits of the argument, what the function returned / wrote, and what
// celma::format::stringTo<T>() reads back from that text.  It computes no expected text.
#include <cstring>
#include <memory>
#include <sstream>
#include <string>
#include <type_traits>
#include <vector>
#include "common/vharness.hpp"
#include "celma/format/int2string.hpp"
#include "celma/format/grouped_int2string.hpp"
#include "celma/format/string_to.hpp"

namespace cf = celma::format;

static const int kNumGroups = 7;
static const char kGroups[kNumGroups] = {'\'', ',', '.', ' ', '_', '\0', static_cast<char>(0xFF)};   // incl. NUL and a byte > 127
static bool gAllGroups = true;
static unsigned long gRotate = 0;

// ---------------------------------------------------------------- value <-> bits
template <typename T> static std::vector<int> bitsOf(T v) {
   using U = std::make_unsigned_t<T>;
   U u;
   memcpy(&u, &v, sizeof u);
   std::vector<int> b;
   for (int i = static_cast<int>(sizeof(T) * 8) - 1; i >= 0; --i) b.push_back(static_cast<int>((u >> i) & 1u));
   return b;
}
template <typename T> static T fromPattern(uint64_t x) {
   using U = std::make_unsigned_t<T>;
   U u = static_cast<U>(x);
   T v;
   memcpy(&v, &u, sizeof v);
   return v;
}

// ---------------------------------------------------------------- caller's buffer: guard | n bytes | guard, one heap block
struct Guarded {
   static constexpr size_t G = 8;
   size_t n;
   std::unique_ptr<unsigned char[]> blk;
   explicit Guarded(size_t len) : n(len), blk(new unsigned char[G + len + G]) {
      memset(blk.get(), 0xA5, G);
      memset(blk.get() + G, 'Z', n);
      memset(blk.get() + G + n, 0xA5, G);
   }
   char* buf() { return reinterpret_cast<char*>(blk.get() + G); }
   bool guardsOk() const {
      for (size_t i = 0; i < G; ++i)
         if (blk[i] != 0xA5 || blk[G + n + i] != 0xA5) return false;
      return true;
   }
   std::string text() const {   // content in front of the first NUL
      size_t k = 0;
      while (k < n && blk[G + k] != 0) ++k;
      return std::string(reinterpret_cast<const char*>(blk.get() + G), k);
   }
   std::string textN(long len) const {   // the first len bytes (texts with an embedded NUL group character)
      if (len < 0) return text();
      const size_t k = std::min(static_cast<size_t>(len), n);
      return std::string(reinterpret_cast<const char*>(blk.get() + G), k);
   }
   bool nulAt(long pos) const { return pos >= 0 && static_cast<size_t>(pos) < n && blk[G + pos] == 0; }
};

// ---------------------------------------------------------------- one event
template <typename T>
static void record(const char* fn, T value, char g, bool dflt, const std::string& text, long ret, bool nul, bool guardOk) {
   std::string plain;
   const bool grouped = fn[0] == 'g';
   for (char c : text)
      if (!grouped || c != g) plain.push_back(c);
   std::vector<int> back;
   try {
      const T b = cf::stringTo<T>(plain);
      back = bitsOf(b);
   } catch (const std::exception&) {
   }
   if (ret > 1000000 || ret < -1000000) ret = -1;
   vj::Line().str("e", "Conv").num("w", static_cast<long long>(sizeof(T) * 8)).boolean("signed", std::is_signed<T>::value)
      .ints("bits", bitsOf(value)).str("fn", fn).num("g", static_cast<unsigned char>(g)).boolean("dflt", dflt)
      .bytes("text", text).num("ret", ret).boolean("nul", nul).boolean("guard_ok", guardOk).ints("back", back).emit();
}

template <typename T> static void recordString(const char* fn, T value, char g, bool dflt, const std::string& s) {
   record(fn, value, g, dflt, s, static_cast<long>(s.size()), s.c_str()[s.size()] == '\0', true);
}

template <typename T, char S> static std::string viaStream(T value) {
   std::ostringstream os;
   os << cf::GroupedInt<T, S>(value);
   return os.str();
}
template <typename T> static std::string viaStreamG(T value, char g) {
   switch (g) {
   case '\'': return viaStream<T, '\''>(value);
   case ',': return viaStream<T, ','>(value);
   case '.': return viaStream<T, '.'>(value);
   case ' ': return viaStream<T, ' '>(value);
   case '\0': return viaStream<T, '\0'>(value);
   case static_cast<char>(0xFF): return viaStream<T, static_cast<char>(0xFF)>(value);
   default: return viaStream<T, '_'>(value);
   }
}

// ---------------------------------------------------------------- all variants for one value
template <typename T> static void runAll(T value) {
   // std::string int2string(T)
   const std::string s = cf::int2string(value);
   recordString("str", value, '\'', false, s);
   // int int2string(char*, T): buffer of exactly the text length + NUL
   {
      Guarded b(s.size() + 1);
      const int ret = cf::int2string(b.buf(), value);
      record("buf", value, '\'', false, b.text(), ret, b.nulAt(ret), b.guardsOk());
   }
   for (int gi = 0; gi < kNumGroups; ++gi) {
      if (!gAllGroups && gi != static_cast<int>(gRotate % kNumGroups)) continue;
      const char g = kGroups[gi];
      const std::string gs = cf::grouped_int2string(value, g);
      recordString("gstr", value, g, false, gs);
      {
         Guarded b(gs.size() + 1);
         const int ret = cf::grouped_int2string(b.buf(), value, g);
         record("gbuf", value, g, false, g == '\0' ? b.textN(ret) : b.text(), ret, b.nulAt(ret), b.guardsOk());
      }
      recordString("gstream", value, g, false, viaStreamG(value, g));
      if (g == '\'') {   // the same with the group character left to the default argument
         const std::string gd = cf::grouped_int2string(value);
         recordString("gstr", value, g, true, gd);
         Guarded b(gd.size() + 1);
         const int ret = cf::grouped_int2string(b.buf(), value);
         record("gbuf", value, g, true, b.text(), ret, b.nulAt(ret), b.guardsOk());
         std::ostringstream os;
         os << cf::groupedInt(value);
         recordString("gstream", value, g, true, os.str());
      }
   }
   ++gRotate;
}

static void runPattern(int w, bool sg, uint64_t x) {
   switch (w) {
   case 8: if (sg) runAll(fromPattern<int8_t>(x)); else runAll(fromPattern<uint8_t>(x)); break;
   case 16: if (sg) runAll(fromPattern<int16_t>(x)); else runAll(fromPattern<uint16_t>(x)); break;
   case 32: if (sg) runAll(fromPattern<int32_t>(x)); else runAll(fromPattern<uint32_t>(x)); break;
   case 64: if (sg) runAll(fromPattern<int64_t>(x)); else runAll(fromPattern<uint64_t>(x)); break;
   default: break;
   }
}

static void reset() { vj::Line().str("e", "Reset").emit(); }

static uint64_t maskOf(int w) { return w == 64 ? ~0ull : ((1ull << w) - 1); }

// ---------------------------------------------------------------- input generators (inputs only, no expected results)
static void families(int perReset) {
   static const int widths[] = {8, 16, 32, 64};
   int cnt = 0;
   for (int w : widths) {
      std::vector<uint64_t> bases;
      bases.push_back(0);
      for (int k = 0; k < w; ++k) bases.push_back(1ull << k);
      for (uint64_t p = 1;; p *= 10) {
         if (p > maskOf(w)) break;
         bases.push_back(p);
         if (p > maskOf(w) / 10) break;
      }
      for (uint64_t b : bases)
         for (int d = -2; d <= 2; ++d)
            for (int sg = 0; sg < 2; ++sg) {
               if (cnt++ % perReset == 0) reset();
               runPattern(w, sg != 0, (b + static_cast<uint64_t>(static_cast<int64_t>(d))) & maskOf(w));
            }
   }
}

static void randoms(vh::Rng& rng, long cases, int perReset) {
   static const int wsel[] = {8, 16, 16, 16, 32, 32, 32, 32, 32, 32, 32, 32, 64, 64, 64, 64, 64, 64, 64, 64};
   for (long c = 0; c < cases; ++c) {
      if (c % perReset == 0) reset();
      const int w = wsel[rng.below(sizeof wsel / sizeof wsel[0])];
      const bool sg = rng.chance(1, 2);
      const uint64_t m = maskOf(w);
      uint64_t x = 0;
      switch (rng.below(5)) {
      case 0: x = rng.next(); break;                                           // uniform bit pattern
      case 1: {                                                                // uniform bit length
         const int nb = static_cast<int>(rng.range(1, w));
         x = (rng.next() & maskOf(nb)) | (1ull << (nb - 1));
         break; }
      case 2: {                                                                // close to a power of ten
         uint64_t p = 1;
         int k = static_cast<int>(rng.below(20));
         while (k-- > 0 && p <= m / 10) p *= 10;
         x = p + static_cast<uint64_t>(rng.range(-1000, 1000));
         break; }
      case 3: {                                                                // uniform number of decimal digits
         uint64_t lo = 1;
         int k = static_cast<int>(rng.below(20));
         while (k-- > 0 && lo <= m / 10) lo *= 10;
         const uint64_t hi = lo <= m / 10 ? lo * 10 - 1 : m;
         x = lo + rng.below(hi - lo + 1);
         break; }
      default: {                                                               // close to a power of two
         const int k = static_cast<int>(rng.below(static_cast<uint64_t>(w)));
         x = (1ull << k) + static_cast<uint64_t>(rng.range(-70000, 70000));
         break; }
      }
      x &= m;
      if (sg && rng.chance(1, 2)) x = (~x + 1) & m;                            // the negative of it
      runPattern(w, sg, x);
   }
}

int main(int argc, char** argv) {
   vh::init();
   gAllGroups = std::string(vh::arg(argc, argv, "--groups", "all")) != "rotate";
   const char* script = vh::arg(argc, argv, "--script");
   if (script != nullptr) {
      FILE* f = fopen(script, "r");
      if (!f) { fprintf(stderr, "cannot open %s\n", script); return 3; }
      std::string line;
      bool any = false;
      while (vj::getline(f, line)) {
         if (line.empty()) continue;
         const vj::Value a = vj::parse(line);
         const std::string n = a["n"].str();
         if (n == "Reset") { reset(); any = true; }
         else if (n == "Conv") {
            if (!any) { reset(); any = true; }
            const std::vector<int64_t> bits = a["bits"].ints();
            uint64_t x = 0;
            for (int64_t b : bits) x = (x << 1) | static_cast<uint64_t>(b & 1);
            const int w = static_cast<int>(a["w"].num());
            if (static_cast<size_t>(w) != bits.size()) { fprintf(stderr, "bad action: %s\n", line.c_str()); return 3; }
            runPattern(w, a["sg"].boolean(), x);
         }
      }
      fclose(f);
   } else {
      vh::Rng rng(static_cast<uint64_t>(vh::argnum(argc, argv, "--seed", 1)));
      const long cases = vh::argnum(argc, argv, "--cases", 1000);
      const int perReset = static_cast<int>(vh::argnum(argc, argv, "--per-reset", 20));
      if (!vh::flag(argc, argv, "--no-families")) families(perReset);
      randoms(rng, cases, perReset);
   }
   vh::end();
   return 0;
}
