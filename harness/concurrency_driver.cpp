// Conformance driver for celma::common::Singleton<T> and celma::common::ManagedThread (property C20).
//   concurrency_driver --comp sgl|mt --script FILE                 forced schedules (activity R)
//   concurrency_driver --comp sgl|mt --random --seed S --cases K   free-running rounds (activity T)
// Output: ndjson trace on stdout (event formats: specs/concurrency/TraceSingleton.tla, TraceManagedThread.tla).
//
// Forced mode: every thread of the code under test parks at each verification point
// (CELMA_VERIF_POINT in singleton.hpp / managed_thread.hpp, plus points in the driver's own test type and
// thread function).  The main thread is the scheduler: a script line `t:Step` releases thread t and waits
// until it is parked at its next point (or has finished), then records from-point, to-point and the
// observable values.  The scheduler talks to the threads through RELAXED atomics and spinning only, so it
// adds no happens-before edge between threads of the code under test: ThreadSanitizer still sees every race
// of the code itself.  (Assumption: x86-TSO and no compiler reordering of atomic operations, so that the
// relaxed protocol is nevertheless reliable.)  The only acquire/release pairs of the harness are those a
// real user needs as well: handing the ManagedThread object from its creator to its owner, and the
// started/finish handshake of the thread function in free-running mode.
//
// A ThreadSanitizer report increments a counter (__tsan_on_report); after each execution the driver writes
// a {"e":"Race"} event if the counter moved.  No specification has an action for it.
#include <atomic>
#include <cstring>
#include <memory>
#include <sched.h>
#include <thread>
#include <time.h>
#include <vector>
#include "common/vharness.hpp"
#include "celma/common/singleton.hpp"
#include "celma/common/managed_thread.hpp"

#ifndef CELMA_VERIF
#error "the concurrency driver needs -DCELMA_VERIF (verification points)"
#endif

// ------------------------------------------------------------------------------------------ race sensor
static std::atomic<int> g_reports{0};
extern "C" void __tsan_on_report(void*) { g_reports.fetch_add(1, std::memory_order_relaxed); }

// ------------------------------------------------------------------------------------------ points
enum SlotKind { K_TLS, K_CREATOR, K_THREAD };
struct PointDef { const char* full; const char* name; SlotKind kind; };
static const PointDef kPoints[] = {
   {"?", "unknown", K_TLS},
   {"sgl.fast_read", "fast_read", K_TLS}, {"sgl.lock", "lock", K_TLS}, {"sgl.slow_read", "slow_read", K_TLS},
   {"t.ctor.begin", "ctor_begin", K_TLS}, {"t.ctor.end", "ctor_end", K_TLS}, {"sgl.published", "published", K_TLS},
   {"sgl.unlock", "unlock", K_TLS}, {"sgl.return", "return", K_TLS},
   {"c.begin", "begin", K_CREATOR}, {"mt.ctor.after_spawn", "after_spawn", K_CREATOR},
   {"mt.thr.before_set", "before_set", K_THREAD}, {"mt.thr.after_set", "after_set", K_THREAD},
   {"f.in", "in_func", K_THREAD}, {"mt.thr.after_func", "after_func", K_THREAD},
   {"mt.thr.after_clear", "after_clear", K_THREAD},
};
static const int kNumPoints = sizeof kPoints / sizeof kPoints[0];
static const int P_DONE = 200;      // pseudo point: the thread's body has finished
static const int P_NONE = 201;      // pseudo point: nothing arrived yet
static int pointId(const char* full) {
   for (int i = 1; i < kNumPoints; ++i) if (strcmp(kPoints[i].full, full) == 0) return i;
   return 0;
}
static const char* pointName(int id, const char* doneName) {
   if (id == P_DONE) return doneName;
   if (id == P_NONE) return "none";
   return id >= 0 && id < kNumPoints ? kPoints[id].name : "unknown";
}

// ------------------------------------------------------------------------------------------ scheduler
// arrive word: bits 0..7 point id, 8..15 argument found, 16..39 object number found, 40..63 arrival count
struct Slot {
   std::atomic<uint64_t> arrive{static_cast<uint64_t>(P_NONE)};
   std::atomic<uint64_t> go{0};
   std::vector<int> path;            // free-running mode: written by the owning thread only, read after join
   vh::Rng rng{1};
   void reset(uint64_t seed) { arrive.store(P_NONE, std::memory_order_relaxed); go.store(0, std::memory_order_relaxed); path.clear(); rng = vh::Rng(seed); }
};
static const int MAXT = 17;   // threads 1..16
static Slot g_slots[MAXT + 2];
static Slot& g_creator = g_slots[MAXT];
static Slot& g_thread = g_slots[MAXT + 1];
static thread_local Slot* tl_slot = nullptr;
static bool g_forced = false;                  // written by main while no other thread runs
static std::atomic<int> g_abandon{0};          // forced mode: let everybody run to the end

static inline uint64_t cnt(uint64_t w) { return w >> 40; }
static inline int pt(uint64_t w) { return static_cast<int>(w & 0xff); }
static void pauseABit(unsigned& n) { if (++n < 64) { __asm__ __volatile__("pause"); } else { sched_yield(); } }

static void arriveAt(Slot* sl, int id, uint64_t extra = 0) {
   const uint64_t k = cnt(sl->arrive.load(std::memory_order_relaxed)) + 1;
   sl->arrive.store((k << 40) | extra | static_cast<uint64_t>(id), std::memory_order_relaxed);
   if (id == P_DONE) return;
   unsigned n = 0;
   while (sl->go.load(std::memory_order_relaxed) < k && g_abandon.load(std::memory_order_relaxed) == 0) pauseABit(n);
}

static void onPoint(const char* full) {
   const int id = pointId(full);
   Slot* sl = kPoints[id].kind == K_TLS ? tl_slot : kPoints[id].kind == K_CREATOR ? &g_creator : &g_thread;
   if (sl == nullptr) return;
   if (g_forced) {
      if (g_abandon.load(std::memory_order_relaxed) == 0) arriveAt(sl, id);
      return;
   }
   sl->path.push_back(id);
   switch (sl->rng.below(4)) {           // seeded perturbation of the schedule
   case 0: sched_yield(); break;
   case 1: { unsigned k = static_cast<unsigned>(sl->rng.below(300)); for (volatile unsigned i = 0; i < k; ++i) {} break; }
   default: break;
   }
}

static double now() { timespec ts; clock_gettime(CLOCK_MONOTONIC, &ts); return ts.tv_sec + ts.tv_nsec * 1e-9; }
static const double kStuckAfter = 3.0;

// wait until the thread is parked at a point (arrival count > releases) or done; false on timeout
static bool waitParked(Slot& sl, uint64_t& w) {
   unsigned n = 0; double t0 = 0;
   for (;;) {
      w = sl.arrive.load(std::memory_order_relaxed);
      if (pt(w) != P_NONE && (pt(w) == P_DONE || cnt(w) > sl.go.load(std::memory_order_relaxed))) return true;
      pauseABit(n);
      if ((n & 1023) == 0) { if (t0 == 0) t0 = now(); else if (now() - t0 > kStuckAfter) return false; }
   }
}
// release a parked thread; wait for its next arrival unless nowait.  Returns false on timeout.
static bool releaseAndWait(Slot& sl, uint64_t before, uint64_t& after, bool nowait = false) {
   sl.go.store(cnt(before), std::memory_order_relaxed);
   if (nowait) { after = before; return true; }
   unsigned n = 0; double t0 = 0;
   for (;;) {
      after = sl.arrive.load(std::memory_order_relaxed);
      if (cnt(after) > cnt(before)) return true;
      pauseABit(n);
      if ((n & 1023) == 0) { if (t0 == 0) t0 = now(); else if (now() - t0 > kStuckAfter) return false; }
   }
}

static int g_lastReports = 0;
static void emitRaceIfAny() {
   const int r = g_reports.load(std::memory_order_relaxed);
   if (r != g_lastReports) { vj::Line().str("e", "Race").num("reports", r - g_lastReports).emit(); g_lastReports = r; }
}

// ------------------------------------------------------------------------------------------ singleton under test
static std::atomic<int> g_ctors{0}, g_dtors{0};
class TestSgl : public celma::common::Singleton<TestSgl> {
   friend class celma::common::Singleton<TestSgl>;
public:
   ~TestSgl() override { g_dtors.fetch_add(1, std::memory_order_relaxed); }
   int id() const { return mId; }
   int arg() const { return mArg; }
   long sum() const { long s = 0; for (int v : mPayload) s += v; return s; }
protected:
   explicit TestSgl(int a) {
      onPoint("t.ctor.begin");
      mId = g_ctors.fetch_add(1, std::memory_order_relaxed) + 1;
      mArg = a;
      for (int i = 0; i < 8; ++i) mPayload[i] = a + i;
      onPoint("t.ctor.end");
   }
private:
   int mId = 0, mArg = 0;
   int mPayload[8];
};

static std::atomic<long> g_sink{0};
static std::atomic<int> g_ready{0}, g_startFlag{0};

static void sglOnce(int t, struct Slot* sl);
static void sglWorker(int t) {
   tl_slot = &g_slots[t];
   sglOnce(t, tl_slot);
}

struct SglRun {
   int n = 0;
   std::vector<std::thread> thr;
   std::vector<int> seq;
   bool active = false, stuck = false;
   void spawn(uint64_t seed) {
      g_abandon.store(0, std::memory_order_relaxed);
      g_ready.store(0, std::memory_order_relaxed); g_startFlag.store(0, std::memory_order_relaxed);
      for (int t = 1; t <= n; ++t) g_slots[t].reset(seed * 131 + static_cast<uint64_t>(t));
      thr.clear();
      for (int t = 1; t <= n; ++t) thr.emplace_back(sglWorker, t);
      seq.assign(static_cast<size_t>(n) + 1, 0);
   }
   void joinAll() { for (auto& th : thr) if (th.joinable()) th.join(); thr.clear(); }
   void abandon() { g_abandon.store(1, std::memory_order_relaxed); joinAll(); }
   void start(int k, uint64_t seed) {
      finish();
      TestSgl::reset();
      g_ctors.store(0, std::memory_order_relaxed); g_dtors.store(0, std::memory_order_relaxed);
      n = k; active = true; stuck = false;
      vj::Line().str("e", "Reset").num("n", n).emit();
      spawn(seed);
   }
   void finish() {
      if (!active) return;
      abandon();
      emitRaceIfAny();
      active = false;
   }
   void step(int t) {
      if (stuck || t < 1 || t > n) return;
      Slot& sl = g_slots[t];
      uint64_t before = 0, after = 0;
      if (!waitParked(sl, before)) { markStuck(t); return; }
      if (pt(before) == P_DONE) after = before;
      else if (!releaseAndWait(sl, before, after)) { markStuck(t); return; }
      const bool done = pt(after) == P_DONE;
      vj::Line().str("e", "Step").num("t", t).num("seq", ++seq[static_cast<size_t>(t)])
         .str("from", pointName(pt(before), "done")).str("to", pointName(pt(after), "done"))
         .num("ctors", g_ctors.load(std::memory_order_relaxed))
         .num("ret", done ? static_cast<long long>((after >> 16) & 0xffffff) : 0)
         .num("arg", done ? static_cast<long long>((after >> 8) & 0xff) : 0).emit();
   }
   void markStuck(int t) {
      vj::Line().str("e", "Stuck").num("t", t).emit();
      stuck = true;
      abandon();
   }
   void resetAll(uint64_t seed) {
      if (stuck) return;
      abandon();                          // in a maximal behaviour everybody is done already
      TestSgl::reset();
      vj::Line().str("e", "ResetAll").num("dtors", g_dtors.load(std::memory_order_relaxed)).emit();
      spawn(seed);
   }
};

// ---- free-running epochs: a pool of threads (created once: thread creation is slow under ThreadSanitizer).
// Main -> worker (start of an epoch) and worker -> main (end of an epoch) are release/acquire pairs: they
// order the harness's own bookkeeping and reset() against the epochs, exactly what joining and re-creating
// the threads would do.  Between the workers of one epoch there is only the relaxed spin barrier.
struct Pool {
   std::thread thr[MAXT];
   std::atomic<uint64_t> cmd[MAXT], done[MAXT];
   std::atomic<int> quit{0};
   int size = 0;
};
static Pool g_pool;

static void sglOnce(int t, Slot* sl) {
   TestSgl& r = TestSgl::instance(t);
   const int id = r.id(), a = r.arg();   // first use of the reference: plain reads of the object
   g_sink.store(r.sum(), std::memory_order_relaxed);
   const uint64_t extra = (static_cast<uint64_t>(id & 0xffffff) << 16) | (static_cast<uint64_t>(a & 0xff) << 8);
   if (g_forced) arriveAt(sl, P_DONE, extra);
   else { sl->path.push_back(P_DONE); sl->arrive.store(extra | P_DONE, std::memory_order_relaxed); }
}

static void poolWorker(int t) {
   Slot* sl = &g_slots[t];
   tl_slot = sl;
   uint64_t last = 0;
   for (;;) {
      uint64_t ticket; unsigned n = 0;
      while ((ticket = g_pool.cmd[t].load(std::memory_order_acquire)) == last) {
         if (g_pool.quit.load(std::memory_order_relaxed)) return;
         if (++n > 200) sched_yield();
      }
      last = ticket;
      g_ready.fetch_add(1, std::memory_order_relaxed);       // all threads leave the barrier together
      n = 0;
      while (g_startFlag.load(std::memory_order_relaxed) != static_cast<int>(ticket)) { if (++n > 5000) sched_yield(); }
      unsigned k = static_cast<unsigned>(sl->rng.below(200));
      for (volatile unsigned i = 0; i < k; ++i) {}
      sglOnce(t, sl);
      g_pool.done[t].store(ticket, std::memory_order_release);
   }
}

static void poolEpoch(int n, uint64_t ticket, uint64_t seed) {
   g_ready.store(0, std::memory_order_relaxed);
   for (int t = 1; t <= n; ++t) {
      g_slots[t].reset(seed * 131 + static_cast<uint64_t>(t));
      if (t > g_pool.size) { g_pool.cmd[t].store(0); g_pool.done[t].store(0); g_pool.thr[t] = std::thread(poolWorker, t); g_pool.size = t; }
      g_pool.cmd[t].store(ticket, std::memory_order_release);
   }
   unsigned k = 0;
   while (g_ready.load(std::memory_order_relaxed) < n) { if (++k > 200) sched_yield(); }
   g_startFlag.store(static_cast<int>(ticket), std::memory_order_relaxed);
   double t0 = 0;
   for (int t = 1; t <= n; ++t) {
      k = 0;
      while (g_pool.done[t].load(std::memory_order_acquire) != ticket) {
         if (++k > 200) sched_yield();
         if ((k & 0xffff) == 0) {         // an epoch takes microseconds; no termination within 20 s ends the run
            if (t0 == 0) t0 = now();
            else if (now() - t0 > 20.0) { vh::write_crash("hang: instance() did not return in every thread"); _exit(72); }
         }
      }
   }
   std::string rets = "[", args = "[", paths = "[";
   for (int t = 1; t <= n; ++t) {
      const uint64_t w = g_slots[t].arrive.load(std::memory_order_relaxed);
      if (t > 1) { rets += ","; args += ","; paths += ","; }
      rets += std::to_string((w >> 16) & 0xffffff);
      args += std::to_string((w >> 8) & 0xff);
      paths += "[";
      bool first = true;
      for (int p : g_slots[t].path) { if (!first) paths += ","; first = false; paths += "\""; paths += pointName(p, "done"); paths += "\""; }
      paths += "]";
   }
   rets += "]"; args += "]"; paths += "]";
   vj::Line().str("e", "Round").num("ctors", g_ctors.load(std::memory_order_relaxed)).raw("rets", rets).raw("args", args).raw("paths", paths).emit();
}

static int sglScript(const char* file) {
   FILE* f = fopen(file, "r");
   if (!f) { fprintf(stderr, "cannot open %s\n", file); return 2; }
   g_forced = true;
   SglRun run; std::string line; int stucks = 0; uint64_t k = 0;
   while (vj::getline(f, line)) {
      if (line.empty()) continue;
      vj::Value a = vj::parse(line);
      const std::string& nm = a["n"].str();
      if (nm == "Reset") { if (run.stuck && ++stucks >= 3) break; run.start(static_cast<int>(a["N"].num(2)), ++k); }
      else if (nm == "ResetAll") run.resetAll(++k);
      else run.step(static_cast<int>(a["t"].num()));
   }
   run.finish();
   fclose(f);
   TestSgl::reset();
   return 0;
}

static int sglRandom(uint64_t seed, long cases) {
   g_forced = false;
   vh::Rng rng(seed);
   uint64_t ticket = 0;
   for (long c = 0; c < cases; ++c) {
      const int n = static_cast<int>(c % 5 == 0 ? 16 : rng.range(2, 16));
      const int epochs = static_cast<int>(rng.range(1, 3));
      TestSgl::reset();
      g_ctors.store(0, std::memory_order_relaxed); g_dtors.store(0, std::memory_order_relaxed);
      vj::Line().str("e", "Reset").num("n", n).emit();
      for (int e = 0; e < epochs; ++e) {
         poolEpoch(n, ++ticket, rng.next());
         if (e + 1 < epochs) {
            TestSgl::reset();
            vj::Line().str("e", "ResetAll").num("dtors", g_dtors.load(std::memory_order_relaxed)).emit();
         }
      }
      emitRaceIfAny();
   }
   g_pool.quit.store(1, std::memory_order_relaxed);
   for (int t = 1; t <= g_pool.size; ++t) g_pool.thr[t].join();
   TestSgl::reset();
   return 0;
}

// ------------------------------------------------------------------------------------------ managed thread
using celma::common::ManagedThread;
static std::atomic<ManagedThread*> g_mt{nullptr};
static std::atomic<int> g_fStarted{0}, g_fMayEnd{0};

static void mtFuncForced() { onPoint("f.in"); }
static void mtFuncFree(int spin) {
   onPoint("f.in");
   g_fStarted.store(1, std::memory_order_release);                 // "the function has started" made observable
   unsigned n = 0;
   while (g_fMayEnd.load(std::memory_order_acquire) == 0) { if (++n > 500) sched_yield(); }
   for (volatile int i = 0; i < spin; ++i) {}
}
static void mtCreator() {
   onPoint("c.begin");
   ManagedThread* p = new ManagedThread(mtFuncForced);
   g_mt.store(p, std::memory_order_release);                        // hand the object to its owner
   arriveAt(&g_creator, P_DONE);
}

struct MtRun {
   std::thread creator;
   ManagedThread* mt = nullptr;
   bool active = false, stuck = false, destroyed = false;
   int seqC = 0, seqT = 0, seqO = 0;
   void start() {
      finish();
      g_abandon.store(0, std::memory_order_relaxed);
      g_creator.reset(1); g_thread.reset(2);
      g_mt.store(nullptr, std::memory_order_relaxed);
      mt = nullptr; active = true; stuck = false; destroyed = false; seqC = seqT = seqO = 0;
      vj::Line().str("e", "Reset").emit();
      creator = std::thread(mtCreator);
   }
   void finish() {
      if (!active) return;
      g_abandon.store(1, std::memory_order_relaxed);
      if (creator.joinable()) creator.join();
      if (!destroyed) { ManagedThread* p = g_mt.load(std::memory_order_acquire); delete p; }
      g_mt.store(nullptr, std::memory_order_relaxed);
      emitRaceIfAny();
      active = false;
   }
   void markStuck(const char* who) { vj::Line().str("e", "Stuck").str("who", who).emit(); stuck = true; g_abandon.store(1, std::memory_order_relaxed); }
   void stepOf(Slot& sl, const char* who, int& seq, const char* doneName, bool nowait) {
      if (stuck) return;
      uint64_t before = 0, after = 0;
      if (!waitParked(sl, before)) { markStuck(who); return; }
      if (pt(before) == P_DONE) after = before;
      else if (!releaseAndWait(sl, before, after, nowait)) { markStuck(who); return; }
      vj::Line().str("e", "MtStep").str("who", who).num("seq", ++seq).str("from", pointName(pt(before), doneName))
         .str("to", nowait ? "exited" : pointName(pt(after), doneName)).emit();
   }
   void act(const std::string& nm) {
      if (stuck) return;
      if (nm == "InitFlag") return;                                   // no point separates it from Spawn
      if (nm == "Spawn" || nm == "CtorReturn") {
         stepOf(g_creator, "c", seqC, "live", false);
         if (nm == "CtorReturn" && !stuck) mt = g_mt.load(std::memory_order_acquire);
      } else if (nm == "SetActive" || nm == "FuncStart" || nm == "FuncEnd" || nm == "ClearActive") stepOf(g_thread, "t", seqT, "exited", false);
      else if (nm == "ThreadExit") stepOf(g_thread, "t", seqT, "exited", true);
      else if (nm == "Observe") {
         if (mt == nullptr) { markStuck("o"); return; }
         const bool b = mt->isActive();
         vj::Line().str("e", "Observe").num("seq", ++seqO).boolean("b", b).emit();
      } else if (nm == "Join") {
         if (mt == nullptr) { markStuck("o"); return; }
         mt->join();
         vj::Line().str("e", "Join").num("seq", ++seqO).emit();
      } else if (nm == "Destroy") {
         if (mt == nullptr) { markStuck("o"); return; }
         delete mt; mt = nullptr; destroyed = true;
         vj::Line().str("e", "Destroy").num("seq", ++seqO).emit();
      }
   }
};

static int mtScript(const char* file) {
   FILE* f = fopen(file, "r");
   if (!f) { fprintf(stderr, "cannot open %s\n", file); return 2; }
   g_forced = true;
   MtRun run; std::string line; int stucks = 0;
   while (vj::getline(f, line)) {
      if (line.empty()) continue;
      vj::Value a = vj::parse(line);
      const std::string& nm = a["n"].str();
      if (nm == "Reset") { if (run.stuck && ++stucks >= 3) break; run.start(); }
      else run.act(nm);
   }
   run.finish();
   fclose(f);
   return 0;
}

// free-running: the main thread is creator and owner; the order of the emitted events is the order the
// handshake with the thread function establishes (see TraceManagedThread.tla); observations made while
// the phase of the thread is not known are logged as ObserveAny (nothing is promised for them).
static int mtRandom(uint64_t seed, long cases) {
   g_forced = false;
   vh::Rng rng(seed);
   for (long c = 0; c < cases; ++c) {
      g_creator.reset(rng.next()); g_thread.reset(rng.next());
      g_fStarted.store(0, std::memory_order_relaxed); g_fMayEnd.store(0, std::memory_order_relaxed);
      int seqC = 0, seqT = 0, seqO = 0;
      vj::Line().str("e", "Reset").emit();
      const int spin = static_cast<int>(rng.below(2000));
      const int early = static_cast<int>(rng.below(3)), during = static_cast<int>(rng.range(1, 4)), late = static_cast<int>(rng.below(3));
      const bool explicitJoin = rng.chance(2, 3);
      onPoint("c.begin");
      ManagedThread* mt = new ManagedThread(mtFuncFree, spin);
      vj::Line().str("e", "MtStep").str("who", "c").num("seq", ++seqC).str("from", "begin").str("to", "after_spawn").emit();
      vj::Line().str("e", "MtStep").str("who", "c").num("seq", ++seqC).str("from", "after_spawn").str("to", "live").emit();
      for (int i = 0; i < early; ++i) vj::Line().str("e", "ObserveAny").num("seq", ++seqO).boolean("b", mt->isActive()).emit();
      unsigned n = 0;
      double t0 = 0;
      while (g_fStarted.load(std::memory_order_acquire) == 0) {
         if (++n > 500) sched_yield();
         if ((n & 0xffff) == 0) {
            if (t0 == 0) t0 = now();
            else if (now() - t0 > 20.0) { vh::write_crash("hang: the thread function did not start"); _exit(72); }
         }
      }
      std::vector<bool> running;
      for (int i = 0; i < during; ++i) running.push_back(mt->isActive());      // the function provably runs
      g_fMayEnd.store(1, std::memory_order_release);
      std::vector<bool> lateObs;
      for (int i = 0; i < late; ++i) lateObs.push_back(mt->isActive());
      bool afterJoin = false;
      if (explicitJoin) { mt->join(); afterJoin = mt->isActive(); }
      // the thread has exited (or will be joined by the destructor): its own record of points is complete
      // only after the join, so everything below that uses it comes after join/destroy
      if (!explicitJoin) { delete mt; mt = nullptr; }
      const std::vector<int>& p = g_thread.path;
      size_t i = 0;
      auto stepT = [&](int from, int to) {
         vj::Line().str("e", "MtStep").str("who", "t").num("seq", ++seqT).str("from", pointName(from, "exited")).str("to", pointName(to, "exited")).emit();
      };
      for (; i + 1 < p.size(); ++i) { stepT(p[i], p[i + 1]); if (strcmp(pointName(p[i + 1], ""), "in_func") == 0) { ++i; break; } }
      for (bool b : running) vj::Line().str("e", "Observe").num("seq", ++seqO).boolean("b", b).emit();
      for (bool b : lateObs) vj::Line().str("e", "ObserveAny").num("seq", ++seqO).boolean("b", b).emit();
      for (; i + 1 < p.size(); ++i) stepT(p[i], p[i + 1]);
      if (!p.empty()) stepT(p.back(), P_DONE);
      if (explicitJoin) {
         vj::Line().str("e", "Join").num("seq", ++seqO).emit();
         vj::Line().str("e", "Observe").num("seq", ++seqO).boolean("b", afterJoin).emit();
         delete mt;
      }
      vj::Line().str("e", "Destroy").num("seq", ++seqO).emit();
      emitRaceIfAny();
   }
   return 0;
}

int main(int argc, char** argv) {
   vh::init();
   celma::verif::gPointFunc = onPoint;
   const std::string comp = vh::arg(argc, argv, "--comp", "sgl");
   int rc = 0;
   if (const char* s = vh::arg(argc, argv, "--script")) rc = comp == "sgl" ? sglScript(s) : mtScript(s);
   else if (vh::flag(argc, argv, "--random")) {
      const uint64_t seed = static_cast<uint64_t>(vh::argnum(argc, argv, "--seed", 1));
      const long cases = static_cast<long>(vh::argnum(argc, argv, "--cases", 100));
      rc = comp == "sgl" ? sglRandom(seed, cases) : mtRandom(seed, cases);
   } else { fprintf(stderr, "usage: concurrency_driver --comp sgl|mt (--script FILE | --random --seed S --cases K)\n"); return 2; }
   if (rc == 0) vh::end();
   return rc;
}
