// Conformance driver for celma::prog_args (properties C01-C09, C18).
// Reads a script (ndjson) from --script FILE and records one event per executed action:
//   {"n":"Reset","cfg":{...}}                      -> {"e":"Reset","cfg":{...}}
//   {"n":"Eval","mode":"handler"|"groups"|"string","pre":[[word..]..],"presrc":"none"|"file"|"env",
//    "argv":[word..],"cmd":[codes],"tag":{..}}     -> {"e":"Eval",...,"out":"ok"|"err"|"nonstd","dest":[..]}
//   {"n":"Split","cmd":[codes]}                    -> {"e":"Split","cmd":..,"words":[..],"argc":n,"nullterm":b,"prog":[..]}
//   {"n":"Define","cfg":{...}}                     -> {"e":"Define","cfg":..,"res":[ "ok"|"refused" per argument ]}
//   {"n":"Usage","set":{...}}                      -> {"e":"Usage",..., "entries":[...]}
// Words and all texts are arrays of byte codes.  The driver never computes expected results.
#include <array>
#include <bitset>
#include <cstring>
#include <deque>
#include <forward_list>
#include <fstream>
#include <list>
#include <map>
#include <memory>
#include <optional>
#include <queue>
#include <set>
#include <sstream>
#include <stack>
#include <sys/stat.h>
#include <atomic>
#include <thread>
#include <unistd.h>
#include <vector>
#include "common/vharness.hpp"
#include "celma/prog_args.hpp"
#include "celma/prog_args/groups.hpp"
#include "celma/prog_args/level_counter.hpp"
#include "celma/container/dynamic_bitset.hpp"
#include "celma/prog_args/eval_argument_string.hpp"
#include "celma/appl/arg_string_2_array.hpp"

using celma::prog_args::Handler;
using celma::prog_args::Groups;
using celma::prog_args::detail::TypedArgBase;

// C09: text appended to every pattern string ("|" + a word starting with a control character that no generated value
// contains): the language of the pattern stays the same, the pattern string is one the process has not seen before
static thread_local std::string gPatSalt;

// ---------------------------------------------------------------- JSON helpers
static std::string dump(const vj::Value& v) {
   switch (v.kind) {
   case vj::Value::Null: return "null";
   case vj::Value::Bool: return v.b ? "true" : "false";
   case vj::Value::Int: return std::to_string(v.i);
   case vj::Value::Str: {
      std::string s = "\"";
      for (unsigned char c : v.s) { if (c == '"' || c == '\\') s += '\\'; s += static_cast<char>(c); }
      return s + "\""; }
   case vj::Value::Arr: {
      std::string s = "[";
      for (size_t i = 0; i < v.a->size(); ++i) { if (i) s += ','; s += dump((*v.a)[i]); }
      return s + "]"; }
   case vj::Value::Obj: {
      std::string s = "{"; bool f = true;
      for (auto& kv : *v.o) { if (!f) s += ','; f = false; s += "\"" + kv.first + "\":" + dump(kv.second); }
      return s + "}"; }
   }
   return "null";
}
static std::string codes(const std::string& t) {
   std::string s = "[";
   for (size_t i = 0; i < t.size(); ++i) { if (i) s += ','; s += std::to_string(static_cast<unsigned char>(t[i])); }
   return s + "]";
}
template <typename It> static std::string intList(It b, It e) {
   std::string s = "["; bool f = true;
   for (; b != e; ++b) { if (!f) s += ','; f = false; s += std::to_string(static_cast<long long>(*b)); }
   return s + "]";
}
template <typename It> static std::string strList(It b, It e) {
   std::string s = "["; bool f = true;
   for (; b != e; ++b) { if (!f) s += ','; f = false; s += codes(*b); }
   return s + "]";
}

// ---------------------------------------------------------------- destination slots
struct ISlot {
   virtual ~ISlot() = default;
   virtual TypedArgBase* dest(const std::string& name) = 0;
   // pair argument (DEST_PAIR): this slot is the first variable, aux the second one that is set to val; nullptr: not supported
   virtual TypedArgBase* destPair(const std::string&, int&, int) { return nullptr; }
   virtual std::string json() const = 0;
};
#define PAIR_DEST TypedArgBase* destPair(const std::string& n, int& aux, int val) override { return celma::prog_args::destination(v, n, aux, "aux", val); }
struct FlagSlot : ISlot {
   bool v;
   explicit FlagSlot(const vj::Value& init) : v(init.boolean()) {}
   TypedArgBase* dest(const std::string& n) override { return celma::prog_args::destination(v, n); }
   PAIR_DEST
   std::string json() const override { return v ? "true" : "false"; }
};
struct IntSlot : ISlot {
   int v;
   explicit IntSlot(const vj::Value& init) : v(static_cast<int>(init.num())) {}
   TypedArgBase* dest(const std::string& n) override { return celma::prog_args::destination(v, n); }
   PAIR_DEST
   std::string json() const override { return std::to_string(v); }
};
// other integral destination types: the projection is the decimal text (the values do not fit the checker's integers)
template <typename T> struct WideSlot : ISlot {
   T v;
   explicit WideSlot(const vj::Value& init) : v(0) {
      const std::string t = init.bytes();
      if (!t.empty()) { if (t[0] == '-') v = static_cast<T>(std::stoll(t)); else v = static_cast<T>(std::stoull(t)); }
   }
   TypedArgBase* dest(const std::string& n) override { return celma::prog_args::destination(v, n); }
   std::string json() const override { return codes(std::to_string(v)); }
};
// double destination: the projection is the number of quarters when the value is an exact multiple of 1/4
struct DblSlot : ISlot {
   double v;
   explicit DblSlot(const vj::Value& init) : v(static_cast<double>(init.num()) / 4.0) {}
   TypedArgBase* dest(const std::string& n) override { return celma::prog_args::destination(v, n); }
   PAIR_DEST
   std::string json() const override {
      const double q = v * 4.0;
      if (q == static_cast<double>(static_cast<long long>(q)) && q < 1e9 && q > -1e9) return std::to_string(static_cast<long long>(q));
      return "\"inexact\"";
   }
};
struct LevelSlot : ISlot {
   celma::prog_args::LevelCounter v;
   explicit LevelSlot(const vj::Value& init) : v(static_cast<int>(init.num())) {}
   TypedArgBase* dest(const std::string& n) override { return celma::prog_args::destination(v, n); }
   std::string json() const override { return std::to_string(v.value()); }
};
struct StrSlot : ISlot {
   std::string v;
   explicit StrSlot(const vj::Value& init) : v(init.bytes()) {}
   TypedArgBase* dest(const std::string& n) override { return celma::prog_args::destination(v, n); }
   PAIR_DEST
   std::string json() const override { return codes(v); }
};
struct OptIntSlot : ISlot {
   std::optional<int> v;
   explicit OptIntSlot(const vj::Value& init) { if (init.size() > 0) v = static_cast<int>(init[0].num()); }
   TypedArgBase* dest(const std::string& n) override { return celma::prog_args::destination(v, n); }
   std::string json() const override { return v.has_value() ? "[" + std::to_string(*v) + "]" : "[]"; }
};
template <typename C> struct IntContSlot : ISlot {
   C v;
   explicit IntContSlot(const vj::Value& init) { for (auto x : init.ints()) v.insert(v.end(), static_cast<int>(x)); }
   TypedArgBase* dest(const std::string& n) override { return celma::prog_args::destination(v, n); }
   PAIR_DEST
   std::string json() const override { return intList(v.begin(), v.end()); }
};
struct VecStrSlot : ISlot {
   std::vector<std::string> v;
   explicit VecStrSlot(const vj::Value& init) { for (size_t i = 0; i < init.size(); ++i) v.push_back(init[i].bytes()); }
   TypedArgBase* dest(const std::string& n) override { return celma::prog_args::destination(v, n); }
   PAIR_DEST
   std::string json() const override { return strList(v.begin(), v.end()); }
};
struct Arr3Slot : ISlot {
   int v[3];
   explicit Arr3Slot(const vj::Value& init) { for (size_t i = 0; i < 3; ++i) v[i] = i < init.size() ? static_cast<int>(init[i].num()) : 0; }
   TypedArgBase* dest(const std::string& n) override { return celma::prog_args::destination(v, n); }
   std::string json() const override { return intList(v, v + 3); }
};

struct FwdSlot : ISlot {
   std::forward_list<int> v;
   explicit FwdSlot(const vj::Value& init) { auto x = init.ints(); for (auto it = x.rbegin(); it != x.rend(); ++it) v.push_front(static_cast<int>(*it)); }
   TypedArgBase* dest(const std::string& n) override { return celma::prog_args::destination(v, n); }
   std::string json() const override { return intList(v.begin(), v.end()); }
};
struct MsetSlot : ISlot {
   std::multiset<int> v;
   explicit MsetSlot(const vj::Value& init) { for (auto x : init.ints()) v.insert(static_cast<int>(x)); }
   TypedArgBase* dest(const std::string& n) override { return celma::prog_args::destination(v, n); }
   std::string json() const override { return intList(v.begin(), v.end()); }
};
// adapters without iterators: the projection is the pop order
struct StackSlot : ISlot {
   std::stack<int> v;
   explicit StackSlot(const vj::Value& init) { auto x = init.ints(); for (auto it = x.rbegin(); it != x.rend(); ++it) v.push(static_cast<int>(*it)); }
   TypedArgBase* dest(const std::string& n) override { return celma::prog_args::destination(v, n); }
   std::string json() const override { auto c = v; std::vector<int> o; while (!c.empty()) { o.push_back(c.top()); c.pop(); } return intList(o.begin(), o.end()); }
};
struct QueueSlot : ISlot {
   std::queue<int> v;
   explicit QueueSlot(const vj::Value& init) { for (auto x : init.ints()) v.push(static_cast<int>(x)); }
   TypedArgBase* dest(const std::string& n) override { return celma::prog_args::destination(v, n); }
   std::string json() const override { auto c = v; std::vector<int> o; while (!c.empty()) { o.push_back(c.front()); c.pop(); } return intList(o.begin(), o.end()); }
};
struct PqSlot : ISlot {
   std::priority_queue<int> v;
   explicit PqSlot(const vj::Value& init) { for (auto x : init.ints()) v.push(static_cast<int>(x)); }
   TypedArgBase* dest(const std::string& n) override { return celma::prog_args::destination(v, n); }
   std::string json() const override { auto c = v; std::vector<int> o; while (!c.empty()) { o.push_back(c.top()); c.pop(); } return intList(o.begin(), o.end()); }
};
struct SArr3Slot : ISlot {
   std::array<int, 3> v;
   explicit SArr3Slot(const vj::Value& init) { for (size_t i = 0; i < 3; ++i) v[i] = i < init.size() ? static_cast<int>(init[i].num()) : 0; }
   TypedArgBase* dest(const std::string& n) override { return celma::prog_args::destination(v, n); }
   std::string json() const override { return intList(v.begin(), v.end()); }
};
struct TupSlot : ISlot {
   std::tuple<int, std::string, int> v;
   explicit TupSlot(const vj::Value& init) { if (init.size() == 3) v = std::make_tuple(static_cast<int>(init[0].num()), init[1].bytes(), static_cast<int>(init[2].num())); }
   TypedArgBase* dest(const std::string& n) override { return celma::prog_args::destination(v, n); }
   std::string json() const override { return "[" + std::to_string(std::get<0>(v)) + "," + codes(std::get<1>(v)) + "," + std::to_string(std::get<2>(v)) + "]"; }
};
struct Bits8Slot : ISlot {
   std::bitset<8> v;
   explicit Bits8Slot(const vj::Value& init) { for (size_t i = 0; i < 8 && i < init.size(); ++i) v[i] = init[i].boolean(); }
   TypedArgBase* dest(const std::string& n) override { return celma::prog_args::destination(v, n); }
   std::string json() const override { std::string s = "["; for (size_t i = 0; i < 8; ++i) { if (i) s += ','; s += v[i] ? "true" : "false"; } return s + "]"; }
};

// growing bit sets: init = positions that are set, isize = initial size; projection: ascending positions that are set
struct VecBoolSlot : ISlot {
   std::vector<bool> v;
   VecBoolSlot(const vj::Value& init, size_t isize) : v(isize, false) { for (auto x : init.ints()) { if (static_cast<size_t>(x) >= v.size()) v.resize(static_cast<size_t>(x) + 1); v[static_cast<size_t>(x)] = true; } }
   TypedArgBase* dest(const std::string& n) override { return celma::prog_args::destination(v, n); }
   std::string json() const override { std::vector<int> o; for (size_t i = 0; i < v.size(); ++i) if (v[i]) o.push_back(static_cast<int>(i)); return intList(o.begin(), o.end()); }
};
struct DynBitsSlot : ISlot {
   celma::container::DynamicBitset v;
   DynBitsSlot(const vj::Value& init, size_t isize) : v(isize) { for (auto x : init.ints()) v.set(static_cast<size_t>(x)); }
   TypedArgBase* dest(const std::string& n) override { return celma::prog_args::destination(v, n); }
   std::string json() const override { std::vector<int> o; for (size_t i = 0; i < v.size(); ++i) if (v.test(i)) o.push_back(static_cast<int>(i)); return intList(o.begin(), o.end()); }
};
// key-value container: init = [[key codes, value]..]; projection: the pairs in the map's (key) order
struct MapSiSlot : ISlot {
   std::map<std::string, int> v;
   explicit MapSiSlot(const vj::Value& init) { for (size_t i = 0; i < init.size(); ++i) v[init[i][0].bytes()] = static_cast<int>(init[i][1].num()); }
   TypedArgBase* dest(const std::string& n) override { return celma::prog_args::destination(v, n); }
   std::string json() const override { std::string s = "["; bool f = true; for (auto& kv : v) { if (!f) s += ','; f = false; s += "[" + codes(kv.first) + "," + std::to_string(kv.second) + "]"; } return s + "]"; }
};
// value argument (DEST_VAR_VALUE) on an int variable that may be shared with other value arguments
struct ValIntSlot : ISlot {
   int own;
   int* var;
   int setval = 0;
   explicit ValIntSlot(const vj::Value& init) : own(static_cast<int>(init.num())), var(&own) {}
   // the value is passed as a constant (like the literal of DEST_VAR_VALUE): a non-const lvalue would select the
   // start/end overload destination(T&, name, T&)
   TypedArgBase* dest(const std::string& n) override { const int value = setval; return celma::prog_args::destination(*var, n, value); }
   std::string json() const override { return std::to_string(*var); }
};

static std::unique_ptr<ISlot> makeSlot(const std::string& kind, const vj::Value& init, const vj::Value* arg = nullptr) {
   const size_t isize = arg ? static_cast<size_t>((*arg)["isize"].num()) : 0;
   if (kind == "vecbool") return std::make_unique<VecBoolSlot>(init, isize);
   if (kind == "dynbits") return std::make_unique<DynBitsSlot>(init, isize);
   if (kind == "mapsi") return std::make_unique<MapSiSlot>(init);
   if (kind == "valint") return std::make_unique<ValIntSlot>(init);
   if (kind == "flag") return std::make_unique<FlagSlot>(init);
   if (kind == "int") return std::make_unique<IntSlot>(init);
   if (kind == "u64") return std::make_unique<WideSlot<std::uint64_t>>(init);
   if (kind == "i64") return std::make_unique<WideSlot<std::int64_t>>(init);
   if (kind == "u32") return std::make_unique<WideSlot<unsigned int>>(init);
   if (kind == "u16") return std::make_unique<WideSlot<unsigned short>>(init);
   if (kind == "i16") return std::make_unique<WideSlot<short>>(init);
   if (kind == "str") return std::make_unique<StrSlot>(init);
   if (kind == "dbl") return std::make_unique<DblSlot>(init);
   if (kind == "level") return std::make_unique<LevelSlot>(init);
   if (kind == "optint") return std::make_unique<OptIntSlot>(init);
   if (kind == "vecint") return std::make_unique<IntContSlot<std::vector<int>>>(init);
   if (kind == "setint") return std::make_unique<IntContSlot<std::set<int>>>(init);
   if (kind == "listint") return std::make_unique<IntContSlot<std::list<int>>>(init);
   if (kind == "dequeint") return std::make_unique<IntContSlot<std::deque<int>>>(init);
   if (kind == "vecstr") return std::make_unique<VecStrSlot>(init);
   if (kind == "arr3") return std::make_unique<Arr3Slot>(init);
   if (kind == "fwdint") return std::make_unique<FwdSlot>(init);
   if (kind == "msetint") return std::make_unique<MsetSlot>(init);
   if (kind == "stackint") return std::make_unique<StackSlot>(init);
   if (kind == "queueint") return std::make_unique<QueueSlot>(init);
   if (kind == "pqint") return std::make_unique<PqSlot>(init);
   if (kind == "sarr3") return std::make_unique<SArr3Slot>(init);
   if (kind == "tup") return std::make_unique<TupSlot>(init);
   if (kind == "bits8") return std::make_unique<Bits8Slot>(init);
   return nullptr;
}

// ---------------------------------------------------------------- building handlers from a configuration
static std::string keySpec(const vj::Value& a, int style = 0) {
   // style 0: as defined ("s,long"), 1: short only (if present), 2: long only (if present), 3: complete with dashes
   if (a["pos"].boolean()) return "-";
   std::string s, l = a["l"].bytes();
   if (a["s"].num() != 0) s = std::string(1, static_cast<char>(a["s"].num()));
   if (style == 1 && !s.empty()) return s;
   if (style == 2 && !l.empty()) return l;
   if (style == 3) {   // the complete specification written with its dashes ("-s,--long"), the form the handler itself prints
      if (!s.empty() && !l.empty()) return "-" + s + ",--" + l;
      return s.empty() ? "--" + l : "-" + s;
   }
   if (!s.empty() && !l.empty()) return s + "," + l;
   return s.empty() ? l : s;
}
static std::string keyList(const vj::Value& cfg, const vj::Value& idxs, int style) {
   std::string r;
   for (auto i : idxs.ints()) {
      if (!r.empty()) r += ';';
      r += keySpec(cfg["args"][static_cast<size_t>(i - 1)], style);
   }
   return r;
}

struct Built;
static std::unique_ptr<Built> buildImpl(const vj::Value& cfg, bool grouped, int extraFlags, Handler* mainAh = nullptr);
struct Built {
   std::vector<std::unique_ptr<ISlot>> slots;
   std::vector<int> aux;                                // second variables of pair arguments (one per argument, 0 when unused)
   std::vector<std::string> defineRes;                  // per argument: "ok" | "refused"
   std::ostringstream out, err;
   std::unique_ptr<Handler> single;                     // mode handler/string
   std::vector<std::shared_ptr<Handler>> members;       // mode groups
   std::vector<std::unique_ptr<Built>> subs;            // sub-group handlers (kind "sub"), kept alive with the main one
   std::vector<int> subOf;                              // per argument: index into subs, -1 for ordinary arguments
   bool setupFailed = false;
   std::string setupWhat;
   // projections: a sub-group argument shows the destinations (second variables) of its handler's arguments as a nested list
   std::string destJson() const {
      std::string d = "[";
      for (size_t i = 0; i < slots.size(); ++i) {
         if (i) d += ',';
         d += (i < subOf.size() && subOf[i] >= 0) ? subs[static_cast<size_t>(subOf[i])]->destJson() : slots[i]->json();
      }
      return d + "]";
   }
   std::string auxJson() const {
      std::string d = "[";
      for (size_t i = 0; i < aux.size(); ++i) {
         if (i) d += ',';
         d += (i < subOf.size() && subOf[i] >= 0) ? subs[static_cast<size_t>(subOf[i])]->auxJson() : std::to_string(aux[i]);
      }
      return d + "]";
   }
};

static int handlerFlags(const vj::Value& cfg) {
   int f = 0;
   if (!cfg["abbr"].boolean(true)) f |= Handler::hfNoAbbr;
   if (cfg["endvalues"].boolean()) f |= Handler::hfEndValues;
   if (cfg["usagecont"].boolean()) f |= Handler::hfUsageCont;
   if (cfg["help"].boolean()) f |= Handler::hfHelpShort | Handler::hfHelpLong;
   if (cfg["helparg"].boolean()) f |= Handler::hfHelpArg;
   if (cfg["usagehidden"].boolean()) f |= Handler::hfUsageHidden;
   if (cfg["usagedepr"].boolean()) f |= Handler::hfUsageDeprecated;
   if (cfg["usageshort"].boolean()) f |= Handler::hfUsageShort;
   if (cfg["usagelong"].boolean()) f |= Handler::hfUsageLong;
   if (cfg["arghidden"].boolean()) f |= Handler::hfArgHidden;
   if (cfg["argdepr"].boolean()) f |= Handler::hfArgDeprecated;
   return f;
}

// flags the application gives to the Groups object itself (cfg.grpflags): they are passed on to every member handler
static int groupFlags(const vj::Value& cfg) {
   int f = 0;
   const vj::Value& gf = cfg["grpflags"];
   for (size_t k = 0; k < gf.size(); ++k) {
      const std::string n = gf[k].str();
      if (n == "listgroups") f |= Handler::hfListArgGroups;
      else if (n == "verbose") f |= Handler::hfVerboseArgs;
      else if (n == "listargvar") f |= Handler::hfListArgVar;
      else if (n == "arghidden") f |= Handler::hfArgHidden;
      else if (n == "usagehidden") f |= Handler::hfUsageHidden;
   }
   return f | Handler::hfUsageCont;
}

static void applyArgSettings(const vj::Value& cfg, const vj::Value& a, TypedArgBase* t) {
   using namespace celma::prog_args;
   const std::string vm = a["vm"].str();
   if (vm == "cmd") t->setValueMode(Handler::ValueMode::command);            // std::string destinations only (refused otherwise)
   else if (vm == "opt" && a["kind"].str() != "level") t->setValueMode(Handler::ValueMode::optional);
   else if (vm == "req" && a["kind"].str() == "flag") t->setValueMode(Handler::ValueMode::required);
   if (a["unset"].boolean()) t->unsetFlag();
   if (a["mand"].boolean()) t->setIsMandatory();
   const std::string ct = a["card"]["t"].str();
   if (ct == "none") t->setCardinality(nullptr);
   else if (ct == "max") t->setCardinality(cardinality_max(static_cast<int>(a["card"]["a"].num())));
   else if (ct == "exact") t->setCardinality(cardinality_exact(static_cast<int>(a["card"]["a"].num())));
   else if (ct == "range") t->setCardinality(cardinality_range(static_cast<int>(a["card"]["a"].num()), static_cast<int>(a["card"]["b"].num())));
   const vj::Value& checks = a["checks"];
   for (size_t k = 0; k < checks.size(); ++k) {
      const std::string ck = checks[k]["k"].str();
      const int ca = static_cast<int>(checks[k]["a"].num()), cb = static_cast<int>(checks[k]["b"].num());
      if (ck == "lower") t->addCheck(lower(ca));
      else if (ck == "upper") t->addCheck(upper(ca));
      else if (ck == "range") t->addCheck(range(ca, cb));
      else if (ck == "minlen") t->addCheck(minLength(static_cast<size_t>(ca)));
      else if (ck == "maxlen") t->addCheck(maxLength(static_cast<size_t>(ca)));
      else if (ck == "values") {
         std::string lst;
         for (size_t i = 0; i < checks[k]["vals"].size(); ++i) { if (i) lst += ','; lst += checks[k]["vals"][i].bytes(); }
         t->addCheck(values(lst));
      } else if (ck == "pattern") t->addCheck(pattern(checks[k]["pat"].bytes() + gPatSalt));
   }
   const vj::Value& fmts = a["formats"];
   for (size_t k = 0; k < fmts.size(); ++k) {
      if (fmts[k].str() == "upper") t->addFormat(uppercase());
      else if (fmts[k].str() == "lower") t->addFormat(lowercase());
   }
   const vj::Value& fpos = a["fmtpos"];                 // formats of single positions (tuples)
   for (size_t k = 0; k < fpos.size(); ++k) {
      if (fpos[k]["f"].str() == "upper") t->addFormatPos(static_cast<int>(fpos[k]["p"].num()), uppercase());
      else if (fpos[k]["f"].str() == "lower") t->addFormatPos(static_cast<int>(fpos[k]["p"].num()), lowercase());
   }
   if (a["kind"].str() == "mapsi") t->setListSep(static_cast<char>(a["sep"].num()));      // default ';', the pair separator ',' is refused
   else if (a["sep"].num() != 0 && a["sep"].num() != ',') t->setListSep(static_cast<char>(a["sep"].num()));
   if (a["kind"].str() == "valint" && !a["chkorig"].boolean(true)) t->checkOriginalValue(false);
   if (a["clear"].boolean()) t->setClearBeforeAssign();
   if (a["sort"].boolean()) t->setSortData();
   if (a["uniq"].str() == "ignore") t->setUniqueData(false);
   else if (a["uniq"].str() == "error") t->setUniqueData(true);
   if (a["multi"].boolean()) t->setTakesMultiValue();
   if (a["mix"].boolean()) t->setAllowMixIncSet();
   if (a["hidden"].boolean()) t->setIsHidden();
   if (a["depr"].boolean()) t->setIsDeprecated();
   if (a["repl"].size() > 0) t->setReplacedBy(a["repl"].bytes());
   if (a["printdef"].str() == "yes") t->setPrintDefault(true);
   else if (a["printdef"].str() == "no") t->setPrintDefault(false);
   const int style = static_cast<int>(a["cspell"].num());
   if (a["req"].size() > 0) t->addConstraint(requiresArg(keyList(cfg, a["req"], style)));
   if (a["exc"].size() > 0) t->addConstraint(excludes(keyList(cfg, a["exc"], style)));
}

static void addHandlerConstraints(const vj::Value& cfg, Handler& h, int member, bool grouped) {
   using namespace celma::prog_args;
   const vj::Value& hc = cfg["hcons"];
   for (size_t k = 0; k < hc.size(); ++k) {
      if (grouped && static_cast<int>(hc[k]["grp"].num()) != member) continue;
      const std::string kind = hc[k]["k"].str();
      const std::string lst = keyList(cfg, hc[k]["args"], static_cast<int>(hc[k]["cspell"].num()));
      if (kind == "allOf") h.addConstraint(all_of(lst));
      else if (kind == "anyOf") h.addConstraint(any_of(lst));
      else if (kind == "oneOf") h.addConstraint(one_of(lst));
      else if (kind == "differ") h.addConstraint(differ(lst));
      else if (kind == "disjoint") h.addConstraint(disjoint(lst));
   }
}

// builds handler(s); definition errors are recorded per argument (C05) and stop the set-up
static std::unique_ptr<Built> build(const vj::Value& cfg, bool grouped, int extraFlags = 0) {
   return buildImpl(cfg, grouped, extraFlags);
}
static std::unique_ptr<Built> buildImpl(const vj::Value& cfg, bool grouped, int extraFlags, Handler* mainAh) {
   auto b = std::make_unique<Built>();
   const vj::Value& args = cfg["args"];
   b->aux.assign(args.size(), 0);
   b->subOf.assign(args.size(), -1);
   const int flags = handlerFlags(cfg) | extraFlags;
   int nmembers = 1;
   if (grouped) {
      for (size_t i = 0; i < args.size(); ++i) nmembers = std::max(nmembers, static_cast<int>(args[i]["grp"].num()) + 1);
      for (int m = 0; m < nmembers; ++m) b->members.push_back((cfg["grpflags"].size() > 0 ? Groups::instance(b->out, b->err, groupFlags(cfg)) : Groups::instance(b->out, b->err)).getArgHandler("g" + std::to_string(m), flags));
   } else if (mainAh != nullptr) {
      // "constructor to be used by a sub-group": output streams and usage settings are taken from the main handler
      b->single = std::make_unique<Handler>(*mainAh, flags);
   } else {
      b->single = std::make_unique<Handler>(b->out, b->err, flags);
   }
   for (size_t i = 0; i < args.size(); ++i) {
      const vj::Value& a = args[i];
      if (a["kind"].str() == "sub") {
         // sub-group: a nested handler entered by this key; its destinations are projected as a nested list
         b->slots.push_back(makeSlot("flag", vj::Value()));
         Handler& hs = grouped ? *b->members[static_cast<size_t>(a["grp"].num())] : *b->single;
         std::unique_ptr<Built> sb;
         try {
            sb = buildImpl(a["sub"], false, 0, a["subctor"].num() == 1 ? &hs : nullptr);
            if (sb->setupFailed) throw std::runtime_error(sb->setupWhat);
            TypedArgBase* t = hs.addArgument(keySpec(a), *sb->single, "D" + std::to_string(i + 1));
            b->subOf[i] = static_cast<int>(b->subs.size());
            b->subs.push_back(std::move(sb));
            b->defineRes.push_back("ok");
            if (a["mand"].boolean()) t->setIsMandatory();
         } catch (const std::exception& e) {
            b->defineRes.push_back("refused");
            if (cfg["lenient"].boolean() && sb && !sb->setupFailed) {
               // C05: the handler keeps the other arguments; the refused sub-group's (untouched) destinations are still projected
               b->subOf[i] = static_cast<int>(b->subs.size());
               b->subs.push_back(std::move(sb));
               continue;
            }
            b->setupFailed = true; b->setupWhat = e.what(); break;
         }
         continue;
      }
      if (a["kind"].str() == "argfile") {
         // argument-file argument (C07): its value names a file with more arguments
         b->slots.push_back(makeSlot("flag", vj::Value()));
         Handler& hf = grouped ? *b->members[static_cast<size_t>(a["grp"].num())] : *b->single;
         try { hf.addArgumentFile(keySpec(a)); b->defineRes.push_back("ok"); }
         catch (const std::exception& e) { b->defineRes.push_back("refused"); b->setupFailed = true; b->setupWhat = e.what(); break; }
         continue;
      }
      b->slots.push_back(makeSlot(a["kind"].str(), a["init"], &a));
      if (!b->slots.back()) { b->setupFailed = true; b->setupWhat = "unknown kind " + a["kind"].str(); b->defineRes.push_back("refused"); break; }
      if (a["kind"].str() == "valint") {
         auto* vs = static_cast<ValIntSlot*>(b->slots.back().get());
         vs->setval = static_cast<int>(a["setval"].num());
         const size_t d = static_cast<size_t>(a["dst"].num());
         if (d >= 1 && d <= i && args[d - 1]["kind"].str() == "valint") vs->var = static_cast<ValIntSlot*>(b->slots[d - 1].get())->var;
         else if (d != i + 1) { b->setupFailed = true; b->setupWhat = "valint: dst must name an earlier value argument or the argument itself"; b->defineRes.push_back("refused"); break; }
      }
      const bool pairOn = a["pair"]["on"].boolean();
      if (pairOn) b->aux[i] = static_cast<int>(a["pair"]["init"].num());
      Handler& h = grouped ? *b->members[static_cast<size_t>(a["grp"].num())] : *b->single;
      try {
         std::string spec = keySpec(a);
         if (a["dashes"].boolean() && !a["pos"].boolean()) {   // key specification written with leading dashes
            std::string s, l = a["l"].bytes();
            if (a["s"].num() != 0) s = std::string("-") + static_cast<char>(a["s"].num());
            if (!l.empty()) l = "--" + l;
            spec = (!s.empty() && !l.empty()) ? s + "," + l : (s.empty() ? l : s);
         }
         TypedArgBase* d = pairOn ? b->slots.back()->destPair("v" + std::to_string(i + 1), b->aux[i], static_cast<int>(a["pair"]["val"].num()))
                                  : b->slots.back()->dest("v" + std::to_string(i + 1));
         if (!d) throw std::logic_error("pair argument not supported by the driver for kind " + a["kind"].str());
         TypedArgBase* t = h.addArgument(spec, d, a["nodesc"].kind == vj::Value::Bool && a["nodesc"].boolean() ? std::string() : a["desc"].kind == vj::Value::Arr ? a["desc"].bytes() : "D" + std::to_string(i + 1));
         b->defineRes.push_back("ok");
         applyArgSettings(cfg, a, t);
      } catch (const std::exception& e) {
         if (b->defineRes.size() <= i) b->defineRes.push_back("refused");
         else b->defineRes.back() = "refused";
         if (cfg["lenient"].boolean() && b->defineRes.size() == i + 1) continue;   // C05: the handler keeps the other arguments
         b->setupFailed = true; b->setupWhat = e.what();
         break;
      }
   }
   if (!b->setupFailed) {
      try {
         if (grouped) for (int m = 0; m < nmembers; ++m) addHandlerConstraints(cfg, *b->members[static_cast<size_t>(m)], m, true);
         else addHandlerConstraints(cfg, *b->single, 0, false);
      } catch (const std::exception& e) { b->setupFailed = true; b->setupWhat = e.what(); }
   }
   return b;
}
static void teardownGroups() {
   try { Groups::instance().removeAllArgHandler(); } catch (...) {}
   Groups::reset();
}

// argv in exactly-sized heap blocks (ASan sees any read beyond a word or beyond argv[argc])
struct Argv {
   std::vector<char*> ptrs;
   std::vector<std::unique_ptr<char[]>> blocks;
   std::unique_ptr<char*[]> arr;
   int argc = 0;
   Argv(const std::string& prog, const std::vector<std::string>& words) {
      auto add = [&](const std::string& w) {
         blocks.emplace_back(new char[w.size() + 1]);
         memcpy(blocks.back().get(), w.c_str(), w.size() + 1);
         ptrs.push_back(blocks.back().get());
      };
      add(prog);
      for (auto& w : words) add(w);
      argc = static_cast<int>(ptrs.size());
      arr.reset(new char*[ptrs.size() + 1]);
      for (size_t i = 0; i < ptrs.size(); ++i) arr[i] = ptrs[i];
      arr[ptrs.size()] = nullptr;
   }
};

static std::vector<std::string> wordsOf(const vj::Value& v) {
   std::vector<std::string> r;
   for (size_t i = 0; i < v.size(); ++i) r.push_back(v[i].bytes());
   return r;
}
static std::string join(const std::vector<std::string>& w) {
   std::string s;
   for (size_t i = 0; i < w.size(); ++i) { if (i) s += ' '; s += w[i]; }
   return s;
}

static std::string gScratch;   // scratch HOME for argument files

static void doEval(const vj::Value& cfg, const vj::Value& act, const std::string& cfgJson) {
   (void)cfgJson;
   const std::string mode = act["mode"].str();
   const std::string presrc = act["presrc"].kind == vj::Value::Str ? act["presrc"].str() : "none";
   const std::string prog = act["prog"].kind == vj::Value::Arr ? act["prog"].bytes() : "prog";
   const bool grouped = mode == "groups";
   std::string out = "ok", what;
   std::string dest = "[]", aux = "[]";
   int extra = 0;
   std::string paFile;
   std::string envName;
   if (presrc == "file" || presrc == "both") {
      extra |= Handler::hfReadProgArg;
      mkdir((gScratch + "/.progargs").c_str(), 0700);
      std::string base = prog;
      auto sl = base.find_last_of('/');
      if (sl != std::string::npos) base = base.substr(sl + 1);
      paFile = gScratch + "/.progargs/" + base + ".pa";
      std::ofstream f(paFile, std::ios::binary | std::ios::trunc);
      f << act["filetext"].bytes();          // raw file content, final newline present or not as generated
      f.close();
      setenv("HOME", gScratch.c_str(), 1);
   }
   if (presrc == "env" || presrc == "both") {
      extra |= Handler::hfEnvVarArgs;
      envName = prog;
      auto sl = envName.find_last_of('/');
      if (sl != std::string::npos) envName = envName.substr(sl + 1);
      for (auto& c : envName) c = static_cast<char>(toupper(static_cast<unsigned char>(c)));
      setenv(envName.c_str(), act["envstr"].bytes().c_str(), 1);
   }
   // files named by argument-file arguments (relative names: the driver runs inside its scratch directory)
   std::vector<std::string> written;
   for (size_t k = 0; k < act["files"].size(); ++k) {
      const std::string fn = gScratch + "/" + act["files"][k]["name"].bytes();
      std::ofstream f(fn, std::ios::binary | std::ios::trunc);
      f << act["files"][k]["text"].bytes();
      written.push_back(fn);
   }
   std::unique_ptr<Built> b;
   try {
      b = build(cfg, grouped, extra);
   } catch (const std::exception& e) {
      vj::Line().str("e", "Eval").str("mode", mode).str("presrc", presrc).raw("filetext", "[]").raw("envstr", "[]")
         .raw("argv", dump(act["argv"])).raw("cmd", dump(act["cmd"])).raw("files", "[]")
         .str("out", "setup").raw("dest", "[]").raw("aux", "[]").raw("tag", dump(act["tag"])).str("what", e.what()).emit();
      if (grouped) teardownGroups();
      return;
   }
   if (b->setupFailed) { out = "setup"; what = b->setupWhat; }
   else {
      const std::vector<std::string> words = wordsOf(act["argv"]);
      try {
         if (mode == "string") {
            celma::prog_args::evalArgumentString(*b->single, act["cmd"].bytes(), prog.c_str());
         } else {
            Argv av(prog, words);
            if (grouped) Groups::instance().evalArguments(av.argc, av.arr.get());
            else b->single->evalArguments(av.argc, av.arr.get());
         }
      } catch (const std::exception& e) { out = "err"; what = e.what(); }
      catch (...) { out = "nonstd"; }
      if (out == "ok") {
         dest = b->destJson();
         aux = b->auxJson();
      }
   }
   for (auto& fn : written) unlink(fn.c_str());
   if (!paFile.empty()) unlink(paFile.c_str());
   if (!envName.empty()) unsetenv(envName.c_str());
   vj::Line().str("e", "Eval").str("mode", mode).str("presrc", presrc)
      .raw("filetext", act["filetext"].kind == vj::Value::Arr ? dump(act["filetext"]) : "[]")
      .raw("envstr", act["envstr"].kind == vj::Value::Arr ? dump(act["envstr"]) : "[]")
      .raw("argv", dump(act["argv"])).raw("cmd", dump(act["cmd"]))
      .raw("files", act["files"].kind == vj::Value::Arr ? dump(act["files"]) : "[]")
      .str("out", out).raw("dest", dest).raw("aux", aux).raw("tag", dump(act["tag"])).str("what", what).emit();
   b.reset();
   if (grouped) teardownGroups();
}

// definition only (C05): which arguments are stored, which are refused
static void doDefine(const vj::Value& cfg, const vj::Value& act) {
   const bool grouped = act["mode"].str() == "groups";
   std::vector<std::string> res;
   {
      auto b = std::make_unique<Built>();
      const vj::Value& args = cfg["args"];
      int nmembers = 1;
      if (grouped) {
         for (size_t i = 0; i < args.size(); ++i) nmembers = std::max(nmembers, static_cast<int>(args[i]["grp"].num()) + 1);
         for (int m = 0; m < nmembers; ++m) b->members.push_back((cfg["grpflags"].size() > 0 ? Groups::instance(b->out, b->err, groupFlags(cfg)) : Groups::instance(b->out, b->err)).getArgHandler("g" + std::to_string(m), handlerFlags(cfg)));
      } else b->single = std::make_unique<Handler>(b->out, b->err, handlerFlags(cfg));
      for (size_t i = 0; i < args.size(); ++i) {
         const vj::Value& a = args[i];
         Handler& h = grouped ? *b->members[static_cast<size_t>(a["grp"].num())] : *b->single;
         if (a["kind"].str() == "sub") {
            // sub-group argument: a key of the handler like any other
            b->slots.push_back(makeSlot("flag", vj::Value()));
            try {
               auto sb = buildImpl(a["sub"], false, 0, nullptr);
               if (sb->setupFailed) throw std::runtime_error(sb->setupWhat);
               h.addArgument(keySpec(a), *sb->single, "D" + std::to_string(i + 1));
               b->subs.push_back(std::move(sb));
               res.push_back("ok");
            } catch (const std::exception&) {
               res.push_back("refused");
               if (grouped) { while (res.size() < args.size()) res.push_back("skipped"); break; }
            }
            continue;
         }
         b->slots.push_back(makeSlot(a["kind"].str(), a["init"]));
         TypedArgBase* d = b->slots.back()->dest("v" + std::to_string(i + 1));
         try {
            std::string spec = keySpec(a);
            if (a["dashes"].boolean()) {
               std::string s, l = a["l"].bytes();
               if (a["s"].num() != 0) s = std::string("-") + static_cast<char>(a["s"].num());
               if (!l.empty()) l = "--" + l;
               spec = (!s.empty() && !l.empty()) ? s + "," + l : (s.empty() ? l : s);
            }
            h.addArgument(spec, d, "D" + std::to_string(i + 1));
            res.push_back("ok");
         } catch (const std::exception&) {
            res.push_back("refused");   // leak of d on refusal is accepted (leak detection off)
            // a refusal inside a group leaves the member handler in an unspecified state: stop there
            if (grouped) { while (res.size() < args.size()) res.push_back("skipped"); break; }
         }
      }
      b.reset();
   }
   if (grouped) teardownGroups();
   std::string r = "[";
   for (size_t i = 0; i < res.size(); ++i) { if (i) r += ','; r += "\"" + res[i] + "\""; }
   r += "]";
   vj::Line().str("e", "Define").str("mode", act["mode"].str()).raw("res", r).emit();
}

// C18: usage listing.  The usage text is projected onto (caption, key text, description token, markers)
// per entry; every description is "D<i> ..." so that the argument an entry belongs to is recognisable.
static void doUsage(const vj::Value& cfg, const vj::Value& act) {
   std::string outcome = "ok";
   std::string text;
   try {
      auto b = build(cfg, false, Handler::hfUsageCont);
      if (b->setupFailed) outcome = "setup";
      else {
         if (act["via"].str() == "help") {
            // through the help argument (cfg.help adds -h/--help); optional switches first
            std::vector<std::string> words = wordsOf(act["argv"]);
            Argv av("prog", words);
            b->single->evalArguments(av.argc, av.arr.get());
            text = b->out.str();
         } else {
            std::ostringstream oss;
            oss << *b->single;
            text = oss.str();
         }
      }
   } catch (const std::exception& e) { outcome = "err"; text = e.what(); }
   // parse
   std::string entries = "[";
   int nentries = 0, stray = 0;
   std::istringstream is(text);
   std::string ln, cap = "none";
   struct Entry { std::string cap, key, block; };
   std::vector<Entry> es;
   while (std::getline(is, ln)) {
      if (ln.rfind("Mandatory arguments:", 0) == 0) { cap = "m"; continue; }
      if (ln.rfind("Optional arguments:", 0) == 0) { cap = "o"; continue; }
      if (ln.size() > 3 && ln.compare(0, 3, "   ") == 0 && ln[3] == '-') {
         size_t e = ln.find(' ', 3);
         Entry en; en.cap = cap; en.key = ln.substr(3, e == std::string::npos ? std::string::npos : e - 3);
         en.block = e == std::string::npos ? "" : ln.substr(e);
         es.push_back(en);
         continue;
      }
      if (!es.empty()) es.back().block += "\n" + ln;
      else if (ln.find(" D") != std::string::npos || ln.rfind("D", 0) == 0) ++stray;
   }
   auto has = [](const std::string& b, const char* m) { return b.find(m) != std::string::npos; };
   for (auto& en : es) {
      // tokens D<digits> as whole words
      std::vector<int> toks;
      for (size_t p = 0; p < en.block.size(); ++p) {
         if (en.block[p] == 'D' && (p == 0 || en.block[p - 1] == ' ' || en.block[p - 1] == '\n') && p + 1 < en.block.size() && isdigit(static_cast<unsigned char>(en.block[p + 1]))) {
            size_t q = p + 1; int v = 0;
            while (q < en.block.size() && isdigit(static_cast<unsigned char>(en.block[q]))) v = v * 10 + (en.block[q++] - '0');
            if (q == en.block.size() || en.block[q] == ' ' || en.block[q] == '\n') toks.push_back(v);
         }
      }
      if (nentries++) entries += ',';
      entries += "{\"cap\":\"" + en.cap + "\",\"key\":" + codes(en.key) + ",\"toks\":" + intList(toks.begin(), toks.end())
         + ",\"dflt\":" + (has(en.block, "Default value:") ? "true" : "false")
         + ",\"check\":" + (has(en.block, "Check:") ? "true" : "false")
         + ",\"cons\":" + (has(en.block, "Constraint:") ? "true" : "false")
         + ",\"hid\":" + (has(en.block, "[hidden]") ? "true" : "false")
         + ",\"depr\":" + (has(en.block, "[deprecated]") ? "true" : "false")
         + ",\"repl\":" + (has(en.block, "[replaced by") ? "true" : "false") + "}";
   }
   entries += "]";
   vj::Line().str("e", "Usage").str("via", act["via"].str()).raw("argv", dump(act["argv"])).str("out", outcome)
      .raw("entries", entries).num("stray", stray).str("what", outcome == "ok" ? "" : text).emit();
}

// C17 (usage layout): the usage is a text block per argument behind the key column.  The handler prints its usage once or twice
// (first through the stream operator or not at all, then through the given command line, e.g. "--print-hidden -h"); recorded are, for
// every line of the LAST printout, its length and the number of words it holds, plus the line length in force.
static void doUsageLayout(const vj::Value& cfg, const vj::Value& act) {
   std::string outcome = "ok", text;
   const long width = static_cast<long>(act["width"].num());
   try {
      auto b = build(cfg, false, Handler::hfUsageCont);
      if (b->setupFailed) outcome = "setup";
      else {
         if (width > 0) b->single->setUsageLineLength(static_cast<int>(width));
         if (act["first"].str() == "stream") { std::ostringstream oss; oss << *b->single; }
         else if (act["first"].str() == "help") {
            std::vector<std::string> w1{"-h"};
            Argv av1("prog", w1);
            b->single->evalArguments(av1.argc, av1.arr.get());
            b->out.str("");
         }
         std::vector<std::string> words = wordsOf(act["argv"]);
         if (words.empty()) { std::ostringstream oss; oss << *b->single; text = oss.str(); }
         else {
            Argv av("prog", words);
            b->single->evalArguments(av.argc, av.arr.get());
            text = b->out.str();
         }
      }
   } catch (const std::exception& e) { outcome = "err"; text = e.what(); }
   std::string lens = "[", nwords = "[";
   if (outcome == "ok") {
      std::istringstream is(text);
      std::string ln; bool f = true;
      while (std::getline(is, ln)) {
         int nw = 0; bool in = false;
         for (char ch : ln) { if (ch != ' ' && !in) { ++nw; in = true; } else if (ch == ' ') in = false; }
         if (!f) { lens += ','; nwords += ','; }
         f = false;
         lens += std::to_string(ln.size()); nwords += std::to_string(nw);
      }
   }
   lens += "]"; nwords += "]";
   vj::Line().str("e", "UsageLayout").str("first", act["first"].str()).raw("argv", dump(act["argv"])).str("out", outcome)
      .num("width", width > 0 ? width : 80).raw("lens", lens).raw("nwords", nwords).str("what", outcome == "ok" ? "" : text).emit();
}

// C18: help for a single argument (--help-arg=<key>)
static void doHelpArg(const vj::Value& cfg, const vj::Value& act) {
   std::string outcome = "ok";
   std::string out, err;
   try {
      auto b = build(cfg, false, Handler::hfUsageCont | Handler::hfHelpArg);
      if (b->setupFailed) outcome = "setup";
      else {
         std::vector<std::string> words{"--help-arg=" + act["key"].bytes()};
         Argv av("prog", words);
         b->single->evalArguments(av.argc, av.arr.get());
         out = b->out.str(); err = b->err.str();
      }
   } catch (const std::exception& e) { outcome = "err"; err = e.what(); }
   std::vector<int> toks;
   for (size_t p = 0; p < out.size(); ++p)
      if (out[p] == 'D' && (p == 0 || out[p - 1] == ' ' || out[p - 1] == '\n') && p + 1 < out.size() && isdigit(static_cast<unsigned char>(out[p + 1]))) {
         size_t q = p + 1; int v = 0;
         while (q < out.size() && isdigit(static_cast<unsigned char>(out[q]))) v = v * 10 + (out[q++] - '0');
         toks.push_back(v);
      }
   vj::Line().str("e", "HelpArg").raw("key", dump(act["key"])).str("out", outcome).raw("toks", intList(toks.begin(), toks.end()))
      .boolean("header", out.find("Argument '") != std::string::npos && out.find("', usage:") != std::string::npos)
      .boolean("unknown", err.find("is unknown") != std::string::npos).emit();
}

// X01: argument summary (Handler::printSummary / Groups::printSummary).  Builds the handler(s) from cfg, evaluates argv
// (unless "evaluate" is false) and then calls printSummary once per element of "calls" ({"type":b,"key":b,"ovl":"set"|"os"|"cout"}:
// printSummary( contents_set, os) / printSummary( os) / printSummary( contents_set) with std::cout redirected).  Every printed
// summary is projected onto its lines: kinds = per line "t" (not indented and not an entry: a title), "e" (an entry) or "o"
// (anything else); entries = per entry line the variable name, the value text, the type text (split off only when the type was
// requested), the key text and the prefix in front of the key (sub-group arguments).  Nothing is compared here.
static std::string summaryJson(const std::string& text, bool typeRequested) {
   std::string kinds = "[", entries = "[", others = "[";
   bool fk = true, fe = true, fo = true;
   std::istringstream is(text);
   std::string ln;
   const std::string head = "   Value <", mid = "> set on variable '", by = " by argument '";
   while (std::getline(is, ln)) {
      char kind = 'o';
      std::string var, val, type, key, prefix;
      bool haskey = false;
      const size_t p = ln.rfind(mid);
      if (ln.compare(0, head.size(), head) == 0 && p != std::string::npos && p >= head.size()) {
         const std::string inner = ln.substr(head.size(), p - head.size());
         const std::string rest = ln.substr(p + mid.size());
         const size_t q = rest.find('\'');
         if (q != std::string::npos) {
            var = rest.substr(0, q);
            const std::string tail = rest.substr(q + 1);
            bool ok = false;
            if (tail == ".") ok = true;
            else if (tail.size() >= by.size() + 2 && tail.compare(0, by.size(), by) == 0 && tail.compare(tail.size() - 2, 2, "'.") == 0) {
               ok = true; haskey = true;
               key = tail.substr(by.size(), tail.size() - by.size() - 2);
               const size_t s = key.find("'/'");
               if (s != std::string::npos) { prefix = key.substr(0, s); key = key.substr(s + 3); }
            }
            if (ok) {
               kind = 'e';
               val = inner;
               if (typeRequested && !inner.empty() && inner.back() == ']') {
                  int depth = 0;
                  for (size_t k = inner.size(); k-- > 0;) {
                     if (inner[k] == ']') ++depth;
                     else if (inner[k] == '[' && --depth == 0) {
                        if (k >= 1 && inner[k - 1] == ' ') { type = inner.substr(k + 1, inner.size() - k - 2); val = inner.substr(0, k - 1); }
                        break;
                     }
                  }
               }
            }
         }
      }
      if (kind != 'e' && !ln.empty() && ln[0] != ' ') kind = 't';
      if (!fk) kinds += ','; fk = false;
      kinds += std::string("\"") + kind + "\"";
      if (kind == 'e') {
         if (!fe) entries += ','; fe = false;
         entries += "{\"var\":" + codes(var) + ",\"val\":" + codes(val) + ",\"type\":" + codes(type) + ",\"key\":" + codes(key)
            + ",\"prefix\":" + codes(prefix) + ",\"haskey\":" + (haskey ? "true" : "false") + "}";
      } else {
         if (!fo) others += ','; fo = false;
         others += codes(ln);
      }
   }
   return "{\"kinds\":" + kinds + "],\"entries\":" + entries + "],\"others\":" + others + "]}";
}
static void doSummary(const vj::Value& cfg, const vj::Value& act) {
   using celma::prog_args::SummaryOptions;
   using celma::prog_args::sumoptset_t;
   const std::string mode = act["mode"].kind == vj::Value::Str ? act["mode"].str() : "handler";
   const std::string presrc = act["presrc"].kind == vj::Value::Str ? act["presrc"].str() : "none";
   const std::string prog = "prog";
   const bool grouped = mode == "groups";
   const bool evaluate = act["evaluate"].boolean(true);
   std::string out = evaluate ? "ok" : "none", what, dest = "[]", aux = "[]", sums = "[";
   int extra = 0;
   std::string paFile, envName;
   if (evaluate && (presrc == "file" || presrc == "both")) {
      extra |= Handler::hfReadProgArg;
      mkdir((gScratch + "/.progargs").c_str(), 0700);
      paFile = gScratch + "/.progargs/" + prog + ".pa";
      std::ofstream f(paFile, std::ios::binary | std::ios::trunc);
      f << act["filetext"].bytes();
      f.close();
      setenv("HOME", gScratch.c_str(), 1);
   }
   if (evaluate && (presrc == "env" || presrc == "both")) {
      extra |= Handler::hfEnvVarArgs;
      envName = "PROG";
      setenv(envName.c_str(), act["envstr"].bytes().c_str(), 1);
   }
   std::unique_ptr<Built> b;
   try {
      b = build(cfg, grouped, extra);
      if (b->setupFailed) { out = "setup"; what = b->setupWhat; }
   } catch (const std::exception& e) { out = "setup"; what = e.what(); }
   std::string presums = "[";
   auto printAll = [&](const vj::Value& calls, std::string& sumsOut) {
      for (size_t k = 0; k < calls.size(); ++k) {
         const bool wt = calls[k]["type"].boolean(), wk = calls[k]["key"].boolean();
         const std::string ovl = calls[k]["ovl"].kind == vj::Value::Str ? calls[k]["ovl"].str() : "set";
         sumoptset_t set;
         if (wt) set |= SummaryOptions::with_type;
         if (wk) set |= SummaryOptions::with_key;
         std::ostringstream oss;
         std::string res = "ok";
         try {
            if (ovl == "os") {
               if (grouped) Groups::instance().printSummary(oss); else b->single->printSummary(oss);
            } else if (ovl == "cout") {
               std::streambuf* old = std::cout.rdbuf(oss.rdbuf());
               try { if (grouped) Groups::instance().printSummary(set); else b->single->printSummary(set); }
               catch (...) { std::cout.rdbuf(old); throw; }
               std::cout.flush();
               std::cout.rdbuf(old);
            } else {
               if (grouped) Groups::instance().printSummary(set, oss); else b->single->printSummary(set, oss);
            }
         } catch (const std::exception& e) { res = "err"; what = e.what(); }
         if (k) sumsOut += ',';
         const std::string pj = summaryJson(oss.str(), wt && ovl != "os");
         sumsOut += "{\"type\":" + std::string(wt ? "true" : "false") + ",\"key\":" + (wk ? "true" : "false") + ",\"ovl\":\"" + ovl
            + "\",\"res\":\"" + res + "\"," + pj.substr(1);
      }
   };
   if (out != "setup") printAll(act["precalls"], presums);      // printSummary() before evalArguments()
   presums += "]";
   if (out != "setup") {
      if (evaluate) {
         const std::vector<std::string> words = wordsOf(act["argv"]);
         try {
            Argv av(prog, words);
            if (grouped) Groups::instance().evalArguments(av.argc, av.arr.get());
            else b->single->evalArguments(av.argc, av.arr.get());
         } catch (const std::exception& e) { out = "err"; what = e.what(); }
         catch (...) { out = "nonstd"; }
      }
      dest = b->destJson();
      aux = b->auxJson();
      printAll(act["calls"], sums);
   }
   sums += "]";
   if (!paFile.empty()) unlink(paFile.c_str());
   if (!envName.empty()) unsetenv(envName.c_str());
   vj::Line().str("e", "Summary").str("mode", mode).boolean("evaluate", evaluate).str("presrc", presrc)
      .raw("filetext", act["filetext"].kind == vj::Value::Arr ? dump(act["filetext"]) : "[]")
      .raw("envstr", act["envstr"].kind == vj::Value::Arr ? dump(act["envstr"]) : "[]")
      .raw("argv", act["argv"].kind == vj::Value::Arr ? dump(act["argv"]) : "[]")
      .str("out", out).raw("dest", dest).raw("aux", aux).raw("presums", presums).raw("sums", sums)
      .raw("tag", act["tag"].kind == vj::Value::Obj ? dump(act["tag"]) : "{\"k\":\"none\"}").str("what", what).emit();
   b.reset();
   if (grouped) teardownGroups();
}

static void doSplit(const vj::Value& act) {
   const std::string cmd = act["cmd"].bytes();
   const bool withProg = act["prog"].kind == vj::Value::Arr;
   const std::string prog = withProg ? act["prog"].bytes() : "";
   std::string out = "ok";
   std::string words = "[]";
   int argc = 0; bool nullterm = false; std::string prog0;
   try {
      // command string in an exactly-sized heap block
      std::unique_ptr<char[]> blk(new char[cmd.size() + 1]);
      memcpy(blk.get(), cmd.c_str(), cmd.size() + 1);
      auto as2a = celma::appl::make_arg_array(std::string(blk.get()), withProg ? prog.c_str() : nullptr);
      argc = as2a.mArgC;
      words = "[";
      for (int i = 1; i < as2a.mArgC; ++i) { if (i > 1) words += ','; words += codes(as2a.mpArgV[i]); }
      words += "]";
      prog0 = as2a.mArgC > 0 && as2a.mpArgV[0] ? as2a.mpArgV[0] : "";
      nullterm = true;   // reading argv[argc] must be legal; ASan reports it otherwise
      nullterm = as2a.mpArgV[as2a.mArgC] == nullptr;
   } catch (const std::exception&) { out = "err"; }
   vj::Line().str("e", "Split").boolean("raw", act["raw"].boolean()).raw("cmd", codes(cmd)).boolean("withprog", withProg).raw("prog", codes(prog)).str("out", out)
      .raw("words", words).num("argc", argc).boolean("nullterm", nullterm).raw("prog0", codes(prog0)).emit();
}

int main(int argc, char** argv) {
   vh::init();
   const char* script = vh::arg(argc, argv, "--script");
   const char* scratch = vh::arg(argc, argv, "--scratch", "/var/tmp");
   gScratch = std::string(scratch) + "/argdrv-" + std::to_string(getpid());
   mkdir(gScratch.c_str(), 0700);
   if (script && script[0] != '/') { fprintf(stderr, "--script needs an absolute path\n"); return 3; }
   if (!script) { fprintf(stderr, "usage: arg_driver --script FILE [--scratch DIR]\n"); return 3; }
   FILE* f = fopen(script, "r");
   if (!f) { fprintf(stderr, "cannot open %s\n", script); return 3; }
   if (chdir(gScratch.c_str()) != 0) { fprintf(stderr, "cannot enter %s\n", gScratch.c_str()); return 3; }
   std::string line;
   const long nthreads = vh::argnum(argc, argv, "--threads", 0);
   if (nthreads > 0) {
      // C09: every block (Reset + its Eval actions) is executed by its own thread; all threads of a
      // batch start from a spin barrier (relaxed atomics only: no happens-before edges are added that
      // could hide a race from ThreadSanitizer) and run `--rounds` times.
      struct Block { vj::Value cfg; std::vector<vj::Value> acts; };
      std::vector<Block> blocksv;
      while (vj::getline(f, line)) {
         if (line.empty()) continue;
         vj::Value act = vj::parse(line);
         if (act["n"].str() == "Reset") { blocksv.push_back(Block{act["cfg"], {}}); continue; }
         if (!blocksv.empty() && (act["n"].str() == "Eval" || act["n"].str() == "Usage")) blocksv.back().acts.push_back(act);
      }
      fclose(f);
      const long rounds = vh::argnum(argc, argv, "--rounds", 1);
      vh::Rng rng(static_cast<uint64_t>(vh::argnum(argc, argv, "--seed", 1)));
      for (size_t base = 0; base < blocksv.size(); base += static_cast<size_t>(nthreads)) {
         const size_t n = std::min(static_cast<size_t>(nthreads), blocksv.size() - base);
         std::vector<std::string> outs(n);
         std::vector<long> skew(n);
         for (auto& sk : skew) sk = static_cast<long>(rng.below(2000));
         std::atomic<int> ready{0};
         std::atomic<bool> go{false};
         std::vector<std::thread> ths;
         for (size_t t = 0; t < n; ++t) {
            ths.emplace_back([&, t]() {
               vj::Line::sink() = &outs[t];
               const Block& b = blocksv[base + t];
               const std::string cj = dump(b.cfg);
               vj::Line().str("e", "Reset").raw("cfg", cj).emit();
               ready.fetch_add(1, std::memory_order_relaxed);
               while (!go.load(std::memory_order_relaxed)) {}
               for (volatile long k = 0; k < skew[t]; ++k) {}
               long evalNo = 0;
               for (long r = 0; r < rounds; ++r)
                  for (auto& a : b.acts) {
                     // every second set-up uses pattern strings that are new to the process, the others known ones
                     gPatSalt = (++evalNo % 2 == 0) ? std::string() : "|\x02" + std::to_string(base + t) + "_" + std::to_string(evalNo);
                     if (a["n"].str() == "Usage") doUsage(b.cfg, a); else doEval(b.cfg, a, cj);
                  }
               gPatSalt.clear();
               vj::Line::sink() = nullptr;
            });
         }
         while (ready.load(std::memory_order_relaxed) < static_cast<int>(n)) {}
         go.store(true, std::memory_order_relaxed);
         for (auto& th : ths) th.join();
         for (auto& o : outs) fwrite(o.data(), 1, o.size(), stdout);
      }
      vh::end();
      return 0;
   }
   vj::Value cfg;
   std::string cfgJson;
   const long skip = vh::argnum(argc, argv, "--skip", 0);
   long n = 0;
   while (vj::getline(f, line)) {
      if (line.empty()) continue;
      vj::Value act = vj::parse(line);
      const std::string name = act["n"].str();
      if (name == "Reset") {
         cfg = act["cfg"];
         cfgJson = dump(cfg);
         vj::Line().str("e", "Reset").raw("cfg", cfgJson).emit();
         continue;
      }
      if (n++ < skip) continue;
      if (name == "Eval") doEval(cfg, act, cfgJson);
      else if (name == "Define") doDefine(cfg, act);
      else if (name == "Split") doSplit(act);
      else if (name == "Usage") doUsage(cfg, act);
      else if (name == "HelpArg") doHelpArg(cfg, act);
      else if (name == "UsageLayout") doUsageLayout(cfg, act);
      else if (name == "Summary") doSummary(cfg, act);
   }
   fclose(f);
   std::string rm = "rm -rf '" + gScratch + "'";
   if (system(rm.c_str()) != 0) {}
   vh::end();
   return 0;
}
