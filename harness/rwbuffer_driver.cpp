// Conformance driver for celma::common::ReadBuffer<N> / WriteBuffer<N>  (property C19).
//   rwbuffer_driver --comp write|read --script FILE     replay of TLC-generated action sequences
//   rwbuffer_driver --comp write|read --random --seed S --cases K --ops M
// Output: ndjson trace on stdout (see specs/rwbuffer/Trace*.tla for the event format).
#include <cstring>
#include <memory>
#include <vector>
#include "common/vharness.hpp"
#include "celma/common/read_buffer.hpp"
#include "celma/common/write_buffer.hpp"

using Bytes = std::vector<unsigned char>;
static unsigned char byteAt(long j) { return static_cast<unsigned char>((j * 37 + 11) % 256); }

// ---------------------------------------------------------------- write side
struct IWriter {
   virtual ~IWriter() = default;
   virtual void doAppend(const unsigned char* d, size_t len) = 0;
   virtual void doFlush() = 0;
   virtual size_t doBuffered() const = 0;
   virtual std::string doStats() const = 0;     // statistics policy: [numAppendCalled, bytesAppended, numFlushCalled, bytesFlushed]
   mutable std::vector<Bytes> calls;
};
template <size_t N> struct Writer : IWriter, celma::common::WriteBuffer<N, celma::common::WriteCountPolicy> {
   void writeData(const unsigned char* const data, size_t len) const override { calls.emplace_back(data, data + len); }
   void doAppend(const unsigned char* d, size_t len) override { this->append(d, len); }
   void doFlush() override { this->flush(); }
   size_t doBuffered() const override { return this->buffered(); }
   std::string doStats() const override {
      return "[" + std::to_string(this->numAppendCalled()) + "," + std::to_string(this->bytesAppended()) + "," + std::to_string(this->numFlushCalled()) + ","
         + std::to_string(this->bytesFlushed()) + "]";
   }
};

// ---------------------------------------------------------------- read side
struct IReader {
   virtual ~IReader() = default;
   virtual void doGet(unsigned char* d, size_t len) = 0;
   virtual std::string doStats() const = 0;     // statistics policy: [numSourceReads, bytesReadFromSource, numBufferReads, bytesReadFromBuffer]
   std::vector<long> chunkScript;   // how many bytes the next readData() calls deliver (0 = as many as requested)
   size_t chunkIdx = 0;
   long spos = 0;
   vh::Rng* rng = nullptr;
   int chunkMode = 0;  // random mode: 0 full, 1 one byte, 2 random
};
template <size_t N> struct Reader : IReader, celma::common::ReadBuffer<N, celma::common::ReadCountPolicy> {
   size_t readData(unsigned char* data, size_t len) override {
      size_t got = len;
      if (chunkIdx < chunkScript.size()) {
         long g = chunkScript[chunkIdx++];
         if (g >= 1 && static_cast<size_t>(g) <= len) got = static_cast<size_t>(g);
      } else if (rng != nullptr && len > 0) {
         if (chunkMode == 1) got = 1;
         else if (chunkMode == 2) got = 1 + rng->below(len);
      }
      // deliver into an exactly-sized scratch block first, then copy: an over-long request shows up
      // as a write beyond the library's buffer under ASan when we copy `got` bytes to `data`
      for (size_t i = 0; i < got; ++i) data[i] = byteAt(spos + static_cast<long>(i));
      spos += static_cast<long>(got);
      vj::Line().str("e", "ReadData").num("req", static_cast<long long>(len)).num("got", static_cast<long long>(got)).emit();
      return got;
   }
   void doGet(unsigned char* d, size_t len) override { this->get(d, len); }
   std::string doStats() const override {
      return "[" + std::to_string(this->numSourceReads()) + "," + std::to_string(this->bytesReadFromSource()) + "," + std::to_string(this->numBufferReads()) + ","
         + std::to_string(this->bytesReadFromBuffer()) + "]";
   }
};

template <template <size_t> class T, typename I> static std::unique_ptr<I> make(long n) {
   switch (n) {
   case 1: return std::make_unique<T<1>>();
   case 2: return std::make_unique<T<2>>();
   case 3: return std::make_unique<T<3>>();
   case 4: return std::make_unique<T<4>>();
   case 5: return std::make_unique<T<5>>();
   case 6: return std::make_unique<T<6>>();
   case 7: return std::make_unique<T<7>>();
   case 16: return std::make_unique<T<16>>();
   case 64: return std::make_unique<T<64>>();
   case 4096: return std::make_unique<T<4096>>();
   default: return nullptr;
   }
}
static const long kSizes[] = {1, 2, 3, 4, 5, 6, 7, 16, 64, 4096};

// ---------------------------------------------------------------- operations with logging
struct WriteSession {
   std::unique_ptr<IWriter> w;
   long total = 0;
   void reset(long n) {
      w = make<Writer, IWriter>(n);
      total = 0;
      vj::Line().str("e", "Reset").num("N", n).emit();
   }
   static std::string chunksJson(const std::vector<Bytes>& c) {
      std::string s = "[";
      for (size_t i = 0; i < c.size(); ++i) {
         if (i) s += ',';
         s += '[';
         for (size_t k = 0; k < c[i].size(); ++k) { if (k) s += ','; s += std::to_string(c[i][k]); }
         s += ']';
      }
      return s + "]";
   }
   void append(const Bytes& d) {
      if (!w) return;
      // caller's data in an exactly-sized heap block: over-reads of the source are visible to ASan
      std::unique_ptr<unsigned char[]> blk(new unsigned char[d.size() ? d.size() : 1]);
      if (!d.empty()) memcpy(blk.get(), d.data(), d.size());
      w->calls.clear();
      const char* res = "ok";
      try { w->doAppend(blk.get(), d.size()); } catch (const std::exception&) { res = "exception"; }
      total += static_cast<long>(d.size());
      vj::Line().str("e", "Append").ints("d", d).raw("w", chunksJson(w->calls))
         .num("buffered", static_cast<long long>(w->doBuffered())).str("res", res).raw("st", w->doStats()).emit();
   }
   void flush() {
      if (!w) return;
      w->calls.clear();
      const char* res = "ok";
      try { w->doFlush(); } catch (const std::exception&) { res = "exception"; }
      vj::Line().str("e", "Flush").ints("d", Bytes()).raw("w", chunksJson(w->calls))
         .num("buffered", static_cast<long long>(w->doBuffered())).str("res", res).raw("st", w->doStats()).emit();
   }
};

struct ReadSession {
   std::unique_ptr<IReader> r;
   void reset(long n) {
      r = make<Reader, IReader>(n);
      vj::Line().str("e", "Reset").num("N", n).emit();
   }
   void get(long len, const std::vector<long>& chunks) {
      if (!r) return;
      vj::Line().str("e", "GetBegin").num("len", len).emit();
      r->chunkScript = chunks;
      r->chunkIdx = 0;
      std::unique_ptr<unsigned char[]> blk(new unsigned char[len > 0 ? len : 1]);
      const char* res = "ok";
      bool threw = false;
      try { r->doGet(blk.get(), static_cast<size_t>(len)); } catch (const std::exception&) { res = "refused"; threw = true; }
      Bytes data;
      if (!threw && len > 0) data.assign(blk.get(), blk.get() + len);
      vj::Line().str("e", "GetEnd").str("res", res).ints("data", data).raw("st", r->doStats()).emit();
   }
};

int main(int argc, char** argv) {
   vh::init();
   const std::string comp = vh::arg(argc, argv, "--comp", "write");
   const char* script = vh::arg(argc, argv, "--script");
   if (script != nullptr) {
      FILE* f = fopen(script, "r");
      if (!f) { fprintf(stderr, "cannot open %s\n", script); return 3; }
      std::vector<vj::Value> acts;
      std::string line;
      while (vj::getline(f, line)) if (!line.empty()) acts.push_back(vj::parse(line));
      fclose(f);
      if (comp == "write") {
         WriteSession s;
         for (size_t i = 0; i < acts.size(); ++i) {
            const auto& a = acts[i];
            const std::string n = a["n"].str();
            if (n == "Reset") {
               // capacity is carried by the first action after the Reset
               long cap = (i + 1 < acts.size()) ? acts[i + 1]["N"].num(1) : 1;
               s.reset(cap);
            } else if (n == "Append") {
               Bytes d;
               for (long k = 1; k <= a["len"].num(); ++k) d.push_back(byteAt(s.total + k));
               s.append(d);
            } else if (n == "Flush") s.flush();
         }
      } else {
         ReadSession s;
         for (size_t i = 0; i < acts.size(); ++i) {
            const auto& a = acts[i];
            const std::string n = a["n"].str();
            if (n == "Reset") {
               long cap = (i + 1 < acts.size()) ? acts[i + 1]["N"].num(1) : 1;
               s.reset(cap);
            } else if (n == "GetBegin") {
               std::vector<long> chunks;
               for (size_t k = i + 1; k < acts.size() && acts[k]["n"].str() == "ReadData"; ++k) chunks.push_back(acts[k]["got"].num());
               s.get(a["len"].num(), chunks);
            }  // ReadData / GetEnd lines are consumed by the GetBegin above
         }
      }
   } else {
      vh::Rng rng(static_cast<uint64_t>(vh::argnum(argc, argv, "--seed", 1)));
      const long cases = vh::argnum(argc, argv, "--cases", 10);
      const long ops = vh::argnum(argc, argv, "--ops", 100);
      for (long c = 0; c < cases; ++c) {
         const long n = kSizes[rng.below(sizeof kSizes / sizeof kSizes[0])];
         if (comp == "write") {
            WriteSession s;
            s.reset(n);
            for (long o = 0; o < ops; ++o) {
               if (rng.chance(1, 6)) { s.flush(); continue; }
               long len;
               switch (rng.below(6)) {
               case 0: len = 0; break;
               case 1: len = n; break;
               case 2: len = n + rng.range(1, 3); break;
               case 3: len = n > 1 ? n - 1 : 1; break;
               default: len = rng.range(1, n > 64 ? 300 : n + 1); break;
               }
               Bytes d;
               for (long k = 0; k < len; ++k) d.push_back(static_cast<unsigned char>(rng.below(256)));
               s.append(d);
            }
         } else {
            ReadSession s;
            s.reset(n);
            s.r->rng = &rng;
            for (long o = 0; o < ops; ++o) {
               s.r->chunkMode = static_cast<int>(rng.below(3));
               if (n > 64 && s.r->chunkMode == 1) s.r->chunkMode = 2;   // 1-byte deliveries only for small buffers
               long len;
               switch (rng.below(6)) {
               case 0: len = 0; break;
               case 1: len = n; break;
               case 2: len = n + rng.range(1, 3); break;
               case 3: len = 1; break;
               default: len = rng.range(1, n > 64 ? 200 : n); break;
               }
               s.get(len, {});
            }
         }
      }
   }
   vh::end();
   return 0;
}
