// Conformance driver for celma::container::Properties  (extension check X04).
//   properties_driver --script FILE                       replay of TLC-generated action sequences
//   properties_driver --random --seed S --cases K --ops M [--marker 1]
// Output: ndjson trace on stdout (see specs/properties/TraceProperties.tla for the event format).
// The driver only records: action, arguments, result, and what the public API shows afterwards.  The only knowledge it
// uses is what a caller must supply anyway: the template argument of getProperty< T>() / value< T>().  In script mode
// TLC supplies it with the action; in random mode it follows from a naming convention of the generator (below).
#include <cstring>
#include <memory>
#include <optional>
#include <sstream>
#include <string>
#include <vector>
#include "common/vharness.hpp"
#include "celma/container/properties.hpp"

using celma::container::Properties;
using Names = std::vector<std::string>;

static std::string intsJson(const std::vector<long long>& v) {
   std::string s = "[";
   for (size_t i = 0; i < v.size(); ++i) { if (i) s += ','; s += std::to_string(v[i]); }
   return s + "]";
}
static std::string bytesJson(const std::string& t) {
   std::string s = "[";
   for (size_t i = 0; i < t.size(); ++i) { if (i) s += ','; s += std::to_string(static_cast<unsigned char>(t[i])); }
   return s + "]";
}

// type by name (random mode only): a name starts with its type tag, a link name with 'L' and the tag of its destination
static const char* typeByName(const std::string& n) {
   if (n.empty()) return "int";
   char tag = n[0];
   if (tag == 'L') tag = n.size() > 1 ? n[1] : '?';
   if (tag == 'i') return "int";
   if (tag == 's' || tag == 'c') return "str";
   return "?";
}

struct Session {
   std::unique_ptr<Properties> props;
   char sep = '.';
   unsigned dots = 0;
   static const size_t kIterLimit = 5000;

   void reset(int c) {
      sep = static_cast<char>(c);
      props.reset();
      // "defaulted to '.'": every second container with that separator is built with the default constructor
      if (sep == '.' && (++dots % 2) == 0) props = std::make_unique<Properties>();
      else props = std::make_unique<Properties>(sep);
      vj::Line().str("e", "Reset").num("sep", static_cast<unsigned char>(sep)).emit();
   }
   bool add(const std::string& p, const std::string& t, long long iv, const std::string& sv) {
      bool res = false;
      if (t == "int") res = props->addProperty(p, static_cast<int>(iv));
      else if (t == "str") res = props->addProperty(p, sv);
      else {
         // const char* overload: the text in an exactly sized heap block
         std::unique_ptr<char[]> blk(new char[sv.size() + 1]);
         memcpy(blk.get(), sv.c_str(), sv.size() + 1);
         res = props->addProperty(p, const_cast<const char*>(blk.get()));
      }
      vj::Line l;
      l.str("e", "Add").bytes("p", p).str("t", t);
      if (t == "int") l.raw("v", intsJson({iv})); else l.bytes("v", sv);
      l.boolean("res", res).emit();
      return res;
   }
   bool link(const std::string& p, const std::string& q) {
      const bool res = props->addLink(p, q);
      vj::Line().str("e", "Link").bytes("p", p).bytes("q", q).boolean("res", res).emit();
      return res;
   }
   void has(const std::string& p) {
      const bool res = static_cast<const Properties&>(*props).hasProperty(p);
      vj::Line().str("e", "Has").bytes("p", p).boolean("res", res).emit();
   }
   void get(const std::string& p, const std::string& t) {
      vj::Line l;
      l.str("e", "Get").bytes("p", p).str("t", t);
      if (t == "int") {
         int v = -77;
         const bool res = props->getProperty(v, p);
         l.boolean("res", res).raw("v", intsJson({v}));
      } else {
         std::string v("unset");
         const bool res = props->getProperty(v, p);
         l.boolean("res", res).bytes("v", v);
      }
      l.emit();
   }
   // one full iteration; types == nullptr: type by name
   void iter(const std::vector<std::string>* types) {
      std::string items = "[";
      bool trunc = false;
      size_t k = 0;
      Properties::iterator it = props->begin();
      Properties::iterator it2 = props->begin();
      std::optional<Properties::iterator> prev;
      while (it != props->end()) {
         if (k >= kIterLimit) { trunc = true; break; }
         const std::string path = it.path();
         const std::string name = it.name();
         const std::string pn = it.pathAndName();
         std::string t = types ? (k < types->size() ? (*types)[k] : std::string("?")) : std::string(typeByName(name));
         vj::Line l;
         l.bytes("p", path).bytes("n", name).bytes("pn", pn);
         try {
            if (t == "int") { const int v = it.value<int>(); l.str("t", t).raw("v", intsJson({v})); }
            else if (t == "str") { const std::string v = it.value<std::string>(); l.str("t", t).bytes("v", v); }
            else l.str("t", t).raw("v", "[]");
         } catch (const std::exception&) {
            l.str("t", "throw").raw("v", "[]");
         }
         const bool eq = (it == it2) && !(it != it2);
         const bool eqp = prev.has_value() && ((it == *prev) || !(it != *prev));
         prev.emplace(it);
         std::string o;
         if (k % 2 == 0) {
            Properties::iterator before(it);
            Properties::iterator& r = ++it;
            o = before.pathAndName();
            if (&r != &it) o += "?";          // prefix increment returns the object itself
            ++it2;
         } else {
            Properties::iterator old(it++);
            o = old.pathAndName();
            it2++;
         }
         l.bytes("o", o).boolean("eq", eq).boolean("eqp", eqp);
         if (k) items += ',';
         items += l.done();
         ++k;
      }
      // "Default constructor, can be used for end() iterators."
      const Properties::iterator dflt;
      const bool endeq = trunc || ((it == props->end()) && (it2 == props->end()) && (it == it2) && !(it != props->end()) && (it == dflt) && (k == 0 || !(*prev == dflt)));
      vj::Line().str("e", "Iter").raw("items", items + "]").boolean("endeq", endeq).boolean("trunc", trunc).emit();
   }
   void print(const char* ev) {
      std::ostringstream oss;
      std::ostream& r = (oss << *props);
      std::string out = oss.str();
      if (&r != &oss) out += "?";             // "The stream as passed in."
      std::string lines = "[";
      size_t pos = 0, n = 0;
      for (;;) {
         const size_t nl = out.find('\n', pos);
         if (nl == std::string::npos) break;
         if (n++) lines += ',';
         lines += bytesJson(out.substr(pos, nl - pos));
         pos = nl + 1;
      }
      vj::Line().str("e", ev).raw("lines", lines + "]").bytes("tail", out.substr(pos)).emit();
   }
};

// ------------------------------------------------------------------------------------------------
// Random histories.  Conventions of the generator (they keep the calls inside the documented use without the driver
// knowing the state of the container):
//  * a plain name is <tag><rank><suffix>, tag in {i, s, c} = the type of the value stored under that name
//    (int, std::string, const char*), rank a digit 0..3; the empty name counts as tag i;
//  * a link is only created under a link name L<tag><rank><suffix> where <tag> is the tag of the last name of its
//    destination path; values are never stored under a link name.  So the type of a value follows from the name under
//    which it is reached, and the names on the way to a new link are never links;
//  * addLink( l, f) is only called when the rank of the first name of f is greater than the rank of the first name of l:
//    every link leads to a top-level sub-tree of higher rank, so the links cannot form a cycle.
struct Gen {
   vh::Rng& rng;
   char sep;
   std::vector<Names> used;                       // paths used as arguments so far
   std::vector<Names> good;                       // paths for which addProperty() / addLink() returned true (feedback, not an oracle)
   std::vector<std::pair<Names, Names>> links;    // (link, destination) arguments used so far
   Gen(vh::Rng& r, char s) : rng(r), sep(s) {}

   std::string suffix() {
      static const char* pool[] = {"", "", "", "", "x", "y", "-", ".", "/", ":", " z", "x.y", "\xe9", "=", "->"};
      for (;;) {
         std::string s = pool[rng.below(sizeof pool / sizeof pool[0])];
         if (s.find(sep) == std::string::npos) return s;
      }
   }
   char tag() { return "isc"[rng.below(3)]; }
   int rank() { return static_cast<int>(rng.below(4)); }
   std::string plain(char t, int r) { return std::string(1, t) + static_cast<char>('0' + r) + suffix(); }
   std::string plain() { return plain(tag(), rank()); }
   std::string linkName(char t, int r) { return std::string("L") + t + static_cast<char>('0' + r) + suffix(); }
   static bool isLink(const std::string& n) { return !n.empty() && n[0] == 'L'; }
   static int rankOf(const std::string& n) {
      const size_t i = isLink(n) ? 2 : 1;
      return (n.size() > i && n[i] >= '0' && n[i] <= '3') ? n[i] - '0' : 0;
   }
   static char tagOf(const std::string& n) {
      if (n.empty()) return 'i';
      return isLink(n) ? (n.size() > 1 ? n[1] : 'i') : n[0];
   }
   std::string anyName() {
      const auto r = rng.below(100);
      if (r < 80) return plain();
      if (r < 95) return linkName(tag(), rank());
      return "";
   }
   std::string join(const Names& ns) const {
      std::string s;
      for (size_t i = 0; i < ns.size(); ++i) { if (i) s += sep; s += ns[i]; }
      return s;
   }
   Names fresh(size_t maxlen) {
      size_t k = 1 + rng.below(maxlen);
      if (rng.chance(1, 12)) k += rng.below(6);
      Names ns;
      for (size_t i = 0; i < k; ++i) ns.push_back(anyName());
      if (ns[0].empty()) ns[0] = plain();
      return ns;
   }
   // a path related to the paths used before: the same, a prefix, an extension, or the same seen through a link
   Names related() {
      if (used.empty() || rng.chance(1, 5)) return fresh(4);
      Names ns = (!good.empty() && rng.chance(2, 3)) ? good[rng.below(good.size())] : used[rng.below(used.size())];
      switch (rng.below(6)) {
      case 0: if (ns.size() > 1) ns.resize(1 + rng.below(ns.size() - 1)); break;
      case 1: ns.push_back(anyName()); break;
      case 2:
         if (!links.empty()) {
            const auto& lk = links[rng.below(links.size())];
            if (lk.second.size() <= ns.size() && std::equal(lk.second.begin(), lk.second.end(), ns.begin())) {
               Names r = lk.first;
               r.insert(r.end(), ns.begin() + static_cast<long>(lk.second.size()), ns.end());
               ns = r;
            } else { ns = lk.first; if (rng.chance(1, 2)) ns.push_back(anyName()); }
         }
         break;
      case 3: ns[rng.below(ns.size())] = anyName(); if (ns[0].empty()) ns[0] = plain(); break;
      default: break;
      }
      return ns;
   }
};

static std::string randomText(vh::Rng& rng, bool cstr) {
   std::string s;
   const size_t n = rng.chance(1, 8) ? 0 : rng.below(rng.chance(1, 10) ? 40 : 9);
   for (size_t i = 0; i < n; ++i) {
      unsigned c;
      const auto r = rng.below(20);
      if (r < 14) c = 32 + static_cast<unsigned>(rng.below(95));
      else if (r < 17) c = 128 + static_cast<unsigned>(rng.below(128));
      else if (r < 19) c = static_cast<unsigned>("=->[?]: \t"[rng.below(9)]);
      else c = static_cast<unsigned>(rng.below(32));
      if (c == '\n') c = ' ';
      if (c == 0 && cstr) c = '0';
      s.push_back(static_cast<char>(c));
   }
   return s;
}
static long long randomInt(vh::Rng& rng) {
   switch (rng.below(5)) {
   case 0: return rng.range(-9, 9);
   case 1: return rng.range(-2000000000LL, 2000000000LL);
   case 2: return rng.chance(1, 2) ? 2147483647LL : -2147483647LL;
   default: return rng.range(-100000, 100000);
   }
}

static void randomExecution(vh::Rng& rng, long ops, bool marker) {
   static const char seps[] = {'.', '.', '.', '/', ':', ' ', '-', '|'};
   Session s;
   s.reset(seps[rng.below(sizeof seps)]);
   Gen g(rng, s.sep);
   bool linked = false;
   if (marker) {
      // an execution recorded for the "[?]" clause has at least one link (names follow the conventions above)
      const Names v{"i1"}, lk{"Li0"};
      if (s.add(g.join(v), "int", 5, "")) g.good.push_back(v);
      g.used.push_back(v);
      g.links.emplace_back(lk, v);
      g.used.push_back(lk);
      if (s.link(g.join(lk), g.join(v))) { g.good.push_back(lk); linked = true; }
   }
   for (long o = 0; o < ops; ++o) {
      const auto r = rng.below(100);
      if (r < 40) {                                       // addProperty
         Names ns = g.related();
         if (Gen::isLink(ns.back())) ns.push_back(g.plain());          // values are never stored under a link name
         if (rng.chance(1, 25)) ns.back() = "";
         if (ns[0].empty() && ns.size() > 1) ns[0] = g.plain();
         const char t = Gen::tagOf(ns.back());
         g.used.push_back(ns);
         const bool ok = (t == 'i') ? s.add(g.join(ns), "int", randomInt(rng), "")
                                    : s.add(g.join(ns), t == 's' ? "str" : "cstr", 0, randomText(rng, t == 'c'));
         if (ok) g.good.push_back(ns);
      } else if (r < 58) {                                // addLink
         Names f = g.related();
         if (f[0].empty()) f[0] = g.plain();
         if (rng.chance(1, 6) && Gen::rankOf(f[0]) == 0) f[0] = g.plain(g.tag(), 1 + static_cast<int>(rng.below(3)));
         const int rf = Gen::rankOf(f[0]);
         if (rf == 0) { s.has(g.join(f)); continue; }     // no link name of lower rank exists: probe instead
         Names l;
         const size_t k = rng.below(3);                   // names on the way to the link: plain names only
         for (size_t i = 0; i < k; ++i) l.push_back(rng.chance(1, 20) && i > 0 ? std::string() : g.plain(g.tag(), static_cast<int>(rng.below(static_cast<uint64_t>(rf)))));
         if (k > 0 && !g.used.empty() && rng.chance(1, 2)) {
            // below an existing path when that keeps the conventions
            const Names& u = g.used[rng.below(g.used.size())];
            Names cand;
            for (const auto& n : u) { if (Gen::isLink(n)) break; cand.push_back(n); }
            if (!cand.empty() && !cand[0].empty() && Gen::rankOf(cand[0]) < rf) { if (cand.size() > 3) cand.resize(3); l = cand; }
         }
         l.push_back(g.linkName(Gen::tagOf(f.back()), static_cast<int>(rng.below(static_cast<uint64_t>(rf)))));
         g.links.emplace_back(l, f);
         g.used.push_back(l);
         if (s.link(g.join(l), g.join(f))) { g.good.push_back(l); linked = true; }
      } else if (r < 68) {                                // hasProperty
         s.has(g.join(g.related()));
      } else if (r < 86) {                                // getProperty
         const Names ns = g.related();
         const std::string t = typeByName(ns.back());
         s.get(g.join(ns), t == "?" ? "int" : t);
      } else if (r < 94) s.iter(nullptr);
      else s.print("Print");
   }
   s.iter(nullptr);
   s.print("Print");
   if (marker && linked) s.print("Final");
}

int main(int argc, char** argv) {
   vh::init();
   const char* script = vh::arg(argc, argv, "--script");
   if (script != nullptr) {
      FILE* f = fopen(script, "r");
      if (!f) { fprintf(stderr, "cannot open %s\n", script); return 3; }
      std::vector<vj::Value> acts;
      std::string line;
      while (vj::getline(f, line)) if (!line.empty()) acts.push_back(vj::parse(line));
      fclose(f);
      Session s;
      for (size_t i = 0; i < acts.size(); ++i) {
         const auto& a = acts[i];
         const std::string n = a["n"].str();
         if (n == "Reset") {
            // the separator is carried by the first action after the Reset
            s.reset(static_cast<int>((i + 1 < acts.size()) ? acts[i + 1]["sep"].num('.') : '.'));
            continue;
         }
         if (!s.props) continue;
         std::vector<std::string> ts;
         if (a["ts"].kind == vj::Value::Arr) for (const auto& x : *a["ts"].a) ts.push_back(x.str());
         if (n == "Add") {
            const std::string t = a["t"].str();
            const auto v = a["v"].ints();
            // the projection of the state after the call: the iteration, and the listing when the call reported a change
            const bool ok = s.add(a["p"].bytes(), t, (t == "int" && !v.empty()) ? v[0] : 0, t == "int" ? std::string() : a["v"].bytes());
            s.iter(&ts);
            if (ok) s.print("Print");
         } else if (n == "Link") {
            const bool ok = s.link(a["p"].bytes(), a["q"].bytes());
            s.iter(&ts);
            if (ok) s.print("Print");
         } else if (n == "Has") s.has(a["p"].bytes());
         else if (n == "Get") s.get(a["p"].bytes(), a["t"].str());
         else if (n == "Iter") s.iter(&ts);
         else if (n == "Print") s.print("Print");
      }
   } else {
      vh::Rng rng(static_cast<uint64_t>(vh::argnum(argc, argv, "--seed", 1)));
      const long cases = vh::argnum(argc, argv, "--cases", 10);
      const long ops = vh::argnum(argc, argv, "--ops", 60);
      const bool marker = vh::argnum(argc, argv, "--marker", 0) != 0;
      for (long c = 0; c < cases; ++c) randomExecution(rng, 10 + static_cast<long>(rng.below(static_cast<uint64_t>(ops))), marker);
   }
   vh::end();
   return 0;
}
